#!/bin/bash
# usage: tools/seed_eval.sh <ID> <seed-dir> [tier]
#   <seed-dir> holds patch.diff and the demonstration (zz_seed_*_test.go files with their package-relative
#   path recorded in demo_paths.txt, one "src -> dst" per line, or a single file whose destination is
#   given in meta).
# 1. confirms the seeded change in a scratch worktree outside /repo and /verif:
#      existing suite passes with the change, demo fails with it, demo passes without it;
# 2. applies the change to /repo, runs the property's check, and undoes it straight afterwards.
set -u
ID=$1; SD=$(readlink -f "$2"); TIER=${3:-quick}
export GOFLAGS=-mod=mod GOPROXY=off GOSUMDB=off GOTOOLCHAIN=local
WT=/tmp/seedchk/$ID-$$
mkdir -p /tmp/seedchk
git -C /repo worktree add -q --detach "$WT" HEAD || exit 9
cleanup() { git -C /repo worktree remove --force "$WT" 2>/dev/null; rm -rf "$WT"; }
trap cleanup EXIT
cd "$WT"
if ! git apply --check "$SD/patch.diff" 2>/dev/null; then echo "SEED $ID: patch does not apply to /repo HEAD"; exit 8; fi
git apply "$SD/patch.diff"
if ! go build ./... >/dev/null 2>&1; then echo "SEED $ID: does not build"; exit 8; fi
SUITE=$(go test -vet=off -count=1 ./... 2>&1 | grep -E "^(FAIL|---)" | head -5)
if [ -n "$SUITE" ]; then echo "SEED $ID: existing suite FAILS with the change: $SUITE"; SUITE_OK=no; else SUITE_OK=yes; fi
# demo files
DEMOPKGS=""
while read -r src dst; do
  [ -z "$src" ] && continue
  mkdir -p "$(dirname "$dst")"; cp "$SD/$src" "$dst"; DEMOPKGS="$DEMOPKGS ./$(dirname "$dst")/"
done < "$SD/demo_paths.txt"
DEMOPKGS=$(echo $DEMOPKGS | tr ' ' '\n' | sort -u | tr '\n' ' ')
go test -vet=off -count=1 -run 'Seed|seed|ZZ|Zz' $DEMOPKGS >/tmp/seedchk/$ID-with.log 2>&1; WITH=$?
git apply -R "$SD/patch.diff"
go test -vet=off -count=1 -run 'Seed|seed|ZZ|Zz' $DEMOPKGS >/tmp/seedchk/$ID-without.log 2>&1; WITHOUT=$?
echo "SEED $ID: suite-with-change=$SUITE_OK demo-with-change-exit=$WITH (want != 0) demo-without-change-exit=$WITHOUT (want 0)"
cd /verif
# ---- run the check against the change applied to /repo (SEED_REPO: a clean scratch worktree of /repo used instead
#      while /repo itself is busy with tools/seed_regress.sh; the final word is always seed_regress.sh on /repo) ----
R=${SEED_REPO:-/repo}
if [ -n "$(git -C $R status --porcelain)" ]; then echo "SEED $ID: $R is not clean, refusing"; exit 7; fi
git -C $R apply "$SD/patch.diff"
OUT=$(VERIF_REPO=$R VERIF_NO_EVIDENCE=1 ./check $ID $TIER 2>&1); RC=$?
git -C $R apply -R "$SD/patch.diff" 2>/dev/null || git -C $R checkout -- .
if [ $RC -eq 1 ]; then echo "SEED $ID: CAUGHT by ./check $ID $TIER: $(echo "$OUT" | grep -A2 '^----' | grep -v '^--' | head -2 | cut -c1-400 | tr '\n' ' ')";
elif [ $RC -eq 0 ]; then echo "SEED $ID: MISSED by ./check $ID $TIER"; else echo "SEED $ID: INCONCLUSIVE rc=$RC $(echo "$OUT" | tail -3 | cut -c1-300)"; fi
