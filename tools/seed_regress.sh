#!/bin/bash
# usage: tools/seed_regress.sh [tier] [name-glob]   — applies every kept seeded change to /repo in turn, runs the
# property's check (no evidence written), undoes the change; prints one line per change.
set -u
# SEED_REPO (default /repo): the tree the changes are applied to - a clean scratch worktree of /repo while /repo is busy.
# The script works from the directory it lives in, so a snapshot of /verif (git archive) can run it undisturbed by edits.
TIER=${1:-quick}; GLOB=${2:-*}
ROOT=$(cd "$(dirname "$0")/.." && pwd)
R=${SEED_REPO:-/repo}
cd $ROOT
if [ -n "$(git -C $R status --porcelain)" ]; then echo "$R is not clean"; exit 7; fi
miss=0
for d in $ROOT/seeded/$GLOB/; do
  n=$(basename $d); id=${n%%-*}
  # a change written against one property may belong to another property's subject: seeded/<name>/check names the check to run
  [ -f $d/check ] && id=$(cat $d/check)
  if [ -f $d/neutralised ]; then echo "$n: neutralised by a later fix (skipped)"; continue; fi
  if ! git -C $R apply --check $d/patch.diff 2>/dev/null; then echo "$n: PATCH DOES NOT APPLY"; miss=$((miss+1)); continue; fi
  git -C $R apply $d/patch.diff
  OUT=$(VERIF_REPO=$R VERIF_NO_EVIDENCE=1 ./check $id $TIER 2>&1); RC=$?
  git -C $R apply -R $d/patch.diff 2>/dev/null || git -C $R checkout -- .
  case $RC in
    1) echo "$n: caught";;
    0) echo "$n: MISSED"; miss=$((miss+1));;
    *) echo "$n: INCONCLUSIVE rc=$RC";  miss=$((miss+1));;
  esac
done
echo "not caught: $miss"
