#!/bin/bash
# usage: tools/seed_regress.sh [tier] [name-glob]   — applies every kept seeded change to /repo in turn, runs the
# property's check (no evidence written), undoes the change; prints one line per change.
set -u
TIER=${1:-quick}; GLOB=${2:-*}
cd /verif
if [ -n "$(git -C /repo status --porcelain)" ]; then echo "/repo is not clean"; exit 7; fi
miss=0
for d in /verif/seeded/$GLOB/; do
  n=$(basename $d); id=${n%%-*}
  # a change written against one property may belong to another property's subject: seeded/<name>/check names the check to run
  [ -f $d/check ] && id=$(cat $d/check)
  if [ -f $d/neutralised ]; then echo "$n: neutralised by a later fix (skipped)"; continue; fi
  if ! git -C /repo apply --check $d/patch.diff 2>/dev/null; then echo "$n: PATCH DOES NOT APPLY"; miss=$((miss+1)); continue; fi
  git -C /repo apply $d/patch.diff
  OUT=$(VERIF_NO_EVIDENCE=1 ./check $id $TIER 2>&1); RC=$?
  git -C /repo apply -R $d/patch.diff 2>/dev/null || git -C /repo checkout -- .
  case $RC in
    1) echo "$n: caught";;
    0) echo "$n: MISSED"; miss=$((miss+1));;
    *) echo "$n: INCONCLUSIVE rc=$RC";  miss=$((miss+1));;
  esac
done
echo "not caught: $miss"
