#!/bin/bash
# usage: tools/seed_collect.sh <ID> <name>   - stages /tmp/seed/wt-<ID>/_seed into /verif/seeded/<name>
ID=$1; NAME=$2; WT=/tmp/seed/wt-$ID; DST=/verif/seeded/$NAME
mkdir -p $DST
cp -r $WT/_seed/* $DST/ 2>/dev/null
: > $DST/demo_paths.txt
cd $WT && git status --porcelain --untracked-files=all | grep -v "_seed/" | awk '$1=="??"{print $2}' | while read f; do
  b=$(basename $f); [ -f "$DST/$b" ] || cp "$f" "$DST/$b"; echo "$b $f" >> $DST/demo_paths.txt
done
# make sure the patch is the source change only, relative to HEAD
git -C $WT diff HEAD -- . ':(exclude)_seed' > $DST/patch.diff
ls $DST; cat $DST/demo_paths.txt
