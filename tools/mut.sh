#!/bin/bash
# usage: mut.sh <ID> <file> <old> <new> [only]  (applies in /repo, runs quick, reverts)
ID=$1; F=$2; OLD=$3; NEW=$4
cd /repo && python3 - "$F" "$OLD" "$NEW" <<'PY'
import sys
p,old,new=sys.argv[1:4]
s=open(p).read()
assert old in s, "pattern not found"
s=s.replace(old,new,1)
open(p,'w').write(s)
PY
[ $? -ne 0 ] && { git -C /repo checkout -- .; echo "PATTERN-NOT-FOUND"; exit 9; }
cd /repo && go build ./... 2>&1 | head -5
if ! go build ./... >/dev/null 2>&1; then echo "MUTANT DOES NOT BUILD"; git -C /repo checkout -- .; exit 9; fi
cd /verif && OUT=$(VERIF_NO_EVIDENCE=1 ./check $ID quick ${5:+--only $5} 2>&1); RC=$?
git -C /repo checkout -- .
if [ $RC -eq 1 ]; then echo "CAUGHT rc=1 $(echo "$OUT" | grep -c '^VIOLATION') violation line(s): $(echo "$OUT" | grep -A1 '^----' | grep -v '^--' | head -2 | cut -c1-300 | tr '\n' ' ')"; elif [ $RC -eq 0 ]; then echo "MISSED: $(echo "$OUT" | tail -1)"; else echo "INCONCLUSIVE rc=$RC: $(echo "$OUT" | tail -3)"; fi
