#!/usr/bin/env python3
"""usage: seed_meta.py <name> <property> <needs-to-manifest> <result> [notes]"""
import json, sys, os
name, prop, needs, result = sys.argv[1:5]
notes = sys.argv[5] if len(sys.argv) > 5 else ""
d = "/verif/seeded/" + name
meta = {
  "property": prop,
  "origin": "written by a fresh sub-agent that saw only the property text and a scratch worktree of /repo (nothing from /verif)",
  "breaks": open(os.path.join(d, "meta.md")).read()[:1500] if os.path.exists(os.path.join(d, "meta.md")) else "",
  "needs_to_manifest": needs,
  "confirmed_by": "tools/seed_eval.sh: existing suite passes with the change; the demonstration fails with it and passes without it (scratch worktree under /tmp, removed afterwards)",
  "check_result": result,
  "notes": notes,
  "demo": [l.split()[1] for l in open(os.path.join(d, "demo_paths.txt")) if l.strip()],
}
json.dump(meta, open(os.path.join(d, "meta.json"), "w"), indent=1)
print("wrote", os.path.join(d, "meta.json"))
