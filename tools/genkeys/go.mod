module genkeys

go 1.23
