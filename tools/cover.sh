#!/bin/bash
# usage: tools/cover.sh [pkg ...]   — statement coverage of theparanoids/ysshra by the harness packages (quick-size runs).
# Output: /tmp/vcover/func.txt (go tool cover -func over the merged profile). A diagnostic, not a check.
set -u
export GOFLAGS=-mod=mod GOPROXY=off GOSUMDB=off GOTOOLCHAIN=local
cd /verif && ./check setup >/dev/null 2>&1
OUT=/tmp/vcover; rm -rf $OUT; mkdir -p $OUT
PKGS=${@:-c01 c02 c03 c04 c05 c06 c07 c08 c09 c10 c11 c12 c13 c14 c15 c16 c17 c18 c19 c20}
COVERPKG=$(cd /repo && go list ./... | grep -v zzverif | tr '\n' ',' | sed 's/,$//')
for p in $PKGS; do
  (cd /repo && go test -c -vet=off -cover -coverpkg=$COVERPKG -modfile=/verif/build/alt.mod -overlay=/verif/build/overlay.json -o $OUT/$p.test ./zzverif/$p/) || { echo "build failed $p"; continue; }
  mkdir -p $OUT/run-$p && (cd $OUT/run-$p && VERIF_OUT=$OUT/run-$p VERIF_TIER=quick timeout 600 $OUT/$p.test -test.run 'Test' -rapid.checks=150 -rapid.seed=7 -rapid.nofailfile -test.coverprofile=$OUT/$p.prof >/dev/null 2>&1)
  echo "$p done"
done
head -1 $(ls $OUT/*.prof | head -1) > $OUT/merged.prof
for f in $OUT/*.prof; do tail -n +2 $f; done | sort | awk '{k=$1" "$2; if(!(k in m)||$3>m[k]) m[k]=$3} END{for(k in m) print k" "m[k]}' | sort >> $OUT/merged.prof
(cd /repo && go tool cover -func=$OUT/merged.prof > $OUT/func.txt)
tail -1 $OUT/func.txt
