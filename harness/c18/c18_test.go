// C18 — the RA talks only to CA servers authenticated by the configured CA bundle.
package c18

import (
	"bytes"
	"context"
	"crypto/tls"
	"fmt"
	"os"
	"path/filepath"
	"google.golang.org/protobuf/proto"
	"strings"
	"sync"
	"testing"
	"time"

	pb "github.com/theparanoids/crypki/proto"
	"github.com/theparanoids/ysshra/crypki"
	"github.com/theparanoids/ysshra/zzverif/vh"
	"golang.org/x/crypto/ssh"
	"pgregory.net/rapid"
)

type EP struct {
	// Identity: caA | caB | foreign | selfsigned | expired | notyet | wrongname
	Identity string
	// Proto: old (TLS 1.0-1.1 only) | tls12 | tls13 | any
	Proto string
	// ClientAuth: none | request | require | request-otherca | verifyifgiven | verifyifgiven-otherca
	ClientAuth string
}

type Case struct {
	Bundle    []string // caA | caB | bundleAB | "" (an empty path); no entry at all = an empty list
	Endpoints []EP
	// ClientChain: the configured client certificate file holds the leaf followed by its issuing CA
	ClientChain bool
	// ClientViaIntermediate: the client certificate is issued by an intermediate CA and the file holds
	// leaf + intermediate (servers that verify client certificates know the root only)
	ClientViaIntermediate bool `json:",omitempty"`
	// ViaConf: the signer is built from the "signer" map of a gensign configuration (as cmd/gensign does)
	ViaConf bool
	// Parallel: number of Sign calls issued at the same time on the one Signer (0 or 1 = a single call)
	Parallel int
	// More: further Sign calls made one after another on the same Signer once the first is judged
	More int `json:",omitempty"`
	// Ctx: the caller's context: "" = a 30 s deadline | done = already cancelled when Sign is called |
	// short = a deadline of ShortMS milliseconds (it may end during any endpoint's attempt)
	Ctx     string `json:",omitempty"`
	ShortMS int    `json:",omitempty"`
	// Spoil: after the first call the client certificate file (a private copy) is overwritten - with garbage, with
	// nothing, with its first half, with a certificate that does not match the key - and given a newer modification
	// time; two further calls follow
	Spoil string `json:",omitempty"`
}

func gen(t *rapid.T) Case {
	c := Case{Bundle: rapid.SampledFrom([][]string{{"caA"}, {"caB"}, {"caA", "caB"}, {"bundleAB"}, {"caB", "caA"}, {"caA", "caA"},
		{"caA"}, {"caB"}, {"caA", "caB"}, {}, {""}, {"", ""}, {"", "caA"},
		// a CA and its successor under the same subject name (key roll-over), in either order, in two files or one
		{"caA", "caA2"}, {"caA2", "caA"}, {"bundleAA2"}, {"caA2"}, {"caA", "caB", "caA2"},
		// files whose names contain pattern metacharacters, blanks, non-ASCII letters (each holds one CA; its siblings hold the others)
		// files that lack the final newline, alone and in front of another file
		{"caB-nonl", "caA"}, {"caA-nonl", "caB"}, {"caA-nonl"}, {"caB-nonl", "caA-nonl"},
		{"ca[AB].crt"}, {"ca?.crt"}, {"ca*.crt"}, {"my ca (B) é.crt"}, {"{caA,caForeign}.crt"}, {"ca\\B.crt"}, {"ca?.crt", "caA2"}}).Draw(t, "bundle")}
	c.ClientChain = rapid.Bool().Draw(t, "clientChain")
	c.ClientViaIntermediate = rapid.IntRange(0, 3).Draw(t, "clientViaIntermediate") == 1
	c.ViaConf = rapid.Bool().Draw(t, "viaConf")
	c.Parallel = rapid.SampledFrom([]int{1, 1, 2, 3, 4}).Draw(t, "parallel")
	c.More = rapid.SampledFrom([]int{0, 0, 0, 0, 3, 12, 50}).Draw(t, "more")
	if rapid.IntRange(0, 5).Draw(t, "ctxKind") == 2 {
		c.Ctx = rapid.SampledFrom([]string{"done", "short", "short"}).Draw(t, "ctx")
		if c.Ctx == "short" {
			c.ShortMS = rapid.SampledFrom([]int{1, 5, 20, 50, 100, 250, 600, 1500}).Draw(t, "shortMS")
		}
	}
	if c.Ctx == "" && rapid.IntRange(0, 5).Draw(t, "spoilKind") == 3 {
		c.Spoil = rapid.SampledFrom([]string{"garbage", "empty", "half", "mismatch"}).Draw(t, "spoil")
	}
	n := rapid.SampledFrom([]int{1, 1, 2, 2, 3, 3, 3, 4, 6, 8}).Draw(t, "n")
	for i := 0; i < n; i++ {
		l := fmt.Sprintf("e%d", i)
		c.Endpoints = append(c.Endpoints, EP{
			Identity:   rapid.SampledFrom([]string{"caA", "caA", "caB", "caB", "caA2", "foreign", "selfsigned", "expired", "notyet", "wrongname", "justexpired", "justvalid", "clientsca"}).Draw(t, l+"I"),
			Proto:      rapid.SampledFrom([]string{"any", "any", "tls12", "tls13", "old"}).Draw(t, l+"P"),
			ClientAuth: rapid.SampledFrom([]string{"none", "request", "require", "request-otherca", "verifyifgiven", "verifyifgiven-otherca"}).Draw(t, l+"C"),
		})
		if rapid.IntRange(0, 2).Draw(t, l+"RSA") == 0 {
			c.Endpoints[i].Identity += "+rsa" // the server holds an RSA key (the default is ECDSA P-384)
		}
	}
	return c
}

var certCache = map[int]*ssh.Certificate{}

func epCert(i int) *ssh.Certificate {
	if c, ok := certCache[i]; ok {
		return c
	}
	c := vh.MakeSSHCert(vh.SSHCertSpec{Key: "p256b", KeyID: fmt.Sprintf("signed by endpoint %d", i), ValidAfter: 0, ValidBefore: ssh.CertTimeInfinity, Serial: uint64(i)})
	certCache[i] = c
	return c
}

func exec(c Case) (vh.Outcome, error) {
	out := vh.Outcome{Classes: []string{"bundle=" + strings.Join(c.Bundle, "+")}}
	trusted := map[string]bool{}
	for _, b := range c.Bundle {
		switch b {
		case "caA", "caA-nonl":
			trusted["caA"] = true
		case "caB", "caB-nonl":
			trusted["caB"] = true
		case "bundleAB":
			trusted["caA"], trusted["caB"] = true, true
		case "caA2":
			trusted["caA2"] = true
		case "bundleAA2":
			trusted["caA"], trusted["caA2"] = true, true
		default:
			// an oddly named file holds the one CA the table names, whatever else its name would match as a pattern
			if ca, odd := vh.OddCAFiles[b]; odd {
				trusted[ca] = true
				out.Classes = append(out.Classes, "odd-ca-file-name")
			}
		}
	}
	genuine := func(e EP) bool {
		// a server that verifies the client certificate against a CA which did not issue the RA's
		// certificate refuses the configured certificate: from the RA's side a failed endpoint
		issuer := strings.TrimSuffix(e.Identity, "+rsa") // the server's own key type is no input of the statement
		if issuer == "justvalid" {
			issuer = "caA" // issued by CA A 20 s ago: as genuine as an older one
		}
		return (issuer == "caA" || issuer == "caB" || issuer == "caA2") && trusted[issuer] && e.Proto != "old" && e.ClientAuth != "verifyifgiven-otherca"
	}
	var specs []vh.CAServerSpec
	var ips []string
	first := -1
	impostors := 0
	for i, e := range c.Endpoints {
		ip := fmt.Sprintf("127.0.0.%d", i+2)
		ips = append(ips, ip)
		sp := vh.CAServerSpec{IP: ip, Identity: e.Identity, Behaviour: "sign", ClientAuth: e.ClientAuth,
			KeyText: string(ssh.MarshalAuthorizedKey(epCert(i)))}
		switch e.Proto {
		case "old":
			sp.MinTLS, sp.MaxTLS = tls.VersionTLS10, tls.VersionTLS11
		case "tls12":
			sp.MinTLS, sp.MaxTLS = tls.VersionTLS12, tls.VersionTLS12
		case "tls13":
			sp.MinTLS, sp.MaxTLS = tls.VersionTLS13, tls.VersionTLS13
		}
		specs = append(specs, sp)
		if genuine(e) {
			if first < 0 {
				first = i
			}
		} else {
			impostors++
		}
		out.Classes = append(out.Classes, "id="+e.Identity, "proto="+e.Proto, "clientauth="+e.ClientAuth)
	}
	out.NonTrivial = impostors >= 1
	g, err := vh.StartCAGroup(specs)
	if err != nil {
		return out, nil
	}
	defer g.Stop()
	f := vh.Farm()
	files := []string{}
	degenerate := len(c.Bundle) == 0
	for _, b := range c.Bundle {
		if b == "" {
			files = append(files, "")
			degenerate = true
			continue
		}
		files = append(files, f.CAFile(b))
	}
	clientCertFile := f.ClientCertFile()
	if c.ClientChain {
		clientCertFile = f.ClientChainFile()
		out.Classes = append(out.Classes, "client-cert-with-chain")
	}
	if c.ClientViaIntermediate {
		clientCertFile = f.ClientIntChainFile()
		out.Classes = append(out.Classes, "client-cert-via-intermediate")
	}
	clientLeafDER := vh.LeafDER(clientCertFile)
	clientKeyFile := f.ClientKeyFile()
	if c.Spoil != "" {
		// private copies: the farm's files are shared by every case of the process
		sd, serr := os.MkdirTemp("", "vspoil")
		if serr != nil {
			return out, nil
		}
		defer os.RemoveAll(sd)
		cb, _ := os.ReadFile(clientCertFile)
		kb, _ := os.ReadFile(clientKeyFile)
		clientCertFile, clientKeyFile = filepath.Join(sd, "client.crt"), filepath.Join(sd, "client.key")
		if os.WriteFile(clientCertFile, cb, 0o644) != nil || os.WriteFile(clientKeyFile, kb, 0o600) != nil {
			return out, nil
		}
	}
	signer, err := vh.NewCrypkiSigner(crypki.SignerConfig{
		TLSClientKeyFile: clientKeyFile, TLSClientCertFile: clientCertFile, TLSCACertFiles: files,
		CrypkiEndpoints: ips, CrypkiPort: uint(g.Port), Retries: 1, PerTryTimeout: 10 * time.Second,
	}, c.ViaConf)
	if err != nil {
		if degenerate {
			// an empty list or an empty path may be refused as a configuration error: nothing is signed then
			out.Classes = append(out.Classes, "degenerate-bundle-refused")
			return out, nil
		}
		return out, vh.Errf("NewSigner failed (bundle %v): %v", c.Bundle, err)
	}
	if degenerate {
		out.Classes = append(out.Classes, "degenerate-bundle-accepted")
	}
	req := &pb.SSHCertificateSigningRequest{KeyMeta: &pb.KeyMeta{Identifier: "ssh-user-key"}, Principals: []string{"user_a"}, PublicKey: string(ssh.MarshalAuthorizedKey(vh.SSHPub("p256b"))), Validity: 3600, KeyId: "k"}
	ctx, cancel := context.WithTimeout(context.Background(), 30*time.Second)
	defer cancel()
	switch c.Ctx {
	case "done":
		cancel()
	case "short":
		var cancel2 context.CancelFunc
		ctx, cancel2 = context.WithTimeout(context.Background(), time.Duration(c.ShortMS)*time.Millisecond)
		defer cancel2()
	}
	par := c.Parallel
	if par < 1 {
		par = 1
	}
	type result struct {
		certs []ssh.PublicKey
		err   error
		crash error
	}
	results := make([]result, par)
	var wg sync.WaitGroup
	startAll := make(chan struct{})
	for k := 0; k < par; k++ {
		k := k
		wg.Add(1)
		go func() {
			defer wg.Done()
			<-startAll
			r := proto.Clone(req).(*pb.SSHCertificateSigningRequest)
			results[k].crash = vh.Catch(func() { results[k].certs, _, results[k].err = signer.Sign(ctx, r) })
		}()
	}
	close(startAll)
	wg.Wait()
	desc := fmt.Sprintf("bundle %v, endpoints %+v, %d simultaneous call(s)", c.Bundle, c.Endpoints, par)
	for _, r := range results {
		if r.crash != nil {
			return out, vh.Errf("%s: Sign crashed: %v", desc, r.crash)
		}
	}
	if par > 1 {
		out.Classes = append(out.Classes, "simultaneous-calls")
	}
	if c.Ctx != "" {
		// a caller whose context is over (or ends during some attempt) may be told so by an error at any
		// point; what must still hold: impostors never receive the request, and a call that reports
		// success hands back the first genuine endpoint's certificate
		out.Classes = append(out.Classes, "ctx="+c.Ctx)
		for i, e := range c.Endpoints {
			if calls := g.Servers[i].Calls(); !genuine(e) && len(calls) > 0 {
				return out, vh.Errf("%s, caller context %s (%d ms): endpoint %d (%s) is not authenticated by the configured bundle, yet it received the signing request", desc, c.Ctx, c.ShortMS, i, e.Identity)
			}
		}
		for k, r := range results {
			if r.err != nil {
				continue
			}
			out.Classes = append(out.Classes, "ctx-ended-call-succeeded")
			// which genuine endpoint answers under a deadline of milliseconds is a matter of timing (an attempt at an earlier
			// genuine endpoint may run out of time while a connection to a later one is already up): the answer comes from
			// SOME endpoint that is authenticated by the bundle - the order of endpoints is C17's subject
			fromGenuine := false
			for i, e := range c.Endpoints {
				if genuine(e) && len(r.certs) == 1 && bytes.Equal(r.certs[0].Marshal(), epCert(i).Marshal()) {
					fromGenuine = true
				}
			}
			if !fromGenuine {
				return out, vh.Errf("%s, caller context %s (%d ms): call %d reported success with %d certificate(s) that no endpoint authenticated by the bundle issued (first genuine endpoint: %d)", desc, c.Ctx, c.ShortMS, k, len(r.certs), first)
			}
		}
		return out, nil
	}
	// every call is judged like a single one
	certs, serr := results[0].certs, results[0].err
	for _, r := range results[1:] {
		if (r.err == nil) != (serr == nil) {
			return out, vh.Errf("%s: the simultaneous calls on one Signer ended differently: %v vs %v", desc, serr, r.err)
		}
		if r.err == nil && (len(r.certs) != len(certs) || (len(certs) > 0 && !bytes.Equal(r.certs[0].Marshal(), certs[0].Marshal()))) {
			return out, vh.Errf("%s: the simultaneous calls were answered by different endpoints", desc)
		}
	}
	// impostors never receive the request
	for i, e := range c.Endpoints {
		calls := g.Servers[i].Calls()
		if !genuine(e) && len(calls) > 0 {
			return out, vh.Errf("%s: endpoint %d (%s, protocol %s) is not authenticated by the configured bundle, yet it received the signing request (TLS version %#x)", desc, i, e.Identity, e.Proto, calls[0].TLSVersion)
		}
		if genuine(e) && i != first && len(calls) > 0 {
			return out, vh.Errf("%s: genuine endpoint %d was used although endpoint %d comes first", desc, i, first)
		}
	}
	if first < 0 {
		if serr == nil {
			return out, vh.Errf("%s: Sign succeeded although no endpoint is genuine (answer: %d certificates)", desc, len(certs))
		}
		return out, nil
	}
	if serr != nil {
		return out, vh.Errf("%s: endpoint %d is genuine but Sign failed: %v", desc, first, serr)
	}
	if len(certs) != 1 || !bytes.Equal(certs[0].Marshal(), epCert(first).Marshal()) {
		return out, vh.Errf("%s: the answer did not come from the first genuine endpoint %d", desc, first)
	}
	calls := g.Servers[first].Calls()
	if len(calls) != par {
		return out, vh.Errf("%s: the answering endpoint saw %d requests, expected %d", desc, len(calls), par)
	}
	if calls[0].TLSVersion < tls.VersionTLS12 {
		return out, vh.Errf("%s: negotiated TLS version %#x is older than 1.2", desc, calls[0].TLSVersion)
	}
	if ca := c.Endpoints[first].ClientAuth; ca != "none" {
		if len(calls[0].PeerCerts) == 0 || !bytes.Equal(calls[0].PeerCerts[0], clientLeafDER) {
			return out, vh.Errf("%s: the server asked for a client certificate (%s) but did not get the configured one (%d presented)", desc, ca, len(calls[0].PeerCerts))
		}
	}
	// the client certificate file becomes unloadable behind the Signer's back (a rotation gone wrong): a later
	// call fails, or still presents the configured certificate; it never succeeds without presenting one
	if c.Spoil != "" && c.Endpoints[first].ClientAuth != "none" {
		out.Classes = append(out.Classes, "client-certificate-file-spoiled="+c.Spoil)
		orig, _ := os.ReadFile(clientCertFile)
		var junk []byte
		switch c.Spoil {
		case "garbage":
			junk = []byte("-----BEGIN CERTIFICATE-----\nnot a certificate\n-----END CERTIFICATE-----\n")
		case "half":
			junk = orig[:len(orig)/2]
		case "mismatch":
			junk, _ = os.ReadFile(f.CAFile("caB")) // a certificate, but not one for the configured key
		}
		later := time.Now().Add(2 * time.Second)
		if os.WriteFile(clientCertFile, junk, 0o644) == nil && os.Chtimes(clientCertFile, later, later) == nil {
			for k := 0; k < 2; k++ {
				before := len(g.Servers[first].Calls())
				var mc []ssh.PublicKey
				var merr error
				mctx, mcancel := context.WithTimeout(context.Background(), 30*time.Second)
				perr := vh.Catch(func() { mc, _, merr = signer.Sign(mctx, proto.Clone(req).(*pb.SSHCertificateSigningRequest)) })
				mcancel()
				if perr != nil {
					return out, vh.Errf("%s: a call after the client certificate file was spoiled (%s) crashed: %v", desc, c.Spoil, perr)
				}
				for _, call := range g.Servers[first].Calls()[before:] {
					if len(call.PeerCerts) == 0 || !bytes.Equal(call.PeerCerts[0], clientLeafDER) {
						return out, vh.Errf("%s: after the client certificate file was spoiled (%s), call %d reached the server, which asks for a client certificate (%s), with %d certificate(s) presented - not the configured one (Sign returned %d certificates, %v)", desc, c.Spoil, k+1, c.Endpoints[first].ClientAuth, len(call.PeerCerts), len(mc), merr)
					}
				}
			}
		}
		return out, nil
	}
	// the Signer is a long-lived object: further calls on it, one after another, end the same way
	if c.More > 0 && impostors > 0 {
		out.Classes = append(out.Classes, "further-calls-on-the-same-signer")
		for k := 0; k < c.More; k++ {
			var mc []ssh.PublicKey
			var merr error
			mctx, mcancel := context.WithTimeout(context.Background(), 30*time.Second)
			perr := vh.Catch(func() { mc, _, merr = signer.Sign(mctx, proto.Clone(req).(*pb.SSHCertificateSigningRequest)) })
			mcancel()
			if perr != nil {
				return out, vh.Errf("%s: further call %d crashed: %v", desc, k+1, perr)
			}
			if merr != nil || len(mc) != 1 || !bytes.Equal(mc[0].Marshal(), epCert(first).Marshal()) {
				return out, vh.Errf("%s: the first call went through genuine endpoint %d, but further call %d on the same Signer (after %d failed attempts at impostors) returned %d certificates, %v", desc, first, k+1, (k+1)*impostors, len(mc), merr)
			}
		}
	}
	return out, nil
}

const rule = "CA bundles of one or two files (single CA, the other CA, both as separate files, both in one file, a file listed twice, a CA together with its successor under the same subject name and another key - in two files in either order or in one file; CA files without a final newline, alone and in front of another file; a quarter of the bundles name a file whose NAME contains pattern metacharacters, a backslash, blanks or non-ASCII letters - 'ca[AB].crt', 'ca?.crt', 'ca*.crt', '{caA,caForeign}.crt' ... - holding one CA, while the files such a pattern would match hold the other CAs, the foreign one included) and, 4 in 20, degenerate ones (no file at all, empty paths, an empty path next to a real file: either refused as configuration, or no CA beyond the readable files is trusted); the 'foreign' CA is installed as this process's host trust store (SSL_CERT_FILE), i.e. it stands for a publicly trusted CA that is not configured; 1..8 endpoints on loopback aliases (the caller's context carries a 30 s deadline; in a sixth of the cases it is already cancelled or ends after 1..1500 ms, i.e. possibly during some endpoint's attempt - then only 'impostors never receive the request' and 'success => the certificate of an endpoint the bundle authenticates' are judged), each a real gRPC-over-TLS server holding an ECDSA or (a third) an RSA key, with identity {issued by configured CA A / CA B / CA A's same-named successor with matching IP SAN, by a foreign CA, self-signed, expired a day ago / 20 s ago, not yet valid, valid since 20 s only (genuine), valid for another address, issued by the CA of the RA's own client certificate} x protocol range {TLS 1.0-1.1 only, 1.2 only, 1.3 only, any} x client-certificate policy {none, request, require+verify, request while naming another CA, verify-if-given against the right / another client CA}; the signer is built from the struct or from the 'signer' map of a gensign configuration; the client certificate file holds the leaf alone, the leaf followed by its issuing CA, or (a quarter of the cases) a leaf issued by an intermediate CA followed by that intermediate, while the servers that verify client certificates know the root only; 1..4 Sign calls issued at the same moment on the one Signer, each judged like a single call, in three cases of seven followed by 3 / 12 / 50 further calls one after another (a Signer lives as long as the process); in a sixth of the cases the client certificate file (a private copy) is overwritten after the first call - garbage, nothing, its first half, a certificate for another key - with a newer modification time, and two more calls follow: each fails or still presents the configured certificate to a server that asks for one; every server would sign (each with its own certificate, so the answering server is identifiable). Oracle: Sign succeeds iff some endpoint is genuine (issued by a CA of the bundle, right address, valid now, speaks >= TLS 1.2) and the answer is the first such endpoint's; impostors never receive the RPC; negotiated version >= 1.2; when the server asked, the peer certificate is byte-identical to the configured client certificate. Non-trivial: at least one impostor in the list."

func TestC18TLS(t *testing.T) {
	vh.Run(t, vh.Spec[Case]{Property: "C18", Name: "TestC18TLS", Rule: rule, Gen: gen, Exec: exec})
}

// TestC18Grid enumerates identity x protocol x client-auth for a single endpoint followed by a genuine one.
func TestC18Grid(t *testing.T) {
	var cases []Case
	for _, id := range []string{"caA", "caB", "foreign", "selfsigned", "expired", "notyet", "wrongname", "justexpired", "justvalid"} {
		for _, pr := range []string{"old", "tls12", "tls13", "any"} {
			for _, ca := range []string{"none", "request", "require", "request-otherca", "verifyifgiven", "verifyifgiven-otherca"} {
				cases = append(cases, Case{Bundle: []string{"caA"}, Endpoints: []EP{{id, pr, ca}, {"caA", "any", "request"}}, ViaConf: len(cases)%2 == 1})
			}
		}
	}
	// the client certificate file carries its issuing CA: servers certified by THAT CA stay impostors
	for _, pr := range []string{"tls12", "tls13", "any"} {
		for _, ca := range []string{"none", "request", "require"} {
			cases = append(cases, Case{Bundle: []string{"caA"}, ClientChain: true, Endpoints: []EP{{"clientsca", pr, ca}, {"caA", "any", "request"}}},
				Case{Bundle: []string{"caA"}, ClientChain: true, Endpoints: []EP{{"caA", pr, ca}}})
		}
	}
	// degenerate bundles: no file, empty paths, an empty path beside CA A
	for _, b := range [][]string{{}, {""}, {"", ""}, {"", "caA"}, {"caA", ""}} {
		for _, id := range []string{"caA", "caB", "foreign", "selfsigned", "expired", "notyet", "wrongname"} {
			for _, ca := range []string{"none", "request"} {
				cases = append(cases, Case{Bundle: b, Endpoints: []EP{{id, "any", ca}, {"caA", "any", "request"}}})
			}
		}
	}
	vh.Enumerate(t, vh.Spec[Case]{Property: "C18", Name: "TestC18Grid", Exhaustive: true,
		Rule: "bundle = CA A; first endpoint: 9 identities x 4 protocol ranges x 6 client-certificate policies (216 points), second endpoint genuine: the later genuine endpoint must be used exactly when the first is an impostor; plus 5 degenerate bundles (no file, one or two empty paths, an empty path before / after CA A) x 7 identities x 2 client-certificate policies (70 points; the foreign CA is the host-trusted one); same oracle",
		Exec: exec}, cases)
}
