package c18

// TestC18Renewed: whether an endpoint is authenticated is decided by the handshake of the call at hand. An
// endpoint that failed authentication in an earlier call (its certificate was not valid yet) and passes
// it now is genuine now - on the same long-lived Signer.

import (
	"bytes"
	"context"
	"testing"
	"time"

	pb "github.com/theparanoids/crypki/proto"
	"github.com/theparanoids/ysshra/crypki"
	"github.com/theparanoids/ysshra/zzverif/vh"
	"golang.org/x/crypto/ssh"
)

type RenewedCase struct {
	ViaConf bool
	Second  bool // a second, always genuine endpoint is listed behind the renewed one
}

func TestC18Renewed(t *testing.T) {
	cases := []RenewedCase{{}, {ViaConf: true}, {Second: true}}
	vh.Enumerate(t, vh.Spec[RenewedCase]{Property: "C18", Name: "TestC18Renewed", Exhaustive: true,
		Rule: "a server whose certificate (configured CA, right address) becomes valid 3 s after it starts, alone or in front of an always genuine endpoint; one Signer: a call at once, a call after 4.5 s. Oracle: the first call does not hand the request to the not-yet-valid server (it fails, or is answered by the second endpoint); the second call is answered by the first server, which is genuine by then",
		Exec: func(c RenewedCase) (vh.Outcome, error) {
			out := vh.Outcome{NonTrivial: true}
			specs := []vh.CAServerSpec{{IP: "127.0.0.2", Identity: "soonvalid", Behaviour: "sign", ClientAuth: "request", KeyText: string(ssh.MarshalAuthorizedKey(epCert(0)))}}
			ips := []string{"127.0.0.2"}
			if c.Second {
				specs = append(specs, vh.CAServerSpec{IP: "127.0.0.3", Identity: "caA", Behaviour: "sign", ClientAuth: "request", KeyText: string(ssh.MarshalAuthorizedKey(epCert(1)))})
				ips = append(ips, "127.0.0.3")
			}
			started := time.Now()
			g, err := vh.StartCAGroup(specs)
			if err != nil {
				return out, nil
			}
			defer g.Stop()
			f := vh.Farm()
			signer, err := vh.NewCrypkiSigner(crypki.SignerConfig{TLSClientKeyFile: f.ClientKeyFile(), TLSClientCertFile: f.ClientCertFile(), TLSCACertFiles: []string{f.CAFile("caA")},
				CrypkiEndpoints: ips, CrypkiPort: uint(g.Port), Retries: 1, PerTryTimeout: 10 * time.Second}, c.ViaConf)
			if err != nil {
				return out, vh.Errf("NewSigner failed: %v", err)
			}
			req := &pb.SSHCertificateSigningRequest{KeyMeta: &pb.KeyMeta{Identifier: "ssh-user-key"}, Principals: []string{"user_a"}, PublicKey: string(ssh.MarshalAuthorizedKey(vh.SSHPub("p256b"))), Validity: 3600, KeyId: "k"}
			call := func() ([]ssh.PublicKey, error) {
				ctx, cancel := context.WithTimeout(context.Background(), 30*time.Second)
				defer cancel()
				certs, _, serr := signer.Sign(ctx, req)
				return certs, serr
			}
			if time.Since(started) > 2*time.Second {
				return out, nil // too slow to judge the first call before the certificate turns valid
			}
			c1, e1 := call()
			if n := len(g.Servers[0].Calls()); n != 0 {
				return out, vh.Errf("the first call handed the request to a server whose certificate is not valid yet (%d request(s))", n)
			}
			if !c.Second && e1 == nil {
				return out, vh.Errf("the first call succeeded (%d certificates) although the only server's certificate is not valid yet", len(c1))
			}
			time.Sleep(time.Until(started.Add(4500 * time.Millisecond)))
			c2, e2 := call()
			if e2 != nil {
				return out, vh.Errf("4.5 s later the first server's certificate is valid, yet the call on the same Signer failed: %v", e2)
			}
			if len(c2) != 1 || !bytes.Equal(c2[0].Marshal(), epCert(0).Marshal()) || len(g.Servers[0].Calls()) != 1 {
				return out, vh.Errf("4.5 s later the first server is genuine, yet the call on the same Signer was not answered by it (first server saw %d requests)", len(g.Servers[0].Calls()))
			}
			return out, nil
		}}, cases)
}
