package c18

// TestC18Aliases: whether a server is genuine depends on the NAME it is reached under. One server on
// 127.0.0.1 is listed under two names (localhost and 127.0.0.1) and its certificate is valid for one
// of them only: the entry under the other name is a wrongly named server, a failed endpoint, and the
// entry under the right name is still used - whatever their order.

import (
	"bytes"
	"context"
	"fmt"
	"testing"
	"time"

	pb "github.com/theparanoids/crypki/proto"
	"github.com/theparanoids/ysshra/crypki"
	"github.com/theparanoids/ysshra/zzverif/vh"
	"golang.org/x/crypto/ssh"
)

type AliasCase struct {
	Identity  string   // caA (certificate for the address 127.0.0.1) | dns-localhost (certificate for the name localhost)
	Endpoints []string // names of the one server, in configured order
	ViaConf   bool
	// V6: the server listens on the IPv6 loopback and its certificate is valid for ::1; the endpoint is configured
	// as the bracketed literal "[::1]" (the spelling that works with a host:port join)
	V6 bool `json:",omitempty"`
}

func execAlias(c AliasCase) (vh.Outcome, error) {
	out := vh.Outcome{NonTrivial: true}
	ip := "127.0.0.1"
	if c.V6 {
		ip = "::1"
	}
	g, err := vh.StartCAGroup([]vh.CAServerSpec{{IP: ip, Identity: c.Identity, Behaviour: "sign", ClientAuth: "request", KeyText: string(ssh.MarshalAuthorizedKey(epCert(0)))}})
	if err != nil {
		return out, nil
	}
	defer g.Stop()
	f := vh.Farm()
	signer, err := vh.NewCrypkiSigner(crypki.SignerConfig{TLSClientKeyFile: f.ClientKeyFile(), TLSClientCertFile: f.ClientCertFile(), TLSCACertFiles: []string{f.CAFile("caA")},
		CrypkiEndpoints: c.Endpoints, CrypkiPort: uint(g.Port), Retries: 1, PerTryTimeout: 10 * time.Second}, c.ViaConf)
	if err != nil {
		return out, vh.Errf("NewSigner failed for endpoints %v: %v", c.Endpoints, err)
	}
	rightName := map[string]string{"caA": "127.0.0.1", "dns-localhost": "localhost"}[c.Identity]
	if c.V6 {
		rightName = "[::1]"
	}
	genuine := false
	for _, e := range c.Endpoints {
		genuine = genuine || e == rightName
	}
	req := &pb.SSHCertificateSigningRequest{KeyMeta: &pb.KeyMeta{Identifier: "ssh-user-key"}, Principals: []string{"user_a"}, PublicKey: string(ssh.MarshalAuthorizedKey(vh.SSHPub("p256b"))), Validity: 3600, KeyId: "k"}
	ctx, cancel := context.WithTimeout(context.Background(), 30*time.Second)
	defer cancel()
	var certs []ssh.PublicKey
	var serr error
	if perr := vh.Catch(func() { certs, _, serr = signer.Sign(ctx, req) }); perr != nil {
		return out, vh.Errf("Sign crashed: %v", perr)
	}
	desc := fmt.Sprintf("one server on "+ip+" whose certificate is valid for %q only, configured endpoints %v", rightName, c.Endpoints)
	calls := g.Servers[0].Calls()
	if !genuine {
		if serr == nil || len(calls) != 0 {
			return out, vh.Errf("%s: no entry names the server by the name its certificate is valid for, yet Sign returned %v and the server received %d request(s)", desc, serr, len(calls))
		}
		return out, nil
	}
	if serr != nil {
		return out, vh.Errf("%s: the entry %q is genuine but Sign failed: %v", desc, rightName, serr)
	}
	if len(certs) != 1 || !bytes.Equal(certs[0].Marshal(), epCert(0).Marshal()) {
		return out, vh.Errf("%s: the answer is not the server's", desc)
	}
	if len(calls) != 1 {
		return out, vh.Errf("%s: the server received %d requests, expected exactly one (through the rightly named entry)", desc, len(calls))
	}
	return out, nil
}

func TestC18Aliases(t *testing.T) {
	var cases []AliasCase
	for _, id := range []string{"caA", "dns-localhost"} {
		for _, eps := range [][]string{{"localhost", "127.0.0.1"}, {"127.0.0.1", "localhost"}, {"localhost"}, {"127.0.0.1"}, {"localhost", "localhost", "127.0.0.1"}, {"127.0.0.1", "127.0.0.1", "localhost"}} {
			cases = append(cases, AliasCase{Identity: id, Endpoints: eps, ViaConf: len(cases)%2 == 1})
		}
	}
	// the IPv6 loopback, configured as a bracketed literal (skipped where the host has no ::1)
	for _, eps := range [][]string{{"[::1]"}, {"127.0.0.1", "[::1]"}, {"[::1]", "[::1]"}} {
		cases = append(cases, AliasCase{Identity: "caA", Endpoints: eps, V6: true, ViaConf: len(cases)%2 == 1})
	}
	vh.Enumerate(t, vh.Spec[AliasCase]{Property: "C18", Name: "TestC18Aliases", Exhaustive: true,
		Rule: "one genuine-CA server on 127.0.0.1 whose certificate is valid either for the address 127.0.0.1 or for the name localhost only, configured under both names in both orders, under one name, and with a name repeated (12 points); plus a genuine server on the IPv6 loopback whose certificate covers ::1, configured as the bracketed literal [::1] alone, behind an address nobody serves with that certificate, and twice (3 points). Oracle: the entry whose name the certificate does not cover is a wrongly named server (never receives the request); if an entry with the covered name exists, in any position, Sign succeeds through it with exactly one request; otherwise Sign fails",
		Exec: execAlias}, cases)
}
