package c18

// TestC18Expiry: one Signer, two Sign calls, and between them the server's certificate runs out. The
// second call is a call like any other: it succeeds only against a server whose certificate is valid
// at that time.

import (
	"bytes"
	"context"
	"fmt"
	"sync"
	"testing"
	"time"

	pb "github.com/theparanoids/crypki/proto"
	"github.com/theparanoids/ysshra/crypki"
	"github.com/theparanoids/ysshra/zzverif/vh"
	"golang.org/x/crypto/ssh"
)

type ExpiryCase struct {
	// Scenarios side by side: endpoint identities (expiring = valid for 3 more seconds)
	Scenarios [][]string
	ViaConf   bool
}

func expiryOne(ids []string, viaConf bool) error {
	var specs []vh.CAServerSpec
	var ips []string
	for i, id := range ids {
		ip := fmt.Sprintf("127.0.0.%d", i+2)
		ips = append(ips, ip)
		specs = append(specs, vh.CAServerSpec{IP: ip, Identity: id, Behaviour: "sign", ClientAuth: "request", KeyText: string(ssh.MarshalAuthorizedKey(epCert(i)))})
	}
	created := time.Now()
	g, err := vh.StartCAGroup(specs)
	if err != nil {
		return nil
	}
	defer g.Stop()
	f := vh.Farm()
	signer, err := vh.NewCrypkiSigner(crypki.SignerConfig{TLSClientKeyFile: f.ClientKeyFile(), TLSClientCertFile: f.ClientCertFile(), TLSCACertFiles: []string{f.CAFile("caA")},
		CrypkiEndpoints: ips, CrypkiPort: uint(g.Port), Retries: 1, PerTryTimeout: 10 * time.Second}, viaConf)
	if err != nil {
		return vh.Errf("NewSigner: %v", err)
	}
	req := &pb.SSHCertificateSigningRequest{KeyMeta: &pb.KeyMeta{Identifier: "ssh-user-key"}, Principals: []string{"user_a"}, PublicKey: string(ssh.MarshalAuthorizedKey(vh.SSHPub("p256b"))), Validity: 3600, KeyId: "k"}
	sign := func() ([]ssh.PublicKey, error) {
		ctx, cancel := context.WithTimeout(context.Background(), 30*time.Second)
		defer cancel()
		var certs []ssh.PublicKey
		var serr error
		if perr := vh.Catch(func() { certs, _, serr = signer.Sign(ctx, req) }); perr != nil {
			return nil, fmt.Errorf("CRASH: %v", perr)
		}
		return certs, serr
	}
	// first call: every "expiring" endpoint is still genuine (unless the machine was very slow)
	c1, e1 := sign()
	if time.Since(created) < 2*time.Second {
		if e1 != nil || len(c1) != 1 || !bytes.Equal(c1[0].Marshal(), epCert(0).Marshal()) {
			return vh.Errf("identities %v: first call (all certificates valid) did not get endpoint 0's answer: %v", ids, e1)
		}
	}
	time.Sleep(time.Until(created.Add(4500 * time.Millisecond)))
	callsBefore := make([]int, len(ids))
	for i, s := range g.Servers {
		callsBefore[i] = len(s.Calls())
	}
	c2, e2 := sign()
	want := -1
	for i, id := range ids {
		if id == "caA" {
			want = i
			break
		}
	}
	for i, id := range ids {
		if id == "expiring" && len(g.Servers[i].Calls()) > callsBefore[i] {
			return vh.Errf("identities %v: endpoint %d's certificate ran out 1.5 s before the second call, yet it received that call's signing request", ids, i)
		}
	}
	if want < 0 {
		if e2 == nil {
			return vh.Errf("identities %v: the second call succeeded although no endpoint has a valid certificate any more", ids)
		}
		return nil
	}
	if e2 != nil || len(c2) != 1 || !bytes.Equal(c2[0].Marshal(), epCert(want).Marshal()) {
		return vh.Errf("identities %v: the second call must be answered by endpoint %d (the first one whose certificate is still valid): %v", ids, want, e2)
	}
	return nil
}

func TestC18Expiry(t *testing.T) {
	sc := [][]string{{"expiring"}, {"expiring", "caA"}, {"expiring", "expiring", "caA"}, {"caA", "expiring"}}
	vh.Enumerate(t, vh.Spec[ExpiryCase]{Property: "C18", Name: "TestC18Expiry", Exhaustive: true,
		Rule: "one Signer, a Sign call while every server certificate is valid, then - 1.5 s after the certificates of the 'expiring' endpoints (issued by the configured CA, right address) ran out - a second Sign call on the same Signer; 4 endpoint lists side by side, signer built from the struct and from a configuration map. Oracle: the second call is answered by the first endpoint whose certificate is valid then, or fails if there is none; an endpoint whose certificate has run out does not receive the second signing request",
		Exec: func(c ExpiryCase) (vh.Outcome, error) {
			out := vh.Outcome{NonTrivial: true}
			for i := 0; i < 4; i++ {
				epCert(i) // fill the (unsynchronised) cache before the scenarios run side by side
			}
			errs := make([]error, len(c.Scenarios))
			var wg sync.WaitGroup
			for i, ids := range c.Scenarios {
				i, ids := i, ids
				wg.Add(1)
				go func() { defer wg.Done(); errs[i] = expiryOne(ids, c.ViaConf) }()
			}
			wg.Wait()
			for _, e := range errs {
				if e != nil {
					return out, e
				}
			}
			return out, nil
		}}, []ExpiryCase{{Scenarios: sc}, {Scenarios: sc, ViaConf: true}})
}
