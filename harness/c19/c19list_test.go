package c19

// TestC19Listing: the other observation point of the property - the comments the shim agent's listing
// attaches to certificates. Histories of additions and listings over certificates of every KeyID class,
// under every listing order, judged by the reference model of the shim (whose labels come from the
// reference type rules): every listed certificate carries the label of THAT certificate.

import (
	"fmt"
	"testing"

	"github.com/theparanoids/ysshra/zzverif/vh"
	"pgregory.net/rapid"
)

var listProfile = vh.ShimProfile{
	Validities:   []string{"current", "current", "forever"},
	KeyIDClasses: vh.AllKeyIDClasses,
	MaxOps:       16,
}

func TestC19Listing(t *testing.T) {
	vh.Run(t, vh.Spec[vh.ShimCase]{Property: "C19", Name: "TestC19Listing",
		Rule: "shim histories of 4..16 operations, mostly additions (key, certificate + key, hardware certificate, out-of-band additions) and listings, over 1..6 certificates of every KeyID class (the ten decodable ones incl. multi-KiB KeyIDs, missing member, unsupported version, inconsistent, free text, empty) with comments / suffixes, both upstream modes, the listing order option left at its default or set to an ordering by bytes, type or fingerprint. Oracle: the shim reference model: every listing shows exactly the expected identities, each certificate with the label the reference type rules give that certificate ('<Type>SSH-<transaction id>' plus '-<comment>'; the bare comment for an unknown type)." + vh.ShimGenNote,
		Gen: func(t *rapid.T) vh.ShimCase {
			c := vh.GenShimCase(t, listProfile)
			if c.Comp == "" && rapid.Bool().Draw(t, "forceComp") {
				c.Comp = rapid.SampledFrom([]string{"bytes", "type", "fingerprint"}).Draw(t, "comp2")
			}
			// make sure several certificates are in the listing and it is looked at
			for i := range c.Certs {
				c.Ops = append(c.Ops, vh.Op{Kind: "addkey", Key: c.Certs[i].Key, Cert: -1}, vh.Op{Kind: "addhard", Cert: i, Comment: fmt.Sprintf("hw%d", i)})
			}
			c.Ops = append(c.Ops, vh.Op{Kind: "list", Cert: -1}, vh.Op{Kind: "list", Cert: -1})
			return c
		},
		Exec: func(c vh.ShimCase) (vh.Outcome, error) {
			tr, err := vh.RunShimCase(c)
			out := vh.Outcome{NonTrivial: tr.ListChecks > 0 && len(c.Certs) >= 2, Classes: []string{"comp=" + c.Comp, fmt.Sprintf("noUpstream=%v", c.NoUpstream)}}
			return out, err
		}})
}
