// C19 — certificate type, label and principal suffix are a fixed total function of the KeyID.
package c19

import (
	"fmt"
	"reflect"
	"strings"
	"testing"

	"github.com/theparanoids/ysshra/sshutils/cert"
	"github.com/theparanoids/ysshra/zzverif/vh"
	"golang.org/x/crypto/ssh"
	"pgregory.net/rapid"
)

const critOpt = "touchless-sudo-hosts"

type Case struct {
	CertNil bool
	// Kind: attrs | nearmiss | text
	Kind      string
	NearMiss  string
	Attrs     vh.KeyIDAttrs
	KeyIDText string
	// CritMode: nilmap | absent | empty | set
	CritMode   string
	CritValue  string
	OtherCrit  map[string]string
	Extensions map[string]string
	Prins      []string
	PrinsNil   bool
	// Other certificate fields, none of which is an input of the type: kind of certificate (0 = unset,
	// 1 = user, 2 = host, 7 = undefined), serial, validity window
	CertType    uint32
	Serial      uint64
	ValidBefore uint64
}

// ---- independent decision table (from the statement / README) ----

const (
	tUnknown = iota
	tTouchSudo
	tTouchless
	tTouchlessSudo
	tFirefighter
	tNonce
	tTouchlessInAgent
	tTouchlessSudoInAgent
)

var typeConst = map[int]cert.Type{
	tUnknown: cert.UnknownCertType, tTouchSudo: cert.TouchSudoCert, tTouchless: cert.TouchlessCert,
	tTouchlessSudo: cert.TouchlessSudoCert, tFirefighter: cert.FirefighterCert, tNonce: cert.NonceCert,
	tTouchlessInAgent: cert.TouchlessInAgentCert, tTouchlessSudoInAgent: cert.TouchlessSudoInAgentCert,
}

var typeName = map[int]string{
	tTouchSudo: "TouchSudo", tTouchless: "Touchless", tTouchlessSudo: "TouchlessSudo", tFirefighter: "FireFighterSudo",
	tNonce: "Nonce", tTouchlessInAgent: "TouchlessInAgent", tTouchlessSudoInAgent: "TouchlessSudoInAgent",
}

func expectType(decodable bool, a vh.KeyIDAttrs, critSet bool) int {
	if !decodable {
		return tUnknown
	}
	switch {
	case a.Nonce:
		return tNonce
	case a.FF && a.HW:
		return tFirefighter
	case a.FF:
		if critSet {
			return tTouchlessSudoInAgent
		}
		return tTouchlessInAgent
	case a.Touch == 2 || a.Touch == 3:
		return tTouchSudo
	case a.Touch == 1:
		if critSet {
			return tTouchlessSudo
		}
		return tTouchless
	}
	return tUnknown
}

func (c Case) certificate() *ssh.Certificate {
	if c.CertNil {
		return nil
	}
	ct := &ssh.Certificate{KeyId: c.KeyIDText, CertType: c.CertType, ValidPrincipals: c.Prins, Serial: c.Serial, ValidBefore: c.ValidBefore}
	if c.CritMode != "nilmap" {
		ct.CriticalOptions = map[string]string{}
		for k, v := range c.OtherCrit {
			ct.CriticalOptions[k] = v
		}
		switch c.CritMode {
		case "empty":
			ct.CriticalOptions[critOpt] = ""
		case "set":
			ct.CriticalOptions[critOpt] = c.CritValue
		}
	}
	if c.Extensions != nil {
		ct.Extensions = c.Extensions
	}
	return ct
}

func exec(c Case) (vh.Outcome, error) {
	ct := c.certificate()
	a, decodable := vh.RefDecodeKeyID(c.KeyIDText)
	if c.CertNil {
		decodable = false
	}
	if c.Kind == "attrs" && !c.CertNil {
		// by construction the text carries exactly these attributes
		if decodable != c.Attrs.Valid() {
			return vh.Outcome{}, vh.Errf("harness inconsistency: reference decoder says %v, construction says %v for %q", decodable, c.Attrs.Valid(), c.KeyIDText)
		}
		a = c.Attrs
	}
	critSet := c.CritMode == "set" && c.CritValue != ""
	want := expectType(decodable, a, critSet)
	out := vh.Outcome{
		NonTrivial: decodable && (a.FF || a.HW || a.Headless || a.Nonce || critSet || c.CritMode == "empty"),
		Classes:    []string{"kind=" + c.Kind, fmt.Sprintf("type=%d", want), "crit=" + c.CritMode},
	}
	var got cert.Type
	if err := vh.Catch(func() { got = cert.GetType(ct) }); err != nil {
		return out, vh.Errf("GetType crashed: %v", err)
	}
	if got != typeConst[want] {
		return out, vh.Errf("GetType = %d (%s), expected %d (%s) for KeyID %q, critical option mode %s value %q",
			got, got, typeConst[want], typeName[want], c.KeyIDText, c.CritMode, c.CritValue)
	}
	var label string
	var lerr error
	if err := vh.Catch(func() { label, lerr = cert.Label(ct) }); err != nil {
		return out, vh.Errf("Label crashed: %v", err)
	}
	if want == tUnknown {
		if lerr == nil {
			return out, vh.Errf("Label returned %q for an unknown-type certificate, KeyID %q", label, c.KeyIDText)
		}
	} else {
		wantLabel := typeName[want] + "SSH-" + a.TransID
		if lerr != nil || label != wantLabel {
			return out, vh.Errf("Label = %q, %v; expected %q (KeyID %q)", label, lerr, wantLabel, c.KeyIDText)
		}
	}
	// principals for the derived type
	var prins []string
	if !c.PrinsNil {
		prins = append([]string{}, c.Prins...)
	}
	in := append([]string(nil), prins...)
	var gp []string
	if err := vh.Catch(func() { gp = cert.GetPrincipals(prins, got) }); err != nil {
		return out, vh.Errf("GetPrincipals crashed: %v", err)
	}
	if err := checkPrincipals(want, in, gp); err != nil {
		return out, err
	}
	if !reflect.DeepEqual(in, append([]string(nil), prins...)) {
		return out, vh.Errf("GetPrincipals modified its input")
	}
	return out, nil
}

func checkPrincipals(t int, in, got []string) error {
	suffix := ""
	switch t {
	case tUnknown:
		if got != nil {
			return vh.Errf("principals %v returned for the unknown type (input %v)", got, in)
		}
		return nil
	case tTouchSudo:
		suffix = ":touch"
	case tTouchless, tTouchlessSudo:
		suffix = ":notouch"
	default:
		if len(got) != len(in) {
			return vh.Errf("principals changed for type %s: %v -> %v", typeName[t], in, got)
		}
		for i := range in {
			if got[i] != in[i] {
				return vh.Errf("principals changed for type %s: %v -> %v", typeName[t], in, got)
			}
		}
		return nil
	}
	if len(got) != len(in) {
		return vh.Errf("type %s: %d principals in, %d out (%v -> %v)", typeName[t], len(in), len(got), in, got)
	}
	for i := range in {
		if got[i] != in[i]+suffix {
			return vh.Errf("type %s: principal %q became %q, expected suffix %q", typeName[t], in[i], got[i], suffix)
		}
	}
	return nil
}

func genStr(t *rapid.T, label string) string {
	if rapid.IntRange(0, 23).Draw(t, label+"Long") == 11 {
		// long values (nothing bounds the length of a KeyID or of its fields)
		unit := rapid.SampledFrom([]string{"a", "host-", "é", `"`, "0123456789"}).Draw(t, label+"Unit")
		return strings.Repeat(unit, rapid.SampledFrom([]int{1000, 4000, 4096, 5000, 20000, 70000}).Draw(t, label+"Len")/len(unit))
	}
	switch rapid.IntRange(0, 4).Draw(t, label+"K") {
	case 0:
		return rapid.SampledFrom([]string{"", `"`, `\`, "é", "日本", "a b", "u:touch", ":notouch", "SSH-"}).Draw(t, label)
	case 1:
		return strings.ToValidUTF8(rapid.String().Draw(t, label), "?")
	default:
		return rapid.StringMatching(`[a-z0-9]{1,10}`).Draw(t, label)
	}
}

func genAttrs(t *rapid.T) vh.KeyIDAttrs {
	flags := rapid.IntRange(0, 15).Draw(t, "flags")
	a := vh.KeyIDAttrs{
		TransID: genStr(t, "transID"), ReqUser: genStr(t, "reqUser"), ReqIP: genStr(t, "reqIP"), ReqHost: genStr(t, "reqHost"),
		FF: flags&1 != 0, HW: flags&2 != 0, Headless: flags&4 != 0, Nonce: flags&8 != 0,
		Touch:   rapid.SampledFrom([]int{-1, 0, 1, 1, 2, 3, 4, 7}).Draw(t, "touch"),
		Usage:   rapid.SampledFrom([]int{0, 0, 1, 2}).Draw(t, "usage"),
		Version: rapid.SampledFrom([]int{1, 1, 1, 1, 1, 1, 1, 0, 2}).Draw(t, "ver"),
	}
	// bias towards consistent combinations, which are the ones with a defined type
	if rapid.Bool().Draw(t, "repair") {
		if a.Headless {
			a.HW, a.FF, a.Nonce, a.Touch = false, false, false, 1
		}
		if a.Nonce {
			a.FF, a.Headless, a.Touch = false, false, 1
		}
	}
	a.PrinsNil = rapid.IntRange(0, 4).Draw(t, "kprinsNil") == 0
	if !a.PrinsNil {
		n := rapid.IntRange(0, 3).Draw(t, "nkprins")
		if rapid.IntRange(0, 23).Draw(t, "manyKPrins") == 11 {
			n = rapid.SampledFrom([]int{8, 100, 400, 1000}).Draw(t, "nkprinsMany")
		}
		a.Prins = make([]string, n)
		for i := range a.Prins {
			a.Prins[i] = genStr(t, fmt.Sprintf("kprin%d", i))
		}
	}
	return a
}

func genDecor(t *rapid.T, c *Case) {
	c.CritMode = rapid.SampledFrom([]string{"nilmap", "absent", "empty", "set", "set"}).Draw(t, "critMode")
	if c.CritMode == "set" {
		c.CritValue = rapid.SampledFrom([]string{"www.example.com", "a,b,c", " ", "0", "false", "\x00"}).Draw(t, "critValue")
	}
	if rapid.Bool().Draw(t, "otherCrit") {
		c.OtherCrit = map[string]string{rapid.SampledFrom([]string{"force-command", "source-address", "noncetool", "Touchless-Sudo-Hosts", "touchless-sudo-hosts ", "touchless_sudo_hosts",
			// vendor-namespaced and otherwise decorated spellings (name@domain is how vendors name their own options): other options all the same
			"touchless-sudo-hosts@example.com", "touchless-sudo-hosts@", "touchless-sudo-hosts.", "touchless-sudo-hosts2", "touchless-sudo-host", "x-touchless-sudo-hosts", "touchless-sudo-hosts\x00"}).Draw(t, "ock"): rapid.SampledFrom([]string{"", "x", "www.example.com"}).Draw(t, "ocv")}
	}
	if rapid.Bool().Draw(t, "ext") {
		c.Extensions = map[string]string{rapid.SampledFrom([]string{"permit-pty", critOpt}).Draw(t, "ek"): rapid.SampledFrom([]string{"", "www.example.com"}).Draw(t, "ev")}
	}
	c.CertType = rapid.SampledFrom([]uint32{ssh.UserCert, ssh.UserCert, 0, ssh.HostCert, 7}).Draw(t, "certType")
	c.Serial = rapid.SampledFrom([]uint64{0, 1, 1 << 63}).Draw(t, "serial")
	c.ValidBefore = rapid.SampledFrom([]uint64{0, 1, ssh.CertTimeInfinity}).Draw(t, "validBefore")
	c.PrinsNil = rapid.IntRange(0, 5).Draw(t, "prinsNil") == 0
	if !c.PrinsNil {
		n := rapid.IntRange(0, 4).Draw(t, "nprins")
		c.Prins = make([]string, n)
		for i := range c.Prins {
			c.Prins[i] = genStr(t, fmt.Sprintf("prin%d", i))
		}
	}
}

func gen(t *rapid.T) Case {
	c := Case{}
	k := rapid.IntRange(0, 19).Draw(t, "kind")
	switch {
	case k == 0:
		c.CertNil = true
		c.Kind = "attrs"
		c.Attrs = genAttrs(t)
		c.KeyIDText = c.Attrs.Text()
	case k <= 12:
		c.Kind = "attrs"
		c.Attrs = genAttrs(t)
		ms := c.Attrs.Members()
		if rapid.Bool().Draw(t, "extraMember") {
			ms = append(ms, vh.Member{Name: rapid.SampledFrom([]string{"x", "crit", "type", "certType"}).Draw(t, "xn"), Raw: rapid.SampledFrom([]string{"1", `"Nonce"`, "true", "null", "{}"}).Draw(t, "xv")})
		}
		if rapid.Bool().Draw(t, "shuffle") {
			ms = rapid.Permutation(ms).Draw(t, "order")
		}
		c.KeyIDText = vh.JoinMembers(ms, rapid.SampledFrom([]string{"", " "}).Draw(t, "ws"))
		// JSON whitespace around the object: the text still decodes to the same KeyID
		c.KeyIDText = rapid.SampledFrom([]string{"", "", "", " ", "\n", "\t \r\n"}).Draw(t, "lead") + c.KeyIDText + rapid.SampledFrom([]string{"", "", "", " ", "\n", "\r\n\t "}).Draw(t, "trail")
	case k <= 17:
		c.Kind = "nearmiss"
		a := genAttrs(t)
		a.Version = 1
		c.Attrs = a
		ms := a.Members()
		ri := rapid.IntRange(0, 10).Draw(t, "member")
		if ri >= 9 {
			ri++
		}
		switch rapid.IntRange(0, 4).Draw(t, "nm") {
		case 4:
			// a complete, valid KeyID with something behind it: not a JSON text any more
			c.NearMiss = "trailer"
			full := vh.JoinMembers(ms, "")
			c.KeyIDText = full + rapid.SampledFrom([]string{"}", " }", "{}", full, "\n" + full, ",", " x", "\x00", "null", "]", "// comment", " 1"}).Draw(t, "trailer")
		case 0:
			c.NearMiss = "delete:" + ms[ri].Name
			gone := ms[ri].Name
			ms = append(ms[:ri:ri], ms[ri+1:]...)
			// the deleted member's exact name may still occur in the text - as a string value, a principal, or a
			// member of a nested object: it is missing all the same
			quoted := `"` + gone + `"`
			switch rapid.IntRange(0, 7).Draw(t, "nameElsewhere") {
			case 0:
				c.NearMiss += "+name-as-string-value"
				for i := range ms {
					if (ms[i].Name == "reqHost" || ms[i].Name == "reqUser" || ms[i].Name == "transID") && ms[i].Name != gone {
						ms[i].Raw = quoted
						break
					}
				}
			case 1:
				c.NearMiss += "+name-as-principal"
				for i := range ms {
					if ms[i].Name == "prins" {
						ms[i].Raw = "[" + quoted + "]"
					}
				}
			case 2:
				c.NearMiss += "+name-in-nested-object"
				ms = append(ms, vh.Member{Name: "extra", Raw: "{" + quoted + ":1}"})
			case 3:
				c.NearMiss += "+name-in-extra-string"
				ms = append(ms, vh.Member{Name: "note", Raw: quoted})
			}
		case 1:
			c.NearMiss = "upper:" + ms[ri].Name
			ms[ri].Name = strings.ToUpper(ms[ri].Name)
		case 2:
			c.NearMiss = "retype:" + ms[ri].Name
			ms[ri].Raw = rapid.SampledFrom([]string{"null", `"x"`, "1", "true", "[]", "{}"}).Draw(t, "raw")
			if rapid.IntRange(0, 2).Draw(t, "retypeUsage") == 0 {
				// the optional member mistyped instead of (or, moved to the front, together with) a required one: a text
				// whose members do not have their types is no KeyID
				for i := range ms {
					if ms[i].Name == "usage" {
						ms[i].Raw = rapid.SampledFrom([]string{`"1"`, `"ssh-only"`, "[]", "{}", "true", "1.5"}).Draw(t, "usageRaw")
						c.NearMiss += "+usage"
						if rapid.Bool().Draw(t, "usageFirst") {
							u := ms[i]
							ms = append([]vh.Member{u}, append(ms[:i:i], ms[i+1:]...)...)
						}
						break
					}
				}
				if rapid.Bool().Draw(t, "usageOnly") {
					c.NearMiss = "retype:usage-only"
					ms2 := a.Members()
					for i := range ms2 {
						if ms2[i].Name == "usage" {
							ms2[i].Raw = rapid.SampledFrom([]string{`"1"`, `"ssh-only"`, "[]", "true"}).Draw(t, "usageOnlyRaw")
						}
					}
					ms = ms2
				}
			}
		case 3:
			c.NearMiss = "truncate"
			s := vh.JoinMembers(ms, "")
			c.KeyIDText = s[:rapid.IntRange(0, len(s)-1).Draw(t, "cut")]
		}
		if c.KeyIDText == "" && c.NearMiss != "truncate" {
			c.KeyIDText = vh.JoinMembers(ms, "")
		}
	default:
		c.Kind = "text"
		c.KeyIDText = rapid.SampledFrom([]string{"", "bad keyID", "null", "{}", "[]", `{"ver":1}`, "user@host", `"{}"`, "1"}).Draw(t, "text")
	}
	genDecor(t, &c)
	return c
}

const rule = "certificates with KeyIDs built from attribute sets (16 flag combinations x touch policy {-1..4,7} x version, decorated with random transaction ids, principals, usage (one value in 24 is 1..70 KB long, one principal list in 24 has 8..1000 entries: KeyIDs beyond 4 KiB and 64 KiB), extra members, member order, JSON whitespace inside and around the object), near-miss KeyIDs (one required member deleted - in half of those with its exact name still in the text as a string value, a principal, a nested member or an extra string - / upper-cased / retyped (also the optional usage member, alone, or in front of a mistyped required one), truncated text, a complete KeyID followed by a trailer such as a brace or a second KeyID), free text and nil certificates; critical option nil-map / absent / empty / set, other critical options and look-alike names (other case, trailing blank / dot / digit / NUL, underscores, a prefix, the singular, the vendor form name@domain), extensions carrying the option name; certificate kind unset / user / host / undefined, serial and validity window at their extremes (no input of the type). Oracle: independently written decision table for GetType, Label = documented type name + 'SSH-' + transaction id (error for unknown), GetPrincipals suffix rules. Non-trivial: decodable KeyID with at least one flag set or the critical option present; distinct by Case hash."

func TestC19Random(t *testing.T) {
	vh.Run(t, vh.Spec[Case]{Property: "C19", Name: "TestC19Random", Rule: rule, Gen: gen, Exec: exec})
}

// TestC19Grid enumerates the complete attribute space named by the quantifier.
func TestC19Grid(t *testing.T) {
	var cases []Case
	for flags := 0; flags < 16; flags++ {
		for _, touch := range []int{-1, 0, 1, 2, 3, 4, 7} {
			for _, crit := range []string{"nilmap", "absent", "empty", "set"} {
				for _, ver := range []int{1, 0, 2} {
					a := vh.KeyIDAttrs{Prins: []string{"user"}, TransID: "22dde224", ReqUser: "user", ReqIP: "1.1.1.1", ReqHost: "host",
						FF: flags&1 != 0, HW: flags&2 != 0, Headless: flags&4 != 0, Nonce: flags&8 != 0, Touch: touch, Version: ver}
					cases = append(cases, Case{Kind: "attrs", Attrs: a, KeyIDText: a.Text(), CritMode: crit, CritValue: "www.example.com", Prins: []string{"user1", "user2"}})
				}
			}
		}
	}
	vh.Enumerate(t, vh.Spec[Case]{Property: "C19", Name: "TestC19Grid", Exhaustive: true,
		Rule: "complete grid: 16 flag combinations x touch policy {-1,0,1,2,3,4,7} x critical option {nil map, absent, empty, set} x version {1,0,2} (1344 points; inconsistent or unsupported ones are kept as undecodable inputs); same oracle",
		Exec: exec}, cases)
}

// TestC19PrincipalsAllTypes checks the suffix rule for every type constant directly.
type PrinCase struct {
	Type     int
	Prins    []string
	PrinsNil bool
}

func TestC19PrincipalsAllTypes(t *testing.T) {
	vh.Run(t, vh.Spec[PrinCase]{Property: "C19", Name: "TestC19PrincipalsAllTypes",
		Rule: "GetPrincipals called directly with each of the 8 defined types and arbitrary principal lists (nil, empty, unicode, already suffixed); suffix rules as oracle. Non-trivial: non-empty list.",
		Gen: func(t *rapid.T) PrinCase {
			c := PrinCase{Type: rapid.IntRange(0, 7).Draw(t, "type")}
			c.PrinsNil = rapid.IntRange(0, 5).Draw(t, "nil") == 0
			if !c.PrinsNil {
				n := rapid.IntRange(0, 5).Draw(t, "n")
				c.Prins = make([]string, n)
				for i := range c.Prins {
					c.Prins[i] = genStr(t, fmt.Sprintf("p%d", i))
				}
			}
			return c
		},
		Exec: func(c PrinCase) (vh.Outcome, error) {
			var in []string
			if !c.PrinsNil {
				in = append([]string{}, c.Prins...)
			}
			var got []string
			if err := vh.Catch(func() { got = cert.GetPrincipals(in, typeConst[c.Type]) }); err != nil {
				return vh.Outcome{}, err
			}
			return vh.Outcome{NonTrivial: len(in) > 0, Classes: []string{fmt.Sprintf("type=%d", c.Type)}}, checkPrincipals(c.Type, c.Prins, got)
		}})
}
