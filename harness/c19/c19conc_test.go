package c19

// TestC19Concurrent: type, label and principal suffix are a function of the certificate alone, also
// when several callers ask at once (the shim agent does, once per connection).

import (
	"fmt"
	"testing"

	"github.com/theparanoids/ysshra/zzverif/vh"
	"pgregory.net/rapid"
)

type ConcCase struct {
	Cases      []Case
	Goroutines int
	Rounds     int
}

func TestC19Concurrent(t *testing.T) {
	vh.Run(t, vh.Spec[ConcCase]{Property: "C19", Name: "TestC19Concurrent",
		Rule: "3..16 certificates of TestC19Random's generator (every type, unknown ones, undecodable KeyIDs mixed), each judged 5..30 times by 2..16 goroutines at the same moment. Oracle: TestC19Random's, unchanged, for every call. Non-trivial: every case.",
		Gen: func(t *rapid.T) ConcCase {
			c := ConcCase{Goroutines: rapid.SampledFrom([]int{2, 4, 8, 16}).Draw(t, "goroutines"), Rounds: rapid.SampledFrom([]int{5, 10, 30}).Draw(t, "rounds")}
			for i, n := 0, rapid.IntRange(3, 16).Draw(t, "n"); i < n; i++ {
				c.Cases = append(c.Cases, gen(t))
			}
			return c
		},
		Exec: func(c ConcCase) (vh.Outcome, error) {
			out := vh.Outcome{NonTrivial: true, Classes: []string{fmt.Sprintf("goroutines=%d", c.Goroutines)}}
			judged, err := vh.Concurrently(c.Goroutines, c.Rounds, len(c.Cases), func(i int) error {
				_, e := exec(c.Cases[i])
				return e
			})
			out.NonTrivial = judged
			return out, err
		}})
}
