package c12

// TestC12Sessions: what one client actually sends over a session - a handful of well-formed requests over
// a small set of keys, certificates and passphrases, so that the same certificate is registered again,
// removed, registered while locked, unlocked with the wrong and the right passphrase, ... Every frame is
// complete and well-formed: each gets exactly one response and the process survives, whatever state the
// earlier frames left behind.

import (
	"fmt"
	"testing"

	"github.com/theparanoids/ysshra/zzverif/vh"
	"pgregory.net/rapid"
)

func sessionFrame(t *rapid.T, l string) ([]byte, string) {
	held := "ed25519c" // the key the real server's underlying agent holds
	cert := func() []byte {
		switch rapid.IntRange(0, 5).Draw(t, l+"cert") {
		case 0:
			return poolCert("p256c").Marshal() // a certificate over a key the agent does not hold
		case 1:
			return variantCert(held, rapid.SampledFrom([]int{10, 11, 12, 16, 17}).Draw(t, l+"variant")).Marshal()
		}
		return poolCert(held).Marshal()
	}
	pass := func() []byte { return []byte(rapid.SampledFrom([]string{"pw", "pw", "pw", "other", ""}).Draw(t, l+"pass")) }
	switch rapid.SampledFrom([]string{"addhard-new", "addhard-new", "addhard-legacy", "lock", "lock", "unlock", "unlock", "list", "sign", "remove", "removeall", "extension", "unknown", "listslots"}).Draw(t, l+"kind") {
	case "addhard-new":
		return append(append([]byte{31}, sshString(cert())...), sshString([]byte(rapid.SampledFrom([]string{"yubikey", "yubikey", ""}).Draw(t, l+"comment")))...), "addhard-new"
	case "addhard-legacy":
		return append([]byte{31}, cert()...), "addhard-legacy"
	case "lock":
		return append([]byte{22}, sshString(pass())...), "lock"
	case "unlock":
		return append([]byte{23}, sshString(pass())...), "unlock"
	case "list":
		return []byte{11}, "list"
	case "sign":
		blob := vh.SSHPub(held).Marshal()
		if rapid.Bool().Draw(t, l+"signCert") {
			blob = cert() // the held key's certificate, an expired / not-yet-valid / host / free-text variant, or another key's
		}
		return append(append(append([]byte{13}, sshString(blob)...), sshString([]byte("data"))...), 0, 0, 0, 0), "sign"
	case "remove":
		blob := vh.SSHPub(held).Marshal()
		if rapid.Bool().Draw(t, l+"removeCert") {
			blob = cert()
		}
		return append([]byte{18}, sshString(blob)...), "remove"
	case "removeall":
		return []byte{19}, "removeall"
	case "extension":
		return append([]byte{27}, sshString([]byte("session-bind@openssh.com"))...), "extension"
	case "listslots":
		return []byte{32}, "listslots"
	}
	return []byte{byte(rapid.SampledFrom([]int{20, 21, 26, 200}).Draw(t, l+"code")), 1, 2, 3}, "unknown"
}

func TestC12Sessions(t *testing.T) {
	vh.Run(t, vh.Spec[StreamCase]{Property: "C12", Name: "TestC12Sessions", Journal: true,
		Rule: "3..14 complete, well-formed frames as one client sends them over a session, drawn from a SMALL alphabet so that requests meet the state earlier ones left behind: add-hardware-certificate (both encodings) of the certificate over the key the underlying agent holds / of an expired, not-yet-valid, host or free-text variant of it / of a certificate over another key; lock and unlock with one of three passphrases; list, sign and remove naming the key or any of those certificates, remove-all, an extension request, unknown codes, list-slots - served by the real NewServer(remote=true) over shim agent + proxy + keyring; each case is journaled first, so a stream that kills the process is reported with its frames. Oracle: TestC12StreamReal's (no crash, one response per frame, in order, nothing after the end, clean end => nil). Non-trivial: a certificate is registered twice, or a frame follows a lock.",
		Gen: func(t *rapid.T) StreamCase {
			c := StreamCase{Real: true, Tail: "clean"}
			n := rapid.IntRange(3, 14).Draw(t, "nframes")
			for i := 0; i < n; i++ {
				f, k := sessionFrame(t, fmt.Sprintf("f%d", i))
				c.Frames = append(c.Frames, f)
				c.Kinds = append(c.Kinds, k)
			}
			return c
		}, Exec: func(c StreamCase) (vh.Outcome, error) {
			out, err := exec(c)
			seen, afterLock, twice := map[string]bool{}, false, false
			for i, f := range c.Frames {
				if c.Kinds[i] == "lock" && i < len(c.Frames)-1 {
					afterLock = true
				}
				if f[0] == 31 {
					if seen[string(f)] {
						twice = true
					}
					seen[string(f)] = true
				}
			}
			out.NonTrivial = afterLock || twice
			out.Classes = append(out.Classes, fmt.Sprintf("frame-after-lock=%v", afterLock), fmt.Sprintf("certificate-registered-twice=%v", twice))
			return out, err
		}})
}
