package c12

// TestC12Relabel: the same certificate registered again under another label (another slot name, no label, a
// label with or without a dash) - the small, fixed part of the session alphabet that a random session meets
// only now and then.

import (
	"fmt"
	"testing"

	"github.com/theparanoids/ysshra/zzverif/vh"
)

func TestC12Relabel(t *testing.T) {
	held := "ed25519c"
	var cases []StreamCase
	for _, variant := range []int{-1, 11, 12} {
		cert := poolCert(held).Marshal()
		if variant >= 0 {
			cert = variantCert(held, variant).Marshal()
		}
		addNew := func(comment string) []byte {
			return append(append([]byte{31}, sshString(cert)...), sshString([]byte(comment))...)
		}
		for _, first := range []string{"", "9a", "yubikey", "a-b", "-"} {
			for _, second := range []string{"", "9e", "yubikey", "x-y", "-", "<legacy>"} {
				again := addNew(second)
				kind := "addhard-new"
				if second == "<legacy>" {
					again, kind = append([]byte{31}, cert...), "addhard-legacy"
				}
				c := StreamCase{Real: true, Tail: "clean"}
				add := func(f []byte, k string) { c.Frames = append(c.Frames, f); c.Kinds = append(c.Kinds, k) }
				add(addNew(first), "addhard-new")
				add([]byte{11}, "list")
				add(again, kind)
				add([]byte{11}, "list")
				add(append(append(append([]byte{13}, sshString(cert)...), sshString([]byte("data"))...), 0, 0, 0, 0), "sign")
				add(append([]byte{18}, sshString(cert)...), "remove")
				add(again, kind)
				add(addNew(first), "addhard-new")
				add([]byte{11}, "list")
				cases = append(cases, c)
			}
		}
	}
	vh.Enumerate(t, vh.Spec[StreamCase]{Property: "C12", Name: "TestC12Relabel", Exhaustive: true, Journal: true,
		Rule: fmt.Sprintf("the certificate over the held key (the pool certificate, a host variant, a free-text-KeyID variant) registered under one of 5 labels (none, a slot name, 'yubikey', one with a dash, a lone dash), listed, registered again under one of 5 other labels or in the legacy encoding, listed, used for a signature, removed, registered twice more, listed (%d sessions of 9 frames) - served by the real NewServer(remote=true) over shim agent + proxy + keyring. Oracle: TestC12StreamReal's (no crash, one response per frame, in order, nothing after the end, clean end => nil)", len(cases)),
		Exec: func(c StreamCase) (vh.Outcome, error) {
			out, err := exec(c)
			out.NonTrivial = true
			return out, err
		}}, cases)
}
