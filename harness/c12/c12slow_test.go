package c12

// TestC12SlowHandler: the connection is a real socket and the served agent takes seconds to answer one
// request (a token waiting for a touch). The stream position must not matter: every frame still gets
// its one response, in order.

import (
	"bytes"
	"fmt"
	"io"
	"sync"
	"testing"
	"time"

	"github.com/theparanoids/ysshra/agent/yubiagent"
	"github.com/theparanoids/ysshra/zzverif/vh"
	"golang.org/x/crypto/ssh"
)

type SlowCase struct {
	DelayMS int
	// SlowOps: served-agent operations that are slow, each in its own connection, side by side
	SlowOps []string
}

func slowOne(op string, delay time.Duration) error {
	def := vh.Script{Sig: &ssh.Signature{Format: ssh.KeyAlgoED25519, Blob: bytes.Repeat([]byte{7}, 64)}, Slots: []string{"9a"}}
	rec := vh.NewRecAgent(def)
	var dmu sync.Mutex
	slowLeft := 2 // the first two calls of the operation are slow: the pipelined one and the first lock-step one
	rec.Delay = func(o string) time.Duration {
		dmu.Lock()
		defer dmu.Unlock()
		if o == op && slowLeft > 0 {
			slowLeft--
			return delay
		}
		return 0
	}
	pub := vh.SSHPub("ed25519c").Marshal()
	frame := map[string][]byte{
		"list":      {11},
		"sign":      append(append(append([]byte{13}, sshString(pub)...), sshString([]byte("data"))...), 0, 0, 0, 0),
		"signflags": append(append(append([]byte{13}, sshString(pub)...), sshString([]byte("data"))...), 0, 0, 0, 2),
		"wait":      {35, 200},
		"addhard":   append(append([]byte{31}, sshString(poolCert("p256b").Marshal())...), sshString([]byte("c"))...),
		"forward":   {200, 1, 2, 3},
		"listslots": {32},
		"removeall": {19},
	}[op]
	if frame == nil {
		return nil
	}
	frames := [][]byte{{11}, frame, {11}, {200, 9}, frame, {11}}
	c1, c2, err := vh.SocketPair()
	if err != nil {
		return nil
	}
	defer c1.Close()
	done := make(chan error, 1)
	go func() {
		var ret error
		if perr := vh.Catch(func() { ret = yubiagent.ServeAgent(rec, c2) }); perr != nil {
			ret = fmt.Errorf("CRASH: %v", perr)
		}
		c2.Close()
		done <- ret
	}()
	readOne := func(limit time.Duration) ([]byte, error) {
		_ = c1.SetReadDeadline(time.Now().Add(limit))
		var l [4]byte
		if _, rerr := io.ReadFull(c1, l[:]); rerr != nil {
			return nil, rerr
		}
		n := int(l[0])<<24 | int(l[1])<<16 | int(l[2])<<8 | int(l[3])
		body := make([]byte, n)
		_, rerr := io.ReadFull(c1, body)
		return body, rerr
	}
	// pipelined first: list, the slow request, list, an unknown request written in one piece; the
	// responses come back one per frame, in the order of the frames, however long the second one takes
	piped := [][]byte{{11}, frame, {11}, {200, 9}}
	var burst []byte
	for _, f := range piped {
		burst = append(burst, sshString(f)...)
	}
	if _, werr := c1.Write(burst); werr != nil {
		return vh.Errf("slow %s: writing the pipelined frames failed: %v", op, werr)
	}
	var pipedReplies [][]byte
	for i := range piped {
		body, rerr := readOne(delay + 20*time.Second)
		if rerr != nil {
			return vh.Errf("slow %s (the served agent takes %s for it), 4 frames sent back to back: frame %d (code %d) got no response: %v", op, delay, i, piped[i][0], rerr)
		}
		pipedReplies = append(pipedReplies, body)
	}
	// lock-step client: one request, its response, the next
	var replies [][]byte
	for i, f := range frames {
		if _, werr := c1.Write(sshString(f)); werr != nil {
			return vh.Errf("slow %s: writing frame %d failed: %v (after %d responses)", op, i, werr, len(replies))
		}
		_ = c1.SetReadDeadline(time.Now().Add(delay + 20*time.Second))
		var l [4]byte
		if _, rerr := io.ReadFull(c1, l[:]); rerr != nil {
			return vh.Errf("slow %s (the served agent takes %s for it): frame %d (code %d) got no response: %v; %d responses for %d frames", op, delay, i, f[0], rerr, len(replies), len(frames))
		}
		n := int(l[0])<<24 | int(l[1])<<16 | int(l[2])<<8 | int(l[3])
		body := make([]byte, n)
		if _, rerr := io.ReadFull(c1, body); rerr != nil {
			return vh.Errf("slow %s: response %d cut short: %v", op, i, rerr)
		}
		replies = append(replies, body)
	}
	// the pipelined responses are, position by position, what the same frames get in lock step
	for i, want := range [][]byte{replies[0], replies[1], replies[2], replies[3]} {
		if !bytes.Equal(pipedReplies[i], want) {
			return vh.Errf("slow %s (the served agent takes %s for it): 4 frames sent back to back (list, %s, list, unknown): response %d is %.60q, but that frame is answered with %.60q when sent alone - responses out of request order", op, delay, op, i, pipedReplies[i], want)
		}
	}
	// identical requests, identical responses (the second, fast occurrence answers like the slow one)
	if !bytes.Equal(replies[1], replies[4]) || !bytes.Equal(replies[0], replies[2]) || !bytes.Equal(replies[0], replies[5]) {
		return vh.Errf("slow %s: responses are out of step: identical requests were answered differently (%d/%d bytes, %d/%d/%d bytes)", op, len(replies[1]), len(replies[4]), len(replies[0]), len(replies[2]), len(replies[5]))
	}
	c1.Close()
	select {
	case ret := <-done:
		if ret != nil && len(ret.Error()) > 5 && ret.Error()[:5] == "CRASH" {
			return vh.Errf("slow %s: %v", op, ret)
		}
	case <-time.After(10 * time.Second):
		return vh.Errf("slow %s: ServeAgent did not end after the peer closed the connection", op)
	}
	return nil
}

func TestC12SlowHandler(t *testing.T) {
	ops := []string{"list", "sign", "wait", "addhard", "forward", "listslots", "removeall"}
	cases := []SlowCase{{DelayMS: 4000, SlowOps: ops}}
	if vh.Thorough() {
		cases = append(cases, SlowCase{DelayMS: 1100, SlowOps: ops}, SlowCase{DelayMS: 11000, SlowOps: ops}, SlowCase{DelayMS: 31000, SlowOps: ops})
	}
	vh.Enumerate(t, vh.Spec[SlowCase]{Property: "C12", Name: "TestC12SlowHandler", Exhaustive: true,
		Rule: "a recording agent served over a real unix socket pair takes 4 s (thorough: also 1.1, 11 and 31 s) for the first list / sign / wait / add-hardware-certificate / raw forward / list-slots / remove-all call (7 connections side by side); the peer first sends list, the slow request, list, an unknown request back to back in one write and reads the four responses, then sends list, the request, list, an unknown request, the same request again, list in lock step. Oracle: every frame gets its response (however long the served agent took), the back-to-back responses equal, position by position, the lock-step responses of the same frames (request order), identical requests get identical responses, the connection ends cleanly when the peer closes it",
		Exec: func(c SlowCase) (vh.Outcome, error) {
			out := vh.Outcome{NonTrivial: true}
			errs := make([]error, len(c.SlowOps))
			var wg sync.WaitGroup
			for i, op := range c.SlowOps {
				i, op := i, op
				wg.Add(1)
				go func() { defer wg.Done(); errs[i] = slowOne(op, time.Duration(c.DelayMS)*time.Millisecond) }()
			}
			wg.Wait()
			for _, e := range errs {
				if e != nil {
					return out, e
				}
			}
			return out, nil
		}}, cases)
}
