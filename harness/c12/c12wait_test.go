package c12

// TestC12WaitFirstUse: wait frames (code 35) are request frames like any other: each gets its one
// response once a request with the awaited code has been received. Here the wait frames for a code
// arrive at the same moment as the very first request carrying that code on a fresh server, from
// other connections; afterwards the code keeps being served until every wait frame is answered.

import (
	"encoding/binary"
	"fmt"
	"io"
	stdlog "log"
	"net"
	"testing"
	"time"

	"github.com/theparanoids/ysshra/agent/yubiagent"
	"github.com/theparanoids/ysshra/zzverif/vh"
	"golang.org/x/crypto/ssh/agent"
	"pgregory.net/rapid"
)

type WaitCase struct {
	Codes   []int // one-byte requests answered right away, each used for the first time on this server
	Waiters int   // connections sending the wait frame for the code at the same moment
	// Pipe: in-memory pipes instead of unix socket pairs
	Pipe bool
}

func wfWrite(c io.Writer, body []byte) error {
	buf := make([]byte, 4+len(body))
	binary.BigEndian.PutUint32(buf, uint32(len(body)))
	copy(buf[4:], body)
	_, err := c.Write(buf)
	return err
}

func wfRead(c io.Reader) ([]byte, error) {
	var hdr [4]byte
	if _, err := io.ReadFull(c, hdr[:]); err != nil {
		return nil, err
	}
	n := binary.BigEndian.Uint32(hdr[:])
	if n > 1<<20 {
		return nil, fmt.Errorf("response of %d bytes", n)
	}
	body := make([]byte, n)
	_, err := io.ReadFull(c, body)
	return body, err
}

// quickCodes: codes below 40 (the ones a wait frame can name) whose one-byte request is answered at once
var quickCodes = func() []int {
	var out []int
	for x := 0; x < 40; x++ {
		switch x {
		case 13, 17, 18, 19, 22, 23, 25, 31, 35:
			continue
		}
		out = append(out, x)
	}
	return out
}()

func execWait(c WaitCase) (vh.Outcome, error) {
	out := vh.Outcome{NonTrivial: true, Classes: []string{fmt.Sprintf("waiters=%d", c.Waiters)}}
	stdlog.SetOutput(io.Discard)
	p, err := vh.NewProxy()
	if err != nil {
		return out, nil
	}
	defer p.Close()
	_ = p.Ring().Add(agent.AddedKey{PrivateKey: vh.Key("ed25519c"), Comment: "k"})
	srv, err := yubiagent.NewServer(p.Path, true)
	if err != nil {
		return out, vh.Errf("NewServer: %v", err)
	}
	defer func() { // bounded: an agent whose mutex is stuck must not hold up the report
		closed := make(chan struct{})
		go func() { _ = vh.Catch(func() { srv.Close() }); close(closed) }()
		select {
		case <-closed:
		case <-time.After(2 * time.Second):
		}
	}()
	var ends []net.Conn
	defer func() {
		for _, e := range ends {
			e.Close()
		}
	}()
	open := func() (net.Conn, error) {
		var c1, c2 net.Conn
		if c.Pipe {
			c1, c2 = net.Pipe()
		} else {
			var perr error
			c1, c2, perr = vh.SocketPair()
			if perr != nil {
				return nil, perr
			}
		}
		ends = append(ends, c1, c2)
		go func() { _ = vh.Catch(func() { _ = yubiagent.ServeAgent(srv, c2) }) }()
		return c1, nil
	}
	req, err := open()
	if err != nil {
		return out, nil
	}
	var wconns []net.Conn
	for i := 0; i < c.Waiters; i++ {
		w, werr := open()
		if werr != nil {
			return out, nil
		}
		wconns = append(wconns, w)
	}
	for _, x := range c.Codes {
		gate := make(chan struct{})
		answered := make(chan int, c.Waiters)
		for i, w := range wconns {
			i, w := i, w
			go func() {
				<-gate
				if wfWrite(w, []byte{35, byte(x)}) != nil {
					return
				}
				if _, rerr := wfRead(w); rerr == nil {
					answered <- i
				}
			}()
		}
		first := make(chan error, 1)
		go func() {
			<-gate
			if werr := wfWrite(req, []byte{byte(x)}); werr != nil {
				first <- werr
				return
			}
			_ = req.SetReadDeadline(time.Now().Add(20 * time.Second))
			_, rerr := wfRead(req)
			first <- rerr
		}()
		close(gate)
		if ferr := <-first; ferr != nil {
			return out, vh.Errf("code %d: the request with that code got no response: %v", x, ferr)
		}
		served, got := 1, 0
		deadline := time.Now().Add(5 * time.Second)
		for got < c.Waiters {
			select {
			case <-answered:
				got++
				continue
			default:
			}
			if time.Now().After(deadline) {
				return out, vh.Errf("fresh server, %d connection(s) sent the wait frame for code %d at the moment the first request with that code arrived on another connection: %d of the %d wait frames never got their response although %d requests with code %d were served afterwards (5 s)", c.Waiters, x, c.Waiters-got, c.Waiters, served, x)
			}
			_ = req.SetWriteDeadline(time.Now().Add(20 * time.Second))
			if werr := wfWrite(req, []byte{byte(x)}); werr != nil {
				return out, vh.Errf("code %d: writing the request failed (wait frames for that code are parked on %d other connection(s)): %v", x, c.Waiters-got, werr)
			}
			_ = req.SetReadDeadline(time.Now().Add(20 * time.Second))
			if _, rerr := wfRead(req); rerr != nil {
				return out, vh.Errf("code %d: the request with that code got no response within 20 s while wait frames for it are parked on %d other connection(s): %v", x, c.Waiters-got, rerr)
			}
			served++
			time.Sleep(50 * time.Microsecond)
		}
	}
	return out, nil
}

func TestC12WaitFirstUse(t *testing.T) {
	vh.Run(t, vh.Spec[WaitCase]{Property: "C12", Name: "TestC12WaitFirstUse", Journal: true,
		Rule: "a fresh remote-mode server (real shim agent over a keyring) serving 2..4 connections (unix socket pairs or in-memory pipes); for each of the 31 codes below 40 whose one-byte request is answered at once, in drawn order and each used for the first time on that server: 1..3 connections send the wait frame (35, code) at the same moment as another connection sends the first request with that code, which then keeps being sent until every wait frame has its response. Oracle: every request frame gets a response, every wait frame gets its response within 5 s of continuous serving of the awaited code. Non-trivial: every case.",
		Gen: func(t *rapid.T) WaitCase {
			return WaitCase{Codes: rapid.Permutation(quickCodes).Draw(t, "codes"), Waiters: rapid.IntRange(1, 3).Draw(t, "waiters"), Pipe: rapid.Bool().Draw(t, "pipe")}
		}, Exec: execWait})
}
