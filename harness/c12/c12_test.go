// C12 — the agent server survives any byte stream and answers each request once.
package c12

import (
	"bytes"
	"crypto/rand"
	"encoding/binary"
	"fmt"
	"io"
	"runtime"
	"testing"
	"time"

	"github.com/theparanoids/ysshra/agent/yubiagent"
	"github.com/theparanoids/ysshra/zzverif/vh"
	"golang.org/x/crypto/ssh"
	"golang.org/x/crypto/ssh/agent"
	"pgregory.net/rapid"
)

type StreamCase struct {
	Frames [][]byte
	Kinds  []string
	// Tail: clean | trunclen | truncbody | oversize
	Tail      string
	TailBytes []byte
	// Fail makes the served agent fail every call with this text.
	Fail string
	// Real serves the real NewServer(remote=true) over shim + proxy instead of the recording agent.
	Real bool
}

func (c StreamCase) stream() []byte {
	var b bytes.Buffer
	for _, f := range c.Frames {
		var l [4]byte
		binary.BigEndian.PutUint32(l[:], uint32(len(f)))
		b.Write(l[:])
		b.Write(f)
	}
	b.Write(c.TailBytes)
	return b.Bytes()
}

type rw struct {
	in  *bytes.Reader
	out bytes.Buffer
}

func (r *rw) Read(p []byte) (int, error)  { return r.in.Read(p) }
func (r *rw) Write(p []byte) (int, error) { return r.out.Write(p) }

func sshString(b []byte) []byte {
	out := make([]byte, 4+len(b))
	binary.BigEndian.PutUint32(out, uint32(len(b)))
	copy(out[4:], b)
	return out
}

var certCache = map[string]*ssh.Certificate{}

func poolCert(key string) *ssh.Certificate {
	if c, ok := certCache[key]; ok {
		return c
	}
	a := vh.KeyIDAttrs{Prins: []string{"user_a"}, TransID: "22dde224", ReqUser: "user_a", ReqIP: "1.1.1.1", ReqHost: "host", HW: true, Touch: 3, Version: 1}
	c := vh.MakeSSHCert(vh.SSHCertSpec{Key: key, KeyID: a.Text(), ValidAfter: 0, ValidBefore: ssh.CertTimeInfinity, Principals: []string{"user_a"}, Serial: 7})
	certCache[key] = c
	return c
}

// variantCert: certificates whose KeyID, type and window differ from the usual one (the frame only
// carries them: whatever they say, the frame is well-formed and gets its one response)
func variantCert(key string, v int) *ssh.Certificate {
	ck := fmt.Sprintf("%s/v%d", key, v)
	if c, ok := certCache[ck]; ok {
		return c
	}
	a := vh.KeyIDAttrs{Prins: []string{"user_a"}, TransID: "22dde224", ReqUser: "user_a", ReqIP: "1.1.1.1", ReqHost: "host", HW: true, Touch: 1, Version: 1}
	spec := vh.SSHCertSpec{Key: key, ValidAfter: 0, ValidBefore: ssh.CertTimeInfinity, Principals: []string{"user_a"}, Serial: uint64(100 + v)}
	switch v {
	case 0:
		a.Touch = 4
	case 1:
		a.Touch = 7
	case 2:
		a.Touch = -1
	case 3:
		a.Touch = 1 << 40
	case 4:
		a.Usage = 1 << 40
	case 5:
		a.HW, a.Touch = false, 0
	case 6:
		a.FF, a.Touch = true, 0
	case 7:
		a.Nonce, a.HW = true, false
	case 8:
		a.Version = 2
	case 9:
		a.Prins, a.PrinsNil = nil, true
	case 10:
		spec.ValidBefore = 1000 // expired long ago
	case 16:
		spec.ValidAfter = uint64(time.Now().Unix()) + 3600 // not valid yet (a CA whose clock runs ahead)
	case 17:
		spec.ValidAfter, spec.ValidBefore = uint64(time.Now().Unix())+90, uint64(time.Now().Unix())+7200
	case 18:
		spec.ValidAfter, spec.ValidBefore = 1<<63+5, ssh.CertTimeInfinity // a window that starts beyond the signed range
	case 11:
		spec.Host = true
	}
	spec.KeyID = a.Text()
	switch v {
	case 12:
		spec.KeyID = "free text key id"
	case 13:
		spec.KeyID = ""
	case 14:
		spec.KeyID = a.Text() + "}"
	case 15:
		spec.CritOpts = map[string]string{"touchless-sudo-hosts": "a.example.com"}
	}
	c := vh.MakeSSHCert(spec)
	certCache[ck] = c
	return c
}

func genBlob(t *rapid.T, label string, damaged bool) []byte {
	// the key the real server's underlying agent holds is drawn as often as all the others together
	k := rapid.SampledFrom(append(append([]string{}, vh.SSHKeyNames...), "ed25519c", "ed25519c", "ed25519c", "ed25519c", "ed25519c", "ed25519c")).Draw(t, label+"Key")
	if !damaged && rapid.IntRange(0, 2).Draw(t, label+"Variant") == 1 {
		return variantCert(k, rapid.IntRange(0, 18).Draw(t, label+"VariantKind")).Marshal()
	}
	kind := rapid.IntRange(3, 5).Draw(t, label+"Kind")
	if damaged {
		kind = rapid.IntRange(1, 2).Draw(t, label+"DKind")
	} else if kind == 3 {
		kind = 0
	}
	switch kind {
	case 0:
		return vh.SSHPub(k).Marshal()
	case 1: // damaged
		b := append([]byte{}, poolCert(k).Marshal()...)
		b[rapid.IntRange(0, len(b)-1).Draw(t, label+"Pos")] ^= byte(1 << rapid.IntRange(0, 7).Draw(t, label+"Bit"))
		return b
	case 2:
		b := poolCert(k).Marshal()
		return b[:rapid.IntRange(0, len(b)-1).Draw(t, label+"Cut")]
	default:
		return poolCert(k).Marshal()
	}
}

func genFrame(t *rapid.T, label string, real bool) ([]byte, string) {
	good := []string{"addhard-new", "addhard-legacy", "listslots", "readslot", "attestslot", "wait", "list", "listv1", "sign", "add", "addconstrained", "remove", "removeall", "lock", "unlock", "std-truncated", "unknown", "unknown", "len2", "extension"}
	bad := []string{"addhard-junk", "len0", "len1", "len1", "addhard-new", "addhard-legacy", "add-short-constraint", "add-short-constraint", "length-edit", "length-edit"}
	kinds := good
	isBad := rapid.IntRange(0, 9).Draw(t, label+"Bad") == 0
	if isBad {
		kinds = bad
	}
	k := rapid.SampledFrom(kinds).Draw(t, label+"K")
	key := rapid.SampledFrom(vh.SSHKeyNames).Draw(t, label+"PK")
	switch k {
	case "addhard-new":
		comment := rapid.SampledFrom([]string{"", "yubikey", "é 日本", "SUCCESS", "x\x00y"}).Draw(t, label+"C")
		return append(append([]byte{31}, sshString(genBlob(t, label+"B", isBad))...), sshString([]byte(comment))...), k
	case "addhard-legacy":
		return append([]byte{31}, genBlob(t, label+"B", isBad)...), k
	case "length-edit":
		// a well-formed structured request with one of its inner length fields overwritten by a boundary value
		var f []byte
		switch rapid.IntRange(0, 3).Draw(t, label+"LEBase") {
		case 0:
			f = append(append([]byte{31}, sshString(genBlob(t, label+"B", false))...), sshString([]byte("yubikey"))...)
		case 1:
			f = append(append(append([]byte{13}, sshString(vh.SSHPub(key).Marshal())...), sshString([]byte("data"))...), 0, 0, 0, 0)
		case 2:
			f = append([]byte{18}, sshString(vh.SSHPub(key).Marshal())...)
		default:
			f = append([]byte{22}, sshString([]byte("passphrase"))...)
		}
		var fields []int
		for off := 1; off+4 <= len(f); {
			fields = append(fields, off)
			n := int(f[off])<<24 | int(f[off+1])<<16 | int(f[off+2])<<8 | int(f[off+3])
			if n < 0 || off+4+n > len(f) {
				break
			}
			off += 4 + n
		}
		if len(fields) > 0 {
			at := fields[rapid.IntRange(0, len(fields)-1).Draw(t, label+"LEField")]
			old := uint32(f[at])<<24 | uint32(f[at+1])<<16 | uint32(f[at+2])<<8 | uint32(f[at+3])
			v := rapid.SampledFrom([]uint32{0xffffffff, 0xfffffffe, 0xfffffffd, 0xfffffffc, 0xfffffffb, 0x80000000, 0x7fffffff, 0x01000000, old + 1, old - 1, 0}).Draw(t, label+"LEValue")
			f[at], f[at+1], f[at+2], f[at+3] = byte(v>>24), byte(v>>16), byte(v>>8), byte(v)
		}
		return f, k
	case "addhard-junk":
		return append([]byte{31}, rapid.SliceOfN(rapid.Byte(), 0, 40).Draw(t, label+"J")...), k
	case "listslots":
		return append([]byte{32}, rapid.SliceOfN(rapid.Byte(), 0, 4).Draw(t, label+"X")...), k
	case "readslot", "attestslot":
		code := byte(33)
		if k == "attestslot" {
			code = 34
		}
		return append([]byte{code}, []byte(rapid.SampledFrom([]string{"9a", "9e", "f9", "", "82", "9a 9c", "日本", "-s", "9a\x00"}).Draw(t, label+"S"))...), k
	case "wait":
		lo := 0
		if real {
			lo = 40 // codes below 40 block until a matching request arrives (C20 owns that)
		}
		code := byte(rapid.IntRange(lo, 255).Draw(t, label+"W"))
		return append([]byte{35, code}, rapid.SliceOfN(rapid.Byte(), 0, 3).Draw(t, label+"X")...), k
	case "list":
		return []byte{11}, k
	case "listv1":
		return []byte{1}, k
	case "sign":
		data := rapid.SliceOfN(rapid.Byte(), 0, 64).Draw(t, label+"D")
		// the key blob names a plain key or (a third) a certificate - valid, expired, not valid yet, ... (genBlob)
		blob := vh.SSHPub(key).Marshal()
		if rapid.IntRange(0, 2).Draw(t, label+"SignCert") == 0 {
			blob = genBlob(t, label+"SB", false)
		}
		f := append([]byte{13}, sshString(blob)...)
		f = append(f, sshString(data)...)
		var fl [4]byte
		binary.BigEndian.PutUint32(fl[:], uint32(rapid.SampledFrom([]int{0, 2, 4}).Draw(t, label+"F")))
		return append(f, fl[:]...), k
	case "add", "addconstrained":
		return buildAdd(k == "addconstrained", rapid.Uint32Range(0, 100000).Draw(t, label+"L")), k
	case "add-short-constraint":
		// a constrained add whose lifetime constraint is cut short (1..4 bytes missing)
		if rapid.Bool().Draw(t, label+"Plain") {
			// a plain add-identity request (code 17) followed by the beginning of a constraint
			f := buildAdd(false, 0)
			tail := rapid.SampledFrom([][]byte{{1}, {1, 0}, {1, 0, 0}, {1, 0, 0, 0}, {2, 1}, {2, 1, 0, 0}, {2, 2, 1, 0}}).Draw(t, label+"Tail")
			return append(f, tail...), k
		}
		f := buildAdd(true, rapid.Uint32Range(0, 100000).Draw(t, label+"L"))
		cut := rapid.IntRange(1, 4).Draw(t, label+"Cut")
		if len(f) > cut+2 {
			f = f[:len(f)-cut]
		}
		return f, k
	case "remove":
		return append([]byte{18}, sshString(vh.SSHPub(key).Marshal())...), k
	case "removeall":
		return []byte{19}, k
	case "lock", "unlock":
		code := byte(22)
		if k == "unlock" {
			code = 23
		}
		return append([]byte{code}, sshString([]byte(rapid.SampledFrom([]string{"", "pw", "other"}).Draw(t, label+"P")))...), k
	case "std-truncated":
		code := byte(rapid.SampledFrom([]int{1, 11, 13, 17, 18, 19, 22, 23, 25}).Draw(t, label+"SC"))
		return append([]byte{code}, rapid.SliceOfN(rapid.Byte(), 0, 12).Draw(t, label+"X")...), k
	case "unknown":
		code := byte(rapid.SampledFrom([]int{0, 2, 3, 4, 5, 6, 7, 8, 9, 10, 12, 14, 20, 21, 24, 26, 28, 29, 30, 36, 39, 40, 100, 200, 254, 255}).Draw(t, label+"UC"))
		return append([]byte{code}, rapid.SliceOfN(rapid.Byte(), 0, 40).Draw(t, label+"X")...), k
	case "extension":
		return append(append([]byte{27}, sshString([]byte("verif@harness"))...), rapid.SliceOfN(rapid.Byte(), 0, 16).Draw(t, label+"X")...), k
	case "len0":
		return []byte{}, k
	case "len1":
		return []byte{byte(rapid.IntRange(0, 255).Draw(t, label+"C1"))}, k
	default: // len2
		return []byte{byte(rapid.IntRange(0, 255).Draw(t, label+"C1")), byte(rapid.IntRange(0, 255).Draw(t, label+"C2"))}, "len2"
	}
}

// buildAdd produces a well-formed add-identity request by running the library client against a recorder.
func buildAdd(constrained bool, lifetime uint32) []byte {
	var captured []byte
	c1 := &captureConn{reply: []byte{0, 0, 0, 1, 6}}
	cl := agent.NewClient(c1)
	ak := agent.AddedKey{PrivateKey: vh.Key("ed25519b"), Comment: "verif"}
	if constrained {
		ak.LifetimeSecs = lifetime + 1
	}
	_ = cl.Add(ak)
	captured = c1.written.Bytes()
	if len(captured) < 5 {
		return []byte{17}
	}
	return captured[4:]
}

type captureConn struct {
	written bytes.Buffer
	reply   []byte
	off     int
}

func (c *captureConn) Write(p []byte) (int, error) { return c.written.Write(p) }
func (c *captureConn) Read(p []byte) (int, error) {
	if c.off >= len(c.reply) {
		return 0, io.EOF
	}
	n := copy(p, c.reply[c.off:])
	c.off += n
	return n, nil
}

func genStream(real bool) func(t *rapid.T) StreamCase {
	return func(t *rapid.T) StreamCase {
		c := StreamCase{Real: real}
		n := rapid.IntRange(0, 8).Draw(t, "nframes")
		for i := 0; i < n; i++ {
			f, k := genFrame(t, fmt.Sprintf("f%d", i), real)
			if i > 0 && rapid.IntRange(0, 4).Draw(t, fmt.Sprintf("f%dRepeat", i)) == 2 {
				// the same request once more (a client that retries, registers a certificate again after a lock, ...)
				j := rapid.IntRange(0, i-1).Draw(t, fmt.Sprintf("f%dRepeatOf", i))
				f, k = append([]byte{}, c.Frames[j]...), c.Kinds[j]
			}
			if real && len(f) >= 2 && f[0] == 35 && f[1] < 40 {
				f[1] += 40 // a real wait on a code below 40 blocks until a matching request arrives (C20 owns that)
			}
			c.Frames = append(c.Frames, f)
			c.Kinds = append(c.Kinds, k)
		}
		if !real && rapid.IntRange(0, 3).Draw(t, "fail") == 0 {
			c.Fail = rapid.SampledFrom([]string{"boom", "agent: key not found", "é", "EOF", "EOF", "unexpected EOF"}).Draw(t, "failText")
		}
		c.Tail = rapid.SampledFrom([]string{"clean", "clean", "clean", "trunclen", "truncbody", "oversize"}).Draw(t, "tail")
		switch c.Tail {
		case "trunclen":
			c.TailBytes = rapid.SliceOfN(rapid.Byte(), 1, 3).Draw(t, "tailLen")
		case "truncbody":
			decl := rapid.SampledFrom([]uint32{1, 2, 100, 70000}).Draw(t, "decl")
			have := rapid.IntRange(0, int(min(decl-1, 50))).Draw(t, "have")
			c.TailBytes = make([]byte, 4+have)
			binary.BigEndian.PutUint32(c.TailBytes, decl)
			for i := 0; i < have; i++ {
				c.TailBytes[4+i] = byte(11 + i)
			}
		case "oversize":
			decl := rapid.SampledFrom([]uint32{16<<20 + 1, 1 << 31, 1<<32 - 1, 1 << 30}).Draw(t, "decl")
			c.TailBytes = make([]byte, 4, 8)
			binary.BigEndian.PutUint32(c.TailBytes, decl)
			c.TailBytes = append(c.TailBytes, rapid.SliceOfN(rapid.Byte(), 0, 4).Draw(t, "tailExtra")...)
		}
		return c
	}
}

// splitFrames parses a byte stream of complete frames.
func splitFrames(b []byte) (frames [][]byte, ok bool) {
	for len(b) > 0 {
		if len(b) < 4 {
			return frames, false
		}
		l := int(binary.BigEndian.Uint32(b))
		if len(b) < 4+l {
			return frames, false
		}
		frames = append(frames, b[4:4+l])
		b = b[4+l:]
	}
	return frames, true
}

// parseNewAddHard parses [31][string blob][string comment] exactly.
func parseNewAddHard(req []byte) (blob []byte, comment string, ok bool) {
	b := req[1:]
	if len(b) < 4 {
		return nil, "", false
	}
	l := int(binary.BigEndian.Uint32(b))
	if l > len(b)-4 {
		return nil, "", false
	}
	blob, b = b[4:4+l], b[4+l:]
	if len(b) < 4 {
		return nil, "", false
	}
	l = int(binary.BigEndian.Uint32(b))
	if l != len(b)-4 {
		return nil, "", false
	}
	return blob, string(b[4:]), true
}

// classify decides whether a frame must be answered exactly once ("must") or may also end the
// connection with an error ("may").
var wellFormedStd = map[string]bool{"list": true, "listv1": true, "sign": true, "add": true, "addconstrained": true, "remove": true, "removeall": true, "lock": true, "unlock": true}

func classify(req []byte, fail bool, kind string) string {
	if len(req) == 0 {
		return "may"
	}
	switch req[0] {
	case 31:
		if _, err := ssh.ParsePublicKey(req[1:]); err == nil {
			return "must"
		}
		if blob, _, ok := parseNewAddHard(req); ok {
			if _, err := ssh.ParsePublicKey(blob); err == nil {
				return "must"
			}
		}
		return "may"
	case 32, 33, 34:
		return "must"
	case 35:
		if len(req) >= 2 {
			return "must"
		}
		return "may"
	case 1, 11, 13, 17, 18, 19, 22, 23, 25:
		// requests built by the library client (or consisting of the code alone where that is the whole
		// request) are well-formed; other bodies are answered with a failure or end the connection
		if wellFormedStd[kind] || (len(req) == 1 && (req[0] == 1 || req[0] == 11 || req[0] == 19)) {
			return "must"
		}
		return "may"
	}
	if fail {
		return "may" // a failing Forward ends the connection
	}
	return "must"
}

func exec(c StreamCase) (vh.Outcome, error) {
	out := vh.Outcome{Classes: []string{"tail=" + c.Tail, fmt.Sprintf("real=%v", c.Real)}}
	wellFormed, malformed := 0, 0
	for i, f := range c.Frames {
		if classify(f, c.Fail != "", kindAt(c, i)) == "must" {
			wellFormed++
		} else {
			malformed++
		}
	}
	out.NonTrivial = (len(c.Frames) >= 2 && wellFormed >= 1 && malformed >= 1) || (c.Tail != "clean" && len(c.Frames) >= 1)

	var served yubiagent.YubiAgent
	var rec *vh.RecAgent
	if c.Real {
		p, err := vh.NewProxy()
		if err != nil {
			return out, nil
		}
		defer p.Close()
		_ = p.Ring().Add(agent.AddedKey{PrivateKey: vh.Key("ed25519c"), Comment: "k"})
		srv, err := yubiagent.NewServer(p.Path, true)
		if err != nil {
			return out, vh.Errf("NewServer(remote) failed: %v", err)
		}
		defer srv.Close()
		served = srv
	} else {
		def := vh.Script{Err: c.Fail, Sig: &ssh.Signature{Format: ssh.KeyAlgoED25519, Blob: bytes.Repeat([]byte{7}, 64)}, Slots: []string{"9a", "9e"}}
		rec = vh.NewRecAgent(def)
		served = rec
	}

	conn := &rw{in: bytes.NewReader(c.stream())}
	var ret error
	var m0, m1 runtime.MemStats
	if c.Tail == "oversize" {
		runtime.ReadMemStats(&m0)
	}
	if perr := vh.Catch(func() { ret = yubiagent.ServeAgent(served, conn) }); perr != nil {
		return out, vh.Errf("ServeAgent crashed on a stream of %d frames %v (tail %s): %v", len(c.Frames), c.Kinds, c.Tail, perr)
	}
	if c.Tail == "oversize" {
		runtime.ReadMemStats(&m1)
		if grow := m1.TotalAlloc - m0.TotalAlloc; grow > 8<<20 {
			return out, vh.Errf("ServeAgent allocated %d bytes while refusing a frame declared as %d bytes", grow, binary.BigEndian.Uint32(c.TailBytes))
		}
	}
	replies, ok := splitFrames(conn.out.Bytes())
	if !ok {
		return out, vh.Errf("the bytes written to the connection are not a sequence of frames: %x", conn.out.Bytes())
	}
	var calls []vh.Call
	if rec != nil {
		calls = rec.Take()
		if cerr := rec.Corrupted(); cerr != nil {
			return out, vh.Errf("after the stream was served: %v", cerr)
		}
	}
	ci := 0
	nextCall := func(op string) *vh.Call {
		for ci < len(calls) {
			cl := &calls[ci]
			ci++
			if cl.Op == op {
				return cl
			}
		}
		return nil
	}
	ri := 0
	ended := false
	for i, f := range c.Frames {
		cls := classify(f, c.Fail != "", kindAt(c, i))
		if ri >= len(replies) {
			if cls == "must" {
				return out, vh.Errf("frame %d (%s, %d bytes, code %v) got no response; %d responses for %d frames; ServeAgent returned %v", i, c.Kinds[i], len(f), codeOf(f), len(replies), len(c.Frames), ret)
			}
			ended = true
			break
		}
		r := replies[ri]
		ri++
		if cls == "may" || c.Real {
			continue
		}
		// content of the response (recording agent)
		switch f[0] {
		case 31:
			want := "SUCCESS"
			if c.Fail != "" {
				want = c.Fail
			}
			if string(r) != want {
				return out, vh.Errf("frame %d (%s): response %q, expected %q", i, c.Kinds[i], r, want)
			}
			cl := nextCall("addhard")
			blob, comment := f[1:], ""
			pk, err := ssh.ParsePublicKey(blob)
			if err != nil {
				blob, comment, _ = parseNewAddHard(f)
				pk, _ = ssh.ParsePublicKey(blob)
			}
			if cl == nil || pk == nil || !bytes.Equal(cl.KeyBlob, pk.Marshal()) || cl.Comment != comment {
				return out, vh.Errf("frame %d (%s): the served agent did not receive the key / comment of the request", i, c.Kinds[i])
			}
		case 32:
			var m struct {
				Slots []string
				Err   string
			}
			if err := ssh.Unmarshal(r, &m); err != nil || m.Err != c.Fail {
				return out, vh.Errf("frame %d (listslots): bad response %x (%v)", i, r, err)
			}
		case 33, 34:
			var m struct {
				Cert []byte
				Err  string
			}
			if err := ssh.Unmarshal(r, &m); err != nil {
				return out, vh.Errf("frame %d (%s): bad response %x (%v)", i, c.Kinds[i], r, err)
			}
			op := "readslot"
			if f[0] == 34 {
				op = "attestslot"
			}
			if cl := nextCall(op); cl == nil || cl.Slot != string(f[1:]) {
				return out, vh.Errf("frame %d (%s): the served agent did not receive slot %q", i, c.Kinds[i], f[1:])
			}
		case 35:
			want := "SUCCESS"
			if c.Fail != "" {
				want = c.Fail
			}
			if string(r) != want {
				return out, vh.Errf("frame %d (wait): response %q, expected %q", i, r, want)
			}
			if cl := nextCall("wait"); cl == nil || cl.Code != f[1] {
				return out, vh.Errf("frame %d (wait): the served agent did not receive code %d", i, f[1])
			}
		case 11:
			if len(r) < 1 || (r[0] != 12 && !(c.Fail != "" && r[0] == 5)) {
				return out, vh.Errf("frame %d (list): response code %v", i, codeOf(r))
			}
		case 1:
			if len(r) < 1 || r[0] != 2 {
				return out, vh.Errf("frame %d (v1 list): response code %v", i, codeOf(r))
			}
		case 13:
			if len(r) < 1 || (r[0] != 14 && r[0] != 5) {
				return out, vh.Errf("frame %d (sign): response code %v", i, codeOf(r))
			}
		case 17, 18, 19, 22, 23, 25:
			if len(r) != 1 || (r[0] != 6 && r[0] != 5) {
				return out, vh.Errf("frame %d (%s): response %x is neither success nor failure", i, c.Kinds[i], r)
			}
		default:
			want := append([]byte{vh.EchoMark}, f...)
			if !bytes.Equal(r, want) {
				return out, vh.Errf("frame %d (%s, code %d): forwarded reply differs from what the served agent returned", i, c.Kinds[i], f[0])
			}
			if cl := nextCall("forward"); cl == nil || !bytes.Equal(cl.Raw, f) {
				return out, vh.Errf("frame %d (%s): the served agent did not receive the raw request", i, c.Kinds[i])
			}
		}
	}
	if ri < len(replies) {
		return out, vh.Errf("%d responses for %d request frames (kinds %v): some request was answered more than once or something was written after the end", len(replies), len(c.Frames), c.Kinds)
	}
	if ended {
		out.Classes = append(out.Classes, "ended-early")
		if ret == nil {
			return out, vh.Errf("the connection stopped being served at a malformed frame but ServeAgent returned nil")
		}
		return out, nil
	}
	switch c.Tail {
	case "clean":
		if ret != nil {
			return out, vh.Errf("clean end of stream after %d frames %v returned an error: %v", len(c.Frames), c.Kinds, ret)
		}
	case "oversize", "trunclen", "truncbody":
		// a frame that is neither complete nor answered must end the connection with an error;
		// only an end of stream *between* frames is a clean end
		if ret == nil {
			return out, vh.Errf("tail %s (% x) ended service without an error", c.Tail, c.TailBytes)
		}
	}
	// whatever the frames were: a service that ends WITHOUT an error has answered every complete frame
	if ret == nil && len(replies) != len(c.Frames) {
		return out, vh.Errf("ServeAgent returned nil (everything served) but wrote %d responses for %d complete frames %v (served agent fails with %q): a frame was neither answered nor did it end the connection with an error", len(replies), len(c.Frames), c.Kinds, c.Fail)
	}
	return out, nil
}

func kindAt(c StreamCase, i int) string {
	if i < len(c.Kinds) {
		return c.Kinds[i]
	}
	return ""
}

func codeOf(b []byte) any {
	if len(b) == 0 {
		return "none"
	}
	return b[0]
}

const rule = "byte streams for ServeAgent over an in-memory connection: 0..8 frames from a grammar, a fifth of the later frames a verbatim repeat of an earlier one (add-hardware-certificate in the new and the legacy encoding with real, bit-flipped and truncated key / certificate blobs - the certificates with the usual KeyID or with 19 variants (touch policy 4 / 7 / -1 / 2^40, large usage, other flag sets, version 2, null principals, free text, empty, a trailer, expired, not yet valid - in an hour, in 90 s, beyond the signed range -, host certificate, critical option) -, junk; list slots; read / attest slot with slot names; wait with any code; the nine standard requests well-formed (built by the library client), truncated, with a lifetime constraint cut short, and with an inner length field overwritten by a boundary value (2^32-1..2^32-5, 2^31, 2^31-1, 2^24, the right value +-1, 0); unknown codes and extension with random bodies; frames of length 0, 1 and 2 with any code), followed by a clean end, a truncated length prefix, a truncated body or a declared length in {16 MiB+1, 2^30, 2^31, 2^32-1}; the served agent is a total recording agent that succeeds or fails every call with a text or with exactly io.EOF / io.ErrUnexpectedEOF. Oracle: the harness parses the stream itself; a well-formed frame gets exactly one response of the right kind (SUCCESS / error text, marshalled slot replies, standard reply code, byte-identical forwarded reply) with the arguments recorded by the served agent; a malformed frame is answered or ends the connection with a non-nil error; responses in request order; nothing after the end; clean end => nil; nil => as many responses as complete frames; truncated length prefix or truncated body (including a stream that ends right after a length prefix) => error; oversize => error and < 8 MiB allocated. Non-trivial: >= 2 frames mixing well-formed and malformed, or a non-clean tail after >= 1 frame."

func TestC12Stream(t *testing.T) {
	vh.Run(t, vh.Spec[StreamCase]{Property: "C12", Name: "TestC12Stream", Rule: rule, Gen: genStream(false), Exec: exec})
}

func TestC12StreamReal(t *testing.T) {
	vh.Run(t, vh.Spec[StreamCase]{Property: "C12", Name: "TestC12StreamReal",
		Rule: "the same grammar (wait codes >= 40 only, so nothing blocks) served by the real NewServer(remote=true) over shim agent + proxy + keyring; oracle: no crash, one response per well-formed frame, in order, nothing after the end, clean end => nil",
		Gen:  genStream(true), Exec: exec})
}

// TestC12ShortFrames enumerates frames of length 0, 1 and 2 for every code 0..255.
func TestC12ShortFrames(t *testing.T) {
	var cases []StreamCase
	cases = append(cases, StreamCase{Frames: [][]byte{{}}, Kinds: []string{"len0"}, Tail: "clean"})
	for code := 0; code < 256; code++ {
		cases = append(cases, StreamCase{Frames: [][]byte{{byte(code)}}, Kinds: []string{"len1"}, Tail: "clean"})
		cases = append(cases, StreamCase{Frames: [][]byte{{byte(code), 41}, {11}}, Kinds: []string{"len2", "list"}, Tail: "clean"})
		cases = append(cases, StreamCase{Frames: [][]byte{{11}, {byte(code)}, {}}, Kinds: []string{"list", "len1", "len0"}, Tail: "clean"})
	}
	vh.Enumerate(t, vh.Spec[StreamCase]{Property: "C12", Name: "TestC12ShortFrames", Exhaustive: true,
		Rule: "for every message code 0..255: a 1-byte frame alone, a 2-byte frame followed by a list request, and list + 1-byte frame + 0-length frame; plus the 0-length frame alone (769 streams); same oracle",
		Exec: exec}, cases)
}

// TestC12Sizes sweeps request and reply sizes: a forwarded request of n body bytes (reply n+2 bytes), a
// well-formed sign request carrying n data bytes and a wait request padded to n bytes, each followed by
// a list request whose answer shows that the framing is still intact.
func TestC12Sizes(t *testing.T) {
	var cases []StreamCase
	sizes := []int{}
	for n := 0; n <= 700; n++ {
		sizes = append(sizes, n)
	}
	sizes = append(sizes, 1023, 1024, 1025, 4095, 4096, 4097, 16383, 16384, 65535, 65536, 65537, 1<<20 - 1, 1 << 20)
	pub := vh.SSHPub("ed25519c").Marshal()
	for _, n := range sizes {
		body := make([]byte, n)
		for i := range body {
			body[i] = byte(i*7 + n)
		}
		unknown := append([]byte{200}, body...)
		sign := append(append([]byte{13}, sshString(pub)...), sshString(body)...)
		sign = append(sign, 0, 0, 0, 0)
		cases = append(cases, StreamCase{Frames: [][]byte{unknown, {11}, sign, {11}}, Kinds: []string{"unknown", "list", "sign", "list"}, Tail: "clean"})
	}
	// the largest legal frames: payloads of 16 MiB - 5 .. 16 MiB exactly (sign request with that much
	// data; lock request with that long a passphrase), each followed by a list request
	for p := 16<<20 - 5; p <= 16<<20; p++ {
		data := bytes.Repeat([]byte{byte(p)}, p-(1+4+len(pub)+4+4))
		sign := append(append([]byte{13}, sshString(pub)...), sshString(data)...)
		sign = append(sign, 0, 0, 0, 0)
		lock := append([]byte{22}, sshString(bytes.Repeat([]byte{'p'}, p-5))...)
		cases = append(cases, StreamCase{Frames: [][]byte{sign, {11}, lock, {11}}, Kinds: []string{"sign", "list", "lock", "list"}, Tail: "clean"})
	}
	vh.Enumerate(t, vh.Spec[StreamCase]{Property: "C12", Name: "TestC12Sizes", Exhaustive: true,
		Rule: "for every size n in 0..700 and around 1 KiB, 4 KiB, 16 KiB, 64 KiB, 1 MiB: a forwarded request with n body bytes (echoed: reply of n+2 bytes), a list request, a well-formed sign request with n data bytes, a list request; plus the largest legal frames (payload 16 MiB - 5 .. 16 MiB exactly: a sign request with that much data and a lock request with that long a passphrase, each followed by a list request); same oracle (byte-identical echo, one response each, in order)",
		Exec: exec}, cases)
}

// FuzzC12Stream: coverage-guided byte streams, same oracle (recording agent).
func FuzzC12Stream(f *testing.F) {
	seed := func(frames ...[]byte) []byte { return StreamCase{Frames: frames}.stream() }
	cert := poolCert("p256b").Marshal()
	f.Add(seed([]byte{11}))
	f.Add(seed(append(append([]byte{31}, sshString(cert)...), sshString([]byte("c"))...), []byte{32}, []byte{33, '9', 'a'}))
	f.Add(seed(append([]byte{31}, cert...), []byte{35, 41}, []byte{200, 1, 2, 3}))
	f.Add(seed(buildAdd(true, 10), []byte{19}, []byte{22, 0, 0, 0, 2, 'p', 'w'}))
	f.Add([]byte{0, 0, 0, 0})
	f.Add([]byte{0, 0, 0, 1, 35})
	f.Add([]byte{1, 0, 0, 1, 11})
	f.Fuzz(func(t *testing.T, b []byte) {
		c := StreamCase{Tail: "fuzz"}
		rest := b
		for len(rest) >= 4 {
			l := binary.BigEndian.Uint32(rest)
			if l > 16<<20 || int(l) > len(rest)-4 {
				break
			}
			c.Frames = append(c.Frames, rest[4:4+l])
			c.Kinds = append(c.Kinds, "fuzz")
			rest = rest[4+l:]
		}
		c.TailBytes = rest
		if len(rest) == 0 {
			c.Tail = "clean"
		} else if len(rest) >= 4 && binary.BigEndian.Uint32(rest) > 16<<20 {
			c.Tail = "oversize"
		} else if len(rest) < 4 {
			c.Tail = "trunclen"
		} else {
			c.Tail = "truncbody"
		}
		if _, err := exec(c); err != nil {
			t.Fatal(err)
		}
	})
}

var _ = rand.Reader
