package c12

// TestC12LocalSlots: the real server in LOCAL mode (the PIV tool is a stand-in on PATH whose result
// depends on the slot name) serves streams of slot requests, some of which make the tool fail.
// Every frame must still get its one response, in order, and the stream must end cleanly.

import (
	"bytes"
	"fmt"
	"os"
	"path/filepath"
	"sync"
	"testing"
	"time"

	"github.com/theparanoids/ysshra/agent/yubiagent"
	"github.com/theparanoids/ysshra/zzverif/vh"
	"golang.org/x/crypto/ssh/agent"
	"pgregory.net/rapid"
)

var (
	pivOnce sync.Once
	pivDir  string
)

// standInTool: "-a status" prints two slot lines; read-certificate / attest print a certificate for
// slots 9a, 9c, 9e, fail (exit 1) for slot names starting with "zz" and print garbage for "9d".
func standInTool() string {
	pivOnce.Do(func() {
		d, err := os.MkdirTemp("", "vpiv12")
		if err != nil {
			panic(err)
		}
		c, der, err := vh.MakeCert(vh.CertSpec{CN: "slot certificate", Key: "p256b", Serial: 5})
		_ = c
		if err != nil {
			panic(err)
		}
		os.WriteFile(filepath.Join(d, "cert.pem"), vh.PEMCert(der), 0o644)
		script := `#!/bin/sh
d=$(dirname "$0")
action=""; slot=""
while [ $# -gt 0 ]; do
  case "$1" in
    -a) action="$2"; shift;;
    -s) slot="$2"; shift;;
  esac
  shift
done
if [ "$action" = "status" ]; then printf 'Version: 5.4.3\nSlot 9a:\n\tAlgorithm: ECCP256\nSlot 9e:\n'; exit 0; fi
case "$slot" in
  zz*) echo "Failed to $action slot $slot" >&2; exit 1;;
  9d) echo "no certificate here"; exit 0;;
esac
cat "$d/cert.pem"
`
		if err := os.WriteFile(filepath.Join(d, "yubico-piv-tool"), []byte(script), 0o755); err != nil {
			panic(err)
		}
		os.Setenv("PATH", d+":"+os.Getenv("PATH"))
		pivDir = d
	})
	return pivDir
}

type LocalCase struct {
	// Frames: "list" | "read:<slot>" | "attest:<slot>" | "wait" | "unknown" | "agentlist"
	Frames []string
	Conns  int // the frames are dealt round-robin to this many connections of the one server, served one after another
}

func localFrame(s string) []byte {
	switch {
	case s == "list":
		return []byte{32}
	case s == "read:BIG":
		return append([]byte{33}, bytes.Repeat([]byte("a"), 200<<10)...)
	case s == "attest:BIG":
		return append([]byte{34}, bytes.Repeat([]byte("b"), 200<<10)...)
	case len(s) > 5 && s[:5] == "read:":
		return append([]byte{33}, s[5:]...)
	case len(s) > 7 && s[:7] == "attest:":
		return append([]byte{34}, s[7:]...)
	case s == "wait":
		return []byte{35, 200}
	case s == "agentlist":
		return []byte{11}
	}
	return []byte{210, 1, 2, 3}
}

func execLocal(c LocalCase) (vh.Outcome, error) {
	out := vh.Outcome{}
	standInTool()
	p, err := vh.NewProxy()
	if err != nil {
		return out, nil
	}
	defer p.Close()
	_ = p.Ring().Add(agent.AddedKey{PrivateKey: vh.Key("ed25519c"), Comment: "k"})
	srv, err := yubiagent.NewServer(p.Path, false)
	if err != nil {
		return out, vh.Errf("NewServer(local): %v", err)
	}
	defer srv.Close()
	conns := c.Conns
	if conns < 1 {
		conns = 1
	}
	failed, afterFail := false, false
	for _, f := range c.Frames {
		if failed && f != "wait" && f != "unknown" && f != "agentlist" {
			afterFail = true
		}
		if len(f) > 2 && (f[len(f)-2:] == "zz" || bytes.Contains([]byte(f), []byte(":zz"))) {
			failed = true
		}
	}
	out.NonTrivial = afterFail
	if afterFail {
		out.Classes = append(out.Classes, "slot-request-after-a-failed-one")
	}
	// reference answers of the good requests (fresh server, one request each) are not needed: the
	// responses of identical requests within one stream must be identical
	answers := map[string][]byte{}
	for ci := 0; ci < conns; ci++ {
		var frames []string
		for i, f := range c.Frames {
			if i%conns == ci {
				frames = append(frames, f)
			}
		}
		var stream bytes.Buffer
		for _, f := range frames {
			stream.Write(sshString(localFrame(f)))
		}
		conn := &rw{in: bytes.NewReader(stream.Bytes())}
		done := make(chan error, 1)
		go func() {
			var ret error
			if perr := vh.Catch(func() { ret = yubiagent.ServeAgent(srv, conn) }); perr != nil {
				ret = fmt.Errorf("CRASH: %v", perr)
			}
			done <- ret
		}()
		var ret error
		select {
		case ret = <-done:
		case <-time.After(30 * time.Second):
			return out, vh.Errf("connection %d: serving %d slot frames %v did not finish within 30 s (a request that never gets its response)", ci, len(frames), frames)
		}
		if ret != nil {
			return out, vh.Errf("connection %d: ServeAgent returned %v for well-formed frames %v", ci, ret, frames)
		}
		replies, ok := splitFrames(conn.out.Bytes())
		if !ok || len(replies) != len(frames) {
			return out, vh.Errf("connection %d: %d responses for %d well-formed frames %v", ci, len(replies), len(frames), frames)
		}
		for i, f := range frames {
			if prev, seen := answers[f]; seen && f != "wait" {
				if !bytes.Equal(prev, replies[i]) {
					return out, vh.Errf("connection %d: frame %d (%s) got another response than the same request earlier in the history (%d vs %d bytes): responses out of step", ci, i, f, len(replies[i]), len(prev))
				}
			}
			answers[f] = replies[i]
		}
	}
	// requests for working slots and failing slots must not get the same answer
	if a, ok := answers["read:9a"]; ok {
		if b, ok2 := answers["read:zz"]; ok2 && bytes.Equal(a, b) {
			return out, vh.Errf("reading a working slot and a failing slot got identical responses")
		}
	}
	return out, nil
}

func TestC12LocalSlots(t *testing.T) {
	kinds := []string{"list", "read:9a", "read:9e", "read:zz", "attest:9a", "attest:zz", "attest:zz1", "read:9d", "attest:9c", "wait", "unknown", "agentlist",
		// slot names the operating system refuses to pass to a program (a NUL byte; an argument of 200 KiB), option look-alikes, non-ASCII
		"read:9a\x00x", "attest:\x00", "read:BIG", "attest:BIG", "read:-a", "attest:--help", "read:日本"}
	vh.Run(t, vh.Spec[LocalCase]{Property: "C12", Name: "TestC12LocalSlots",
		Rule: "the real NewServer in local mode with a stand-in PIV tool (status prints two slots; read / attest print a certificate for slots 9a, 9c, 9e, garbage for 9d and fail with exit 1 for slot names starting with zz; slot names with a NUL byte or of 200 KiB cannot even be handed to a program by the operating system): streams of 1..10 slot requests mixed with wait (code >= 40), unknown and list-identities frames, dealt to 1..3 connections of the one server that are served one after another. Oracle: every connection ends without error within 30 s with exactly one response per frame; identical requests get identical responses throughout the history (a response out of step shows); working and failing slots are answered differently. Non-trivial: a slot request after one that made the tool fail.",
		Gen: func(t *rapid.T) LocalCase {
			n := rapid.IntRange(1, 10).Draw(t, "n")
			c := LocalCase{Conns: rapid.IntRange(1, 3).Draw(t, "conns")}
			for i := 0; i < n; i++ {
				c.Frames = append(c.Frames, rapid.SampledFrom(kinds).Draw(t, fmt.Sprintf("f%d", i)))
			}
			return c
		}, Exec: execLocal})
}
