package c12

// TestC12OwnerClose: the process that owns the agent calls Close (shutdown, re-exec) while a peer's
// connection is still being served. The frames that arrive afterwards are answered or end that
// connection with an error; they never crash the process.

import (
	"fmt"
	"io"
	stdlog "log"
	"testing"
	"time"

	"github.com/theparanoids/ysshra/agent/yubiagent"
	"github.com/theparanoids/ysshra/zzverif/vh"
	"golang.org/x/crypto/ssh/agent"
	"pgregory.net/rapid"
)

type OwnerCloseCase struct {
	Before [][]byte
	After  [][]byte
	Kinds  []string
	Closes int // number of Close calls (a second one is a repeated shutdown step)
}

func execOwnerClose(c OwnerCloseCase) (vh.Outcome, error) {
	out := vh.Outcome{NonTrivial: len(c.After) > 0}
	stdlog.SetOutput(io.Discard)
	p, err := vh.NewProxy()
	if err != nil {
		return out, nil
	}
	defer p.Close()
	_ = p.Ring().Add(agent.AddedKey{PrivateKey: vh.Key("ed25519c"), Comment: "k"})
	srv, err := yubiagent.NewServer(p.Path, true)
	if err != nil {
		return out, vh.Errf("NewServer(remote) failed: %v", err)
	}
	c1, c2, err := vh.SocketPair()
	if err != nil {
		return out, nil
	}
	defer c1.Close()
	done := make(chan error, 1)
	go func() {
		var serr error
		if perr := vh.Catch(func() { serr = yubiagent.ServeAgent(srv, c2) }); perr != nil {
			serr = fmt.Errorf("SERVER-CRASH: %v", perr)
		}
		c2.Close()
		done <- serr
	}()
	ended := false
	exchange := func(i int, f []byte, phase string) error {
		if ended {
			return nil
		}
		if werr := wfWrite(c1, f); werr != nil {
			ended = true
			return nil
		}
		got := make(chan error, 1)
		go func() { _, rerr := wfRead(c1); got <- rerr }()
		select {
		case rerr := <-got:
			if rerr != nil {
				ended = true
				select {
				case serr := <-done:
					if serr != nil && len(serr.Error()) > 12 && serr.Error()[:12] == "SERVER-CRASH" {
						return vh.Errf("frame %d (%s, code %d, %s): serving crashed: %v", i, c.Kinds[i], f[0], phase, serr)
					}
					if serr == nil {
						return vh.Errf("frame %d (%s, code %d, %s): the connection ended without a response and without an error", i, c.Kinds[i], f[0], phase)
					}
				case <-time.After(10 * time.Second):
					return vh.Errf("frame %d (%s, %s): no response, yet the serving loop did not return", i, c.Kinds[i], phase)
				}
			}
			return nil
		case <-time.After(20 * time.Second):
			return vh.Errf("frame %d (%s, code %d, %s): neither a response nor the end of the connection within 20 s", i, c.Kinds[i], f[0], phase)
		}
	}
	for i, f := range c.Before {
		if e := exchange(i, f, "before Close"); e != nil {
			return out, e
		}
	}
	for k := 0; k < c.Closes; k++ {
		if perr := vh.Catch(func() { _ = srv.Close() }); perr != nil {
			return out, vh.Errf("Close call %d crashed: %v", k+1, perr)
		}
	}
	for j, f := range c.After {
		if e := exchange(len(c.Before)+j, f, fmt.Sprintf("after %d Close call(s) by the owner", c.Closes)); e != nil {
			return out, e
		}
	}
	return out, nil
}

func TestC12OwnerClose(t *testing.T) {
	vh.Run(t, vh.Spec[OwnerCloseCase]{Property: "C12", Name: "TestC12OwnerClose", Journal: true,
		Rule: "the real NewServer(remote=true) over shim agent + proxy + keyring serves one connection: 0..4 well-formed session frames (TestC12Sessions' alphabet: add-hardware-certificate in both encodings, lock / unlock, list, sign, remove, remove-all, extension, unknown codes, list-slots) are exchanged, then the owner of the agent calls Close once or twice, then 1..6 further frames arrive one at a time. Oracle per frame: a response arrives, or the connection ends and the serving loop returns a non-nil error; never a crash (each case is journaled first), never silence. Non-trivial: every case",
		Gen: func(t *rapid.T) OwnerCloseCase {
			c := OwnerCloseCase{Closes: rapid.SampledFrom([]int{1, 1, 2}).Draw(t, "closes")}
			nb, na := rapid.IntRange(0, 4).Draw(t, "before"), rapid.IntRange(1, 6).Draw(t, "after")
			for i := 0; i < nb+na; i++ {
				f, k := sessionFrame(t, fmt.Sprintf("f%d", i))
				if k == "lock" {
					f, k = []byte{11}, "list" // a locked agent refuses Close: that is C08's subject
				}
				if i < nb {
					c.Before = append(c.Before, f)
				} else {
					c.After = append(c.After, f)
				}
				c.Kinds = append(c.Kinds, k)
			}
			return c
		}, Exec: execOwnerClose})
}
