package c13

// TestC13Repeats: the same operation again and again on one connection - refused by the served agent four
// times, then accepted twice. Every single call reaches the served agent with its arguments and comes back
// with that call's result: the extended interface keeps no memory of earlier refusals.

import (
	"testing"

	"github.com/theparanoids/ysshra/zzverif/vh"
)

func TestC13Repeats(t *testing.T) {
	base := []COp{
		{Kind: "unlock", Pass: []byte("pw")}, {Kind: "lock", Pass: []byte("pw")}, {Kind: "removeall"}, {Kind: "list"}, {Kind: "signers"},
		{Kind: "listslots", Slots: []string{"9a", "9c"}}, {Kind: "readslot", Slot: "9a"}, {Kind: "attestslot", Slot: "9c"}, {Kind: "wait", Code: 200},
		{Kind: "remove", Key: "ed25519c"}, {Kind: "add", Key: "ed25519c", Comment: "c"}, {Kind: "addhard", Key: "p256b", UseCert: true, Comment: "9a"},
		{Kind: "sign", Key: "ed25519c", DataLen: 16},
	}
	var cases []SeqCase
	for _, b := range base {
		for _, byAddr := range []bool{false, true} {
			c := SeqCase{ByAddress: byAddr}
			for i := 0; i < 6; i++ {
				o := b
				if i < 4 {
					o.Err = []string{"boom", "agent: failure", "refused", "agent: locked"}[i]
				}
				c.Ops = append(c.Ops, o)
			}
			cases = append(cases, c)
		}
	}
	vh.Enumerate(t, vh.Spec[SeqCase]{Property: "C13", Name: "TestC13Repeats", Exhaustive: true, Journal: true,
		Rule: "for each of unlock, lock, remove-all, list, signers, list-slots, read-slot, attest-slot, wait, remove, add, add-hardware-certificate, sign: six identical calls on one connection (socket pair, or a client built by address), the served agent refusing the first four (four different error texts) and accepting the last two (26 sequences; a refused raw forward or extension ends the connection, so those are not repeated). Oracle: TestC13Client's - every call reaches the served agent with the same arguments, a refusal is reported as an error, an acceptance as its result",
		Exec: execSeq}, cases)
}
