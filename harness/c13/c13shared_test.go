package c13

// TestC13SharedClient: one client object used by several goroutines at once (an ssh client library
// does that: one goroutine lists and signs while another waits or asks for slots). Every call still
// gets the result of its own request.

import (
	"bytes"
	"fmt"
	"sync"
	"testing"
	"time"

	"github.com/theparanoids/ysshra/agent/yubiagent"
	"github.com/theparanoids/ysshra/zzverif/vh"
	"golang.org/x/crypto/ssh"
	"golang.org/x/crypto/ssh/agent"
)

type SharedCase struct {
	// Pairs of operation groups run side by side on ONE client, each in its own world: "<a>+<b>"
	Pairs []string
	Calls int
}

func sharedPair(pair string, calls int) error {
	var a, b string
	if n, _ := fmt.Sscanf(replacePlus(pair), "%s %s", &a, &b); n != 2 {
		return nil
	}
	pub := vh.SSHPub("ed25519c")
	sig := &ssh.Signature{Format: ssh.KeyAlgoED25519, Blob: bytes.Repeat([]byte{7}, 64)}
	xc := x509Pool()[1]
	rec := vh.NewRecAgent(vh.Script{Sig: sig, Slots: []string{"9a", "9c"}, Cert: xc, Keys: []*agent.Key{{Format: pub.Type(), Blob: pub.Marshal(), Comment: "k"}}})
	c1, c2, err := vh.SocketPair()
	if err != nil {
		return nil
	}
	defer c1.Close()
	go func() {
		_ = vh.Catch(func() { _ = yubiagent.ServeAgent(rec, c2) })
		c2.Close()
	}()
	cl, err := yubiagent.NewClientFromConn(c1)
	if err != nil {
		return vh.Errf("NewClientFromConn: %v", err)
	}
	one := func(op string, i int) error {
		switch op {
		case "list":
			ks, e := cl.List()
			if e != nil || len(ks) != 1 || !bytes.Equal(ks[0].Blob, pub.Marshal()) {
				return vh.Errf("list #%d returned %d keys, %v (the served agent lists one key)", i, len(ks), e)
			}
		case "sign":
			s, e := cl.Sign(pub, []byte(fmt.Sprintf("data %d", i)))
			if e != nil || s == nil || !bytes.Equal(s.Blob, sig.Blob) {
				return vh.Errf("sign #%d returned %v, %v (the served agent signs)", i, s, e)
			}
		case "listslots":
			sl, e := cl.ListSlots()
			if e != nil || fmt.Sprint(sl) != "[9a 9c]" {
				return vh.Errf("listslots #%d returned %v, %v (the served agent lists [9a 9c])", i, sl, e)
			}
		case "readslot":
			x, e := cl.ReadSlot("9a")
			if e != nil || x == nil || !bytes.Equal(x.Raw, xc.Raw) {
				return vh.Errf("readslot #%d returned another certificate or an error: %v", i, e)
			}
		case "wait":
			if e := cl.Wait(200); e != nil {
				return vh.Errf("wait #%d failed: %v", i, e)
			}
		case "forward":
			body := append([]byte{200}, []byte(fmt.Sprintf("shared/%s/%d", pair, i))...)
			rep, e := cl.Forward(body)
			if e != nil || !bytes.Equal(rep, append([]byte{vh.EchoMark}, body...)) {
				return vh.Errf("forward #%d: reply %.40q, %v is not the echo of its own request", i, rep, e)
			}
		case "addhard":
			if e := cl.AddHardCert(sshCert("p256b"), "c"); e != nil {
				return vh.Errf("addhard #%d failed: %v", i, e)
			}
		}
		return nil
	}
	errs := make([]error, 2)
	var wg sync.WaitGroup
	for g, op := range []string{a, b} {
		g, op := g, op
		wg.Add(1)
		go func() {
			defer wg.Done()
			for i := 0; i < calls; i++ {
				var e error
				if perr := vh.Catch(func() { e = one(op, i) }); perr != nil {
					e = vh.Errf("%s #%d crashed: %v", op, i, perr)
				}
				if e != nil {
					errs[g] = e
					return
				}
			}
		}()
	}
	done := make(chan struct{})
	go func() { wg.Wait(); close(done) }()
	select {
	case <-done:
	case <-time.After(60 * time.Second):
		return vh.Errf("one client shared by two goroutines (%s): the calls did not complete within 60 s (%d calls each)", pair, calls)
	}
	for _, e := range errs {
		if e != nil {
			return vh.Errf("one client shared by two goroutines (%s): %v", pair, e)
		}
	}
	return nil
}

func replacePlus(s string) string { return string(bytes.ReplaceAll([]byte(s), []byte("+"), []byte(" "))) }

func TestC13SharedClient(t *testing.T) {
	pairs := []string{"list+listslots", "list+wait", "sign+forward", "sign+readslot", "list+addhard", "list+sign", "listslots+forward", "wait+forward", "sign+wait"}
	cases := []SharedCase{{Pairs: pairs, Calls: 1500}}
	if vh.Thorough() {
		cases = append(cases, SharedCase{Pairs: pairs, Calls: 20000})
	}
	vh.Enumerate(t, vh.Spec[SharedCase]{Property: "C13", Name: "TestC13SharedClient", Exhaustive: true, Journal: true,
		Rule: "one client connected to a served recording agent is used by two goroutines at once, 1500 calls each (thorough: also 20000): a standard operation beside an extended one, two standard ones, two extended ones (9 pairs out of list, sign, slot listing / reading, wait, raw forward with a tagged body, add-hardware-certificate; each pair in its own connection, side by side). Oracle: every call returns the scripted result of its own request (tag echo for forwards), nothing hangs (60 s)",
		Exec: func(c SharedCase) (vh.Outcome, error) {
			out := vh.Outcome{NonTrivial: true}
			errs := make([]error, len(c.Pairs))
			var wg sync.WaitGroup
			for i, p := range c.Pairs {
				i, p := i, p
				wg.Add(1)
				go func() { defer wg.Done(); errs[i] = sharedPair(p, c.Calls) }()
			}
			wg.Wait()
			for _, e := range errs {
				if e != nil {
					return out, e
				}
			}
			return out, nil
		}}, cases)
}
