package c13

// TestC13Sizes: every message size in the range the property names. A raw forward of L bytes must
// reach the served agent byte-identical and its reply (L+1 bytes) must reach the caller byte-identical,
// for every L of a complete sweep of the small sizes and of windows around the powers of two; the
// same sweep for the data of a sign request.

import (
	"bytes"
	"fmt"
	"testing"

	"github.com/theparanoids/ysshra/agent/yubiagent"
	"github.com/theparanoids/ysshra/zzverif/vh"
	"golang.org/x/crypto/ssh"
)

type SizeCase struct {
	From, To int // forward bodies and sign data of every length in [From, To)
}

func sizeSweep(c SizeCase) (vh.Outcome, error) {
	out := vh.Outcome{NonTrivial: true}
	sig := &ssh.Signature{Format: ssh.KeyAlgoED25519, Blob: bytes.Repeat([]byte{7}, 64)}
	rec := vh.NewRecAgent(vh.Script{Sig: sig})
	c1, c2, err := vh.SocketPair()
	if err != nil {
		return out, nil
	}
	defer c1.Close()
	go func() {
		_ = vh.Catch(func() { _ = yubiagent.ServeAgent(rec, c2) })
		c2.Close()
	}()
	cl, err := yubiagent.NewClientFromConn(c1)
	if err != nil {
		return out, vh.Errf("NewClientFromConn: %v", err)
	}
	pub := vh.SSHPub("ed25519c")
	for l := c.From; l < c.To; l++ {
		body := make([]byte, l)
		for i := range body {
			body[i] = byte(i*7 + l)
		}
		if l > 0 {
			body[0] = 200 // an uninterpreted code
			rep, ferr := cl.Forward(body)
			if ferr != nil {
				return out, vh.Errf("raw forward of %d bytes failed: %v", l, ferr)
			}
			calls := rec.Take()
			if len(calls) != 1 || calls[0].Op != "forward" || !bytes.Equal(calls[0].Raw, body) {
				got := -1
				if len(calls) == 1 {
					got = len(calls[0].Raw)
				}
				return out, vh.Errf("raw forward of %d bytes: the served agent received %d call(s), body of %d bytes (byte-identical: false)", l, len(calls), got)
			}
			if want := append([]byte{vh.EchoMark}, body...); !bytes.Equal(rep, want) {
				return out, vh.Errf("raw forward of %d bytes: the served agent replied %d bytes, the caller received %d (byte-identical: false)", l, len(want), len(rep))
			}
		}
		got, serr := cl.SignWithFlags(pub, body, 0)
		if serr != nil {
			return out, vh.Errf("sign request over %d bytes of data failed: %v", l, serr)
		}
		calls := rec.Take()
		if len(calls) != 1 || !bytes.Equal(calls[0].Data, body) {
			return out, vh.Errf("sign request over %d bytes of data: the served agent received %d call(s) and not the caller's data", l, len(calls))
		}
		if got == nil || got.Format != sig.Format || !bytes.Equal(got.Blob, sig.Blob) {
			return out, vh.Errf("sign request over %d bytes of data: the signature came back changed", l)
		}
	}
	out.Classes = append(out.Classes, fmt.Sprintf("sizes=%d..%d", c.From, c.To-1))
	return out, nil
}

func TestC13Sizes(t *testing.T) {
	cases := []SizeCase{{0, 1100}, {1100, 2200}, {2200, 4200}}
	for _, p := range []int{8192, 16384, 32768, 65536} {
		cases = append(cases, SizeCase{p - 80, p + 16})
	}
	if vh.Thorough() {
		cases = append(cases, SizeCase{4200, 8112}, SizeCase{1<<20 - 70, 1<<20 + 8})
	}
	vh.Enumerate(t, vh.Spec[SizeCase]{Property: "C13", Name: "TestC13Sizes", Exhaustive: true,
		Rule: "complete sweep of the message size: raw forwards with a body of every length 1..4199 (thorough: ..8111) and of every length in the windows [p-80, p+16) around p = 8192, 16384, 32768, 65536 (thorough: 2^20), and sign requests over data of the same lengths (from 0), through a connected client and a served recording agent. Oracle: the served agent receives the body / data byte-identical, the caller receives the reply (one byte longer than the body) / the signature byte-identical",
		Exec: sizeSweep}, cases)
}
