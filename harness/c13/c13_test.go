// C13 — operations through the yubiagent client act exactly as on the served agent.
package c13

import (
	"github.com/theparanoids/ysshra/attestation/yubiattest"
	"bytes"
	"crypto/rand"
	"crypto/x509"
	"encoding/binary"
	"fmt"
	"net"
	"os"
	"path/filepath"
	"strings"
	"sync"
	"testing"
	"time"

	"github.com/theparanoids/ysshra/agent/yubiagent"
	"github.com/theparanoids/ysshra/zzverif/vh"
	"golang.org/x/crypto/ssh"
	"golang.org/x/crypto/ssh/agent"
	"pgregory.net/rapid"
)

// ---------- group 1: client <-> ServeAgent(recording agent) ----------

type ResKey struct {
	Key     string
	Cert    bool
	Comment string
}

type COp struct {
	Kind     string
	Key      string `json:",omitempty"`
	UseCert  bool   `json:",omitempty"`
	// Window (with UseCert): the certificate's validity window: "" = for ever | tenmin | hour | expired | future
	Window  string `json:",omitempty"`
	DataLen  int    `json:",omitempty"`
	DataSeed int    `json:",omitempty"`
	Flags    int    `json:",omitempty"`
	Comment  string `json:",omitempty"`
	Pass     []byte `json:",omitempty"`
	Slot     string `json:",omitempty"`
	Code     int    `json:",omitempty"`
	Raw      []byte `json:",omitempty"`
	Lifetime uint32 `json:",omitempty"`
	Confirm  bool   `json:",omitempty"`
	ExtName  string `json:",omitempty"`
	ExtData  []byte `json:",omitempty"`
	// scripted result of the served agent
	Err    string `json:",omitempty"`
	HasErr bool   `json:",omitempty"`
	// ErrWithResult: the served agent's failing call returns its result value together with the error
	ErrWithResult bool     `json:",omitempty"`
	ResKeys       []ResKey `json:",omitempty"`
	SigFmt        string   `json:",omitempty"`
	SigLen        int      `json:",omitempty"`
	Slots         []string `json:",omitempty"`
	CertIdx       int      `json:",omitempty"`
	ReplyLen      int      `json:",omitempty"`
}

type SeqCase struct {
	Ops []COp
	// ByAddress: the client is built by NewClient(address) against a unix-socket listener (otherwise
	// NewClientFromConn over a socket pair)
	ByAddress bool
}

func fill(n, seed int) []byte {
	b := make([]byte, n)
	x := uint32(seed*2654435761 + 12345)
	for i := range b {
		x = x*1664525 + 1013904223
		b[i] = byte(x >> 24)
	}
	return b
}

var (
	certMu    sync.Mutex
	sshCerts  = map[string]*ssh.Certificate{}
	x509Certs []*x509.Certificate
)

func sshCert(key string) *ssh.Certificate { return sshCertW(key, "") }

// sshCertW: the pool certificate over key with the named validity window (what the calls carry is passed
// through whatever it says)
func sshCertW(key, window string) *ssh.Certificate {
	certMu.Lock()
	defer certMu.Unlock()
	if c, ok := sshCerts[key+"/"+window]; ok {
		return c
	}
	a := vh.KeyIDAttrs{Prins: []string{"user_a"}, TransID: "22dde224", ReqUser: "user_a", ReqIP: "1.1.1.1", ReqHost: "host", HW: true, Touch: 3, Version: 1}
	spec := vh.SSHCertSpec{Key: key, KeyID: a.Text(), ValidAfter: 0, ValidBefore: ssh.CertTimeInfinity, Principals: []string{"user_a"}, Serial: 7}
	now := uint64(time.Now().Unix())
	switch window {
	case "tenmin":
		spec.ValidAfter, spec.ValidBefore = now-60, now+600
	case "hour":
		spec.ValidAfter, spec.ValidBefore = now-60, now+3600
	case "expired":
		spec.ValidAfter, spec.ValidBefore = now-7200, now-3600
	case "future":
		spec.ValidAfter, spec.ValidBefore = now+3600, now+7200
	}
	c := vh.MakeSSHCert(spec)
	sshCerts[key+"/"+window] = c
	return c
}

// x509Pool: certificates of growing size (up to ~8 KiB) for slot reading / attestation.
func x509Pool() []*x509.Certificate {
	certMu.Lock()
	defer certMu.Unlock()
	if x509Certs != nil {
		return x509Certs
	}
	for i, spec := range []struct {
		key string
		pad int
	}{{"rsa1024a", 0}, {"p256b", 0}, {"rsa2048d", 500}, {"p384a", 3000}, {"rsa2047", 7000}} {
		pad := spec.pad
		c, _, err := vh.MakeCert(vh.CertSpec{CN: fmt.Sprintf("slot cert %d", i), Key: spec.key, Serial: int64(100 + i), Mutate: func(tpl *x509.Certificate) {
			if pad > 0 {
				tpl.DNSNames = []string{}
				for len(strings.Join(tpl.DNSNames, "")) < pad {
					tpl.DNSNames = append(tpl.DNSNames, fmt.Sprintf("host-%04d.%s.example.com", len(tpl.DNSNames), strings.Repeat("x", 40)))
				}
			}
		}})
		if err != nil {
			panic(err)
		}
		x509Certs = append(x509Certs, c)
	}
	// a certificate as YubiKey firmware older than 4.3.3 issued it: the RSA key's algorithm identifier
	// omits the NULL parameter (crypto/x509 refuses it, the repository's own parser reads it)
	if nl, ok := vh.StripKeyNULL(x509Certs[0].Raw); ok {
		if lc, err := yubiattest.ParseCertificate(nl); err == nil && bytes.Equal(lc.Raw, nl) {
			x509Certs = append(x509Certs, lc)
		}
	}
	return x509Certs
}

func (o COp) pub() ssh.PublicKey {
	if o.Key == "" {
		return nil
	}
	if o.UseCert {
		return sshCertW(o.Key, o.Window)
	}
	return vh.SSHPub(o.Key)
}

func genText(t *rapid.T, label string) string {
	return rapid.SampledFrom([]string{"", "yubikey", "user_a@host", "é 日本", "a\x00b", "x\ny", strings.Repeat("c", 300), "SUCCESS ", "success", " SUCCESS", "agent: key not found", "5"}).Draw(t, label)
}

func genErrText(t *rapid.T, label string) string {
	// "SUCCESS" (add-hardware-certificate, wait) and "" (slot replies) are excluded by construction:
	// see KNOWN_FINDINGS.txt (in-band status) and the probes below.
	return rapid.SampledFrom([]string{"boom", "agent: key not found", "é 日本", "SUCCESS ", "success", "x\x00y", strings.Repeat("e", 200), "agent: locked", "0",
		// the io sentinels themselves (vh.Script returns these texts AS io.EOF / io.ErrUnexpectedEOF / an error wrapping io.EOF:
		// what a served agent reports when its own upstream hung up)
		"EOF", "unexpected EOF", "wrapped EOF"}).Draw(t, label)
}

func genOp(t *rapid.T, label string) COp {
	kinds := []string{"list", "sign", "sign", "add", "add", "remove", "removeall", "lock", "unlock", "signers", "addhard", "addhard", "addhard-legacy", "listslots", "readslot", "attestslot", "wait", "forward", "forward", "addsmartcard", "removesmartcard", "extension"}
	o := COp{Kind: rapid.SampledFrom(kinds).Draw(t, label+"K")}
	fails := rapid.IntRange(0, 3).Draw(t, label+"Fails") == 0
	if fails {
		o.Err = genErrText(t, label+"Err")
		// half of the failing calls hand a result value back next to the error (list / sign / slot calls)
		o.ErrWithResult = rapid.Bool().Draw(t, label+"EWR")
	}
	keyName := func() string { return rapid.SampledFrom(vh.SSHKeyNames).Draw(t, label+"Key") }
	genKeys := func() []ResKey {
		n := rapid.IntRange(0, 4).Draw(t, label+"NK")
		if rapid.IntRange(0, 30).Draw(t, label+"ManyK") == 13 {
			n = rapid.SampledFrom([]int{32, 100, 300}).Draw(t, label+"NKMany") // long listings
		}
		var ks []ResKey
		for i := 0; i < n; i++ {
			ks = append(ks, ResKey{Key: rapid.SampledFrom(vh.SSHKeyNames).Draw(t, fmt.Sprintf("%sRK%d", label, i)), Cert: rapid.Bool().Draw(t, fmt.Sprintf("%sRC%d", label, i)), Comment: genText(t, fmt.Sprintf("%sRM%d", label, i))})
		}
		return ks
	}
	switch o.Kind {
	case "list", "signers":
		o.ResKeys = genKeys()
	case "sign":
		o.Key, o.UseCert = keyName(), rapid.Bool().Draw(t, label+"UC")
		o.DataLen = rapid.SampledFrom([]int{0, 1, 32, 255, 4096, 65536, -1, -1}).Draw(t, label+"DL")
		if o.DataLen < 0 {
			o.DataLen = rapid.IntRange(0, 65536).Draw(t, label+"DLAny")
		}
		o.DataSeed = rapid.IntRange(0, 1000).Draw(t, label+"DS")
		o.Flags = rapid.SampledFrom([]int{0, 2, 4}).Draw(t, label+"F")
		o.SigFmt = rapid.SampledFrom([]string{ssh.KeyAlgoED25519, ssh.KeyAlgoRSASHA256, ssh.KeyAlgoRSASHA512, ssh.KeyAlgoECDSA256, "x"}).Draw(t, label+"SF")
		o.SigLen = rapid.SampledFrom([]int{0, 64, 256, 512}).Draw(t, label+"SL")
	case "add":
		o.Key, o.UseCert = keyName(), rapid.Bool().Draw(t, label+"UC")
		if o.UseCert {
			o.Window = rapid.SampledFrom([]string{"", "", "tenmin", "hour", "expired", "future"}).Draw(t, label+"W")
		}
		o.Comment = genText(t, label+"C")
		if rapid.Bool().Draw(t, label+"HasL") {
			o.Lifetime = rapid.SampledFrom([]uint32{1, 3600, 86400, 1<<32 - 1}).Draw(t, label+"L")
		}
		o.Confirm = rapid.Bool().Draw(t, label+"Cf")
	case "remove":
		o.Key, o.UseCert = keyName(), rapid.Bool().Draw(t, label+"UC")
	case "lock", "unlock":
		o.Pass = rapid.SampledFrom([][]byte{{}, []byte("pw"), []byte("correct horse"), {0, 255, 10}, bytes.Repeat([]byte("p"), 300)}).Draw(t, label+"P")
	case "addhard", "addhard-legacy":
		o.Key, o.UseCert = keyName(), rapid.IntRange(0, 4).Draw(t, label+"UC") > 0
		if o.UseCert {
			o.Window = rapid.SampledFrom([]string{"", "", "tenmin", "hour", "expired", "future"}).Draw(t, label+"W")
		}
		if o.Kind == "addhard" {
			o.Comment = genText(t, label+"C")
		}
	case "listslots":
		o.Slots = rapid.SliceOfN(rapid.SampledFrom([]string{"9a", "9c", "9d", "9e", "f9", "82", "95", "9a:", "slot-with-longer-name"}), 0, 5).Draw(t, label+"S")
		if rapid.IntRange(0, 20).Draw(t, label+"ManyS") == 9 {
			o.Slots = nil
			for k := 0; k < rapid.SampledFrom([]int{24, 64, 300}).Draw(t, label+"NS"); k++ {
				o.Slots = append(o.Slots, fmt.Sprintf("%02x", k%256))
			}
		}
	case "readslot", "attestslot":
		o.Slot = rapid.SampledFrom([]string{"9a", "9e", "f9", "", "82", "9a 9c", "日本", "-s", "a\x00b", strings.Repeat("s", 100),
			// line structure inside the name (the reply travels as text): a line feed followed by text, CR LF, a colon, a PEM-looking name
			"9a\nbackup", "\n9e", "9a\r\nx: y", "9a: b", "9a\n", "-----BEGIN CERTIFICATE-----"}).Draw(t, label+"S")
		o.CertIdx = rapid.IntRange(0, 5).Draw(t, label+"CI")
	case "wait":
		o.Code = rapid.IntRange(0, 255).Draw(t, label+"W")
	case "forward":
		code := rapid.SampledFrom([]int{0, 2, 5, 9, 10, 12, 20, 21, 24, 26, 27, 28, 30, 36, 39, 40, 100, 255}).Draw(t, label+"FC")
		n := rapid.SampledFrom([]int{0, 1, 40, 4096, 65535}).Draw(t, label+"FN")
		o.Raw = append([]byte{byte(code)}, fill(n, code)...)
		o.ReplyLen = rapid.SampledFrom([]int{0, 1, 5, 300, 65536}).Draw(t, label+"RL")
	case "addsmartcard", "removesmartcard":
		o.Slot = rapid.SampledFrom([]string{"/usr/lib/opensc-pkcs11.so", "", "reader é"}).Draw(t, label+"ID")
		o.Pass = rapid.SampledFrom([][]byte{{}, []byte("123456"), {0, 1, 2}}).Draw(t, label+"PIN")
		if o.Kind == "addsmartcard" {
			o.Lifetime = rapid.SampledFrom([]uint32{0, 1, 3600}).Draw(t, label+"L")
			o.Confirm = rapid.Bool().Draw(t, label+"Cf")
		}
		o.Err = ""
		o.HasErr = fails
	case "extension":
		o.ExtName = rapid.SampledFrom([]string{"verif@harness", "session-bind@openssh.com", ""}).Draw(t, label+"EN")
		o.ExtData = rapid.SliceOfN(rapid.Byte(), 0, 40).Draw(t, label+"ED")
		o.ReplyLen = rapid.SampledFrom([]int{1, 5, 300}).Draw(t, label+"RL")
		o.Err = ""
	}
	return o
}

func genSeq(t *rapid.T) SeqCase {
	n := rapid.IntRange(1, 10).Draw(t, "nops")
	c := SeqCase{ByAddress: rapid.IntRange(0, 3).Draw(t, "byAddress") == 1}
	for i := 0; i < n; i++ {
		o := genOp(t, fmt.Sprintf("op%d", i))
		c.Ops = append(c.Ops, o)
		if o.Kind == "forward" && o.Err != "" {
			break // a failing raw forward ends the connection
		}
	}
	return c
}

func keysOf(rk []ResKey) []*agent.Key {
	var out []*agent.Key
	for _, k := range rk {
		var pk ssh.PublicKey = vh.SSHPub(k.Key)
		if k.Cert {
			pk = sshCert(k.Key)
		}
		out = append(out, &agent.Key{Format: pk.Type(), Blob: pk.Marshal(), Comment: k.Comment})
	}
	return out
}

func execSeq(c SeqCase) (vh.Outcome, error) {
	out := vh.Outcome{}
	ext, errs := 0, 0
	for _, o := range c.Ops {
		switch o.Kind {
		case "addhard", "addhard-legacy", "listslots", "readslot", "attestslot", "wait", "forward", "addsmartcard", "removesmartcard", "extension":
			ext++
		}
		if o.Err != "" || o.HasErr {
			errs++
		}
		out.Classes = append(out.Classes, "op="+o.Kind)
	}
	out.NonTrivial = ext >= 1 && errs >= 1

	rec := vh.NewRecAgent(vh.Script{})
	done := make(chan error, 1)
	serve := func(conn net.Conn) {
		var err error
		if perr := vh.Catch(func() { err = yubiagent.ServeAgent(rec, conn) }); perr != nil {
			err = fmt.Errorf("SERVER-CRASH: %v", perr)
		}
		conn.Close()
		done <- err
	}
	var cl yubiagent.YubiAgent
	var closeClient func()
	if c.ByAddress {
		out.Classes = append(out.Classes, "client-by-address")
		dir, derr := os.MkdirTemp("", "vc13")
		if derr != nil {
			return out, nil
		}
		defer os.RemoveAll(dir)
		addr := filepath.Join(dir, "agent.sock")
		ln, lerr := net.Listen("unix", addr)
		if lerr != nil {
			return out, nil
		}
		defer ln.Close()
		go func() {
			conn, aerr := ln.Accept()
			if aerr != nil {
				done <- nil
				return
			}
			serve(conn)
		}()
		var err error
		if cl, err = yubiagent.NewClient(addr); err != nil {
			return out, vh.Errf("NewClient(%q): %v", addr, err)
		}
		// closing the client is what ends the connection
		closeClient = func() { _ = cl.Close() }
	} else {
		c1, c2, serr := vh.SocketPair()
		if serr != nil {
			return out, nil // infrastructure
		}
		go serve(c2)
		var err error
		if cl, err = yubiagent.NewClientFromConn(c1); err != nil {
			return out, vh.Errf("NewClientFromConn: %v", err)
		}
		closeClient = func() { c1.Close() }
	}
	served := false
	defer func() {
		if !served {
			closeClient()
			select {
			case <-done:
			case <-time.After(5 * time.Second):
			}
		}
	}()

	for i, o := range c.Ops {
		where := fmt.Sprintf("op %d (%s)", i, o.Kind)
		script := vh.Script{Err: o.Err, HasErr: o.HasErr, WithResult: o.ErrWithResult}
		wantErr := o.Err != "" || o.HasErr
		data := fill(o.DataLen, o.DataSeed)
		pk := o.pub()
		switch o.Kind {
		case "list", "signers":
			script.Keys = keysOf(o.ResKeys)
		case "sign":
			script.Sig = &ssh.Signature{Format: o.SigFmt, Blob: fill(o.SigLen, o.DataSeed+1)}
		case "listslots":
			script.Slots = o.Slots
		case "readslot", "attestslot":
			script.Cert = x509Pool()[o.CertIdx%len(x509Pool())]
		case "forward", "extension":
			script.Reply = append([]byte{0x42}, fill(o.ReplyLen, 7)...)
			if o.ReplyLen == 0 {
				script.Reply = []byte{}
			}
		case "addsmartcard", "removesmartcard":
			script.Err, script.HasErr = "", false
			script.Reply = []byte{6}
			if wantErr {
				script.Reply = []byte{5}
			}
		}
		rec.Take()
		rec.SetNext(script)

		var opErr error
		var gotKeys []*agent.Key
		var gotSig *ssh.Signature
		var gotSigners []ssh.Signer
		var gotSlots []string
		var gotCert *x509.Certificate
		var gotRaw []byte
		perr := vh.Catch(func() {
			switch o.Kind {
			case "list":
				gotKeys, opErr = cl.List()
			case "signers":
				gotSigners, opErr = cl.Signers()
			case "sign":
				gotSig, opErr = cl.SignWithFlags(pk, data, agent.SignatureFlags(o.Flags))
			case "add":
				ak := agent.AddedKey{PrivateKey: vh.PrivKey(o.Key), Comment: o.Comment, LifetimeSecs: o.Lifetime, ConfirmBeforeUse: o.Confirm}
				if o.UseCert {
					ak.Certificate = sshCertW(o.Key, o.Window)
				}
				opErr = cl.Add(ak)
			case "remove":
				opErr = cl.Remove(pk)
			case "removeall":
				opErr = cl.RemoveAll()
			case "lock":
				opErr = cl.Lock(o.Pass)
			case "unlock":
				opErr = cl.Unlock(o.Pass)
			case "addhard":
				opErr = cl.AddHardCert(pk, o.Comment)
			case "addhard-legacy":
				gotRaw, opErr = cl.Forward(append([]byte{31}, pk.Marshal()...))
			case "listslots":
				gotSlots, opErr = cl.ListSlots()
			case "readslot":
				gotCert, opErr = cl.ReadSlot(o.Slot)
			case "attestslot":
				gotCert, opErr = cl.AttestSlot(o.Slot)
			case "wait":
				opErr = cl.Wait(byte(o.Code))
			case "forward":
				gotRaw, opErr = cl.Forward(o.Raw)
			case "addsmartcard":
				opErr = cl.AddSmartcardKey(o.Slot, o.Pass, time.Duration(o.Lifetime)*time.Second, o.Confirm)
			case "removesmartcard":
				opErr = cl.RemoveSmartcardKey(o.Slot, o.Pass)
			case "extension":
				gotRaw, opErr = cl.Extension(o.ExtName, o.ExtData)
			}
		})
		if perr != nil {
			return out, vh.Errf("%s crashed in the client: %v", where, perr)
		}
		select {
		case serr := <-done:
			done <- serr
			if serr != nil && strings.HasPrefix(serr.Error(), "SERVER-CRASH") {
				return out, vh.Errf("%s: %v", where, serr)
			}
			if o.Kind == "forward" && wantErr {
				if opErr == nil {
					return out, vh.Errf("%s: the served agent failed but the caller saw success", where)
				}
				return out, nil
			}
			return out, vh.Errf("%s: the server stopped serving the connection: %v (client error: %v)", where, serr, opErr)
		default:
		}
		calls := rec.Take()
		if len(calls) != 1 {
			return out, vh.Errf("%s: the served agent received %d calls, expected exactly 1 (%+v)", where, len(calls), calls)
		}
		got := calls[0]

		// ---- arguments ----
		switch o.Kind {
		case "list", "signers":
			if got.Op != "list" {
				return out, vh.Errf("%s reached the served agent as %q", where, got.Op)
			}
		case "sign":
			if (got.Op != "signflags" && got.Op != "sign") || !bytes.Equal(got.KeyBlob, pk.Marshal()) || !bytes.Equal(got.Data, data) || got.Flags != uint32(o.Flags) {
				return out, vh.Errf("%s: served agent received op %s, key match %v, data match %v (%d bytes), flags %d (sent %d)", where, got.Op, bytes.Equal(got.KeyBlob, pk.Marshal()), bytes.Equal(got.Data, data), len(got.Data), got.Flags, o.Flags)
			}
		case "add":
			if got.Op != "add" || got.Added == nil {
				return out, vh.Errf("%s reached the served agent as %q", where, got.Op)
			}
			a := got.Added
			s, serr := ssh.NewSignerFromKey(a.PrivateKey)
			if serr != nil || !bytes.Equal(s.PublicKey().Marshal(), vh.SSHPub(o.Key).Marshal()) {
				return out, vh.Errf("%s: the private key received by the served agent is not the one sent (%v)", where, serr)
			}
			if o.UseCert != (a.Certificate != nil) || (o.UseCert && !bytes.Equal(a.Certificate.Marshal(), sshCertW(o.Key, o.Window).Marshal())) {
				return out, vh.Errf("%s: certificate not passed byte-identically", where)
			}
			if a.Comment != o.Comment || a.LifetimeSecs != o.Lifetime || a.ConfirmBeforeUse != o.Confirm {
				return out, vh.Errf("%s: comment / lifetime / confirm received %q/%d/%v, sent %q/%d/%v", where, a.Comment, a.LifetimeSecs, a.ConfirmBeforeUse, o.Comment, o.Lifetime, o.Confirm)
			}
			// (the library client never transmits extension constraints, so none are generated)
			if len(a.ConstraintExtensions) != 0 {
				return out, vh.Errf("%s: constraint extensions invented: %+v", where, a.ConstraintExtensions)
			}
		case "remove":
			if got.Op != "remove" || !bytes.Equal(got.KeyBlob, pk.Marshal()) {
				return out, vh.Errf("%s: served agent received %s with another key", where, got.Op)
			}
		case "removeall":
			if got.Op != "removeall" {
				return out, vh.Errf("%s reached the served agent as %q", where, got.Op)
			}
		case "lock", "unlock":
			if got.Op != o.Kind || !bytes.Equal(got.Pass, o.Pass) {
				return out, vh.Errf("%s: served agent received %s with passphrase %q, sent %q", where, got.Op, got.Pass, o.Pass)
			}
		case "addhard", "addhard-legacy":
			if got.Op != "addhard" || !bytes.Equal(got.KeyBlob, pk.Marshal()) || got.Comment != o.Comment {
				return out, vh.Errf("%s: served agent received %s, key match %v, comment %q (sent %q)", where, got.Op, bytes.Equal(got.KeyBlob, pk.Marshal()), got.Comment, o.Comment)
			}
		case "listslots":
			if got.Op != "listslots" {
				return out, vh.Errf("%s reached the served agent as %q", where, got.Op)
			}
		case "readslot", "attestslot":
			if got.Op != o.Kind || got.Slot != o.Slot {
				return out, vh.Errf("%s: served agent received %s(%q), sent slot %q", where, got.Op, got.Slot, o.Slot)
			}
		case "wait":
			if got.Op != "wait" || int(got.Code) != o.Code {
				return out, vh.Errf("%s: served agent received %s(%d), sent %d", where, got.Op, got.Code, o.Code)
			}
		case "forward":
			if got.Op != "forward" || !bytes.Equal(got.Raw, o.Raw) {
				return out, vh.Errf("%s: raw request of %d bytes not relayed byte-for-byte (op %s, %d bytes)", where, len(o.Raw), got.Op, len(got.Raw))
			}
		case "extension":
			want := ssh.Marshal(struct {
				ExtensionType string `sshtype:"27"`
				Contents      []byte `ssh:"rest"`
			}{o.ExtName, o.ExtData})
			if got.Op != "forward" || !bytes.Equal(got.Raw, want) {
				return out, vh.Errf("%s: extension request not relayed byte-for-byte", where)
			}
		case "addsmartcard", "removesmartcard":
			if got.Op != "forward" {
				return out, vh.Errf("%s reached the served agent as %q", where, got.Op)
			}
			id, pin, rest, ok := parseSmartcard(got.Raw)
			wantCode := byte(26)
			if o.Kind == "removesmartcard" {
				wantCode = 21
			}
			if !ok || got.Raw[0] != wantCode || id != o.Slot || !bytes.Equal(pin, o.Pass) {
				return out, vh.Errf("%s: reader id / PIN not passed verbatim (%q/%q vs %q/%q)", where, id, pin, o.Slot, o.Pass)
			}
			var wantRest []byte
			if o.Kind == "addsmartcard" {
				if o.Lifetime != 0 {
					wantRest = append(wantRest, 1)
					wantRest = binary.BigEndian.AppendUint32(wantRest, o.Lifetime)
				}
				if o.Confirm {
					wantRest = append(wantRest, 2)
				}
			}
			if !bytes.Equal(rest, wantRest) {
				return out, vh.Errf("%s: constraints %x, expected %x", where, rest, wantRest)
			}
		}

		// ---- result ----
		if wantErr {
			if o.Kind == "addhard-legacy" {
				// raw forward: the reply itself carries the error text
				if opErr != nil || string(gotRaw) != o.Err {
					return out, vh.Errf("%s: raw reply %q (%v), served agent said %q", where, gotRaw, opErr, o.Err)
				}
				continue
			}
			if opErr == nil {
				return out, vh.Errf("%s: the served agent failed (%q) but the caller saw success", where, o.Err)
			}
			switch o.Kind {
			case "addhard", "wait", "listslots":
				if opErr.Error() != o.Err {
					return out, vh.Errf("%s: error text %q, served agent said %q", where, opErr.Error(), o.Err)
				}
			case "readslot", "attestslot":
				// an empty text is still reported as an error (of the missing certificate)
				if o.Err != "" && opErr.Error() != o.Err {
					return out, vh.Errf("%s: error text %q, served agent said %q", where, opErr.Error(), o.Err)
				}
			}
			continue
		}
		if o.Kind == "addhard-legacy" {
			if opErr != nil || string(gotRaw) != "SUCCESS" {
				return out, vh.Errf("%s: reply %q, %v", where, gotRaw, opErr)
			}
			continue
		}
		if opErr != nil {
			return out, vh.Errf("%s: the served agent succeeded but the caller got an error: %v", where, opErr)
		}
		switch o.Kind {
		case "list":
			want := keysOf(o.ResKeys)
			if len(gotKeys) != len(want) {
				return out, vh.Errf("%s: %d keys, served agent returned %d", where, len(gotKeys), len(want))
			}
			for j := range want {
				if gotKeys[j].Format != want[j].Format || !bytes.Equal(gotKeys[j].Blob, want[j].Blob) || gotKeys[j].Comment != want[j].Comment {
					return out, vh.Errf("%s: key %d differs (format %q/%q, blob equal %v, comment %q/%q)", where, j, gotKeys[j].Format, want[j].Format, bytes.Equal(gotKeys[j].Blob, want[j].Blob), gotKeys[j].Comment, want[j].Comment)
				}
			}
		case "signers":
			want := keysOf(o.ResKeys)
			if len(gotSigners) != len(want) {
				return out, vh.Errf("%s: %d signers, served agent lists %d keys", where, len(gotSigners), len(want))
			}
			for j := range want {
				if !bytes.Equal(gotSigners[j].PublicKey().Marshal(), want[j].Blob) {
					return out, vh.Errf("%s: signer %d has another key", where, j)
				}
			}
			// signing through a returned signer is a sign request for exactly the listed identity
			for j := range want {
				data := fill(24+j, o.DataSeed+7*j)
				wantSig := &ssh.Signature{Format: "verif-format", Blob: fill(40, o.DataSeed+j+3)}
				rec.Take()
				rec.SetNext(vh.Script{Sig: wantSig})
				var sig *ssh.Signature
				var serr error
				if perr := vh.Catch(func() { sig, serr = gotSigners[j].Sign(rand.Reader, data) }); perr != nil {
					return out, vh.Errf("%s: signing through signer %d crashed: %v", where, j, perr)
				}
				cs := rec.Take()
				if len(cs) != 1 || (cs[0].Op != "sign" && cs[0].Op != "signflags") {
					return out, vh.Errf("%s: signing through signer %d reached the served agent as %d calls (%+v), expected one sign call", where, j, len(cs), cs)
				}
				if !bytes.Equal(cs[0].KeyBlob, want[j].Blob) {
					return out, vh.Errf("%s: signing through signer %d (a %s identity of %d bytes) asked the served agent to sign with another key (%d bytes)", where, j, gotSigners[j].PublicKey().Type(), len(want[j].Blob), len(cs[0].KeyBlob))
				}
				if !bytes.Equal(cs[0].Data, data) {
					return out, vh.Errf("%s: signing through signer %d: the served agent received other data", where, j)
				}
				if serr != nil || sig == nil || sig.Format != wantSig.Format || !bytes.Equal(sig.Blob, wantSig.Blob) {
					return out, vh.Errf("%s: signing through signer %d: signature not returned as the served agent made it (err %v)", where, j, serr)
				}
			}
		case "sign":
			if gotSig == nil || gotSig.Format != o.SigFmt || !bytes.Equal(gotSig.Blob, fill(o.SigLen, o.DataSeed+1)) {
				return out, vh.Errf("%s: signature not byte-identical (format %q vs %q)", where, gotSig.Format, o.SigFmt)
			}
		case "listslots":
			if len(gotSlots) != len(o.Slots) {
				return out, vh.Errf("%s: slots %q, served agent returned %q", where, gotSlots, o.Slots)
			}
			for j := range o.Slots {
				if gotSlots[j] != o.Slots[j] {
					return out, vh.Errf("%s: slots %q, served agent returned %q", where, gotSlots, o.Slots)
				}
			}
		case "readslot", "attestslot":
			want := x509Pool()[o.CertIdx%len(x509Pool())]
			if gotCert == nil || !bytes.Equal(gotCert.Raw, want.Raw) {
				return out, vh.Errf("%s: certificate of %d bytes not byte-identical", where, len(want.Raw))
			}
		case "forward", "extension":
			if !bytes.Equal(gotRaw, script.Reply) {
				return out, vh.Errf("%s: reply of %d bytes, served agent returned %d bytes; not byte-identical", where, len(gotRaw), len(script.Reply))
			}
		}
		// key objects the served agent was handed by earlier add-type calls must stay what they were
		if cerr := rec.Corrupted(); cerr != nil {
			return out, vh.Errf("%s: %v", where, cerr)
		}
	}
	// closing the client ends the connection: the server sees a clean end of stream
	served = true
	closeClient()
	select {
	case serr := <-done:
		if serr != nil && strings.HasPrefix(serr.Error(), "SERVER-CRASH") {
			return out, vh.Errf("%v", serr)
		}
	case <-time.After(10 * time.Second):
		return out, vh.Errf("the server kept serving for 10 s after the client was closed (Close does not close the connection?)")
	}
	return out, nil
}

func parseSmartcard(raw []byte) (id string, pin, rest []byte, ok bool) {
	if len(raw) < 9 {
		return "", nil, nil, false
	}
	b := raw[1:]
	l := int(binary.BigEndian.Uint32(b))
	if l > len(b)-4 {
		return "", nil, nil, false
	}
	id, b = string(b[4:4+l]), b[4+l:]
	if len(b) < 4 {
		return "", nil, nil, false
	}
	l = int(binary.BigEndian.Uint32(b))
	if l > len(b)-4 {
		return "", nil, nil, false
	}
	return id, b[4 : 4+l], b[4+l:], true
}

const ruleSeq = "sequences of 1..10 operations through NewClientFromConn (socket pair) or NewClient(address) (unix-socket listener) <-> ServeAgent(recording agent): list, sign-with-flags (flags 0/2/4, data 0..64 KiB), add with lifetime / confirm constraints for RSA, ECDSA, Ed25519 and DSA keys with and without certificate, remove, remove-all, lock / unlock with arbitrary passphrase bytes, signers, add-hardware-certificate (new format through the client, legacy [31][blob] through Forward), list / read / attest slot with slot names and certificates up to ~8 KiB (one of the six in the encoding of YubiKey firmware before 4.3.3: RSA key identifier without NULL, which crypto/x509 refuses and the repository's parser reads), wait with any code, raw forward of uninterpreted codes with bodies and replies up to 64 KiB, add / remove smartcard, extension; the served agent returns generated results or generated error texts (a quarter of the operations fail, half of those handing a result value back next to the error). Certificates carried by add / add-hardware-certificate calls are valid for ever, for ten minutes, for an hour, expired or not yet valid (what a call carries is passed on whatever it says). Oracle: recorded arguments = sent arguments, caller result = scripted result byte-for-byte, served error => caller error (text equal where the protocol carries text), exactly one call reaches the served agent per operation; every signer returned by signers signs once and that reaches the served agent as a sign request for exactly the listed identity; key objects the served agent was handed earlier stay byte-identical when re-encoded after later operations. Excluded by construction (known findings): error text 'SUCCESS' for add-hardware-certificate / wait, empty error text for the slot listing. Non-trivial: >= 1 extended operation and >= 1 failing operation."

func TestC13Client(t *testing.T) {
	vh.Run(t, vh.Spec[SeqCase]{Property: "C13", Name: "TestC13Client", Rule: ruleSeq, Gen: genSeq, Exec: execSeq, Journal: true})
}

// TestC13KnownFindings probes the listed in-band status findings with exactly their inputs.
type Probe struct {
	Key string
	Op  COp
}

func TestC13KnownFindings(t *testing.T) {
	probes := []Probe{
		{"addhard-error-text-SUCCESS", COp{Kind: "addhard", Key: "p256b", UseCert: true, Err: "SUCCESS"}},
		{"wait-error-text-SUCCESS", COp{Kind: "wait", Code: 41, Err: "SUCCESS"}},
		{"listslots-empty-error-text", COp{Kind: "listslots", Slots: []string{"9a"}, HasErr: true}},
	}
	vh.Enumerate(t, vh.Spec[Probe]{Property: "C13", Name: "TestC13KnownFindings",
		Rule: "deterministic probes of exactly the inputs listed as known findings (in-band status texts); a failing probe that is listed prints PROBE-FAILS and is not a violation, an unlisted one is",
		Exec: func(p Probe) (vh.Outcome, error) {
			_, err := execSeq(SeqCase{Ops: []COp{p.Op}})
			if err != nil {
				if vh.Known(p.Key) {
					fmt.Printf("PROBE-FAILS key=%s\n", p.Key)
					return vh.Outcome{Excluded: true}, nil
				}
				return vh.Outcome{}, err
			}
			return vh.Outcome{NonTrivial: true}, nil
		}}, probes)
}

// ---------- group 2: the real server and the PIV tool ----------

type ToolCase struct {
	Mode   string // listslots | readslot | attestslot
	Remote bool
	// Prelude: the same server object served a successful slot listing (another output) before this call
	Prelude bool `json:",omitempty"`
	Lines  []string
	// Output overrides Lines when non-nil (arbitrary bytes).
	Output  []byte `json:",omitempty"`
	Exit    int
	Slot    string
	CertIdx int
	// OutKind for read / attest: pem | empty | garbage | twopem | pem-trailing-ws
	OutKind string
}

var (
	toolOnce sync.Once
	toolDir  string
)

func setupTool() string {
	toolOnce.Do(func() {
		d, err := os.MkdirTemp("", "vpiv")
		if err != nil {
			panic(err)
		}
		script := "#!/bin/sh\nd=$(dirname \"$0\")\nfor a in \"$@\"; do printf '%s\\n' \"$a\" >> \"$d/args\"; done\ncat \"$d/out\"\nexit $(cat \"$d/rc\")\n"
		if err := os.WriteFile(filepath.Join(d, "yubico-piv-tool"), []byte(script), 0o755); err != nil {
			panic(err)
		}
		os.Setenv("PATH", d+":"+os.Getenv("PATH"))
		toolDir = d
	})
	return toolDir
}

func (c ToolCase) output() []byte {
	if c.Output != nil {
		return c.Output
	}
	if c.Mode == "listslots" {
		return []byte(strings.Join(c.Lines, "\n"))
	}
	cert := x509Pool()[c.CertIdx%len(x509Pool())]
	switch c.OutKind {
	case "empty":
		return nil
	case "garbage":
		return []byte("Failed to read certificate\n")
	case "twopem":
		return append(vh.PEMCert(cert.Raw), vh.PEMCert(x509Pool()[0].Raw)...)
	case "pem-trailing-ws":
		return append(vh.PEMCert(cert.Raw), []byte("\n \n")...)
	}
	return vh.PEMCert(cert.Raw)
}

func genTool(t *rapid.T) ToolCase {
	c := ToolCase{Mode: rapid.SampledFrom([]string{"listslots", "listslots", "listslots", "readslot", "attestslot"}).Draw(t, "mode")}
	c.Remote = rapid.IntRange(0, 5).Draw(t, "remote") == 0
	c.Prelude = rapid.Bool().Draw(t, "prelude")
	c.Exit = rapid.SampledFrom([]int{0, 0, 0, 0, 1, 2, 127}).Draw(t, "exit")
	if c.Mode == "listslots" {
		n := rapid.IntRange(0, 8).Draw(t, "nlines")
		for i := 0; i < n; i++ {
			l := fmt.Sprintf("l%d", i)
			switch rapid.IntRange(0, 7).Draw(t, l+"K") {
			case 0, 1, 2:
				c.Lines = append(c.Lines, "Slot "+rapid.SampledFrom([]string{"9a", "9c", "9d", "9e", "f9", "82"}).Draw(t, l+"S")+":\t")
			case 3:
				c.Lines = append(c.Lines, rapid.SampledFrom([]string{"Version:\t5.2.7", "Serial Number:\t12345678", "CHUID:\t3019d4e739da", "\tAlgorithm:\tRSA2048", "\tSubject DN:\tCN=SSH key", "", " Slot 9a:", "slot 9a:", "PIN tries left:\t3"}).Draw(t, l+"O"))
			case 4: // short or truncated Slot lines
				c.Lines = append(c.Lines, rapid.SampledFrom([]string{"Slot", "Slot ", "Slot 9", "Slot:", "Slots"}).Draw(t, l+"T"))
			case 5:
				c.Lines = append(c.Lines, "Slot "+rapid.StringMatching(`[0-9a-f]{2}`).Draw(t, l+"S")+rapid.SampledFrom([]string{"", ":", ": \t", " (PIV Authentication)"}).Draw(t, l+"Sfx"))
			case 6:
				c.Lines = append(c.Lines, rapid.SampledFrom([]string{"Slot9a:x", "Slot\t9a:", "Slotx9a"}).Draw(t, l+"N"))
			default:
				c.Lines = append(c.Lines, "Slot "+rapid.SampledFrom([]string{"é", "9", "9a"}).Draw(t, l+"U")+rapid.SampledFrom([]string{"", ":"}).Draw(t, l+"US"))
			}
		}
		if rapid.IntRange(0, 9).Draw(t, "rawOut") == 0 {
			c.Output = rapid.SliceOfN(rapid.Byte(), 0, 60).Draw(t, "out")
			if c.Output == nil {
				c.Output = []byte{}
			}
		}
		if rapid.Bool().Draw(t, "finalNL") && len(c.Lines) > 0 {
			c.Lines = append(c.Lines, "")
		}
	} else {
		c.Slot = rapid.SampledFrom([]string{"9a", "9e", "f9", "82", "", "9a 9c", "-a", "日本"}).Draw(t, "slot")
		c.CertIdx = rapid.IntRange(0, 5).Draw(t, "cert")
		c.OutKind = rapid.SampledFrom([]string{"pem", "pem", "pem", "empty", "garbage", "twopem", "pem-trailing-ws"}).Draw(t, "outKind")
	}
	return c
}

// expectedSlots: required entries and optional ones (unspecified lines).
type slotExp struct {
	val      string
	optional bool
}

func expectedSlots(out string) []slotExp {
	var exp []slotExp
	for _, line := range strings.Split(out, "\n") {
		if !strings.HasPrefix(line, "Slot") {
			continue
		}
		if len(line) >= 7 && line[4] == ' ' {
			exp = append(exp, slotExp{line[5:7], false})
			continue
		}
		// starts with "Slot" but is short or has no space after it: contribution unspecified
		if len(line) >= 7 {
			exp = append(exp, slotExp{line[5:7], true})
		} else if len(line) > 5 {
			exp = append(exp, slotExp{line[5:], true})
		}
	}
	return exp
}

func matchSlots(got []string, exp []slotExp) bool {
	// does got equal exp with any subset of the optional entries removed?
	var rec func(i, j int) bool
	rec = func(i, j int) bool {
		if j == len(exp) {
			return i == len(got)
		}
		if i < len(got) && got[i] == exp[j].val && rec(i+1, j+1) {
			return true
		}
		if exp[j].optional {
			return rec(i, j+1)
		}
		return false
	}
	return rec(0, 0)
}

// catchWithin runs f like vh.Catch, but gives up after limit: a call that never returns is reported
// instead of stalling the check until its global timeout.
func catchWithin(limit time.Duration, f func()) error {
	done := make(chan error, 1)
	go func() { done <- vh.Catch(f) }()
	select {
	case e := <-done:
		return e
	case <-time.After(limit):
		return fmt.Errorf("the call did not return within %s", limit)
	}
}

func execTool(c ToolCase) (vh.Outcome, error) {
	out := vh.Outcome{Classes: []string{"mode=" + c.Mode, fmt.Sprintf("remote=%v", c.Remote), fmt.Sprintf("exit=%d", c.Exit)}}
	dir := setupTool()
	output := c.output()
	os.WriteFile(filepath.Join(dir, "out"), output, 0o644)
	os.WriteFile(filepath.Join(dir, "rc"), []byte(fmt.Sprint(c.Exit)), 0o644)
	os.Remove(filepath.Join(dir, "args"))
	p, err := vh.NewProxy()
	if err != nil {
		return out, nil
	}
	defer p.Close()
	srv, err := yubiagent.NewServer(p.Path, c.Remote)
	if err != nil {
		return out, vh.Errf("NewServer(remote=%v): %v", c.Remote, err)
	}
	defer srv.Close()
	if c.Prelude && !c.Remote {
		// the same server object has served a slot listing before (another tool output, exit status 0): what this
		// call returns comes from this call's tool run alone
		os.WriteFile(filepath.Join(dir, "out"), []byte("Slot 9d:\nSlot f9:\n"), 0o644)
		os.WriteFile(filepath.Join(dir, "rc"), []byte("0"), 0o644)
		_ = catchWithin(30*time.Second, func() { _, _ = srv.ListSlots() })
		os.WriteFile(filepath.Join(dir, "out"), output, 0o644)
		os.WriteFile(filepath.Join(dir, "rc"), []byte(fmt.Sprint(c.Exit)), 0o644)
		os.Remove(filepath.Join(dir, "args"))
		out.Classes = append(out.Classes, "server-served-a-listing-before")
	}
	var slots []string
	var cert *x509.Certificate
	var opErr error
	perr := catchWithin(30*time.Second, func() {
		switch c.Mode {
		case "listslots":
			slots, opErr = srv.ListSlots()
		case "readslot":
			cert, opErr = srv.ReadSlot(c.Slot)
		case "attestslot":
			cert, opErr = srv.AttestSlot(c.Slot)
		}
	})
	if perr != nil {
		return out, vh.Errf("%s crashed on tool output %q (exit %d): %v", c.Mode, output, c.Exit, perr)
	}
	args, _ := os.ReadFile(filepath.Join(dir, "args"))
	// the same call through a client connected to this server: a failure must arrive as an error there too
	{
		c1, c2, serr := vh.SocketPair()
		if serr == nil {
			go func() {
				_ = vh.Catch(func() { _ = yubiagent.ServeAgent(srv, c2) })
				c2.Close()
			}()
			cl, cerr := yubiagent.NewClientFromConn(c1)
			if cerr == nil {
				var viaErr error
				var viaSlots []string
				var viaCert *x509.Certificate
				vperr := catchWithin(30*time.Second, func() {
					switch c.Mode {
					case "listslots":
						viaSlots, viaErr = cl.ListSlots()
					case "readslot":
						viaCert, viaErr = cl.ReadSlot(c.Slot)
					case "attestslot":
						viaCert, viaErr = cl.AttestSlot(c.Slot)
					}
				})
				c1.Close()
				if vperr != nil {
					return out, vh.Errf("%s through a client crashed: %v", c.Mode, vperr)
				}
				if (opErr != nil) != (viaErr != nil) {
					return out, vh.Errf("%s on the server itself returned error %v, the same call through a connected client returned error %v (slots %q, certificate %v): a failure must be reported as an error on both sides (tool exit status %d, remote %v)", c.Mode, opErr, viaErr, viaSlots, viaCert != nil, c.Exit, c.Remote)
				}
			} else {
				c1.Close()
			}
		}
	}
	if c.Remote {
		out.NonTrivial = true
		if opErr == nil {
			return out, vh.Errf("%s succeeded on a remote-mode server", c.Mode)
		}
		if len(args) != 0 {
			return out, vh.Errf("%s ran the PIV tool on a remote-mode server (args %q)", c.Mode, args)
		}
		return out, nil
	}
	if c.Exit != 0 {
		out.NonTrivial = true
		if opErr == nil {
			return out, vh.Errf("%s succeeded although the PIV tool exited with status %d", c.Mode, c.Exit)
		}
		return out, nil
	}
	switch c.Mode {
	case "listslots":
		if opErr != nil {
			return out, vh.Errf("listslots failed on output %q: %v", output, opErr)
		}
		exp := expectedSlots(string(output))
		out.NonTrivial = len(exp) > 0
		if !matchSlots(slots, exp) {
			return out, vh.Errf("listslots = %q for output %q; expected (optional entries marked ?) %v", slots, output, exp)
		}
	default:
		want := x509Pool()[c.CertIdx%len(x509Pool())]
		wantArgs := "-a\n" + map[string]string{"readslot": "read-certificate", "attestslot": "attest"}[c.Mode] + "\n-s\n" + c.Slot + "\n"
		if string(args) != wantArgs {
			return out, vh.Errf("%s(%q) ran the tool with arguments %q, expected %q", c.Mode, c.Slot, args, wantArgs)
		}
		switch c.OutKind {
		case "pem", "pem-trailing-ws", "twopem":
			out.NonTrivial = true
			if opErr != nil || cert == nil || !bytes.Equal(cert.Raw, want.Raw) {
				return out, vh.Errf("%s did not return the tool's certificate (%v)", c.Mode, opErr)
			}
		default:
			if opErr == nil {
				return out, vh.Errf("%s succeeded on tool output without a certificate (%q)", c.Mode, output)
			}
		}
	}
	return out, nil
}

const ruleTool = "the real NewServer(remote=false) with a fake yubico-piv-tool on PATH whose stdout and exit status come from the Case: status output of 0..8 lines (well-formed 'Slot xx:' lines, other status lines, 'Slot' lines of length 4..6, 'Slot' not followed by a space, non-ASCII, arbitrary bytes), exit status 0 / 1 / 2 / 127; read / attest with slot names (passed verbatim as arguments) and outputs {PEM certificate up to ~8 KiB (incl. the old-firmware encoding), with trailing whitespace, two blocks, empty, garbage}; and remote=true; in half of the cases the same server object has served a successful slot listing (other output) before. Oracle: in order, bytes 5..7 of every line starting with 'Slot ' and at least 7 bytes long; lines not starting with 'Slot' contribute nothing; shorter or space-less 'Slot' lines must not crash and may contribute or not; non-zero exit => error; read / attest return the certificate byte-identically; remote mode => error for all three without running the tool; every call is repeated through a client connected to the server and must fail / succeed there exactly as on the server itself. Non-trivial: remote mode, non-zero exit, at least one expected slot, or a certificate result."

func TestC13Tool(t *testing.T) {
	vh.Run(t, vh.Spec[ToolCase]{Property: "C13", Name: "TestC13Tool", Rule: ruleTool, Gen: genTool, Exec: execTool})
}
