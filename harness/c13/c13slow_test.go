package c13

// TestC13Slow: the served agent takes seconds for one call (a token waiting for a touch, a wait that
// lasts until the awaited request arrives). The caller still receives the served agent's result, and
// the calls after it are answered in step.

import (
	"bytes"
	"fmt"
	"sync"
	"testing"
	"time"

	"github.com/theparanoids/ysshra/agent/yubiagent"
	"github.com/theparanoids/ysshra/zzverif/vh"
	"golang.org/x/crypto/ssh"
	"golang.org/x/crypto/ssh/agent"
)

type SlowCase struct {
	DelayMS int
	Ops     []string
}

var slowOpName = map[string]string{"sign": "signflags", "signers": "list"}

func slowCall(op string, delay time.Duration) error {
	pub := vh.SSHPub("ed25519c")
	sig := &ssh.Signature{Format: ssh.KeyAlgoED25519, Blob: bytes.Repeat([]byte{7}, 64)}
	xc := x509Pool()[1]
	def := vh.Script{Sig: sig, Slots: []string{"9a", "9c"}, Cert: xc, Reply: []byte{6}, Keys: []*agent.Key{{Format: pub.Type(), Blob: pub.Marshal(), Comment: "k"}}}
	rec := vh.NewRecAgent(def)
	recOp := op
	if n, ok := slowOpName[op]; ok {
		recOp = n
	}
	var once sync.Once
	rec.Delay = func(o string) time.Duration {
		d := time.Duration(0)
		if o == recOp {
			once.Do(func() { d = delay })
		}
		return d
	}
	c1, c2, err := vh.SocketPair()
	if err != nil {
		return nil
	}
	defer c1.Close()
	go func() {
		_ = vh.Catch(func() { _ = yubiagent.ServeAgent(rec, c2) })
		c2.Close()
	}()
	cl, err := yubiagent.NewClientFromConn(c1)
	if err != nil {
		return vh.Errf("NewClientFromConn: %v", err)
	}
	// call returns a printable result and the error
	call := func() (string, error) {
		switch op {
		case "list":
			ks, e := cl.List()
			return fmt.Sprintf("%d keys", len(ks)), e
		case "signers":
			ss, e := cl.Signers()
			return fmt.Sprintf("%d signers", len(ss)), e
		case "sign":
			s, e := cl.Sign(pub, []byte("data"))
			if s == nil {
				return "no signature", e
			}
			return fmt.Sprintf("%s %x", s.Format, s.Blob), e
		case "signflags":
			s, e := cl.SignWithFlags(pub, []byte("data"), agent.SignatureFlagRsaSha256)
			if s == nil {
				return "no signature", e
			}
			return fmt.Sprintf("%s %x", s.Format, s.Blob), e
		case "add":
			return "", cl.Add(agent.AddedKey{PrivateKey: vh.Key("ed25519c"), Comment: "c"})
		case "remove":
			return "", cl.Remove(pub)
		case "removeall":
			return "", cl.RemoveAll()
		case "lock":
			return "", cl.Lock([]byte("pass"))
		case "unlock":
			return "", cl.Unlock([]byte("pass"))
		case "addhard":
			return "", cl.AddHardCert(sshCert("p256b"), "c")
		case "listslots":
			s, e := cl.ListSlots()
			return fmt.Sprint(s), e
		case "readslot":
			x, e := cl.ReadSlot("9a")
			if x == nil {
				return "no certificate", e
			}
			return fmt.Sprintf("%x", x.Raw), e
		case "attestslot":
			x, e := cl.AttestSlot("9a")
			if x == nil {
				return "no certificate", e
			}
			return fmt.Sprintf("%x", x.Raw), e
		case "wait":
			return "", cl.Wait(200)
		case "forward":
			r, e := cl.Forward([]byte{200, 1, 2, 3})
			return fmt.Sprintf("%x", r), e
		}
		return "", nil
	}
	type res struct {
		text string
		err  error
	}
	timed := func(f func() (string, error), limit time.Duration) (res, bool) {
		ch := make(chan res, 1)
		go func() {
			var r res
			if perr := vh.Catch(func() { r.text, r.err = f() }); perr != nil {
				r.err = fmt.Errorf("CRASH: %v", perr)
			}
			ch <- r
		}()
		select {
		case r := <-ch:
			return r, true
		case <-time.After(limit):
			return res{}, false
		}
	}
	slots := func() (string, error) { s, e := cl.ListSlots(); return fmt.Sprint(s), e }
	slow, ok := timed(call, delay+20*time.Second)
	if !ok {
		return vh.Errf("%s (the served agent takes %s for it): the client call did not return within %s", op, delay, delay+20*time.Second)
	}
	if slow.err != nil {
		return vh.Errf("%s (the served agent takes %s for it, then succeeds): the caller received an error: %v", op, delay, slow.err)
	}
	mid, ok := timed(slots, 20*time.Second)
	if !ok || mid.err != nil || mid.text != "[9a 9c]" {
		return vh.Errf("%s (slow, %s): the slot listing that follows it returned %q, %v (returned in time: %v); the served agent lists [9a 9c]", op, delay, mid.text, mid.err, ok)
	}
	fast, ok := timed(call, 20*time.Second)
	if !ok || fast.err != nil {
		return vh.Errf("%s: the second, fast call failed: %v (returned in time: %v)", op, fast.err, ok)
	}
	if fast.text != slow.text {
		return vh.Errf("%s: the served agent returns the same result both times, yet the caller received %.200q after %s and %.200q at once", op, slow.text, delay, fast.text)
	}
	// what the served agent saw: the operation twice (plus the slot listing), nothing else of that kind
	n := 0
	for _, c := range rec.Take() {
		if c.Op == recOp {
			n++
		}
	}
	want := 2
	if recOp == "listslots" {
		want = 3
	}
	if n != want {
		return vh.Errf("%s: the served agent received %d %s calls for %d client calls", op, n, recOp, want)
	}
	return nil
}

func TestC13Slow(t *testing.T) {
	ops := []string{"list", "signers", "sign", "signflags", "add", "remove", "removeall", "lock", "unlock", "addhard", "listslots", "readslot", "attestslot", "wait", "forward"}
	cases := []SlowCase{{DelayMS: 6500, Ops: ops}}
	if vh.Thorough() {
		cases = append(cases, SlowCase{DelayMS: 1200, Ops: ops}, SlowCase{DelayMS: 16000, Ops: ops}, SlowCase{DelayMS: 35000, Ops: ops})
	}
	vh.Enumerate(t, vh.Spec[SlowCase]{Property: "C13", Name: "TestC13Slow", Exhaustive: true,
		Rule: "a recording agent served over a unix socket pair takes 6.5 s (thorough: also 1.2, 16 and 35 s) for the first call of one operation and then succeeds - each of list, signers, sign, sign with flags, add, remove, remove-all, lock, unlock, add-hardware-certificate, slot listing / reading / attestation, wait, raw forward in its own connection, side by side; the client calls the operation, lists the slots, calls the operation again. Oracle: the slow call returns the served agent's result (no error), the slot listing after it returns the scripted slots, the fast repetition returns the identical result, and the served agent saw exactly the calls made",
		Exec: func(c SlowCase) (vh.Outcome, error) {
			out := vh.Outcome{NonTrivial: true}
			errs := make([]error, len(c.Ops))
			var wg sync.WaitGroup
			for i, op := range c.Ops {
				i, op := i, op
				wg.Add(1)
				go func() {
					defer wg.Done()
					errs[i] = slowCall(op, time.Duration(c.DelayMS)*time.Millisecond)
				}()
			}
			wg.Wait()
			for _, e := range errs {
				if e != nil {
					return out, e
				}
			}
			return out, nil
		}}, cases)
}
