package c17

// TestC17Repeated: endpoint lists in which an address occurs more than once (a list is a sequence,
// not a set): every entry is a try of its own, in order.

import (
	"bytes"
	"context"
	"fmt"
	"sort"
	"testing"
	"time"

	pb "github.com/theparanoids/crypki/proto"
	"github.com/theparanoids/ysshra/crypki"
	"github.com/theparanoids/ysshra/zzverif/vh"
	"golang.org/x/crypto/ssh"
	"pgregory.net/rapid"
)

type call struct {
	srv, seq int
	signed   bool
}

type RepCase struct {
	// Servers: behaviour per address: sign | rpcerr | flaky (odd calls fail, even calls sign) | nolistener | empty
	Servers []string
	Codes   []int
	// Entries: the configured list, as indexes into Servers (2..6 entries)
	Entries []int
	ViaConf bool
	// V6: the last address is the IPv6 loopback, configured as the bracketed literal "[::1]" (the spelling
	// the endpoint option needs for an IPv6 literal, since the port is appended with a colon)
	V6 bool `json:",omitempty"`
}

func execRep(c RepCase) (vh.Outcome, error) {
	out := vh.Outcome{}
	count := map[int]int{}
	for _, e := range c.Entries {
		count[e]++
	}
	for _, n := range count {
		if n > 1 {
			out.NonTrivial = true
		}
	}
	var specs []vh.CAServerSpec
	for i, b := range c.Servers {
		ip := fmt.Sprintf("127.0.0.%d", i+2)
		if c.V6 && i == len(c.Servers)-1 {
			ip = "::1"
		}
		specs = append(specs, vh.CAServerSpec{IP: ip, Behaviour: b, Code: c.Codes[i], ClientAuth: "request",
			KeyText: string(ssh.MarshalAuthorizedKey(pool()[i]))})
	}
	g, err := vh.StartCAGroup(specs)
	if err != nil {
		return out, nil
	}
	defer g.Stop()
	var ips []string
	for _, e := range c.Entries {
		if specs[e].IP == "::1" {
			ips = append(ips, "[::1]")
			out.Classes = append(out.Classes, "ipv6-literal-endpoint")
			continue
		}
		ips = append(ips, specs[e].IP)
	}
	f := vh.Farm()
	signer, err := vh.NewCrypkiSigner(crypki.SignerConfig{TLSClientKeyFile: f.ClientKeyFile(), TLSClientCertFile: f.ClientCertFile(), TLSCACertFiles: []string{f.CAFile("caA")},
		CrypkiEndpoints: ips, CrypkiPort: uint(g.Port), Retries: 1, PerTryTimeout: 10 * time.Second}, c.ViaConf)
	if err != nil {
		return out, vh.Errf("NewSigner failed for the endpoint list %v: %v", ips, err)
	}
	req := &pb.SSHCertificateSigningRequest{KeyMeta: &pb.KeyMeta{Identifier: "ssh-user-key"}, Principals: []string{"user_a"}, PublicKey: string(ssh.MarshalAuthorizedKey(vh.SSHPub("p256b"))), Validity: 3600, KeyId: "k"}
	ctx, cancel := context.WithTimeout(context.Background(), 30*time.Second)
	defer cancel()
	var certs []ssh.PublicKey
	var comments []string
	var serr error
	if perr := vh.Catch(func() { certs, comments, serr = signer.Sign(ctx, req) }); perr != nil {
		return out, vh.Errf("Sign crashed: %v", perr)
	}
	desc := fmt.Sprintf("addresses %v, configured list (indexes) %v", c.Servers, c.Entries)
	// what the endpoints saw, in global order
	var calls []call
	perSrv := map[int]int{}
	for i, s := range g.Servers {
		for _, cs := range s.Calls() {
			calls = append(calls, call{i, cs.Seq, cs.Signed})
			perSrv[i]++
		}
	}
	sort.Slice(calls, func(a, b int) bool { return calls[a].seq < calls[b].seq })
	signedAt := -1
	for i, cl := range calls {
		if cl.signed {
			signedAt = i
			break
		}
	}
	if signedAt >= 0 {
		if serr != nil {
			return out, vh.Errf("%s: endpoint %d answered call #%d with certificates, yet Sign failed: %v", desc, calls[signedAt].srv, signedAt, serr)
		}
		if signedAt != len(calls)-1 {
			return out, vh.Errf("%s: %d more call(s) were made after endpoint %d had answered successfully", desc, len(calls)-1-signedAt, calls[signedAt].srv)
		}
		if len(certs) != 1 || len(comments) != 1 || !bytes.Equal(certs[0].Marshal(), pool()[calls[signedAt].srv].Marshal()) {
			return out, vh.Errf("%s: the result (%d certificates, %d comments) is not the answer of endpoint %d", desc, len(certs), len(comments), calls[signedAt].srv)
		}
		// every entry before the answering one was a try of its own: walk the list against the calls
		return out, walk(c, desc, calls[:signedAt+1], true)
	}
	if serr == nil {
		return out, vh.Errf("%s: no endpoint answered with certificates, yet Sign returned no error (%d certificates)", desc, len(certs))
	}
	return out, walk(c, desc, calls, false)
}

// walk matches the configured entries, in order, with the calls the endpoints received: every entry
// whose address listens accounts for at least one call of that address, in list order (more calls
// than entries can come from transport-level re-dials and are tolerated); with success the walk ends
// at the answering call, without success every entry must be accounted for.
func walk(c RepCase, desc string, calls []call, success bool) error {
	pos := 0
	for ei, e := range c.Entries {
		if c.Servers[e] == "nolistener" {
			continue
		}
		// skip repeated calls of the previous address (transport-level), then expect this entry's address
		for pos < len(calls) && calls[pos].srv != e {
			if ei > 0 && calls[pos].srv == c.Entries[ei-1] {
				pos++
				continue
			}
			break
		}
		if pos >= len(calls) {
			if success {
				return nil // the answering call was reached by an earlier entry
			}
			return vh.Errf("%s: entry %d of the list (address %d) was never tried: the endpoints received %d call(s) in all, and no endpoint had answered successfully", desc, ei, e, len(calls))
		}
		if calls[pos].srv != e {
			return vh.Errf("%s: entry %d of the list names address %d, but the next call went to address %d (calls in order: %v)", desc, ei, e, calls[pos].srv, calls)
		}
		if calls[pos].signed {
			return nil
		}
		pos++
	}
	return nil
}

func TestC17Repeated(t *testing.T) {
	vh.Run(t, vh.Spec[RepCase]{Property: "C17", Name: "TestC17Repeated", Journal: true,
		Rule: "1..3 addresses (in a quarter of the cases the last one is the IPv6 loopback, configured as the bracketed literal [::1]), each served by a real gRPC-over-TLS endpoint that signs / fails with a status code / fails on its odd and signs on its even calls / answers with empty key text / has no listener; the configured list has 2..6 entries over those addresses, so addresses repeat (a list is a sequence: an operator may list an endpoint twice to give it a second try); real signer, one try per entry. Oracle from the calls the endpoints recorded: Sign succeeds iff some call was answered with certificates, returns that endpoint's certificate, makes no call after it; the entries before it (without success: all entries) are each accounted for by a call of their address, in list order. Non-trivial: an address listed more than once.",
		Gen: func(t *rapid.T) RepCase {
			c := RepCase{ViaConf: rapid.Bool().Draw(t, "viaConf"), V6: rapid.IntRange(0, 3).Draw(t, "v6") == 1}
			ns := rapid.IntRange(1, 3).Draw(t, "nservers")
			for i := 0; i < ns; i++ {
				c.Servers = append(c.Servers, rapid.SampledFrom([]string{"sign", "rpcerr", "rpcerr", "flaky", "flaky", "nolistener", "empty"}).Draw(t, fmt.Sprintf("b%d", i)))
				c.Codes = append(c.Codes, rapid.SampledFrom([]int{2, 4, 13, 14, 8}).Draw(t, fmt.Sprintf("code%d", i)))
			}
			ne := rapid.IntRange(2, 6).Draw(t, "nentries")
			for i := 0; i < ne; i++ {
				c.Entries = append(c.Entries, rapid.IntRange(0, ns-1).Draw(t, fmt.Sprintf("e%d", i)))
			}
			return c
		}, Exec: execRep})
}
