package c17

// TestC17ManyCalls: hundreds of Sign calls in one process, under a file-descriptor limit a few hundred
// above what is open at the start. Whatever an earlier call left behind (connections to endpoints that
// failed, to endpoints that signed), the later calls still reach the first signing endpoint.

import (
	"context"
	"fmt"
	"os"
	"syscall"
	"testing"
	"time"

	pb "github.com/theparanoids/crypki/proto"
	"github.com/theparanoids/ysshra/crypki"
	"github.com/theparanoids/ysshra/zzverif/vh"
	"golang.org/x/crypto/ssh"
)

type ManyCase struct {
	Endpoints []string
	Calls     int
	FreshEach bool // a new Signer for every call (as one gensign process per request would), else one Signer
}

func openFDs() int {
	es, err := os.ReadDir("/proc/self/fd")
	if err != nil {
		return -1
	}
	return len(es)
}

func execMany(c ManyCase) (vh.Outcome, error) {
	out := vh.Outcome{NonTrivial: true, Classes: []string{fmt.Sprintf("fresh=%v", c.FreshEach)}}
	var specs []vh.CAServerSpec
	var ips []string
	signing := -1
	for i, b := range c.Endpoints {
		ip := fmt.Sprintf("127.0.0.%d", i+2)
		ips = append(ips, ip)
		specs = append(specs, vh.CAServerSpec{IP: ip, Behaviour: b, Code: []int{14, 13, 2, 8}[i%4], ClientAuth: "request", KeyText: string(ssh.MarshalAuthorizedKey(pool()[i]))})
		if b == "sign" && signing < 0 {
			signing = i
		}
	}
	g, err := vh.StartCAGroup(specs)
	if err != nil {
		return out, nil
	}
	defer g.Stop()
	f := vh.Farm()
	conf := crypki.SignerConfig{TLSClientKeyFile: f.ClientKeyFile(), TLSClientCertFile: f.ClientCertFile(), TLSCACertFiles: []string{f.CAFile("caA")},
		CrypkiEndpoints: ips, CrypkiPort: uint(g.Port), Retries: 1, PerTryTimeout: 10 * time.Second}
	signer, err := crypki.NewSigner(conf)
	if err != nil {
		return out, vh.Errf("NewSigner: %v", err)
	}
	// a descriptor budget: what is open now plus 350 (each call needs a handful at a time)
	start := openFDs()
	var old syscall.Rlimit
	if start > 0 && syscall.Getrlimit(syscall.RLIMIT_NOFILE, &old) == nil {
		lim := old
		lim.Cur = uint64(start + 350)
		if lim.Cur < old.Cur {
			if syscall.Setrlimit(syscall.RLIMIT_NOFILE, &lim) == nil {
				defer syscall.Setrlimit(syscall.RLIMIT_NOFILE, &old)
			}
		}
	}
	req := &pb.SSHCertificateSigningRequest{KeyMeta: &pb.KeyMeta{Identifier: "ssh-user-key"}, Principals: []string{"user_a"}, PublicKey: string(ssh.MarshalAuthorizedKey(vh.SSHPub("p256b"))), Validity: 3600, KeyId: "k"}
	for n := 0; n < c.Calls; n++ {
		s := signer
		if c.FreshEach {
			if s, err = crypki.NewSigner(conf); err != nil {
				return out, vh.Errf("call %d: NewSigner failed (open descriptors: %d at the start, %d now): %v", n, start, openFDs(), err)
			}
		}
		ctx, cancel := context.WithTimeout(context.Background(), 30*time.Second)
		var certs []ssh.PublicKey
		var serr error
		perr := vh.Catch(func() { certs, _, serr = s.Sign(ctx, req) })
		cancel()
		if perr != nil {
			return out, vh.Errf("call %d: Sign crashed: %v", n, perr)
		}
		if signing < 0 {
			if serr == nil {
				return out, vh.Errf("call %d: success although no endpoint signs", n)
			}
			continue
		}
		if serr != nil {
			return out, vh.Errf("call %d of %d with endpoints %v: endpoint %d signs, yet Sign failed: %v (open descriptors: %d at the start, %d now: the earlier calls left something open)", n, c.Calls, c.Endpoints, signing, serr, start, openFDs())
		}
		if len(certs) != 1 || string(certs[0].Marshal()) != string(pool()[signing].Marshal()) {
			return out, vh.Errf("call %d: the answer is not endpoint %d's", n, signing)
		}
	}
	return out, nil
}

func TestC17ManyCalls(t *testing.T) {
	n := 500
	if vh.Thorough() {
		n = 1500
	}
	cases := []ManyCase{
		{Endpoints: []string{"rpcerr", "sign"}, Calls: n},
		{Endpoints: []string{"rpcerr", "rpcerr", "sign"}, Calls: n, FreshEach: true},
		{Endpoints: []string{"unparsable", "empty", "sign"}, Calls: n},
		{Endpoints: []string{"nolistener", "sign"}, Calls: n, FreshEach: true},
		{Endpoints: []string{"sign", "rpcerr"}, Calls: n},
	}
	vh.Enumerate(t, vh.Spec[ManyCase]{Property: "C17", Name: "TestC17ManyCalls", Exhaustive: true,
		Rule: "500 (thorough: 1500) Sign calls in one process against endpoint lists whose earlier endpoints fail (RPC error, unparsable / empty key text, no listener) before one signs - on one Signer or on a fresh Signer per call - with the process's file-descriptor limit set to 350 above what is open at the start. Oracle: every single call still returns the first signing endpoint's certificates (a call that fails because earlier calls left connections open breaks 'the first endpoint that answers successfully is used')",
		Exec: execMany}, cases)
}
