// C17 — CA endpoints are tried in order until one signs; exhaustion is an error; back-off bounded.
package c17

import (
	"bytes"
	"context"
	"fmt"
	"math"
	"strings"
	"sync"
	"testing"
	"time"

	pb "github.com/theparanoids/crypki/proto"
	"github.com/theparanoids/ysshra/crypki"
	"github.com/theparanoids/ysshra/internal/backoff"
	"github.com/theparanoids/ysshra/zzverif/vh"
	"golang.org/x/crypto/ssh"
	"google.golang.org/protobuf/proto"
	"pgregory.net/rapid"
)

type Endpoint struct {
	// Behaviour: sign | rpcerr | empty | unparsable | nolistener | hang
	Behaviour string
	Code      int
	Certs     []int    // indexes into the certificate pool
	Comments  []string // one per certificate ("" = none)
	// ErrText: the status message of an RPC error ("" = a harness text); messages real CAs send, "%d" = the request's validity
	ErrText string `json:",omitempty"`
	// Decor: how the reply text is laid out around the certificate lines: "" | blank-end (an extra empty
	// line at the end) | crlf (CR LF line ends) | remark-end (a '#' line at the end) | blank-start | spaces-end
	Decor string `json:",omitempty"`
	// Later: behaviour in the later calls on the same Signer ("" = unchanged); only sign / rpcerr
	Later     string
	LaterCode int
}

type Case struct {
	// Ctx: "" (live) | cancelled | expired  - the caller's context when Sign is entered
	Ctx string
	// Rounds is the number of Sign calls made on the one Signer (behaviours may change after the first).
	Rounds     int
	Endpoints  []Endpoint
	Principals []string
	KeyID      string
	Validity   uint64
	Identifier string
	// ViaConf: the signer is built from the "signer" map of a gensign configuration
	ViaConf bool
	// CAFiles: how the servers' CA reaches the signer: "" = its own file | bundleBA | bundleBClientsA (one file in
	// which it is the second / third certificate) | two (another CA's file, then its own)
	CAFiles string `json:",omitempty"`
	// Accessors: before the first Sign the caller fetches the signer's endpoint and dial-option lists and edits the results
	Accessors bool `json:",omitempty"`
}

var (
	certOnce sync.Once
	certPool []*ssh.Certificate
)

func pool() []*ssh.Certificate {
	certOnce.Do(func() {
		for i, k := range []string{"p256b", "ed25519b", "rsa1536", "p384a", "p521a", "ed25519c"} {
			certPool = append(certPool, vh.MakeSSHCert(vh.SSHCertSpec{Key: k, KeyID: fmt.Sprintf("pool cert %d", i), ValidAfter: 0, ValidBefore: ssh.CertTimeInfinity, Serial: uint64(i), Principals: []string{"user_a"}}))
		}
		// big certificates (many long principals): authorized-key lines of about 64 KiB and 130 KiB
		for i, n := range []int{236, 480} {
			var prins []string
			for j := 0; j < n; j++ {
				prins = append(prins, fmt.Sprintf("principal-%04d-%s", j, strings.Repeat("x", 180)))
			}
			certPool = append(certPool, vh.MakeSSHCert(vh.SSHCertSpec{Key: "p256c", KeyID: fmt.Sprintf("big pool cert %d", i), ValidAfter: 0, ValidBefore: ssh.CertTimeInfinity, Serial: uint64(100 + i), Principals: prins}))
		}
	})
	return certPool
}

// longComment expands the marker "LONG<n>" into a comment of n bytes (cases stay small).
func longComment(s string) string {
	var n int
	if _, err := fmt.Sscanf(s, "LONG%d", &n); err == nil && n > 0 {
		return strings.Repeat("c", n)
	}
	return s
}

// replyKey: entry ci of the reply pool; 100 and above are plain public keys (a CA that sends its own key
// line or a bare key next to - or in place of - the certificates)
func replyKey(ci int) ssh.PublicKey {
	if ci >= 100 {
		names := []string{"p256b", "ed25519b", "rsa1536", "p384a"}
		return vh.SSHPub(names[(ci-100)%len(names)])
	}
	return pool()[ci%len(pool())]
}

func keyText(e Endpoint) string {
	var b strings.Builder
	for i, ci := range e.Certs {
		line := strings.TrimSuffix(string(ssh.MarshalAuthorizedKey(replyKey(ci))), "\n")
		if i < len(e.Comments) && e.Comments[i] != "" {
			line += " " + longComment(e.Comments[i])
		}
		b.WriteString(line + "\n")
	}
	text := b.String()
	switch e.Decor {
	case "blank-end":
		text += "\n"
	case "crlf":
		text = strings.ReplaceAll(text, "\n", "\r\n")
	case "remark-end":
		text += "# issued by the harness CA\n"
	case "blank-start":
		text = "\n" + text
	case "spaces-end":
		text += "  \n"
	}
	return text
}

func genEndpoint(t *rapid.T, label string) Endpoint {
	e := Endpoint{Behaviour: rapid.SampledFrom([]string{"sign", "sign", "sign", "rpcerr", "rpcerr", "empty", "unparsable", "nolistener", "hang"}).Draw(t, label+"B")}
	if e.Behaviour == "hang" && rapid.IntRange(0, 3).Draw(t, label+"HangRare") > 0 {
		e.Behaviour = "rpcerr"
	}
	switch e.Behaviour {
	case "rpcerr":
		e.Code = rapid.IntRange(1, 16).Draw(t, label+"Code")
		if rapid.IntRange(0, 2).Draw(t, label+"RealText") == 1 {
			// what a real CA says (the texts carry numbers and hints a client might be tempted to act on)
			e.Code = rapid.SampledFrom([]int{3, 3, 9, 8, 14, 7}).Draw(t, label+"RealCode")
			e.ErrText = rapid.SampledFrom([]string{"Bad request: requested validity %d is greater than maximum allowed validity 3600", "requested validity %d is greater than maximum allowed validity 1", "Bad request: unknown key identifier, use ssh-user-key-2", "Bad request: at most 1 principal allowed", "retry after 1s", "Bad request: validity must be at least 43200", "certificate signing is rate limited, try endpoint 127.0.0.9"}).Draw(t, label+"ErrText")
		}
	case "sign":
		e.Decor = rapid.SampledFrom([]string{"", "", "", "blank-end", "crlf", "remark-end", "blank-start", "spaces-end"}).Draw(t, label+"Decor")
		n := rapid.IntRange(1, 3).Draw(t, label+"N")
		if rapid.IntRange(0, 30).Draw(t, label+"ManyCerts") == 14 {
			n = rapid.SampledFrom([]int{12, 40, 100}).Draw(t, label+"NMany") // nothing bounds the number of certificates in a reply
		}
		for i := 0; i < n; i++ {
			ci := rapid.IntRange(0, 5).Draw(t, fmt.Sprintf("%sC%d", label, i))
			if rapid.IntRange(0, 31).Draw(t, fmt.Sprintf("%sBig%d", label, i)) == 17 {
				ci = 6 + rapid.IntRange(0, 1).Draw(t, fmt.Sprintf("%sBigC%d", label, i))
			}
			if rapid.IntRange(0, 11).Draw(t, fmt.Sprintf("%sPlain%d", label, i)) == 7 {
				ci = 100 + rapid.IntRange(0, 3).Draw(t, fmt.Sprintf("%sPlainK%d", label, i)) // a plain public key among the entries
			}
			e.Certs = append(e.Certs, ci)
			e.Comments = append(e.Comments, rapid.SampledFrom([]string{"", "TouchlessSSH", "user_a@host", "two words", "é 日本", "a  b", "-", "ssh-rsa", "LONG4096", "LONG70000"}).Draw(t, fmt.Sprintf("%sM%d", label, i)))
		}
	}
	return e
}

func gen(t *rapid.T) Case {
	c := Case{
		Principals: rapid.SliceOfN(rapid.SampledFrom([]string{"user_a", "root", "é", "", "ops:touch", "deploy", "a b"}), 0, 8).Draw(t, "principals"),
		KeyID:      rapid.SampledFrom([]string{`{"prins":["user_a"],"transID":"15537d7b63","reqUser":"user_a","reqIP":"172.17.0.1","reqHost":"localhost","isFirefighter":false,"isHWKey":false,"isHeadless":false,"isNonce":false,"usage":0,"touchPolicy":1,"ver":1}`, "", "free text 日本"}).Draw(t, "keyID"),
		Validity:   rapid.SampledFrom([]uint64{0, 1, 43200, 1 << 40}).Draw(t, "validity"),
		Identifier: rapid.SampledFrom([]string{"ssh-user-key", "ssh-user-key", "", "slot é", "<none>"}).Draw(t, "identifier"), // "<none>": the request has no key-meta sub-message at all
	}
	c.ViaConf = rapid.Bool().Draw(t, "viaConf")
	c.Accessors = rapid.IntRange(0, 3).Draw(t, "accessors") == 2
	c.CAFiles = rapid.SampledFrom([]string{"", "", "", "bundleBA", "bundleBClientsA", "two"}).Draw(t, "caFiles")
	n := rapid.IntRange(0, 4).Draw(t, "n")
	for i := 0; i < n; i++ {
		c.Endpoints = append(c.Endpoints, genEndpoint(t, fmt.Sprintf("e%d", i)))
	}
	if rapid.IntRange(0, 9).Draw(t, "doneCtx") == 0 {
		c.Ctx = rapid.SampledFrom([]string{"cancelled", "expired"}).Draw(t, "ctx")
	}
	c.Rounds = rapid.SampledFrom([]int{1, 2, 2, 3}).Draw(t, "rounds")
	if c.Rounds > 1 {
		for i := range c.Endpoints {
			e := &c.Endpoints[i]
			if e.Behaviour == "hang" {
				continue
			}
			if e.Behaviour == "nolistener" {
				// connection-level recovery: the address starts listening before the next call
				if rapid.Bool().Draw(t, fmt.Sprintf("comesUp%d", i)) {
					e.Later = "sign"
					e.Certs, e.Comments = []int{i % 6}, []string{"came up"}
				}
				continue
			}
			if rapid.IntRange(0, 5).Draw(t, fmt.Sprintf("goesDown%d", i)) == 0 {
				e.Later = "nolistener" // connection-level failure from the second call on
				continue
			}
			switch rapid.IntRange(0, 2).Draw(t, fmt.Sprintf("later%d", i)) {
			case 0: // recovers / keeps signing
				e.Later = "sign"
				if len(e.Certs) == 0 {
					e.Certs, e.Comments = []int{i % 6}, []string{"recovered"}
				}
			case 1:
				e.Later, e.LaterCode = "rpcerr", 14
			}
		}
	}
	return c
}

func exec(c Case) (vh.Outcome, error) {
	out := vh.Outcome{Classes: []string{fmt.Sprintf("n=%d", len(c.Endpoints)), fmt.Sprintf("rounds=%d", max(c.Rounds, 1))}}
	firstOK := -1
	for i, e := range c.Endpoints {
		out.Classes = append(out.Classes, "ep="+e.Behaviour)
		if e.Behaviour == "sign" && firstOK < 0 {
			firstOK = i
		}
	}
	out.NonTrivial = (firstOK > 0) || (firstOK < 0 && len(c.Endpoints) > 0)
	var specs []vh.CAServerSpec
	var ips []string
	for i, e := range c.Endpoints {
		ip := fmt.Sprintf("127.0.0.%d", i+2)
		ips = append(ips, ip)
		specs = append(specs, vh.CAServerSpec{IP: ip, Behaviour: e.Behaviour, Code: e.Code, ErrText: e.ErrText, Later: e.Later, LaterCode: e.LaterCode, KeyText: keyText(e), ClientAuth: "request", HangFor: 4 * time.Second})
	}
	g, err := vh.StartCAGroup(specs)
	if err != nil {
		return out, nil // infrastructure (ports)
	}
	defer g.Stop()
	f := vh.Farm()
	// generous per-try deadline so that a loaded machine never turns a healthy endpoint into a failed
	// one; only cases with a hanging endpoint use a short one
	perTry := 10 * time.Second
	for _, e := range c.Endpoints {
		if e.Behaviour == "hang" {
			perTry = 1500 * time.Millisecond
		}
	}
	if ips == nil {
		ips = []string{}
	}
	caFiles := []string{f.CAFile("caA")}
	switch c.CAFiles {
	case "bundleBA", "bundleBClientsA":
		caFiles = []string{f.CAFile(c.CAFiles)}
	case "two":
		caFiles = []string{f.CAFile("caB"), f.CAFile("caA")}
	}
	signer, err := vh.NewCrypkiSigner(crypki.SignerConfig{
		TLSClientKeyFile: f.ClientKeyFile(), TLSClientCertFile: f.ClientCertFile(), TLSCACertFiles: caFiles,
		CrypkiEndpoints: ips, CrypkiPort: uint(g.Port), Retries: 1, PerTryTimeout: perTry,
	}, c.ViaConf && len(ips) > 0)
	if err != nil {
		return out, vh.Errf("NewSigner failed for %d endpoints: %v", len(ips), err)
	}
	if c.Accessors {
		// a caller that inspects the signer's endpoint and option lists and edits what it was handed (sorts it, blanks it):
		// the lists it got are its own, the signer keeps calling the configured endpoints in the configured order
		eps := signer.Endpoints()
		for a, b := 0, len(eps)-1; a < b; a, b = a+1, b-1 {
			eps[a], eps[b] = eps[b], eps[a]
		}
		if len(eps) > 0 {
			eps[0] = "127.0.0.250:1"
		}
		opts := signer.DialOptions()
		for a, b := 0, len(opts)-1; a < b; a, b = a+1, b-1 {
			opts[a], opts[b] = opts[b], opts[a]
		}
		if len(opts) > 1 {
			opts[0] = opts[1]
		}
		out.Classes = append(out.Classes, "accessor-results-edited")
	}
	rounds := c.Rounds
	if rounds < 1 {
		rounds = 1
	}
	seen := make([]int, len(c.Endpoints)) // calls already attributed per endpoint
	for round := 0; round < rounds; round++ {
		g.SetRound(round)
		if g.LateFailed {
			return out, nil // infrastructure: the address of a late-starting endpoint was taken meanwhile
		}
		// behaviours of this round
		cur := make([]Endpoint, len(c.Endpoints))
		copy(cur, c.Endpoints)
		if round > 0 {
			for i := range cur {
				if cur[i].Later != "" {
					cur[i].Behaviour, cur[i].Code = cur[i].Later, cur[i].LaterCode
				}
			}
		}
		if err := oneRound(c, cur, round, g, signer, seen, &out); err != nil {
			return out, err
		}
	}
	return out, nil
}

func behavioursOf(es []Endpoint) []string {
	var b []string
	for _, e := range es {
		b = append(b, e.Behaviour)
	}
	return b
}

func oneRound(c Case, cur []Endpoint, round int, g *vh.CAGroup, signer *crypki.Signer, seenBefore []int, outp *vh.Outcome) error {
	firstOK := -1
	for i, e := range cur {
		if e.Behaviour == "sign" && firstOK < 0 {
			firstOK = i
		}
	}
	if round > 0 && firstOK >= 0 {
		outp.NonTrivial = true
	}
	req := &pb.SSHCertificateSigningRequest{KeyMeta: &pb.KeyMeta{Identifier: c.Identifier}, Principals: append(make([]string, 0, len(c.Principals)+4), c.Principals...), PublicKey: string(ssh.MarshalAuthorizedKey(vh.SSHPub("p256b"))),
		Validity: c.Validity, KeyId: c.KeyID, Extensions: map[string]string{"permit-pty": "", "x": "y"}, CriticalOptions: map[string]string{"force-command": "true"}}
	if c.Identifier == "<none>" {
		req.KeyMeta = nil // an optional sub-message: a request without it is passed on like any other
	}
	sent := proto.Clone(req).(*pb.SSHCertificateSigningRequest)
	var certs []ssh.PublicKey
	var comments []string
	var serr error
	ctx, cancel := context.WithTimeout(context.Background(), 30*time.Second)
	defer cancel()
	switch c.Ctx {
	case "cancelled":
		cancel()
	case "expired":
		var c2 context.CancelFunc
		ctx, c2 = context.WithDeadline(context.Background(), time.Now().Add(-time.Second))
		defer c2()
	}
	if perr := vh.Catch(func() { certs, comments, serr = signer.Sign(ctx, req) }); perr != nil {
		return vh.Errf("Sign crashed: %v", perr)
	}
	if c.Ctx != "" {
		// the deadline failure kind: every endpoint fails, so the call must report an error
		for i, s := range g.Servers {
			seenBefore[i] = len(s.Calls())
		}
		if serr == nil {
			return vh.Errf("Sign with a %s context returned no error (%d certificates, %d comments): an empty success", c.Ctx, len(certs), len(comments))
		}
		outp.NonTrivial = true
		return nil
	}
	if !proto.Equal(req, sent) {
		return vh.Errf("Sign modified the caller's request")
	}
	// who was contacted, in which order
	type contact struct{ idx, seq int }
	var contacts []contact
	for i, s := range g.Servers {
		calls := s.Calls()[seenBefore[i]:]
		seenBefore[i] += len(calls)
		// (a failing endpoint may legitimately be contacted more than once: gRPC retries transparently at
		// the transport level; what matters is the order between endpoints)
		for _, call := range calls {
			contacts = append(contacts, contact{i, call.Seq})
			if !proto.Equal(call.Req, sent) {
				return vh.Errf("endpoint %d received a request that differs from the input:\n got  %v\n want %v", i, call.Req, sent)
			}
		}
	}
	last := len(cur) - 1
	if firstOK >= 0 {
		last = firstOK
	}
	for i, e := range cur {
		reachable := e.Behaviour != "nolistener"
		var seq = -1
		for _, ct := range contacts {
			if ct.idx == i {
				seq = ct.seq
			}
		}
		if i <= last && reachable && seq < 0 {
			return vh.Errf("endpoint %d (%s) was not contacted although no earlier endpoint had signed (behaviours %v)", i, e.Behaviour, behavioursOf(cur))
		}
		if i > last && seq >= 0 {
			return vh.Errf("endpoint %d was contacted after endpoint %d had signed (behaviours %v)", i, last, behavioursOf(cur))
		}
	}
	for a := 0; a < len(contacts); a++ {
		for b := a + 1; b < len(contacts); b++ {
			if (contacts[a].idx < contacts[b].idx) != (contacts[a].seq < contacts[b].seq) {
				return vh.Errf("endpoints were contacted out of order: endpoint %d as #%d, endpoint %d as #%d", contacts[a].idx, contacts[a].seq, contacts[b].idx, contacts[b].seq)
			}
		}
	}
	if firstOK < 0 {
		if serr == nil {
			return vh.Errf("no endpoint signed (behaviours %v) but Sign returned no error (%d certificates)", behavioursOf(cur), len(certs))
		}
		return nil
	}
	if serr != nil {
		return vh.Errf("endpoint %d signs but Sign failed (behaviours %v): %v", firstOK, behavioursOf(cur), serr)
	}
	want := cur[firstOK]
	if len(comments) != len(certs) {
		return vh.Errf("%d certificates and %d comments returned", len(certs), len(comments))
	}
	if len(certs) == 0 {
		return vh.Errf("endpoint %d answered successfully with %d entries, yet Sign returned an empty success (no certificate, no error)", firstOK, len(want.Certs))
	}
	// entries that are plain public keys: whether they are handed on is not stated; the certificates are, in the
	// CA's order and with their comments
	wantCerts, wantComments, plain := []int{}, []string{}, 0
	for i, ci := range want.Certs {
		if ci >= 100 {
			plain++
			continue
		}
		wantCerts, wantComments = append(wantCerts, ci), append(wantComments, want.Comments[i])
	}
	gotCerts, gotComments := certs, comments
	if plain > 0 {
		gotCerts, gotComments = nil, nil
		for i, k := range certs {
			if _, isCert := k.(*ssh.Certificate); isCert {
				gotCerts, gotComments = append(gotCerts, k), append(gotComments, comments[i])
			}
		}
	}
	if len(gotCerts) != len(wantCerts) {
		return vh.Errf("%d certificates returned, endpoint %d sent %d certificates (and %d plain keys)", len(gotCerts), firstOK, len(wantCerts), plain)
	}
	for i, ci := range wantCerts {
		if !bytes.Equal(gotCerts[i].Marshal(), replyKey(ci).Marshal()) {
			return vh.Errf("certificate %d is not the one endpoint %d sent at that position", i, firstOK)
		}
		if gotComments[i] != longComment(wantComments[i]) {
			return vh.Errf("comment %d is %.80q (%d bytes), endpoint %d sent %s", i, gotComments[i], len(gotComments[i]), firstOK, wantComments[i])
		}
	}
	return nil
}

func behaviours(c Case) []string {
	var b []string
	for _, e := range c.Endpoints {
		b = append(b, e.Behaviour)
	}
	return b
}

const rule = "endpoint lists of length 0..4 over 127.0.0.2..5 sharing one port, served by real gRPC-over-TLS Signing servers; per endpoint: signs 1..3 (one in 30: 12 / 40 / 100) certificates (small ones, rarely one of 64 KiB / 130 KiB) with comment shapes (none, one word, several words, non-ASCII, a key-type look-alike, 4 KB, 70 KB) (one entry in twelve is a plain public key instead of a certificate - also as the only entry of a reply) and reply layouts (an extra empty or '#' line at the end, an empty line in front, CR LF line ends, a line of blanks at the end), RPC error with any status code 1..16 (a third of them with the texts real CAs send: maximum validity exceeded, unknown key identifier, too many principals, rate limit hints), empty key text, unparsable key text, no listener, hangs past the per-try deadline (rare); real crypki signer (NewSigner, or NewSignerWithGensignConf from a configuration map) with real TLS material (the servers' CA configured through its own file, as second or third certificate of a bundle file, or as second of two files), retries = 1; in a quarter of the cases the caller first fetches the signer's endpoint and dial-option lists and reverses / overwrites what it was handed; 1..3 Sign calls on the same Signer, with endpoints recovering or starting to fail after the first call, at RPC level (status code) and at connection level (an address without listener starts listening; a listening one goes away); a tenth of the cases enter Sign with a cancelled or expired context (deadline failure of every endpoint); request fields generated (0..8 principals, KeyID, validity, identifier - or no key-meta sub-message at all -, extensions, critical options). Oracle: contacted = the prefix up to and including the first signing endpoint, in order, each once, each receiving a request proto.Equal to the input; result = that endpoint's certificates and comments, same length, CA order (plain keys among the entries may or may not be handed on), never an empty success; no signing endpoint or an empty list => non-nil error, never (nil, nil, nil). Non-trivial: a failing endpoint before a signing one, or all failing."

func TestC17Failover(t *testing.T) {
	vh.Run(t, vh.Spec[Case]{Property: "C17", Name: "TestC17Failover", Rule: rule, Gen: gen, Exec: exec})
}

// TestC17Vectors enumerates every success / failure vector for lists of length 0..3.
func TestC17Vectors(t *testing.T) {
	var cases []Case
	kinds := []Endpoint{{Behaviour: "sign", Certs: []int{0, 1}, Comments: []string{"c0", ""}}, {Behaviour: "rpcerr", Code: 14}, {Behaviour: "unparsable"}, {Behaviour: "nolistener"}}
	// replies with very long lines (a big certificate first / in the middle, a 70 KB comment)
	for _, big := range []Endpoint{{Behaviour: "sign", Certs: []int{7, 0}, Comments: []string{"", "after-big"}}, {Behaviour: "sign", Certs: []int{0, 6, 1}, Comments: []string{"c0", "LONG70000", "c2"}}} {
		cases = append(cases, Case{Endpoints: []Endpoint{big, kinds[0]}, Principals: []string{"user_a"}, KeyID: "k", Validity: 3600, Identifier: "ssh-user-key"},
			Case{Endpoints: []Endpoint{kinds[1], big}, Principals: []string{"user_a"}, KeyID: "k", Validity: 3600, Identifier: "ssh-user-key"})
	}
	// every text a real CA answers with (the texts carry numbers and hints a client might act on), in front of a signing endpoint
	// and in front of a second refusing one, for a request whose validity exceeds every number they mention
	for _, txt := range []string{"Bad request: requested validity %d is greater than maximum allowed validity 3600", "requested validity %d is greater than maximum allowed validity 1", "Bad request: unknown key identifier, use ssh-user-key-2", "Bad request: at most 1 principal allowed", "retry after 1s", "Bad request: validity must be at least 43200", "certificate signing is rate limited, try endpoint 127.0.0.9"} {
		for _, code := range []int{3, 9, 8} {
			refuse := Endpoint{Behaviour: "rpcerr", Code: code, ErrText: txt}
			cases = append(cases, Case{Endpoints: []Endpoint{refuse, kinds[0]}, Principals: []string{"user_a", "user_b"}, KeyID: "k", Validity: 86400, Identifier: "ssh-user-key"},
				Case{Endpoints: []Endpoint{refuse, refuse, kinds[0]}, Principals: []string{"user_a", "user_b"}, KeyID: "k", Validity: 7200, Identifier: "ssh-user-key"})
		}
	}
	// replies whose entries are plain public keys: only such entries, or mixed with certificates
	for _, certs := range [][]int{{100}, {100, 101}, {0, 100}, {100, 0, 101}} {
		plain := Endpoint{Behaviour: "sign", Certs: certs, Comments: make([]string, len(certs))}
		cases = append(cases, Case{Endpoints: []Endpoint{plain}, Principals: []string{"user_a"}, KeyID: "k", Validity: 3600, Identifier: "ssh-user-key"},
			Case{Endpoints: []Endpoint{kinds[1], plain, kinds[0]}, Principals: []string{"user_a"}, KeyID: "k", Validity: 3600, Identifier: "ssh-user-key"})
	}
	var rec func(prefix []Endpoint, n int)
	rec = func(prefix []Endpoint, n int) {
		if len(prefix) == n {
			cases = append(cases, Case{Endpoints: append([]Endpoint{}, prefix...), Principals: []string{"user_a"}, KeyID: "k", Validity: 3600, Identifier: "ssh-user-key"})
			return
		}
		for _, k := range kinds {
			rec(append(prefix, k), n)
		}
	}
	for n := 0; n <= 3; n++ {
		rec(nil, n)
	}
	vh.Enumerate(t, vh.Spec[Case]{Property: "C17", Name: "TestC17Vectors", Exhaustive: true,
		Rule: "every vector over {signs, RPC error (Unavailable), unparsable key text, no listener} for endpoint lists of length 0..3 (1 + 4 + 16 + 64 = 85 lists), plus 8 lists whose signing endpoint answers with plain public keys only or mixed with certificates, plus 42 lists in which one or two endpoints refuse with each of the texts real CAs send (maximum validity exceeded, unknown key identifier, too many principals, retry hints, rate limit with another endpoint's address) under three status codes in front of a signing endpoint, plus 4 lists whose signing endpoint answers with very long lines (a 130 KiB certificate first, a 64 KiB certificate with a 70 KB comment in the middle); same oracle",
		Exec: exec}, cases)
}

// ---------- back-off ----------

type BackoffCase struct {
	BaseNs     int64
	MaxNs      int64
	Multiplier float64
	Jitter     float64
	Attempt    uint
	Later      []BackoffStep `json:",omitempty"`
}

// BackoffStep: new settings written into the same Config object (or into a copy of it taken at that
// moment) after it has been used, and the attempt evaluated under them.
type BackoffStep struct {
	BaseNs     int64
	MaxNs      int64
	Multiplier float64
	Jitter     float64
	Attempt    uint
	Copy       bool
}

func TestC17Backoff(t *testing.T) {
	vh.Run(t, vh.Spec[BackoffCase]{Property: "C17", Name: "TestC17Backoff",
		Rule: "back-off as a pure function: max <= 2^61 ns, base in [0, max] (weight on 0, 1, max), multiplier in [1, 10^6] (weight on 1, 1.0000001, 3), jitter in [0, 1] (weight on 0 and 1), attempt 0..2^32-1 with weight on 0, 1, 2, 646..650, 1023, 1024, 2^32-1. Oracle: 0 <= Backoff(n) <= max*(1+jitter) (+1 ns rounding), evaluated 3 times per case because the jitter is random; in three fifths of the cases the same Config object (or a copy taken after use) then receives 1..3 further settings from the same domain and is judged under each - the bound is the one configured at the time of the call. Non-trivial: attempt >= 1.",
		Gen: func(t *rapid.T) BackoffCase {
			c := genBackoffSettings(t, "")
			// later settings of the same Config object (its fields are exported and plain: a caller may
			// adjust them between calls), or of a copy taken after use
			for i, n := 0, rapid.SampledFrom([]int{0, 0, 1, 2, 3}).Draw(t, "later"); i < n; i++ {
				l := genBackoffSettings(t, fmt.Sprintf("later%d-", i))
				c.Later = append(c.Later, BackoffStep{BaseNs: l.BaseNs, MaxNs: l.MaxNs, Multiplier: l.Multiplier, Jitter: l.Jitter, Attempt: l.Attempt, Copy: rapid.IntRange(0, 3).Draw(t, fmt.Sprintf("later%d-copy", i)) == 0})
			}
			return c
		},
		Exec: func(c BackoffCase) (vh.Outcome, error) {
			out := vh.Outcome{NonTrivial: c.Attempt >= 1, Classes: []string{fmt.Sprintf("base0=%v", c.BaseNs == 0), fmt.Sprintf("attempt>=647=%v", c.Attempt >= 647), fmt.Sprintf("reconfigured=%d", len(c.Later))}}
			cfg := &backoff.Config{BaseDelay: time.Duration(c.BaseNs), MaxDelay: time.Duration(c.MaxNs), Multiplier: c.Multiplier, Jitter: c.Jitter}
			judge := func(cfg *backoff.Config, attempt uint, what string) error {
				bound := float64(cfg.MaxDelay) * (1 + cfg.Jitter)
				for i := 0; i < 3; i++ {
					var d time.Duration
					if perr := vh.Catch(func() { d = cfg.Backoff(attempt) }); perr != nil {
						return vh.Errf("%sBackoff crashed: %v", what, perr)
					}
					if d < 0 || float64(d) > bound*(1+1e-12)+1 || math.IsNaN(float64(d)) {
						return vh.Errf("%sBackoff(%d) = %d ns with base %d ns, max %d ns, multiplier %v, jitter %v: outside [0, %v]", what, attempt, int64(d), int64(cfg.BaseDelay), int64(cfg.MaxDelay), cfg.Multiplier, cfg.Jitter, bound)
					}
				}
				return nil
			}
			if err := judge(cfg, c.Attempt, ""); err != nil {
				return out, err
			}
			for i, l := range c.Later {
				what := fmt.Sprintf("after %d earlier setting(s) of the same Config object (first: base %d ns, max %d ns, multiplier %v, jitter %v, attempt %d): ", i+1, c.BaseNs, c.MaxNs, c.Multiplier, c.Jitter, c.Attempt)
				if l.Copy {
					cp := *cfg
					cfg = &cp
					what = "on a copy taken " + what
				}
				cfg.BaseDelay, cfg.MaxDelay, cfg.Multiplier, cfg.Jitter = time.Duration(l.BaseNs), time.Duration(l.MaxNs), l.Multiplier, l.Jitter
				if err := judge(cfg, l.Attempt, what); err != nil {
					return out, err
				}
			}
			return out, nil
		}})
}

func genBackoffSettings(t *rapid.T, l string) BackoffCase {
	c := BackoffCase{}
	c.MaxNs = rapid.OneOf(rapid.SampledFrom([]int64{0, 1, 50e6, 15e9, 1 << 61}), rapid.Int64Range(0, 1<<61)).Draw(t, l+"max")
	c.BaseNs = rapid.OneOf(rapid.SampledFrom([]int64{0, 0, 1, -1}), rapid.Int64Range(0, 1<<61)).Draw(t, l+"base")
	if c.BaseNs < 0 || c.BaseNs > c.MaxNs {
		c.BaseNs = c.MaxNs
	}
	c.Multiplier = rapid.OneOf(rapid.SampledFrom([]float64{1, 1.0000001, 1.5, 3, 10, 1e6}), rapid.Float64Range(1, 1e6)).Draw(t, l+"mult")
	c.Jitter = rapid.OneOf(rapid.SampledFrom([]float64{0, 0.2, 1}), rapid.Float64Range(0, 1)).Draw(t, l+"jitter")
	c.Attempt = uint(rapid.OneOf(rapid.SampledFrom([]uint64{0, 1, 2, 3, 10, 646, 647, 648, 650, 1023, 1024, 1 << 20, 1<<32 - 1}), rapid.Uint64Range(0, 1<<32-1)).Draw(t, l+"attempt"))
	return c
}
