package c17

// TestC17Deadline: the caller's context carries a deadline and an earlier endpoint fails late (but well
// inside the deadline): the later endpoint must still be contacted and its certificates returned.

import (
	"context"
	"fmt"
	"sync"
	"testing"
	"time"

	pb "github.com/theparanoids/crypki/proto"
	"github.com/theparanoids/ysshra/crypki"
	"github.com/theparanoids/ysshra/zzverif/vh"
	"golang.org/x/crypto/ssh"
)

type DeadlineCase struct {
	// Scenarios side by side: endpoint behaviours, the caller's deadline and how long a slow endpoint takes
	Scenarios []DeadlineScenario
}

type DeadlineScenario struct {
	Endpoints  []string
	DeadlineMS int
	SlowMS     int
	// PerTryMS: the configured per-try timeout (0 = 60 s, i.e. never reached)
	PerTryMS int
}

// stallWatch measures the longest gap between 50 ms ticks while a scenario runs: a machine that
// stood still for seconds makes elapsed times meaningless.
func stallWatch(stop <-chan struct{}) <-chan time.Duration {
	res := make(chan time.Duration, 1)
	go func() {
		var worst time.Duration
		last := time.Now()
		for {
			select {
			case <-stop:
				res <- worst
				return
			case <-time.After(50 * time.Millisecond):
				if g := time.Since(last); g > worst {
					worst = g
				}
				last = time.Now()
			}
		}
	}()
	return res
}

func deadlineOne(sc DeadlineScenario) error {
	var specs []vh.CAServerSpec
	var ips []string
	signing := -1
	for i, b := range sc.Endpoints {
		ip := fmt.Sprintf("127.0.0.%d", i+2)
		ips = append(ips, ip)
		specs = append(specs, vh.CAServerSpec{IP: ip, Behaviour: b, Code: 14, ClientAuth: "request", HangFor: time.Duration(sc.SlowMS) * time.Millisecond,
			KeyText: string(ssh.MarshalAuthorizedKey(pool()[i]))})
		if b == "sign" && signing < 0 {
			signing = i
		}
	}
	g, err := vh.StartCAGroup(specs)
	if err != nil {
		return nil
	}
	defer g.Stop()
	f := vh.Farm()
	perTry := 60 * time.Second
	hangs := 0
	if sc.PerTryMS > 0 {
		perTry = time.Duration(sc.PerTryMS) * time.Millisecond
		for i, b := range sc.Endpoints {
			if b == "hang" && (signing < 0 || i < signing) {
				hangs++
			}
		}
	}
	signer, err := vh.NewCrypkiSigner(crypki.SignerConfig{TLSClientKeyFile: f.ClientKeyFile(), TLSClientCertFile: f.ClientCertFile(), TLSCACertFiles: []string{f.CAFile("caA")},
		CrypkiEndpoints: ips, CrypkiPort: uint(g.Port), Retries: 1, PerTryTimeout: perTry}, false)
	if err != nil {
		return vh.Errf("NewSigner: %v", err)
	}
	req := &pb.SSHCertificateSigningRequest{KeyMeta: &pb.KeyMeta{Identifier: "ssh-user-key"}, Principals: []string{"user_a"}, PublicKey: string(ssh.MarshalAuthorizedKey(vh.SSHPub("p256b"))), Validity: 3600, KeyId: "k"}
	ctx, cancel := context.WithTimeout(context.Background(), time.Duration(sc.DeadlineMS)*time.Millisecond)
	defer cancel()
	start := time.Now()
	stopWatch := make(chan struct{})
	watch := stallWatch(stopWatch)
	var certs []ssh.PublicKey
	var serr error
	if perr := vh.Catch(func() { certs, _, serr = signer.Sign(ctx, req) }); perr != nil {
		return vh.Errf("Sign crashed: %v", perr)
	}
	took := time.Since(start)
	close(stopWatch)
	stall := <-watch
	desc := fmt.Sprintf("endpoints %v, a slow endpoint takes %d ms, per-try timeout %s, caller deadline %d ms (Sign took %s)", sc.Endpoints, sc.SlowMS, perTry, sc.DeadlineMS, took.Round(time.Millisecond))
	if took > time.Duration(sc.DeadlineMS)*time.Millisecond*9/10 {
		// the machine was too slow for this scenario to say anything - unless the only waiting in it is
		// bounded by the per-try timeout (hanging endpoints), the clock ticked all along, and the bound
		// is a small part of the deadline
		if hangs == 0 || stall > 2*time.Second || time.Duration(hangs)*perTry*3 > time.Duration(sc.DeadlineMS)*time.Millisecond {
			return nil
		}
	}
	if signing < 0 {
		if serr == nil {
			return vh.Errf("%s: success although no endpoint signs", desc)
		}
		return nil
	}
	if serr != nil {
		return vh.Errf("%s: the caller's deadline had not passed and endpoint %d signs, yet Sign failed: %v (endpoint %d received %d request(s))", desc, signing, serr, signing, len(g.Servers[signing].Calls()))
	}
	if len(certs) != 1 || string(certs[0].Marshal()) != string(pool()[signing].Marshal()) {
		return vh.Errf("%s: the answer is not endpoint %d's", desc, signing)
	}
	for i := 0; i < signing; i++ {
		if sc.Endpoints[i] == "hang" && sc.PerTryMS > 0 {
			// a try bounded by the per-try timeout may end while the connection is still being set up (on a
			// busy machine): whether the endpoint's handler saw the request is not the point here
			continue
		}
		if len(g.Servers[i].Calls()) == 0 {
			return vh.Errf("%s: endpoint %d was never contacted", desc, i)
		}
	}
	return nil
}

func TestC17Deadline(t *testing.T) {
	cases := []DeadlineCase{{Scenarios: []DeadlineScenario{
		{Endpoints: []string{"slowerr", "sign"}, DeadlineMS: 14000, SlowMS: 7500},
		{Endpoints: []string{"rpcerr", "slowerr", "sign"}, DeadlineMS: 15000, SlowMS: 5500},
		{Endpoints: []string{"slowerr", "slowerr", "sign"}, DeadlineMS: 16000, SlowMS: 3000},
		{Endpoints: []string{"sign", "slowerr"}, DeadlineMS: 10000, SlowMS: 6000},
		{Endpoints: []string{"slowerr", "rpcerr"}, DeadlineMS: 12000, SlowMS: 3000},
		// an endpoint that never answers is given up on after the per-try timeout, long before the caller's deadline
		{Endpoints: []string{"hang", "sign"}, DeadlineMS: 20000, SlowMS: 60000, PerTryMS: 3000},
		{Endpoints: []string{"rpcerr", "hang", "hang", "sign"}, DeadlineMS: 30000, SlowMS: 60000, PerTryMS: 3000},
	}}}
	vh.Enumerate(t, vh.Spec[DeadlineCase]{Property: "C17", Name: "TestC17Deadline", Exhaustive: true,
		Rule: "the caller's context carries a deadline of 10..16 s; an endpoint before the signing one reports its error only after 3..7.5 s (more than an equal share of the deadline, far less than the deadline); or never answers while the per-try timeout is 3 s (a seventh to a tenth of the deadline); 7 endpoint lists side by side. Oracle: while the caller's deadline has not passed the endpoints are still tried in order and the first signing endpoint's certificates come back; no signing endpoint => error. A scenario that took more than 90% of its deadline on a slow machine is not judged, except one whose only waits are per-try timeouts adding up to less than a third of the deadline while a 50 ms ticker never stalled for 2 s",
		Exec: func(c DeadlineCase) (vh.Outcome, error) {
			out := vh.Outcome{NonTrivial: true}
			errs := make([]error, len(c.Scenarios))
			var wg sync.WaitGroup
			for i, sc := range c.Scenarios {
				i, sc := i, sc
				wg.Add(1)
				go func() { defer wg.Done(); errs[i] = deadlineOne(sc) }()
			}
			wg.Wait()
			for _, e := range errs {
				if e != nil {
					return out, e
				}
			}
			return out, nil
		}}, cases)
}
