package c11

// TestC11SlowUpstream: one request that the underlying agent answers only after several seconds (a
// touch or PIN prompt) while other clients queue behind it. Everybody must still get the reply to his
// own request, also in the operations that follow.

import (
	"bytes"
	"fmt"
	"sync"
	"testing"
	"time"

	"github.com/theparanoids/ysshra/agent/shimagent"
	"github.com/theparanoids/ysshra/agent/yubiagent"
	"github.com/theparanoids/ysshra/zzverif/vh"
	"golang.org/x/crypto/ssh/agent"
)

type SlowCase struct {
	// Scenarios run side by side, each in its own world: "<slow op>/<via>/<mode>"
	Scenarios []string
	LatencyMS int
}

func slowScenario(name string, latency time.Duration) error {
	var slowOp, via, mode string
	if n, _ := fmt.Sscanf(replaceSlash(name), "%s %s %s", &slowOp, &via, &mode); n != 3 {
		return nil
	}
	p, err := vh.NewProxy()
	if err != nil {
		return nil
	}
	defer p.Close()
	_ = p.Ring().Add(agent.AddedKey{PrivateKey: vh.Key(sharedKey), Comment: "shared"})
	slowCode := map[string]int{"forward": 201, "sign": vh.CodeSign, "extension": vh.CodeExtension}[slowOp]
	var once sync.Once
	p.Latency = func(code int) time.Duration {
		d := time.Duration(0)
		if code == slowCode {
			once.Do(func() { d = latency }) // only the first such request is slow
		}
		return d
	}
	shim, serr := shimagent.New(shimagent.Option{Address: p.Path, NoUpstream: mode == "noupstream"})
	if serr != nil {
		return vh.Errf("%s: shimagent.New: %v", name, serr)
	}
	defer shim.Close()
	// an in-memory hardware certificate that leaves its validity window about two seconds into the
	// scenario, i.e. while the slow request is outstanding
	_ = p.Ring().Add(agent.AddedKey{PrivateKey: vh.Key("p256b"), Comment: "token key"})
	vb := uint64(time.Now().Unix()) + 2
	lapsing := vh.MakeSSHCert(vh.SSHCertSpec{Key: "p256b", KeyID: "lapsing hardware certificate", ValidAfter: 0, ValidBefore: vb, Principals: []string{"user_a"}})
	if e := shim.AddHardCert(lapsing, "hw"); e != nil {
		return vh.Errf("%s: AddHardCert: %v", name, e)
	}
	served := yubiWrap{shim}
	handle := func() (yubiagent.YubiAgent, func(), error) {
		if via != "conn" {
			return served, func() {}, nil
		}
		c1, c2, e := vh.SocketPair()
		if e != nil {
			return nil, nil, e
		}
		go func() {
			_ = vh.Catch(func() { _ = yubiagent.ServeAgent(served, c2) })
			c2.Close()
		}()
		cl, e := yubiagent.NewClientFromConn(c1)
		return cl, func() { c1.Close() }, e
	}
	var viol violation
	do := func(ag yubiagent.YubiAgent, who, op string) {
		tag := []byte(fmt.Sprintf("slow/%s/%s/%s", name, who, op))
		where := fmt.Sprintf("%s: %s (%s)", name, who, op)
		perr := vh.Catch(func() {
			switch op {
			case "forward", "slowforward":
				code := byte(200)
				if op == "slowforward" {
					code = 201
				}
				body := append([]byte{code}, tag...)
				rep, e := ag.Forward(body)
				if e == nil && !bytes.Equal(rep, append([]byte{vh.EchoMark}, body...)) {
					viol.set(vh.Errf("%s: the reply %q is not the answer to this caller's request %q", where, rep, body))
				}
				if e != nil && op == "forward" {
					viol.set(vh.Errf("%s failed: %v", where, e))
				}
			case "extension":
				rep, e := ag.Extension("verif@harness", tag)
				if e == nil && (len(rep) < 1 || rep[0] != vh.ExtMark || !bytes.HasSuffix(rep, tag)) {
					viol.set(vh.Errf("%s: the reply %q is not the answer to this caller's request %q", where, rep, tag))
				}
				if e != nil && who != "slow" {
					viol.set(vh.Errf("%s failed: %v", where, e))
				}
			case "sign":
				sig, e := ag.Sign(vh.SSHPub(sharedKey), tag)
				if e == nil {
					if verr := vh.SSHPub(sharedKey).Verify(tag, sig); verr != nil {
						viol.set(vh.Errf("%s: the signature does not verify over the caller's own data (reply of another request?): %v", where, verr))
					}
				} else if who != "slow" {
					viol.set(vh.Errf("%s failed: %v", where, e))
				}
			case "list":
				ks, e := ag.List()
				if e != nil {
					viol.set(vh.Errf("%s failed: %v", where, e))
				} else {
					seen := map[string]int{}
					for _, k := range ks {
						seen[string(k.Blob)]++
					}
					sh, tk, hc := seen[string(vh.SSHPub(sharedKey).Marshal())], seen[string(vh.SSHPub("p256b").Marshal())], seen[string(lapsing.Marshal())]
					if sh != 1 || tk != 1 || hc > 1 || len(ks) != 2+hc {
						viol.set(vh.Errf("%s: listing shows %d identities (shared key x%d, token key x%d, hardware certificate x%d), expected the two keys and at most the hardware certificate", where, len(ks), sh, tk, hc))
					}
					if hc == 1 && uint64(time.Now().Unix()) > vb+1 {
						viol.set(vh.Errf("%s: the hardware certificate is still listed more than a second after its validity ended", where))
					}
				}
			}
		})
		if perr != nil {
			viol.set(vh.Errf("%s crashed: %v", where, perr))
		}
	}
	var wg sync.WaitGroup
	start := func(who string, delay time.Duration, ops ...string) {
		ag, closeFn, e := handle()
		if e != nil {
			return
		}
		wg.Add(1)
		go func() {
			defer wg.Done()
			defer closeFn()
			time.Sleep(delay)
			for _, op := range ops {
				do(ag, who, op)
			}
		}()
	}
	slowKind := map[string]string{"forward": "slowforward", "sign": "sign", "extension": "extension"}[slowOp]
	start("slow", 0, slowKind, "forward", "list")
	start("b", 150*time.Millisecond, "forward", "list", "sign", "forward")
	start("c", 200*time.Millisecond, "list", "extension", "forward", "sign")
	start("d", 250*time.Millisecond, "sign", "forward", "extension", "list")
	done := make(chan struct{})
	go func() { wg.Wait(); close(done) }()
	select {
	case <-done:
	case <-time.After(latency + watchdog):
		return vh.Errf("%s: operations did not complete within %s after the slow answer", name, watchdog)
	}
	if viol.err != nil {
		return viol.err
	}
	// afterwards the connection to the underlying agent must still be in step
	for i := 0; i < 3; i++ {
		do(served, fmt.Sprintf("after%d", i), "forward")
		do(served, fmt.Sprintf("after%d", i), "list")
	}
	return viol.err
}

func replaceSlash(s string) string { return string(bytes.ReplaceAll([]byte(s), []byte("/"), []byte(" "))) }

func TestC11SlowUpstream(t *testing.T) {
	var sc []string
	for _, op := range []string{"forward", "sign", "extension"} {
		for _, via := range []string{"direct", "conn"} {
			for _, mode := range []string{"upstream", "noupstream"} {
				sc = append(sc, op+"/"+via+"/"+mode)
			}
		}
	}
	cases := []SlowCase{{Scenarios: sc, LatencyMS: 7000}}
	if vh.Thorough() {
		cases = append(cases, SlowCase{Scenarios: sc, LatencyMS: 1200}, SlowCase{Scenarios: sc, LatencyMS: 31000})
	}
	vh.Enumerate(t, vh.Spec[SlowCase]{Property: "C11", Name: "TestC11SlowUpstream", Exhaustive: true, Journal: true,
		Rule: "the underlying agent answers ONE request (a raw forward, a sign request, an extension request; issued directly or through a served connection; both upstream modes: 12 scenarios side by side) only after 7 s (thorough: also 1.2 s and 31 s) - a touch or PIN prompt - while three other clients queue list / sign / forward / extension calls behind it and an in-memory hardware certificate leaves its validity window (2 s after the start). Oracle: every call that returns without error carries the reply to its own request (tag echo, signature over the caller's data, the listing), the queued clients' calls succeed, everything completes, and six further calls afterwards are still in step with the underlying agent (a reply left unread would shift them)",
		Exec: func(c SlowCase) (vh.Outcome, error) {
			out := vh.Outcome{NonTrivial: true}
			errs := make([]error, len(c.Scenarios))
			var wg sync.WaitGroup
			for i, s := range c.Scenarios {
				i, s := i, s
				wg.Add(1)
				go func() { defer wg.Done(); errs[i] = slowScenario(s, time.Duration(c.LatencyMS)*time.Millisecond) }()
			}
			wg.Wait()
			for _, e := range errs {
				if e != nil {
					return out, e
				}
			}
			return out, nil
		}}, cases)
}
