// C11 — concurrent shim-agent clients cannot corrupt it or get each other's replies.
package c11

import (
	"bytes"
	"crypto/rand"
	"crypto/x509"
	"errors"
	"fmt"
	"net"
	"runtime"
	"sort"
	"sync"
	"testing"
	"time"

	"github.com/theparanoids/ysshra/agent/shimagent"
	"github.com/theparanoids/ysshra/agent/yubiagent"
	"github.com/theparanoids/ysshra/zzverif/vh"
	"golang.org/x/crypto/ssh"
	"golang.org/x/crypto/ssh/agent"
	"pgregory.net/rapid"
)

// yubiWrap turns a shim agent into a YubiAgent so that it can be served by yubiagent.ServeAgent
// (the shim must be built directly to choose the upstream mode).
type yubiWrap struct{ shimagent.ShimAgent }

func (yubiWrap) ListSlots() ([]string, error)                        { return nil, errors.New("remote") }
func (yubiWrap) ReadSlot(string) (*x509.Certificate, error)          { return nil, errors.New("remote") }
func (yubiWrap) AttestSlot(string) (*x509.Certificate, error)        { return nil, errors.New("remote") }
func (yubiWrap) AddSmartcardKey(string, []byte, time.Duration, bool) error { return errors.New("n/a") }
func (yubiWrap) RemoveSmartcardKey(string, []byte) error             { return errors.New("n/a") }

type GOp struct {
	// Kind: list signers signshared extension forward add addhard signown removehard remove removeall lock unlock
	Kind string
	Key  int // index of the goroutine's own key
	// Spin is the number of Gosched calls before the operation (schedule perturbation).
	Spin int
}

type Routine struct {
	Via string // direct | conn
	Ops []GOp
}

type Program struct {
	NoUpstream bool
	Expired    int // expired certificates preloaded into the underlying agent
	YSSHCA     int // valid YSSHCA certificates preloaded into the underlying agent
	Chaos      bool
	Routines   []Routine
	Repeat     int
	// SlowMicros delays the underlying agent's answers to sign and unknown (forwarded) requests.
	SlowMicros int
	// Faults (chaos programs only): the underlying agent answers some requests with a failure
	Faults []vh.FaultRule
}

// own keys: goroutine g uses ownKeys[2g+k] — disjoint for the first 7 goroutines x 2 keys; the other
// goroutines are read-only.
// (must be disjoint from the shared key and from the keys of the preloaded expired / YSSHCA
// certificates: a preloaded certificate over the same key would keep a hardware certificate from
// becoming an orphan)
var ownKeys = []string{"p256b", "p384a", "p521a", "ed25519b", "ed25519c", "p256c", "rsa1536", "rsa2048b", "p384b", "p521b", "rsa2047", "rsa1031", "rsa1025", "rsa3072"}

const sharedKey = "rsa2048a"

func gen(t *rapid.T) Program {
	p := Program{
		NoUpstream: rapid.Bool().Draw(t, "noUpstream"),
		Expired:    rapid.IntRange(0, 3).Draw(t, "expired"),
		YSSHCA:     rapid.IntRange(0, 3).Draw(t, "ysshca"),
		Chaos:      rapid.IntRange(0, 3).Draw(t, "chaos") == 0,
		SlowMicros: rapid.SampledFrom([]int{0, 0, 200, 1000, 3000}).Draw(t, "slowMicros"),
	}
	ng := rapid.SampledFrom([]int{2, 2, 3, 4, 4, 6, 8, 12, 16}).Draw(t, "goroutines")
	for g := 0; g < ng; g++ {
		l := fmt.Sprintf("g%d", g)
		r := Routine{Via: rapid.SampledFrom([]string{"direct", "direct", "conn"}).Draw(t, l+"Via")}
		reads := []string{"list", "signers", "signers", "signshared", "signviashared", "extension", "forward"}
		n := rapid.IntRange(1, 8).Draw(t, l+"N")
		// life cycles of up to two own keys, interleaved with read-type operations
		var life [][]string
		if g < 7 {
			nk := rapid.IntRange(0, 2).Draw(t, l+"NK")
			for k := 0; k < nk; k++ {
				full := []string{"add", "addhard", "signown", "signhard", "signviahard", "signhard", "removehard", "remove"}
				var seq []string
				for _, s := range full {
					if s == "add" || rapid.Bool().Draw(t, fmt.Sprintf("%sK%d%s", l, k, s)) {
						seq = append(seq, s)
					}
				}
				life = append(life, seq)
			}
		}
		pos := make([]int, len(life))
		for i := 0; i < n; i++ {
			ol := fmt.Sprintf("%sO%d", l, i)
			op := GOp{Spin: rapid.SampledFrom([]int{0, 0, 0, 1, 3, 10}).Draw(t, ol+"Spin")}
			k := -1
			if len(life) > 0 && rapid.Bool().Draw(t, ol+"Own") {
				k = rapid.IntRange(0, len(life)-1).Draw(t, ol+"K")
				if pos[k] >= len(life[k]) {
					k = -1
				}
			}
			if k >= 0 {
				op.Kind, op.Key = life[k][pos[k]], k
				pos[k]++
			} else {
				op.Kind = rapid.SampledFrom(reads).Draw(t, ol+"Read")
			}
			r.Ops = append(r.Ops, op)
		}
		p.Routines = append(p.Routines, r)
	}
	if p.Chaos && rapid.Bool().Draw(t, "chaosFaults") {
		// the underlying agent refuses a few requests somewhere in the run: operations may then fail, but
		// every one of them must still come back and nothing may be stuck afterwards
		nf := rapid.IntRange(1, 3).Draw(t, "nfaults")
		for i := 0; i < nf; i++ {
			p.Faults = append(p.Faults, vh.FaultRule{Index: -1, Code: rapid.SampledFrom([]int{vh.CodeList, vh.CodeList, vh.CodeList, vh.CodeSign, vh.CodeRemove, vh.CodeAddConstrained, 200}).Draw(t, fmt.Sprintf("faultCode%d", i)),
				Kind: "fail", Skip: rapid.IntRange(0, 6).Draw(t, fmt.Sprintf("faultSkip%d", i)), Remaining: rapid.IntRange(1, 3).Draw(t, fmt.Sprintf("faultN%d", i))})
		}
	}
	if p.Chaos {
		var ops []GOp
		n := rapid.IntRange(1, 6).Draw(t, "chaosN")
		for i := 0; i < n; i++ {
			ops = append(ops, GOp{Kind: rapid.SampledFrom([]string{"removeall", "lock", "unlock", "unlock", "list"}).Draw(t, fmt.Sprintf("chaos%d", i)), Spin: rapid.IntRange(0, 5).Draw(t, fmt.Sprintf("chaosSpin%d", i))})
		}
		p.Routines = append(p.Routines, Routine{Via: "direct", Ops: ops})
	}
	p.Repeat = 3
	if vh.Thorough() {
		p.Repeat = 10
	}
	return p
}

var (
	certMu sync.Mutex
	certs  = map[string]*ssh.Certificate{}
)

func certFor(key, class string) *ssh.Certificate {
	certMu.Lock()
	defer certMu.Unlock()
	k := key + "/" + class
	if c, ok := certs[k]; ok {
		return c
	}
	now := uint64(time.Now().Unix())
	a := vh.KeyIDAttrs{Prins: []string{"user_a"}, TransID: "00000000c1", ReqUser: "user_a", ReqIP: "1.1.1.1", ReqHost: "h", HW: true, Touch: 3, Version: 1}
	spec := vh.SSHCertSpec{Key: key, ValidAfter: 0, ValidBefore: ssh.CertTimeInfinity, Principals: []string{"user_a"}}
	switch class {
	case "hard": // hardware certificate over an own key: free-text KeyID so that it is never hidden
		spec.KeyID = "hardware certificate " + key
	case "expired":
		spec.KeyID = "expired " + key
		spec.ValidAfter, spec.ValidBefore = now-7200, now-3600
	case "ysshca":
		spec.KeyID = a.Text()
	}
	c := vh.MakeSSHCert(spec)
	certs[k] = c
	return c
}

const watchdog = 60 * time.Second

type violation struct {
	mu  sync.Mutex
	err error
}

func (v *violation) set(e error) {
	v.mu.Lock()
	if v.err == nil {
		v.err = e
	}
	v.mu.Unlock()
}

func runOnce(prog Program, rep int) (err error, readPurge bool) {
	p, perr := vh.NewProxy()
	if perr != nil {
		return nil, false
	}
	defer p.Close()
	ring := p.Ring()
	_ = ring.Add(agent.AddedKey{PrivateKey: vh.Key(sharedKey), Comment: "shared"})
	if prog.SlowMicros > 0 {
		d := time.Duration(prog.SlowMicros) * time.Microsecond
		p.Latency = func(code int) time.Duration {
			if code == vh.CodeSign || code == 200 || code == vh.CodeExtension {
				return d
			}
			return 0
		}
	}
	expKeys := []string{"rsa1024a", "rsa1024b", "p256a"}
	ysKeys := []string{"ed25519a", "rsa2048c", "rsa2048d"}
	for i := 0; i < prog.Expired; i++ {
		_ = ring.Add(agent.AddedKey{PrivateKey: vh.Key(expKeys[i]), Certificate: certFor(expKeys[i], "expired"), Comment: "old"})
	}
	for i := 0; i < prog.YSSHCA; i++ {
		_ = ring.Add(agent.AddedKey{PrivateKey: vh.Key(ysKeys[i]), Certificate: certFor(ysKeys[i], "ysshca"), Comment: "upstream"})
	}
	shim, serr := shimagent.New(shimagent.Option{Address: p.Path, NoUpstream: prog.NoUpstream})
	if serr != nil {
		return vh.Errf("shimagent.New: %v", serr), false
	}
	served := yubiWrap{shim}
	if len(prog.Faults) > 0 {
		p.SetPlan(append([]vh.FaultRule(nil), prog.Faults...))
	}

	universe := map[string]bool{string(vh.SSHPub(sharedKey).Marshal()): true}
	for _, k := range ownKeys {
		universe[string(vh.SSHPub(k).Marshal())] = true
		universe[string(certFor(k, "hard").Marshal())] = true
	}
	for i := 0; i < 3; i++ {
		universe[string(certFor(expKeys[i], "expired").Marshal())] = true
		universe[string(certFor(ysKeys[i], "ysshca").Marshal())] = true
	}

	var viol violation
	start := make(chan struct{})
	var wg sync.WaitGroup
	type final struct{ keyPresent, hardPresent map[int]bool }
	finals := make([]final, len(prog.Routines))
	var conns []net.Conn
	var connMu sync.Mutex
	var successfulRead sync.Map

	for g, r := range prog.Routines {
		g, r := g, r
		finals[g] = final{map[int]bool{}, map[int]bool{}}
		var ag yubiagent.YubiAgent = served
		if r.Via == "conn" {
			c1, c2, e := vh.SocketPair()
			if e != nil {
				return nil, false
			}
			connMu.Lock()
			conns = append(conns, c1)
			connMu.Unlock()
			go func() {
				if perr := vh.Catch(func() { _ = yubiagent.ServeAgent(served, c2) }); perr != nil {
					viol.set(vh.Errf("ServeAgent crashed: %v", perr))
				}
				c2.Close()
			}()
			cl, e := yubiagent.NewClientFromConn(c1)
			if e != nil {
				return nil, false
			}
			ag = cl
		}
		wg.Add(1)
		go func() {
			defer wg.Done()
			<-start
			for i, op := range r.Ops {
				for s := 0; s < op.Spin; s++ {
					runtime.Gosched()
				}
				where := fmt.Sprintf("repetition %d, goroutine %d (%s), op %d (%s)", rep, g, r.Via, i, op.Kind)
				tag := []byte(fmt.Sprintf("tag/%d/%d/%d/%s", rep, g, i, op.Kind))
				own := ownKeys[(2*g+op.Key)%len(ownKeys)]
				exact := !prog.Chaos
				var e error
				perr := vh.Catch(func() {
					switch op.Kind {
					case "list":
						var ks []*agent.Key
						ks, e = ag.List()
						if e == nil {
							successfulRead.Store("x", true)
							shown := map[string]bool{}
							for _, k := range ks {
								shown[string(k.Blob)] = true
								if !universe[string(k.Blob)] {
									viol.set(vh.Errf("%s: listing contains an identity nobody added (%d bytes)", where, len(k.Blob)))
								}
							}
							// read your own writes: nobody else touches this goroutine's keys, so its listing shows
							// exactly what its own completed additions and removals left of them
							if exact {
								for kidx, present := range finals[g].keyPresent {
									blob := string(vh.SSHPub(ownKeys[(2*g+kidx)%len(ownKeys)]).Marshal())
									if shown[blob] != present {
										viol.set(vh.Errf("%s: the listing shows this goroutine's own key %d as present=%v, but its own completed operations left it present=%v (a listing from before its own last operation?)", where, kidx, shown[blob], present))
									}
								}
							}
						} else if exact {
							viol.set(vh.Errf("%s failed: %v", where, e))
						}
					case "signers":
						var ss []ssh.Signer
						ss, e = ag.Signers()
						if e == nil {
							successfulRead.Store("x", true)
							for _, s := range ss {
								if !universe[string(s.PublicKey().Marshal())] {
									viol.set(vh.Errf("%s: signers contain an identity nobody added", where))
								}
							}
						} else if exact {
							viol.set(vh.Errf("%s failed: %v", where, e))
						}
					case "signshared", "signown", "signhard":
						keyName := sharedKey
						expectOK := true
						var signWith ssh.PublicKey = vh.SSHPub(sharedKey)
						if op.Kind == "signown" {
							keyName = own
							signWith = vh.SSHPub(own)
							expectOK = finals[g].keyPresent[op.Key]
						}
						if op.Kind == "signhard" {
							// the in-memory hardware certificate: the shim redirects to the plain key
							keyName = own
							signWith = certFor(own, "hard")
							expectOK = finals[g].keyPresent[op.Key] && finals[g].hardPresent[op.Key]
						}
						var sig *ssh.Signature
						sig, e = ag.Sign(signWith, tag)
						if e == nil {
							successfulRead.Store("x", true)
							if verr := vh.SSHPub(keyName).Verify(tag, sig); verr != nil {
								viol.set(vh.Errf("%s: the signature returned does not verify over the caller's own data (reply of another request?): %v", where, verr))
							}
							if exact && !expectOK {
								viol.set(vh.Errf("%s: signing with a key this goroutine never added or already removed succeeded", where))
							}
						} else if exact && expectOK {
							viol.set(vh.Errf("%s failed although the key is present: %v", where, e))
						}
					case "signviahard", "signviashared":
						// sign through the Signer object that Signers() hands out (for the in-memory hardware
						// certificate, or for the shared key of the underlying agent)
						expectOK := finals[g].keyPresent[op.Key] && finals[g].hardPresent[op.Key]
						want := certFor(own, "hard").Marshal()
						verifyKey := vh.SSHPub(own)
						if op.Kind == "signviashared" {
							expectOK, want, verifyKey = true, vh.SSHPub(sharedKey).Marshal(), vh.SSHPub(sharedKey)
						}
						var ss []ssh.Signer
						ss, e = ag.Signers()
						if e != nil {
							if exact {
								viol.set(vh.Errf("%s: signers failed: %v", where, e))
							}
							break
						}
						var hs ssh.Signer
						for _, s := range ss {
							if bytes.Equal(s.PublicKey().Marshal(), want) {
								hs = s
							}
						}
						if hs == nil {
							if exact && expectOK {
								viol.set(vh.Errf("%s: the held hardware certificate has no signer", where))
							}
							break
						}
						sig, serr := hs.Sign(rand.Reader, tag)
						if serr == nil {
							if verr := verifyKey.Verify(tag, sig); verr != nil {
								viol.set(vh.Errf("%s: the signature returned does not verify over the caller's own data (reply of another request?): %v", where, verr))
							}
						} else if exact && expectOK {
							viol.set(vh.Errf("%s: signing through the signer failed although key and certificate are present: %v", where, serr))
						}
					case "extension":
						var rep []byte
						rep, e = ag.Extension("verif@harness", tag)
						if e == nil && !(prog.Chaos && len(rep) == 1 && rep[0] == vh.CodeFailure) {
							if len(rep) < 1 || rep[0] != vh.ExtMark || !bytes.HasSuffix(rep, tag) {
								viol.set(vh.Errf("%s: the reply %q is not the answer to this caller's request %q", where, rep, tag))
							}
						} else if exact {
							viol.set(vh.Errf("%s failed: %v", where, e))
						}
					case "forward":
						body := append([]byte{200}, tag...)
						var rep []byte
						rep, e = ag.Forward(body)
						if e == nil && !(prog.Chaos && len(rep) == 1 && rep[0] == vh.CodeFailure) {
							if !bytes.Equal(rep, append([]byte{vh.EchoMark}, body...)) {
								viol.set(vh.Errf("%s: the reply %q is not the answer to this caller's request %q", where, rep, body))
							}
						} else if exact {
							viol.set(vh.Errf("%s failed: %v", where, e))
						}
					case "add":
						e = ag.Add(agent.AddedKey{PrivateKey: vh.Key(own), Comment: fmt.Sprintf("g%d", g)})
						if e == nil {
							finals[g].keyPresent[op.Key] = true
						} else if exact {
							viol.set(vh.Errf("%s failed: %v", where, e))
						}
					case "addhard":
						e = ag.AddHardCert(certFor(own, "hard"), "hw")
						if e == nil {
							if exact && !finals[g].keyPresent[op.Key] {
								viol.set(vh.Errf("%s: accepted although this goroutine's key is not in the agent", where))
							}
							finals[g].hardPresent[op.Key] = true
						} else if exact && finals[g].keyPresent[op.Key] {
							viol.set(vh.Errf("%s refused although the key is present: %v", where, e))
						}
					case "removehard":
						e = ag.Remove(certFor(own, "hard"))
						if e == nil {
							finals[g].hardPresent[op.Key] = false
						} else if exact && finals[g].hardPresent[op.Key] {
							viol.set(vh.Errf("%s failed although the hardware certificate is held: %v", where, e))
						}
					case "remove":
						e = ag.Remove(vh.SSHPub(own))
						if e == nil {
							finals[g].keyPresent[op.Key] = false
						} else if exact && finals[g].keyPresent[op.Key] {
							viol.set(vh.Errf("%s failed although the key is present: %v", where, e))
						}
					case "removeall":
						e = ag.RemoveAll()
					case "lock":
						e = ag.Lock([]byte("pw"))
					case "unlock":
						e = ag.Unlock([]byte("pw"))
					}
				})
				if perr != nil {
					viol.set(vh.Errf("%s crashed: %v", where, perr))
				}
			}
		}()
	}
	close(start)
	doneCh := make(chan struct{})
	go func() { wg.Wait(); close(doneCh) }()
	select {
	case <-doneCh:
	case <-time.After(watchdog):
		buf := make([]byte, 1<<16)
		n := runtime.Stack(buf, true)
		return vh.Errf("repetition %d: operations did not complete within %s (proxy request in flight: %v)\n%s", rep, watchdog, p.InFlight(), buf[:n]), false
	}
	if viol.err != nil {
		return viol.err, false
	}
	// ---- final state ----
	p.SetPlan(nil)
	var ks []*agent.Key
	var lerr error
	if stuck := vh.CatchWithin(watchdog, func() {
		_ = shim.Unlock([]byte("pw")) // no-op unless the chaos goroutine left it locked
		ks, lerr = shim.List()
	}); stuck != nil {
		return vh.Errf("repetition %d: the final listing did not come back (%v): the agent is stuck after the run", rep, stuck), false
	}
	if lerr != nil {
		return vh.Errf("repetition %d: final listing failed: %v", rep, lerr), false
	}
	var shown []string
	for _, k := range ks {
		shown = append(shown, string(k.Blob))
	}
	sort.Strings(shown)
	var ringNow []string
	for _, k := range p.RingKeys() {
		ringNow = append(ringNow, string(k.Blob))
	}
	sort.Strings(ringNow)
	for _, b := range append(append([]string{}, shown...), ringNow...) {
		if !universe[b] {
			return vh.Errf("repetition %d: the final state contains an identity nobody added", rep), false
		}
	}
	for i := 0; i < prog.Expired; i++ {
		b := string(certFor(expKeys[i], "expired").Marshal())
		for _, x := range append(append([]string{}, shown...), ringNow...) {
			if x == b {
				return vh.Errf("repetition %d: an expired certificate survived the final listing", rep), false
			}
		}
	}
	if !prog.Chaos {
		wantRing := []string{string(vh.SSHPub(sharedKey).Marshal())}
		var wantShown []string
		wantShown = append(wantShown, wantRing...)
		for i := 0; i < prog.YSSHCA; i++ {
			b := string(certFor(ysKeys[i], "ysshca").Marshal())
			wantRing = append(wantRing, b)
			if !prog.NoUpstream {
				wantShown = append(wantShown, b)
			}
		}
		for g := range prog.Routines {
			for k, present := range finals[g].keyPresent {
				if present {
					own := ownKeys[(2*g+k)%len(ownKeys)]
					b := string(vh.SSHPub(own).Marshal())
					wantRing = append(wantRing, b)
					wantShown = append(wantShown, b)
					if finals[g].hardPresent[k] {
						wantShown = append(wantShown, string(certFor(own, "hard").Marshal()))
					}
				}
			}
		}
		sort.Strings(wantRing)
		sort.Strings(wantShown)
		if !eq(wantRing, ringNow) {
			return vh.Errf("repetition %d: the underlying agent holds %d identities, every sequential order of the operations gives %d", rep, len(ringNow), len(wantRing)), false
		}
		if !eq(wantShown, shown) {
			return vh.Errf("repetition %d: the final listing shows %d identities, every sequential order of the operations gives %d", rep, len(shown), len(wantShown)), false
		}
	}
	connMu.Lock()
	for _, c := range conns {
		c.Close()
	}
	connMu.Unlock()
	shim.Close()
	_, rp := successfulRead.Load("x")
	return nil, rp
}

func eq(a, b []string) bool {
	if len(a) != len(b) {
		return false
	}
	for i := range a {
		if a[i] != b[i] {
			return false
		}
	}
	return true
}

func exec(prog Program) (vh.Outcome, error) {
	out := vh.Outcome{Classes: []string{fmt.Sprintf("goroutines=%d", len(prog.Routines)), fmt.Sprintf("noUpstream=%v", prog.NoUpstream), fmt.Sprintf("chaos=%v", prog.Chaos)}}
	mutating, conn := 0, 0
	for _, r := range prog.Routines {
		if r.Via == "conn" {
			conn++
		}
		for _, op := range r.Ops {
			switch op.Kind {
			case "add", "addhard", "remove", "removehard", "removeall", "lock", "unlock", "signers", "list", "signshared", "signown", "signhard", "signviahard":
				mutating++ // list / signers / sign purge and fill the cache: they write shared state too
			}
		}
	}
	out.NonTrivial = len(prog.Routines) >= 2 && mutating >= 1
	if conn > 0 {
		out.Classes = append(out.Classes, "via-connections")
	}
	if prog.Expired > 0 {
		out.Classes = append(out.Classes, "purging")
	}
	rep := prog.Repeat
	if rep <= 0 {
		rep = 1
	}
	for i := 0; i < rep; i++ {
		if err, _ := runOnce(prog, i); err != nil {
			return out, err
		}
	}
	return out, nil
}

const rule = "concurrent programs: 2..16 goroutines x 1..8 operations, each goroutine calling one shim agent directly or through its own client connection served by yubiagent.ServeAgent, both upstream modes, with 0..3 expired certificates (purged inside the race window) and 0..3 YSSHCA certificates preloaded. Read-type operations (list, signers, sign with a shared key, extension, raw forward) are free; mutations follow per-goroutine life cycles of the goroutine's own keys (add, add-hardware-certificate, sign with the key, sign with the in-memory hardware certificate (directly and through the Signer object that Signers() returns for it), remove hardware certificate, remove key); the underlying agent answers sign / forwarded / extension requests with a drawn latency of 0..3 ms so that overlapping requests really overlap, so that the final state is the same for every sequential order; a quarter of the programs add a chaos goroutine (remove-all, lock, unlock) and, half of those, an underlying agent that refuses 1..3 requests somewhere in the run; for these only reply matching, completion (also of the final listing) and containment are checked. Every request carries a unique tag (data to sign, extension payload, forward body); Gosched perturbation is drawn per operation; each program is repeated (quick 3, thorough 10). Oracles: race detector (halt_on_error), no fatal runtime error, signatures verify over the caller's own data, extension / forward replies echo the caller's tag, own-key operations succeed or fail as in the goroutine's own order, all operations complete within 60 s, final keyring and final listing equal the order-independent expectation, nothing nobody added appears. Non-trivial: >= 2 goroutines with at least one operation writing shared state."

func TestC11Concurrent(t *testing.T) {
	vh.Run(t, vh.Spec[Program]{Property: "C11", Name: "TestC11Concurrent", Rule: rule, Gen: gen, Exec: exec, Journal: true})
}

// TestC11SignersStorm: the two places named by the property (signers under a read lock, extension
// without a lock) exercised directly: many concurrent signers / extension / forward calls.
func TestC11SignersStorm(t *testing.T) {
	var cases []Program
	for _, noUp := range []bool{true, false} {
		for _, ng := range []int{2, 4, 8, 16} {
			var rs []Routine
			for g := 0; g < ng; g++ {
				kind := []string{"signers", "extension", "forward", "signers"}[g%4]
				other := []string{"signers", "forward", "extension", "list"}[g%4]
				via := "direct"
				if g%3 == 2 {
					via = "conn"
				}
				rs = append(rs, Routine{Via: via, Ops: []GOp{{Kind: kind}, {Kind: other, Spin: g % 3}, {Kind: kind}, {Kind: other}, {Kind: kind, Spin: 1}, {Kind: other}}})
			}
			cases = append(cases, Program{NoUpstream: noUp, Expired: 3, YSSHCA: 3, Routines: rs, Repeat: 5})
		}
	}
	// hardware-certificate signatures overlapping raw forwards and extensions, with a slow underlying agent
	for _, noUp := range []bool{true, false} {
		for _, ng := range []int{4, 8} {
			var rs []Routine
			for g := 0; g < ng; g++ {
				if g%2 == 0 {
					rs = append(rs, Routine{Via: []string{"direct", "conn"}[g/2%2], Ops: []GOp{{Kind: "add"}, {Kind: "addhard"}, {Kind: "signhard"}, {Kind: "signviahard", Spin: 1}, {Kind: "signhard"}, {Kind: "signown"}, {Kind: "signviahard"}, {Kind: "signviahard"}}})
				} else {
					rs = append(rs, Routine{Via: "direct", Ops: []GOp{{Kind: "forward"}, {Kind: "extension"}, {Kind: "forward", Spin: 2}, {Kind: "forward"}, {Kind: "extension"}, {Kind: "forward"}, {Kind: "forward"}, {Kind: "forward"}}})
				}
			}
			cases = append(cases, Program{NoUpstream: noUp, YSSHCA: 1, Routines: rs, Repeat: 4, SlowMicros: 2000})
		}
	}
	vh.Enumerate(t, vh.Spec[Program]{Property: "C11", Name: "TestC11SignersStorm", Journal: true,
		Rule: "fixed storms: 2 / 4 / 8 / 16 goroutines alternating signers, extension, raw forward and list calls (direct and through connections), both upstream modes, 3 expired and 3 YSSHCA certificates preloaded, 5 repetitions each; plus 4 / 8 goroutines where half sign repeatedly with their in-memory hardware certificate while the others issue raw forwards and extensions against an underlying agent that answers after 2 ms; same oracles",
		Exec: exec}, cases)
}
