package c11

// TestC11RefusedLock: the underlying agent refuses every lock request (another passphrase is set there,
// the token denies it). Callers keep asking for a lock while others list, sign and register certificates.
// No lock ever succeeds, so in every sequential order the agent is unlocked for every other operation:
// nobody may be told "locked", no listing may be empty - and the lock flag is shared state like the tables.

import (
	"bytes"
	"crypto/rand"
	"fmt"
	"strings"
	"sync"
	"testing"
	"time"

	"github.com/theparanoids/ysshra/agent/shimagent"
	"github.com/theparanoids/ysshra/zzverif/vh"
	"golang.org/x/crypto/ssh"
	"golang.org/x/crypto/ssh/agent"
)

func refusedLockScenario(c RefusedCase) error {
	where := fmt.Sprintf("no-upstream=%v, %d rounds", c.NoUpstream, c.Rounds)
	p, err := vh.NewProxy()
	if err != nil {
		return nil
	}
	defer p.Close()
	keys := []string{"ed25519b", "p256c", "p384a"}
	var certs []*ssh.Certificate
	for i, k := range keys {
		_ = p.Ring().Add(agent.AddedKey{PrivateKey: vh.Key(k), Comment: "token key"})
		certs = append(certs, vh.MakeSSHCert(vh.SSHCertSpec{Key: k, KeyID: fmt.Sprintf("hardware certificate %d", i), ValidAfter: 0, ValidBefore: ssh.CertTimeInfinity, Serial: uint64(60 + i), Principals: []string{"user_a"}}))
	}
	p.Hook = func(idx int, req []byte) ([]byte, bool, bool) {
		if len(req) > 0 && req[0] == vh.CodeLock {
			return []byte{vh.CodeFailure}, false, true
		}
		return nil, false, false
	}
	sh, nerr := shimagent.New(shimagent.Option{Address: p.Path, NoUpstream: c.NoUpstream})
	if nerr != nil {
		return vh.Errf("%s: shimagent.New: %v", where, nerr)
	}
	defer func() { _ = vh.Catch(func() { sh.Close() }) }()
	for i, ct := range certs {
		if e := sh.AddHardCert(ct, "hw"); e != nil {
			return vh.Errf("%s: registering hardware certificate %d failed: %v", where, i, e)
		}
	}
	var viol violation
	var wg sync.WaitGroup
	stop := make(chan struct{})
	for g := 0; g < 2; g++ {
		wg.Add(1)
		go func() { // asks for a lock over and over; the underlying agent refuses
			defer wg.Done()
			for {
				select {
				case <-stop:
					return
				default:
				}
				if e := sh.Lock([]byte("pw")); e == nil {
					viol.set(vh.Errf("%s: Lock succeeded although the underlying agent refuses every lock request", where))
					return
				}
			}
		}()
	}
	var probes sync.WaitGroup
	for i := range certs {
		i := i
		probes.Add(1)
		go func() {
			defer probes.Done()
			locked := func(e error) bool { return e != nil && strings.Contains(e.Error(), "locked") }
			for r := 0; r < c.Rounds; r++ {
				ks, e := sh.List()
				if e != nil || len(ks) < len(keys) {
					viol.set(vh.Errf("%s: a listing returned %d identities (%v) although no lock request ever succeeded (the underlying agent holds %d keys)", where, len(ks), e, len(keys)))
					return
				}
				if e := sh.AddHardCert(certs[i], "hw"); e != nil {
					viol.set(vh.Errf("%s: registering hardware certificate %d again failed although no lock request ever succeeded: %v", where, i, e))
					return
				}
				data := []byte(fmt.Sprintf("probe %d/%d", i, r))
				sig, e := sh.Sign(certs[i], data)
				if e != nil || certs[i].Key.Verify(data, sig) != nil {
					viol.set(vh.Errf("%s: a signature with hardware certificate %d failed although no lock request ever succeeded: %v", where, i, e))
					return
				}
				if _, e := sh.Signers(); locked(e) {
					viol.set(vh.Errf("%s: Signers was told the agent is locked although no lock request ever succeeded: %v", where, e))
					return
				}
				req := append([]byte{200}, data...)
				rep, e := sh.Forward(req)
				if e != nil || !bytes.Equal(rep, append([]byte{vh.EchoMark}, req...)) {
					viol.set(vh.Errf("%s: raw forward: reply %.40q, %v - not the answer to its own request", where, rep, e))
					return
				}
			}
		}()
	}
	done := make(chan struct{})
	go func() { probes.Wait(); close(stop); wg.Wait(); close(done) }()
	select {
	case <-done:
	case <-time.After(90 * time.Second):
		return vh.Errf("%s: the operations did not complete within 90 s", where)
	}
	_ = rand.Reader
	return viol.err
}

func TestC11RefusedLock(t *testing.T) {
	cases := []RefusedCase{{NoUpstream: false, Rounds: 150}, {NoUpstream: true, Rounds: 150}}
	if vh.Thorough() {
		cases = append(cases, RefusedCase{NoUpstream: false, Rounds: 1500}, RefusedCase{NoUpstream: true, Rounds: 1500})
	}
	vh.Enumerate(t, vh.Spec[RefusedCase]{Property: "C11", Name: "TestC11RefusedLock", Exhaustive: true, Journal: true,
		Rule: "one shim agent (both upstream modes) over a keyring with three token keys and their hardware certificates registered; the underlying agent refuses every lock request; 2 goroutines call Lock in a loop while 3 goroutines run 150 rounds (thorough 1500) of list / register again / sign with the hardware certificate / signers / tagged raw forward. Oracles: race detector; no Lock call succeeds; since no lock ever succeeded, every listing shows the three keys, every registration and signature succeeds and verifies, nobody is told 'locked', every forward gets the echo of its own request; everything completes within 90 s",
		Exec: func(c RefusedCase) (vh.Outcome, error) {
			return vh.Outcome{NonTrivial: true}, refusedLockScenario(c)
		}}, cases)
}
