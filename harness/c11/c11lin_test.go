package c11

// TestC11Sequential: small concurrent programs over SHARED keys, judged by a search for a sequential
// order of the operations that explains every operation's result and the final state (the last clause
// of C11). The reference is a pure model of the shim's tables (keys in the underlying agent, hardware
// certificates in memory); each case first validates the model against the real shim on one drawn
// sequential order, and is not judged when they disagree (sequential behaviour is C10's business).

import (
	"os"
	"fmt"
	"net"
	"runtime"
	"strings"
	"sync"
	"testing"
	"time"

	"github.com/theparanoids/ysshra/agent/shimagent"
	"github.com/theparanoids/ysshra/agent/yubiagent"
	"github.com/theparanoids/ysshra/zzverif/vh"
	"golang.org/x/crypto/ssh"
	"golang.org/x/crypto/ssh/agent"
	"pgregory.net/rapid"
)

type LinOp struct {
	// Kind: add addhard removehard remove removeall list signers signhard signown
	Kind string
	Key  int
	Spin int
}

type LinCase struct {
	NoUpstream bool
	Shared     bool // a key nobody operates on is preloaded (the underlying agent is not empty at first)
	Via        []string
	Routines   [][]LinOp
	SlowMicros int
	Repeat     int
	// SeqPick drives the sequential order used to validate the model: at each step routine
	// SeqPick[i] mod (number of unfinished routines).
	SeqPick []int
}

var linKeys = []string{"p256b", "ed25519b", "p384a"}

const linShared = 3 // bit of the preloaded key

type linState struct {
	R, M   uint8
	Locked bool
}

type linRes struct {
	OK   bool
	List uint16 // identities listed (bits 0..3 keys, 4..6 hardware certificates); list / signers only
}

func (s linState) purge() linState {
	if s.R != 0 {
		s.M &= s.R
	}
	return s
}

func (s linState) shown() uint16 { return uint16(s.R) | uint16(s.M)<<4 }

func linApply(s linState, op LinOp) (linState, linRes) {
	b := uint8(1) << uint(op.Key)
	switch op.Kind {
	case "lock":
		if s.Locked {
			return s, linRes{}
		}
		s.Locked = true
		return s, linRes{OK: true}
	case "unlock":
		if !s.Locked {
			return s, linRes{}
		}
		s.Locked = false
		return s, linRes{OK: true}
	}
	if s.Locked {
		// a locked agent lists nothing (without error) and refuses everything else
		return s, linRes{OK: op.Kind == "list"}
	}
	switch op.Kind {
	case "add":
		s.R |= b
		return s, linRes{OK: true}
	case "addhard":
		if s.M&b != 0 {
			return s, linRes{OK: true}
		}
		if s.R&b != 0 {
			s.M |= b
			return s, linRes{OK: true}
		}
		return s, linRes{}
	case "removehard":
		ok := s.M&b != 0
		s.M &^= b
		return s, linRes{OK: ok}
	case "remove":
		ok := s.R&b != 0
		s.R &^= b
		return s, linRes{OK: ok}
	case "removeall":
		return linState{}, linRes{OK: true}
	case "list", "signers":
		s = s.purge()
		return s, linRes{OK: true, List: s.shown()}
	case "signhard":
		s = s.purge()
		return s, linRes{OK: s.M&b != 0 && s.R&b != 0}
	case "signown":
		s = s.purge()
		return s, linRes{OK: s.R&b != 0}
	}
	panic("unknown op " + op.Kind)
}

type linWorld struct {
	p     *vh.Proxy
	shim  shimagent.ShimAgent
	conns []net.Conn
	ids   map[string]int // blob -> bit of the listing mask
}

func newLinWorld(c LinCase) (*linWorld, error) {
	p, err := vh.NewProxy()
	if err != nil {
		return nil, nil
	}
	w := &linWorld{p: p, ids: map[string]int{}}
	for i, k := range linKeys {
		w.ids[string(vh.SSHPub(k).Marshal())] = i
		w.ids[string(certFor(k, "hard").Marshal())] = 4 + i
	}
	w.ids[string(vh.SSHPub(sharedKey).Marshal())] = linShared
	if c.Shared {
		_ = p.Ring().Add(agent.AddedKey{PrivateKey: vh.Key(sharedKey), Comment: "shared"})
	}
	shim, serr := shimagent.New(shimagent.Option{Address: p.Path, NoUpstream: c.NoUpstream})
	if serr != nil {
		p.Close()
		return nil, vh.Errf("shimagent.New: %v", serr)
	}
	w.shim = shim
	return w, nil
}

func (w *linWorld) close() {
	for _, c := range w.conns {
		c.Close()
	}
	w.shim.Close()
	w.p.Close()
}

func (w *linWorld) handle(via string) (yubiagent.YubiAgent, error) {
	served := yubiWrap{w.shim}
	if via != "conn" {
		return served, nil
	}
	c1, c2, e := vh.SocketPair()
	if e != nil {
		return nil, e
	}
	w.conns = append(w.conns, c1)
	go func() {
		_ = vh.Catch(func() { _ = yubiagent.ServeAgent(served, c2) })
		c2.Close()
	}()
	return yubiagent.NewClientFromConn(c1)
}

func (w *linWorld) mask(blobs [][]byte) (uint16, error) {
	var m uint16
	for _, b := range blobs {
		id, ok := w.ids[string(b)]
		if !ok {
			return 0, fmt.Errorf("an identity nobody added is listed (%d bytes)", len(b))
		}
		if m&(1<<uint(id)) != 0 {
			return 0, fmt.Errorf("identity %d is listed twice", id)
		}
		m |= 1 << uint(id)
	}
	return m, nil
}

func (w *linWorld) ringMask() uint8 {
	var m uint8
	for _, k := range w.p.RingKeys() {
		if id, ok := w.ids[string(k.Blob)]; ok && id < 4 {
			m |= 1 << uint(id)
		}
	}
	return m
}

// do performs one operation on the real shim and reports what the caller observed.
func (w *linWorld) do(ag yubiagent.YubiAgent, op LinOp, tag string) (res linRes, bad error) {
	key := linKeys[op.Key%len(linKeys)]
	perr := vh.Catch(func() {
		switch op.Kind {
		case "add":
			res.OK = ag.Add(agent.AddedKey{PrivateKey: vh.Key(key), Comment: "lin"}) == nil
		case "addhard":
			res.OK = ag.AddHardCert(certFor(key, "hard"), "hw") == nil
		case "removehard":
			res.OK = ag.Remove(certFor(key, "hard")) == nil
		case "remove":
			res.OK = ag.Remove(vh.SSHPub(key)) == nil
		case "removeall":
			res.OK = ag.RemoveAll() == nil
		case "lock":
			res.OK = ag.Lock([]byte("pw")) == nil
		case "unlock":
			res.OK = ag.Unlock([]byte("pw")) == nil
		case "list":
			ks, e := ag.List()
			res.OK = e == nil
			var blobs [][]byte
			for _, k := range ks {
				blobs = append(blobs, k.Blob)
			}
			res.List, bad = w.mask(blobs)
		case "signers":
			ss, e := ag.Signers()
			res.OK = e == nil
			var blobs [][]byte
			for _, s := range ss {
				blobs = append(blobs, s.PublicKey().Marshal())
			}
			res.List, bad = w.mask(blobs)
		case "signhard", "signown":
			var with ssh.PublicKey = vh.SSHPub(key)
			if op.Kind == "signhard" {
				with = certFor(key, "hard")
			}
			sig, e := ag.Sign(with, []byte(tag))
			res.OK = e == nil
			if e == nil {
				if verr := vh.SSHPub(key).Verify([]byte(tag), sig); verr != nil {
					bad = fmt.Errorf("the signature does not verify over the caller's data: %v", verr)
				}
			}
		}
	})
	if perr != nil {
		bad = fmt.Errorf("crashed: %v", perr)
	}
	return res, bad
}

func (r linRes) String() string {
	if r.List != 0 || !r.OK {
		return fmt.Sprintf("{ok=%v listed=%07b}", r.OK, r.List)
	}
	return fmt.Sprintf("{ok=%v}", r.OK)
}

// explain searches for a sequential order of the routines' operations under which the model gives
// every observed result, the observed final listing and the observed final content of the underlying agent.
func explain(c LinCase, obs [][]linRes, init linState, finalUnlockOK bool, finalList uint16, finalR uint8) bool {
	type node struct {
		pos [6]uint8
		st  linState
	}
	dead := map[node]bool{}
	var rec func(n node) bool
	rec = func(n node) bool {
		if dead[n] {
			return false
		}
		done := true
		for g, ops := range c.Routines {
			i := int(n.pos[g])
			if i >= len(ops) {
				continue
			}
			done = false
			st2, r := linApply(n.st, ops[i])
			if r != obs[g][i] {
				continue
			}
			n2 := n
			n2.pos[g]++
			n2.st = st2
			if rec(n2) {
				return true
			}
		}
		if done {
			// the harness unlocks (succeeds iff the agent was left locked), then lists
			f := n.st
			if f.Locked == finalUnlockOK {
				f.Locked = false
				f = f.purge()
				if f.shown() == finalList && f.R == finalR {
					return true
				}
			}
		}
		dead[n] = true
		return false
	}
	return rec(node{st: init})
}

func describe(c LinCase, obs [][]linRes) string {
	var sb strings.Builder
	for g, ops := range c.Routines {
		fmt.Fprintf(&sb, "\n  routine %d (%s):", g, c.Via[g])
		for i, op := range ops {
			fmt.Fprintf(&sb, " %s(%d)%v", op.Kind, op.Key, obs[g][i])
		}
	}
	return sb.String()
}

// forModel: through a client connection Signers() is the agent client's listing of identities (it
// sends a list request), so that is what the model applies for it.
func forModel(c LinCase) LinCase {
	m := c
	m.Routines = make([][]LinOp, len(c.Routines))
	for g, ops := range c.Routines {
		m.Routines[g] = append([]LinOp(nil), ops...)
		if c.Via[g] == "conn" {
			for i := range m.Routines[g] {
				if m.Routines[g][i].Kind == "signers" {
					m.Routines[g][i].Kind = "list"
				}
			}
		}
	}
	return m
}

func linExec(c LinCase) (vh.Outcome, error) {
	mc := forModel(c)
	out := vh.Outcome{Classes: []string{fmt.Sprintf("routines=%d", len(c.Routines)), fmt.Sprintf("noUpstream=%v", c.NoUpstream)}}
	init := linState{}
	if c.Shared {
		init.R = 1 << linShared
	}
	// ---- the model against the real shim, sequentially, on one drawn order ----
	{
		w, err := newLinWorld(c)
		if w == nil {
			return out, err
		}
		var ags []yubiagent.YubiAgent
		for _, via := range c.Via {
			ag, e := w.handle(via)
			if e != nil {
				w.close()
				return out, nil
			}
			ags = append(ags, ag)
		}
		pos := make([]int, len(c.Routines))
		st := init
		for step := 0; ; step++ {
			var live []int
			for g := range c.Routines {
				if pos[g] < len(c.Routines[g]) {
					live = append(live, g)
				}
			}
			if len(live) == 0 {
				break
			}
			pick := 0
			if step < len(c.SeqPick) {
				pick = c.SeqPick[step]
			}
			g := live[pick%len(live)]
			op := c.Routines[g][pos[g]]
			pos[g]++
			got, bad := w.do(ags[g], op, fmt.Sprintf("seq/%d", step))
			var want linRes
			st, want = linApply(st, mc.Routines[g][pos[g]-1])
			if bad != nil || got != want || (!st.Locked && w.ringMask() != st.R) {
				w.close()
				out.Classes = append(out.Classes, "sequential-run-differs-from-model(not judged)")
				if os.Getenv("VERIF_DEBUG_MODEL") != "" {
					return out, vh.Errf("MODEL MISMATCH at step %d op %+v: got %v want %v bad %v ring %04b model %+v", step, op, got, want, bad, w.ringMask(), st)
				}
				return out, nil
			}
		}
		w.close()
	}
	// ---- concurrent repetitions ----
	writes, addhardVsRemoval := 0, false
	for g, ops := range c.Routines {
		for _, op := range ops {
			switch op.Kind {
			case "add", "addhard", "remove", "removehard", "removeall", "lock", "unlock":
				writes++
			}
			if op.Kind == "addhard" {
				for g2, ops2 := range c.Routines {
					for _, op2 := range ops2 {
						if g2 != g && (op2.Kind == "removeall" || (op2.Kind == "remove" && op2.Key == op.Key)) {
							addhardVsRemoval = true
						}
					}
				}
			}
		}
	}
	out.NonTrivial = len(c.Routines) >= 2 && writes >= 2
	if addhardVsRemoval {
		out.Classes = append(out.Classes, "addhard-concurrent-with-removal-of-its-key")
	}
	rep := c.Repeat
	if rep <= 0 {
		rep = 1
	}
	for r := 0; r < rep; r++ {
		w, err := newLinWorld(c)
		if w == nil {
			return out, err
		}
		if c.SlowMicros > 0 {
			d := time.Duration(c.SlowMicros) * time.Microsecond
			w.p.Latency = func(code int) time.Duration { return d }
		}
		var ags []yubiagent.YubiAgent
		for _, via := range c.Via {
			ag, e := w.handle(via)
			if e != nil {
				w.close()
				return out, nil
			}
			ags = append(ags, ag)
		}
		obs := make([][]linRes, len(c.Routines))
		var viol violation
		start := make(chan struct{})
		var wg sync.WaitGroup
		for g := range c.Routines {
			g := g
			obs[g] = make([]linRes, len(c.Routines[g]))
			wg.Add(1)
			go func() {
				defer wg.Done()
				<-start
				for i, op := range c.Routines[g] {
					for s := 0; s < op.Spin; s++ {
						runtime.Gosched()
					}
					res, bad := w.do(ags[g], op, fmt.Sprintf("lin/%d/%d/%d", r, g, i))
					if bad != nil {
						viol.set(vh.Errf("repetition %d, routine %d, op %d (%s %d): %v", r, g, i, op.Kind, op.Key, bad))
					}
					obs[g][i] = res
				}
			}()
		}
		close(start)
		doneCh := make(chan struct{})
		go func() { wg.Wait(); close(doneCh) }()
		select {
		case <-doneCh:
		case <-time.After(watchdog):
			buf := make([]byte, 1<<16)
			n := runtime.Stack(buf, true)
			return out, vh.Errf("repetition %d: operations did not complete within %s\n%s", r, watchdog, buf[:n])
		}
		if viol.err != nil {
			w.close()
			return out, viol.err
		}
		w.p.Latency = nil
		unl, _ := w.do(yubiWrap{w.shim}, LinOp{Kind: "unlock"}, "final-unlock")
		fin, bad := w.do(yubiWrap{w.shim}, LinOp{Kind: "list"}, "final")
		finalR := w.ringMask()
		w.close()
		if bad != nil || !fin.OK {
			return out, vh.Errf("repetition %d: final listing failed: %v", r, bad)
		}
		if !explain(mc, obs, init, unl.OK, fin.List, finalR) {
			return out, vh.Errf("repetition %d: no sequential order of the operations explains what the callers observed and the final state (final listing %07b [bits 0-2 keys, 3 preloaded key, 4-6 hardware certificates], underlying agent %04b); observed:%s", r, fin.List, finalR, describe(c, obs))
		}
	}
	return out, nil
}

func linGen(t *rapid.T) LinCase {
	c := LinCase{
		NoUpstream: rapid.Bool().Draw(t, "noUpstream"),
		Shared:     rapid.IntRange(0, 2).Draw(t, "shared") == 0,
		SlowMicros: rapid.SampledFrom([]int{0, 0, 100, 300, 1000}).Draw(t, "slowMicros"),
	}
	nk := rapid.IntRange(1, 3).Draw(t, "keys")
	ng := rapid.IntRange(2, 4).Draw(t, "routines")
	kinds := []string{"add", "add", "addhard", "addhard", "addhard", "removehard", "remove", "removeall", "list", "list", "signers", "signhard", "signown", "lock", "unlock"}
	total := 0
	for g := 0; g < ng; g++ {
		l := fmt.Sprintf("g%d", g)
		c.Via = append(c.Via, rapid.SampledFrom([]string{"direct", "direct", "conn"}).Draw(t, l+"Via"))
		var ops []LinOp
		switch rapid.IntRange(0, 3).Draw(t, l+"Shape") {
		case 0: // the life of one key, in order, with gaps
			k := rapid.IntRange(0, nk-1).Draw(t, l+"K")
			for _, kind := range []string{"add", "addhard", "signhard", "list", "removehard", "remove"} {
				if kind == "add" || rapid.Bool().Draw(t, l+kind) {
					ops = append(ops, LinOp{Kind: kind, Key: k})
				}
			}
		case 1: // disruptor
			n := rapid.IntRange(1, 3).Draw(t, l+"N")
			for i := 0; i < n; i++ {
				ops = append(ops, LinOp{Kind: rapid.SampledFrom([]string{"removeall", "removeall", "remove", "list", "removehard", "lock", "unlock", "lock"}).Draw(t, fmt.Sprintf("%sD%d", l, i)), Key: rapid.IntRange(0, nk-1).Draw(t, fmt.Sprintf("%sDK%d", l, i))})
			}
		default:
			n := rapid.IntRange(1, 5).Draw(t, l+"N")
			for i := 0; i < n; i++ {
				ops = append(ops, LinOp{Kind: rapid.SampledFrom(kinds).Draw(t, fmt.Sprintf("%sO%d", l, i)), Key: rapid.IntRange(0, nk-1).Draw(t, fmt.Sprintf("%sK%d", l, i))})
			}
		}
		for i := range ops {
			ops[i].Spin = rapid.SampledFrom([]int{0, 0, 0, 1, 3, 10}).Draw(t, fmt.Sprintf("%sS%d", l, i))
		}
		total += len(ops)
		c.Routines = append(c.Routines, ops)
	}
	c.SeqPick = rapid.SliceOfN(rapid.IntRange(0, 3), total, total).Draw(t, "seqPick")
	c.Repeat = 4
	if vh.Thorough() {
		c.Repeat = 12
	}
	return c
}

const linRule = "concurrent programs over SHARED state: 2..4 goroutines (direct or through their own served connection) x 1..6 operations from {add key, add hardware certificate, sign with it, sign with the key, remove certificate, remove key, remove-all, list, signers, lock, unlock} on 1..3 keys that all goroutines may touch (shapes: one key's life in order / a disruptor with remove-all, remove, list, lock, unlock / free mix), both upstream modes, underlying agent empty or holding one more key at first, underlying agent latency 0..1 ms, Gosched perturbation per operation, each program repeated (quick 4, thorough 12). Every caller's observation is recorded (success / failure, and the set of identities for list / signers). Oracle: a memoised search over all interleavings of the goroutines' sequences must find one under which a pure model of the shim's two tables (keys held by the underlying agent; hardware certificates in memory, purged when their key is gone unless the underlying agent is empty; a lock flag under which list returns nothing and every other operation fails) yields every observed result, the observed final listing and the observed final content of the underlying agent; signatures verify over the caller's data; nothing unknown or duplicated is listed; race detector. The model is first validated against the real shim on one drawn sequential order of the same program and the case is not judged if they disagree. Non-trivial: >= 2 goroutines and >= 2 writing operations; class addhard-concurrent-with-removal-of-its-key counts the programs where a hardware-certificate registration races with the removal of its key."

func TestC11Sequential(t *testing.T) {
	vh.Run(t, vh.Spec[LinCase]{Property: "C11", Name: "TestC11Sequential", Rule: linRule, Gen: linGen, Exec: linExec, Journal: true})
}
