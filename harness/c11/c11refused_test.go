package c11

// TestC11RefusedHeldSigner: callers keep the signers that Signers() handed out and sign through them
// while the token refuses (confirmation denied, token pulled: the underlying agent answers the sign
// request with a failure), at the same time as other callers list, fetch signers, register the same
// hardware certificates again and relay raw requests. A signature that fails is an operation like any
// other: it runs under the same mutual exclusion, and no sequential order of these operations removes a
// hardware certificate.

import (
	"bytes"
	"crypto/rand"
	"fmt"
	"sync"
	"sync/atomic"
	"testing"
	"time"

	"github.com/theparanoids/ysshra/agent/shimagent"
	"github.com/theparanoids/ysshra/zzverif/vh"
	"golang.org/x/crypto/ssh"
	"golang.org/x/crypto/ssh/agent"
)

type RefusedCase struct {
	NoUpstream bool
	Rounds     int
}

func refusedScenario(c RefusedCase) error {
	where := fmt.Sprintf("no-upstream=%v, %d rounds", c.NoUpstream, c.Rounds)
	p, err := vh.NewProxy()
	if err != nil {
		return nil
	}
	defer p.Close()
	keys := []string{"ed25519b", "p256c", "p384a", "ed25519c"}
	var certs []*ssh.Certificate
	for i, k := range keys {
		_ = p.Ring().Add(agent.AddedKey{PrivateKey: vh.Key(k), Comment: "token key"})
		certs = append(certs, vh.MakeSSHCert(vh.SSHCertSpec{Key: k, KeyID: fmt.Sprintf("hardware certificate %d", i), ValidAfter: 0, ValidBefore: ssh.CertTimeInfinity, Serial: uint64(40 + i), Principals: []string{"user_a"}}))
	}
	var refuse atomic.Bool
	p.Hook = func(idx int, req []byte) ([]byte, bool, bool) {
		if len(req) > 0 && req[0] == vh.CodeSign && refuse.Load() {
			return []byte{vh.CodeFailure}, false, true
		}
		return nil, false, false
	}
	sh, nerr := shimagent.New(shimagent.Option{Address: p.Path, NoUpstream: c.NoUpstream})
	if nerr != nil {
		return vh.Errf("%s: shimagent.New: %v", where, nerr)
	}
	defer func() { _ = vh.Catch(func() { sh.Close() }) }()
	for i, ct := range certs {
		if e := sh.AddHardCert(ct, "hw"); e != nil {
			return vh.Errf("%s: registering hardware certificate %d failed: %v", where, i, e)
		}
	}
	all, serr := sh.Signers()
	if serr != nil {
		return vh.Errf("%s: Signers failed: %v", where, serr)
	}
	held := make([]ssh.Signer, len(certs))
	for _, s := range all {
		for i, ct := range certs {
			if bytes.Equal(s.PublicKey().Marshal(), ct.Marshal()) {
				held[i] = s
			}
		}
	}
	for i, s := range held {
		if s == nil {
			return vh.Errf("%s: Signers() has no signer for registered hardware certificate %d", where, i)
		}
	}
	refuse.Store(true)
	var viol violation
	var wg sync.WaitGroup
	for i := range held {
		i := i
		wg.Add(1)
		go func() { // signs through the kept signer; the token refuses
			defer wg.Done()
			for r := 0; r < c.Rounds; r++ {
				var e error
				if perr := vh.Catch(func() { _, e = held[i].Sign(rand.Reader, []byte("refused")) }); perr != nil {
					viol.set(vh.Errf("%s: signing through the kept signer %d crashed: %v", where, i, perr))
					return
				}
				if e == nil {
					viol.set(vh.Errf("%s: the underlying agent refuses every sign request, yet kept signer %d returned a signature", where, i))
					return
				}
			}
		}()
		wg.Add(1)
		go func() { // lists, fetches signers, registers the same certificate again
			defer wg.Done()
			for r := 0; r < c.Rounds; r++ {
				if _, e := sh.List(); e != nil {
					viol.set(vh.Errf("%s: List failed: %v", where, e))
					return
				}
				if _, e := sh.Signers(); e != nil {
					viol.set(vh.Errf("%s: Signers failed: %v", where, e))
					return
				}
				if e := sh.AddHardCert(certs[i], "hw"); e != nil {
					viol.set(vh.Errf("%s: registering hardware certificate %d again failed: %v", where, i, e))
					return
				}
			}
		}()
	}
	wg.Add(1)
	go func() { // raw forwards with a tag: each gets the echo of its own request
		defer wg.Done()
		for r := 0; r < 2*c.Rounds; r++ {
			req := append([]byte{200}, []byte(fmt.Sprintf("refused/%v/%d", c.NoUpstream, r))...)
			rep, e := sh.Forward(req)
			if e != nil || !bytes.Equal(rep, append([]byte{vh.EchoMark}, req...)) {
				viol.set(vh.Errf("%s: raw forward %d: reply %.40q, %v - not the answer to its own request", where, r, rep, e))
				return
			}
		}
	}()
	done := make(chan struct{})
	go func() { wg.Wait(); close(done) }()
	select {
	case <-done:
	case <-time.After(60 * time.Second):
		return vh.Errf("%s: the operations did not complete within 60 s", where)
	}
	if viol.err != nil {
		return viol.err
	}
	// no sequential order of {refused signature, list, signers, register again, forward} removes a certificate
	refuse.Store(false)
	ks, lerr := sh.List()
	if lerr != nil {
		return vh.Errf("%s: final List failed: %v", where, lerr)
	}
	for i, ct := range certs {
		found := false
		for _, k := range ks {
			if bytes.Equal(k.Blob, ct.Marshal()) {
				found = true
			}
		}
		if !found {
			return vh.Errf("%s: hardware certificate %d is gone after signatures through its kept signer were refused (listing shows %d identities)", where, i, len(ks))
		}
		data := []byte("accepted")
		sig, e := held[i].Sign(rand.Reader, data)
		if e != nil || ct.Key.Verify(data, sig) != nil {
			return vh.Errf("%s: the token answers again, yet kept signer %d fails or does not verify: %v", where, i, e)
		}
	}
	if n := len(p.RingKeys()); n != len(keys) {
		return vh.Errf("%s: the underlying agent holds %d identities, expected the %d token keys", where, n, len(keys))
	}
	return nil
}

func TestC11RefusedHeldSigner(t *testing.T) {
	cases := []RefusedCase{{NoUpstream: false, Rounds: 40}, {NoUpstream: true, Rounds: 40}}
	if vh.Thorough() {
		cases = append(cases, RefusedCase{NoUpstream: false, Rounds: 400}, RefusedCase{NoUpstream: true, Rounds: 400})
	}
	vh.Enumerate(t, vh.Spec[RefusedCase]{Property: "C11", Name: "TestC11RefusedHeldSigner", Exhaustive: true, Journal: true,
		Rule: "one shim agent (both upstream modes) over a keyring with four token keys, four hardware certificates registered, the caller keeps the signers of a Signers() call; then the underlying agent refuses every sign request while 4 goroutines sign through the kept signers (40 rounds; thorough 400), 4 goroutines list / fetch signers / register the same certificate again, and one issues tagged raw forwards. Oracles: race detector; every operation completes (60 s); refused signatures are errors; every forward gets the echo of its own request; afterwards all four certificates are listed, each kept signer signs and verifies again, and the underlying agent still holds exactly the four keys",
		Exec: func(c RefusedCase) (vh.Outcome, error) {
			return vh.Outcome{NonTrivial: true}, refusedScenario(c)
		}}, cases)
}
