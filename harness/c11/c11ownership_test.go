package c11

// TestC11ListingOwnership: what List hands out belongs to the caller. Callers read their listings (as the
// serving loop does when it writes the reply, after the shim's mutex is released) while other callers
// register the same hardware certificates again under other labels. No caller's listing changes under
// its hands, and nobody touches shared state without the mutex (race detector).

import (
	"fmt"
	"sync"
	"testing"
	"time"

	"github.com/theparanoids/ysshra/agent/shimagent"
	"github.com/theparanoids/ysshra/zzverif/vh"
	"golang.org/x/crypto/ssh"
	"golang.org/x/crypto/ssh/agent"
)

func ownershipScenario(c RefusedCase) error {
	where := fmt.Sprintf("no-upstream=%v, %d rounds", c.NoUpstream, c.Rounds)
	p, err := vh.NewProxy()
	if err != nil {
		return nil
	}
	defer p.Close()
	keys := []string{"ed25519b", "p256c", "p384a"}
	var certs []*ssh.Certificate
	for i, k := range keys {
		_ = p.Ring().Add(agent.AddedKey{PrivateKey: vh.Key(k), Comment: "token key"})
		certs = append(certs, vh.MakeSSHCert(vh.SSHCertSpec{Key: k, KeyID: fmt.Sprintf("hardware certificate %d", i), ValidAfter: 0, ValidBefore: ssh.CertTimeInfinity, Serial: uint64(80 + i), Principals: []string{"user_a"}}))
	}
	sh, nerr := shimagent.New(shimagent.Option{Address: p.Path, NoUpstream: c.NoUpstream})
	if nerr != nil {
		return vh.Errf("%s: shimagent.New: %v", where, nerr)
	}
	defer func() { _ = vh.Catch(func() { sh.Close() }) }()
	for i, ct := range certs {
		if e := sh.AddHardCert(ct, "9a"); e != nil {
			return vh.Errf("%s: registering hardware certificate %d failed: %v", where, i, e)
		}
	}
	var viol violation
	var wg sync.WaitGroup
	for g := 0; g < 3; g++ {
		wg.Add(1)
		go func() { // lists, then reads its listing for a while, as a serving loop marshals it into a reply
			defer wg.Done()
			for r := 0; r < c.Rounds; r++ {
				ks, e := sh.List()
				if e != nil {
					viol.set(vh.Errf("%s: List failed: %v", where, e))
					return
				}
				type snap struct{ format, comment string; blob int }
				var first []snap
				for _, k := range ks {
					first = append(first, snap{k.Format, k.Comment, len(k.Blob)})
				}
				for again := 0; again < 20; again++ {
					for i, k := range ks {
						if k.Format != first[i].format || k.Comment != first[i].comment || len(k.Blob) != first[i].blob {
							viol.set(vh.Errf("%s: entry %d of a listing the caller holds changed from %q to %q while other callers registered certificates: the listing is shared state", where, i, first[i].comment, k.Comment))
							return
						}
					}
				}
			}
		}()
	}
	for i := range certs {
		i := i
		wg.Add(1)
		go func() { // registers the same certificate again, under alternating labels
			defer wg.Done()
			for r := 0; r < c.Rounds; r++ {
				if e := sh.AddHardCert(certs[i], []string{"9c", "9a", "9e"}[r%3]); e != nil {
					viol.set(vh.Errf("%s: registering hardware certificate %d again failed: %v", where, i, e))
					return
				}
			}
		}()
	}
	done := make(chan struct{})
	go func() { wg.Wait(); close(done) }()
	select {
	case <-done:
	case <-time.After(90 * time.Second):
		return vh.Errf("%s: the operations did not complete within 90 s", where)
	}
	return viol.err
}

func TestC11ListingOwnership(t *testing.T) {
	cases := []RefusedCase{{NoUpstream: false, Rounds: 150}, {NoUpstream: true, Rounds: 150}}
	if vh.Thorough() {
		cases = append(cases, RefusedCase{NoUpstream: false, Rounds: 1500}, RefusedCase{NoUpstream: true, Rounds: 1500})
	}
	vh.Enumerate(t, vh.Spec[RefusedCase]{Property: "C11", Name: "TestC11ListingOwnership", Exhaustive: true, Journal: true,
		Rule: "one shim agent (both upstream modes) with three hardware certificates registered; 3 goroutines list and then read their listing 20 times over (150 rounds; thorough 1500) while 3 goroutines register the same certificates again under alternating labels. Oracles: race detector (a listing is read after the call returned: whatever it shares with the agent is touched without the mutex); no entry of a listing changes under the hands of the caller that holds it; everything completes within 90 s",
		Exec: func(c RefusedCase) (vh.Outcome, error) {
			return vh.Outcome{NonTrivial: true}, ownershipScenario(c)
		}}, cases)
}
