package c11

// TestC11VanishingClient: one client of the served agent sends a request and goes away (or stops
// reading) before its reply arrives. Nothing of that exchange may reach the other clients: their
// operations complete and each gets the reply to its own request. The real server pairing
// (yubiagent.NewServer over a shim agent) is served, as in production.

import (
	"bytes"
	"encoding/binary"
	"fmt"
	"sync"
	"testing"
	"time"

	"github.com/theparanoids/ysshra/agent/yubiagent"
	"github.com/theparanoids/ysshra/zzverif/vh"
	"golang.org/x/crypto/ssh/agent"
)

type VanishCase struct {
	Scenarios []string // "<vanish|stall>/<body size>/<code>"
}

func vanishScenario(name string) error {
	var how string
	var size, code int
	if n, _ := fmt.Sscanf(replaceSlash(name), "%s %d %d", &how, &size, &code); n != 3 {
		return nil
	}
	p, err := vh.NewProxy()
	if err != nil {
		return nil
	}
	defer p.Close()
	_ = p.Ring().Add(agent.AddedKey{PrivateKey: vh.Key(sharedKey), Comment: "shared"})
	srv, serr := yubiagent.NewServer(p.Path, true)
	if serr != nil {
		return vh.Errf("%s: NewServer: %v", name, serr)
	}
	defer func() { _ = vh.Catch(func() { srv.Close() }) }()
	// client A: raw bytes on its own connection
	a1, a2, e := vh.SocketPair()
	if e != nil {
		return nil
	}
	go func() {
		_ = vh.Catch(func() { _ = yubiagent.ServeAgent(srv, a2) })
		a2.Close()
	}()
	body := make([]byte, size)
	for i := range body {
		body[i] = byte(i * 13)
	}
	body[0] = byte(code) // a code the server relays to the underlying agent, which echoes it
	frame := make([]byte, 4+len(body))
	binary.BigEndian.PutUint32(frame, uint32(len(body)))
	copy(frame[4:], body)
	if _, werr := a1.Write(frame); werr != nil {
		return nil
	}
	if how == "vanish" {
		a1.Close()
	} else {
		defer a1.Close() // stalls: never reads its reply while the others work
	}
	// clients B and C
	var viol violation
	var wg sync.WaitGroup
	for _, who := range []string{"b", "c"} {
		who := who
		c1, c2, e := vh.SocketPair()
		if e != nil {
			return nil
		}
		go func() {
			_ = vh.Catch(func() { _ = yubiagent.ServeAgent(srv, c2) })
			c2.Close()
		}()
		cl, cerr := yubiagent.NewClientFromConn(c1)
		if cerr != nil {
			c1.Close()
			return nil
		}
		wg.Add(1)
		go func() {
			defer wg.Done()
			defer c1.Close()
			time.Sleep(100 * time.Millisecond)
			for i := 0; i < 6; i++ {
				tag := []byte(fmt.Sprintf("vanish/%s/%s/%d", name, who, i))
				req := append([]byte{200}, tag...)
				rep, ferr := cl.Forward(req)
				if ferr != nil {
					viol.set(vh.Errf("%s: client %s, forward %d failed: %v", name, who, i, ferr))
					return
				}
				if !bytes.Equal(rep, append([]byte{vh.EchoMark}, req...)) {
					viol.set(vh.Errf("%s: client %s, forward %d: the reply (%d bytes, starts %.24q) is not the answer to its own request", name, who, i, len(rep), rep))
					return
				}
				ks, lerr := cl.List()
				if lerr != nil || len(ks) != 1 {
					viol.set(vh.Errf("%s: client %s, list %d: %d identities, %v (expected the one shared key)", name, who, i, len(ks), lerr))
					return
				}
			}
		}()
	}
	done := make(chan struct{})
	go func() { wg.Wait(); close(done) }()
	select {
	case <-done:
	case <-time.After(20 * time.Second):
		return vh.Errf("%s: the other clients' operations did not complete within 20 s after one client sent a %d-byte request (code %d) and %s", name, size, code, map[string]string{"vanish": "closed its connection", "stall": "stopped reading"}[how])
	}
	return viol.err
}

func TestC11VanishingClient(t *testing.T) {
	var sc []string
	for _, how := range []string{"vanish", "stall"} {
		for _, size := range []int{16, 70000, 1 << 20} {
			for _, code := range []int{201, 27} {
				sc = append(sc, fmt.Sprintf("%s/%d/%d", how, size, code))
			}
		}
	}
	vh.Enumerate(t, vh.Spec[VanishCase]{Property: "C11", Name: "TestC11VanishingClient", Exhaustive: true, Journal: true,
		Rule: "the production pairing yubiagent.NewServer over a shim agent serves three connections; client A writes one request of 16 B / 70 KB / 1 MiB (an unknown code, relayed and echoed by the underlying agent, or an extension request) and either closes its connection at once or keeps it open without ever reading; 100 ms later clients B and C each make 6 tagged forwards and 6 listings (12 scenarios side by side). Oracle: B and C complete within 20 s, every forward gets the echo of its own tagged request, every listing shows the one shared key",
		Exec: func(c VanishCase) (vh.Outcome, error) {
			out := vh.Outcome{NonTrivial: true}
			errs := make([]error, len(c.Scenarios))
			var wg sync.WaitGroup
			for i, s := range c.Scenarios {
				i, s := i, s
				wg.Add(1)
				go func() { defer wg.Done(); errs[i] = vanishScenario(s) }()
			}
			wg.Wait()
			for _, e := range errs {
				if e != nil {
					return out, e
				}
			}
			return out, nil
		}}, []VanishCase{{Scenarios: sc}})
}
