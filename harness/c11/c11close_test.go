package c11

// TestC11CloseInFlight: Close is called while another caller's request is outstanding at the
// underlying agent (which answers it only after seconds). The request reached the underlying agent
// before Close was called, so in every sequential order it comes first: its caller gets its own
// reply, and only then does Close take effect - refused when the agent is locked (which leaves the
// agent usable), closing the connection otherwise.

import (
	"bytes"
	"fmt"
	"sync"
	"testing"
	"time"

	"github.com/theparanoids/ysshra/agent/shimagent"
	"github.com/theparanoids/ysshra/zzverif/vh"
	"golang.org/x/crypto/ssh/agent"
)

type CloseCase struct {
	Scenarios []string // "<slow op>/<locked|unlocked>/<mode>"
	LatencyMS int
}

func closeScenario(name string, latency time.Duration) error {
	var slowOp, lock, mode string
	if n, _ := fmt.Sscanf(replaceSlash(name), "%s %s %s", &slowOp, &lock, &mode); n != 3 {
		return nil
	}
	p, err := vh.NewProxy()
	if err != nil {
		return nil
	}
	defer p.Close()
	_ = p.Ring().Add(agent.AddedKey{PrivateKey: vh.Key(sharedKey), Comment: "shared"})
	slowCode := map[string]int{"forward": 201, "extension": vh.CodeExtension}[slowOp]
	var once sync.Once
	p.Latency = func(code int) time.Duration {
		d := time.Duration(0)
		if code == slowCode {
			once.Do(func() { d = latency })
		}
		return d
	}
	shim, serr := shimagent.New(shimagent.Option{Address: p.Path, NoUpstream: mode == "noupstream"})
	if serr != nil {
		return vh.Errf("%s: shimagent.New: %v", name, serr)
	}
	defer func() { _ = vh.Catch(func() { shim.Close() }) }()
	if lock == "locked" {
		if e := shim.Lock([]byte("pw")); e != nil {
			return vh.Errf("%s: Lock: %v", name, e)
		}
	}
	before := p.NumFrames()
	tag := []byte("close-in-flight/" + name)
	type res struct {
		rep []byte
		err error
	}
	slowDone := make(chan res, 1)
	go func() {
		var r res
		if perr := vh.Catch(func() {
			if slowOp == "forward" {
				r.rep, r.err = shim.Forward(append([]byte{201}, tag...))
			} else {
				r.rep, r.err = shim.Extension("verif@harness", tag)
			}
		}); perr != nil {
			r.err = fmt.Errorf("CRASH: %v", perr)
		}
		slowDone <- r
	}()
	// wait until the underlying agent has the request
	deadline := time.Now().Add(10 * time.Second)
	for p.NumFrames() == before {
		if time.Now().After(deadline) {
			return nil // the request never left: nothing to judge
		}
		time.Sleep(5 * time.Millisecond)
	}
	time.Sleep(100 * time.Millisecond)
	closeDone := make(chan error, 1)
	go func() {
		var cerr error
		if perr := vh.Catch(func() { cerr = shim.Close() }); perr != nil {
			cerr = fmt.Errorf("CRASH: %v", perr)
		}
		closeDone <- cerr
	}()
	var slow res
	select {
	case slow = <-slowDone:
	case <-time.After(latency + watchdog):
		return vh.Errf("%s: the outstanding %s never returned", name, slowOp)
	}
	if slow.err != nil {
		return vh.Errf("%s: the %s request had reached the underlying agent before Close was called, yet its caller got an error instead of the reply: %v", name, slowOp, slow.err)
	}
	if lock == "locked" {
		// a locked underlying agent answers every request with its failure byte: that is the reply here
		if !bytes.Equal(slow.rep, []byte{vh.CodeFailure}) {
			return vh.Errf("%s: the reply %q is not the locked underlying agent's answer to the outstanding request", name, slow.rep)
		}
	} else if slowOp == "forward" && !bytes.Equal(slow.rep, append([]byte{vh.EchoMark, 201}, tag...)) || slowOp == "extension" && (len(slow.rep) < 1 || slow.rep[0] != vh.ExtMark || !bytes.HasSuffix(slow.rep, tag)) {
		return vh.Errf("%s: the reply %q is not the answer to the outstanding request", name, slow.rep)
	}
	var cerr error
	select {
	case cerr = <-closeDone:
	case <-time.After(watchdog):
		return vh.Errf("%s: Close never returned", name)
	}
	if cerr != nil && len(cerr.Error()) > 5 && cerr.Error()[:5] == "CRASH" {
		return vh.Errf("%s: Close crashed: %v", name, cerr)
	}
	if lock == "locked" {
		if cerr == nil {
			return vh.Errf("%s: Close succeeded on a locked agent (it called while another caller's request was outstanding)", name)
		}
		// the refused Close changed nothing: the right passphrase unlocks, requests are answered
		if e := shim.Unlock([]byte("pw")); e != nil {
			return vh.Errf("%s: after the refused Close the right passphrase no longer unlocks the agent: %v", name, e)
		}
		body := append([]byte{200}, tag...)
		rep, e := shim.Forward(body)
		if e != nil || !bytes.Equal(rep, append([]byte{vh.EchoMark}, body...)) {
			return vh.Errf("%s: after the refused Close a forward got %q, %v", name, rep, e)
		}
	}
	return nil
}

func TestC11CloseInFlight(t *testing.T) {
	var sc []string
	for _, op := range []string{"forward", "extension"} {
		for _, lock := range []string{"locked", "unlocked"} {
			for _, mode := range []string{"upstream", "noupstream"} {
				if lock == "locked" && op == "extension" {
					continue // a locked underlying agent fails extension requests: the call's error says nothing
				}
				sc = append(sc, op+"/"+lock+"/"+mode)
			}
		}
	}
	cases := []CloseCase{{Scenarios: sc, LatencyMS: 3000}}
	if vh.Thorough() {
		cases = append(cases, CloseCase{Scenarios: sc, LatencyMS: 800}, CloseCase{Scenarios: sc, LatencyMS: 12000})
	}
	vh.Enumerate(t, vh.Spec[CloseCase]{Property: "C11", Name: "TestC11CloseInFlight", Exhaustive: true, Journal: true,
		Rule: "a raw forward or an extension request is outstanding at the underlying agent, which answers after 3 s (thorough: also 0.8 s and 12 s); 100 ms after the request arrived there another caller calls Close; agent locked (forward only) or not, both upstream modes (6 scenarios side by side). Oracle: the outstanding request's caller gets the reply to its own request (it precedes Close in every sequential order, because it reached the underlying agent before Close was called); Close returns; on a locked agent Close is refused and afterwards the right passphrase still unlocks and a forward is answered",
		Exec: func(c CloseCase) (vh.Outcome, error) {
			out := vh.Outcome{NonTrivial: true}
			errs := make([]error, len(c.Scenarios))
			var wg sync.WaitGroup
			for i, s := range c.Scenarios {
				i, s := i, s
				wg.Add(1)
				go func() { defer wg.Done(); errs[i] = closeScenario(s, time.Duration(c.LatencyMS)*time.Millisecond) }()
			}
			wg.Wait()
			for _, e := range errs {
				if e != nil {
					return out, e
				}
			}
			return out, nil
		}}, cases)
}
