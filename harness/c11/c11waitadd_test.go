package c11

// TestC11WaitAddHard: clients wait for the add-hardware-certificate code (31) - what a login helper does
// until the token's certificate is registered - while another client registers and removes hardware
// certificates. Every operation completes: the waits are released by the registrations that follow them,
// and the registrations are not held up by the waits.

import (
	"fmt"
	"sync"
	"sync/atomic"
	"testing"
	"time"

	"github.com/theparanoids/ysshra/agent/yubiagent"
	"github.com/theparanoids/ysshra/zzverif/vh"
	"golang.org/x/crypto/ssh"
	"golang.org/x/crypto/ssh/agent"
)

func waitAddScenario(c RefusedCase) error {
	where := fmt.Sprintf("%d waits on code 31", c.Rounds)
	p, err := vh.NewProxy()
	if err != nil {
		return nil
	}
	defer p.Close()
	p.Latency = func(code int) time.Duration {
		if code == vh.CodeList {
			return 500 * time.Microsecond // the registration's own listing takes a moment: the window in which a wait arrives
		}
		return 0
	}
	keys := []string{"ed25519b", "p256c", "p384a"}
	var certs []*ssh.Certificate
	for i, k := range keys {
		_ = p.Ring().Add(agent.AddedKey{PrivateKey: vh.Key(k), Comment: "token key"})
		certs = append(certs, vh.MakeSSHCert(vh.SSHCertSpec{Key: k, KeyID: fmt.Sprintf("hardware certificate %d", i), ValidAfter: 0, ValidBefore: ssh.CertTimeInfinity, Serial: uint64(90 + i), Principals: []string{"user_a"}}))
	}
	srv, serr := yubiagent.NewServer(p.Path, true)
	if serr != nil {
		return vh.Errf("%s: NewServer: %v", where, serr)
	}
	defer func() { // bounded: an agent whose mutex is stuck must not hold up the report
		closed := make(chan struct{})
		go func() { _ = vh.Catch(func() { srv.Close() }); close(closed) }()
		select {
		case <-closed:
		case <-time.After(2 * time.Second):
		}
	}()
	dial := func() (yubiagent.YubiAgent, func(), error) {
		c1, c2, e := vh.SocketPair()
		if e != nil {
			return nil, nil, e
		}
		go func() {
			_ = vh.Catch(func() { _ = yubiagent.ServeAgent(srv, c2) })
			c2.Close()
		}()
		cl, e := yubiagent.NewClientFromConn(c1)
		return cl, func() { c1.Close() }, e
	}
	var viol violation
	var waitersDone atomic.Int32
	var wg sync.WaitGroup
	const waiters = 2
	for w := 0; w < waiters; w++ {
		cl, closeIt, e := dial()
		if e != nil {
			return nil
		}
		defer closeIt()
		wg.Add(1)
		go func() {
			defer wg.Done()
			defer waitersDone.Add(1)
			for r := 0; r < c.Rounds; r++ {
				if e := cl.Wait(31); e != nil {
					viol.set(vh.Errf("%s: wait %d failed: %v", where, r, e))
					return
				}
			}
		}()
	}
	hcl, closeH, e := dial()
	if e != nil {
		return nil
	}
	defer closeH()
	wg.Add(1)
	go func() { // registers a certificate that is not held, then removes it again; until the waiters are through
		defer wg.Done()
		for i := 0; waitersDone.Load() < waiters; i++ {
			ct := certs[i%len(certs)]
			if e := hcl.AddHardCert(ct, "9a"); e != nil {
				viol.set(vh.Errf("%s: registration %d failed: %v", where, i, e))
				return
			}
			if e := hcl.Remove(ct); e != nil {
				viol.set(vh.Errf("%s: removal %d failed: %v", where, i, e))
				return
			}
		}
	}()
	done := make(chan struct{})
	go func() { wg.Wait(); close(done) }()
	select {
	case <-done:
	case <-time.After(90 * time.Second):
		return vh.Errf("%s: waits for code 31 and registrations of hardware certificates on other connections did not complete within 90 s (%d of %d waiting clients through)", where, waitersDone.Load(), waiters)
	}
	return viol.err
}

func TestC11WaitAddHard(t *testing.T) {
	cases := []RefusedCase{{Rounds: 100}}
	if vh.Thorough() {
		cases = append(cases, RefusedCase{Rounds: 1000})
	}
	vh.Enumerate(t, vh.Spec[RefusedCase]{Property: "C11", Name: "TestC11WaitAddHard", Exhaustive: true, Journal: true,
		Rule: "the production pairing NewServer over a shim agent whose underlying agent takes 0.5 ms per listing; two client connections wait for code 31 a hundred times each (thorough: 1000) while a third registers a hardware certificate that is not held and removes it again, in a loop, until the waiting clients are through. Oracles: race detector; no operation fails; everything completes within 90 s (a wait is released by a later registration, a registration is never held up by a wait)",
		Exec: func(c RefusedCase) (vh.Outcome, error) {
			return vh.Outcome{NonTrivial: true}, waitAddScenario(c)
		}}, cases)
}
