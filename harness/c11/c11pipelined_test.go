package c11

// TestC11Pipelined: a caller may write several requests before it reads the first reply (the protocol
// pairs replies with requests by position only). One connection pipelines a wait and tagged requests
// behind it while other connections work; "each caller receives the reply to its own request" then
// means: the replies on that connection come in the order of its requests - the wait's first, once the
// awaited request has arrived elsewhere, then the echoes of the tagged requests.

import (
	"bytes"
	"encoding/binary"
	"fmt"
	"io"
	"sync"
	"testing"
	"time"

	"github.com/theparanoids/ysshra/agent/yubiagent"
	"github.com/theparanoids/ysshra/zzverif/vh"
	"golang.org/x/crypto/ssh/agent"
)

type PipelinedCase struct {
	Scenarios []string // "<awaited code>/<tagged requests behind the wait>/<delay of the awaited request in ms>"
}

func pipelinedScenario(name string) error {
	var code, n, delay int
	if k, _ := fmt.Sscanf(replaceSlash(name), "%d %d %d", &code, &n, &delay); k != 3 {
		return nil
	}
	p, err := vh.NewProxy()
	if err != nil {
		return nil
	}
	defer p.Close()
	_ = p.Ring().Add(agent.AddedKey{PrivateKey: vh.Key(sharedKey), Comment: "shared"})
	srv, serr := yubiagent.NewServer(p.Path, true)
	if serr != nil {
		return vh.Errf("%s: NewServer: %v", name, serr)
	}
	defer func() { _ = vh.Catch(func() { srv.Close() }) }()
	open := func() (io.ReadWriteCloser, error) {
		c1, c2, e := vh.SocketPair()
		if e != nil {
			return nil, e
		}
		go func() {
			_ = vh.Catch(func() { _ = yubiagent.ServeAgent(srv, c2) })
			c2.Close()
		}()
		return c1, nil
	}
	frame := func(body []byte) []byte {
		f := make([]byte, 4+len(body))
		binary.BigEndian.PutUint32(f, uint32(len(body)))
		copy(f[4:], body)
		return f
	}
	readFrame := func(c io.Reader) ([]byte, error) {
		var hdr [4]byte
		if _, e := io.ReadFull(c, hdr[:]); e != nil {
			return nil, e
		}
		b := make([]byte, binary.BigEndian.Uint32(hdr[:]))
		_, e := io.ReadFull(c, b)
		return b, e
	}
	a, e := open()
	if e != nil {
		return nil
	}
	defer a.Close()
	b, e := open()
	if e != nil {
		return nil
	}
	defer b.Close()
	// connection A: the wait and n tagged requests behind it, written in one go
	var stream []byte
	stream = append(stream, frame([]byte{35, byte(code)})...)
	var tags [][]byte
	for i := 0; i < n; i++ {
		req := append([]byte{200}, []byte(fmt.Sprintf("pipelined/%s/%d", name, i))...)
		tags = append(tags, req)
		stream = append(stream, frame(req)...)
	}
	if _, werr := a.Write(stream); werr != nil {
		return nil
	}
	// other connections work meanwhile
	var viol violation
	var wg sync.WaitGroup
	for w := 0; w < 2; w++ {
		w := w
		c, e := open()
		if e != nil {
			return nil
		}
		wg.Add(1)
		go func() {
			defer wg.Done()
			defer c.Close()
			for i := 0; i < 5; i++ {
				req := append([]byte{201}, []byte(fmt.Sprintf("other/%s/%d/%d", name, w, i))...)
				if _, werr := c.Write(frame(req)); werr != nil {
					return
				}
				rep, rerr := readFrame(c)
				if rerr != nil || !bytes.Equal(rep, append([]byte{vh.EchoMark}, req...)) {
					viol.set(vh.Errf("%s: another connection's forward %d got %.40q (%v), not the echo of its own request", name, i, rep, rerr))
					return
				}
			}
		}()
	}
	// the awaited request arrives on connection B after the delay
	// ... and keeps arriving every 100 ms until the wait is answered (a request that arrives before the wait is
	// registered releases nobody; only a later one does)
	released := make(chan struct{})
	go func() {
		time.Sleep(time.Duration(delay) * time.Millisecond)
		for {
			if _, werr := b.Write(frame(append([]byte{byte(code)}, 0, 0, 0, 0))); werr != nil {
				return
			}
			if _, rerr := readFrame(b); rerr != nil {
				return
			}
			select {
			case <-released:
				return
			case <-time.After(100 * time.Millisecond):
			}
		}
	}()
	type got struct {
		body []byte
		err  error
		at   time.Duration
	}
	start := time.Now()
	replies := make(chan got, n+1)
	go func() {
		for i := 0; i < n+1; i++ {
			body, rerr := readFrame(a)
			replies <- got{body, rerr, time.Since(start)}
			if rerr != nil {
				return
			}
		}
	}()
	var seq []got
	for i := 0; i < n+1; i++ {
		select {
		case g := <-replies:
			if g.err != nil {
				return vh.Errf("%s: reply %d on the pipelining connection: %v", name, i, g.err)
			}
			if i == 0 {
				close(released)
			}
			seq = append(seq, g)
		case <-time.After(20 * time.Second):
			return vh.Errf("%s: only %d of %d replies arrived on the pipelining connection within 20 s", name, i, n+1)
		}
	}
	wg.Wait()
	if viol.err != nil {
		return viol.err
	}
	if string(seq[0].body) != "SUCCESS" {
		return vh.Errf("%s: the first request on the connection is the wait for code %d, yet its reply (after %s) is %.40q - the answer to a request written behind it", name, code, seq[0].at.Round(time.Millisecond), seq[0].body)
	}
	for i, req := range tags {
		if !bytes.Equal(seq[i+1].body, append([]byte{vh.EchoMark}, req...)) {
			return vh.Errf("%s: reply %d on the pipelining connection is %.40q, not the echo of request %d", name, i+1, seq[i+1].body, i+1)
		}
	}
	return nil
}

func TestC11Pipelined(t *testing.T) {
	var sc []string
	for _, code := range []int{19, 11, 27, 0} {
		for _, n := range []int{1, 4} {
			for _, delay := range []int{0, 300} {
				sc = append(sc, fmt.Sprintf("%d/%d/%d", code, n, delay))
			}
		}
	}
	vh.Enumerate(t, vh.Spec[PipelinedCase]{Property: "C11", Name: "TestC11Pipelined", Exhaustive: true, Journal: true,
		Rule: "the production pairing NewServer over a shim agent; one connection writes, in one go, a wait for code 19 / 11 / 27 / 0 followed by 1 or 4 tagged raw forwards, and only then reads; two other connections run 5 tagged forwards each; requests with the awaited code arrive on a further connection from the start or after 300 ms, every 100 ms until the wait is answered (16 scenarios side by side). Oracle: on the pipelining connection the first reply is the wait's, the following ones are the echoes of its tagged requests in order; the other connections get the echoes of their own requests; everything within 20 s; race detector",
		Exec: func(c PipelinedCase) (vh.Outcome, error) {
			out := vh.Outcome{NonTrivial: true}
			errs := make([]error, len(c.Scenarios))
			var wg sync.WaitGroup
			for i, s := range c.Scenarios {
				i, s := i, s
				wg.Add(1)
				go func() { defer wg.Done(); errs[i] = pipelinedScenario(s) }()
			}
			wg.Wait()
			for _, e := range errs {
				if e != nil {
					return out, e
				}
			}
			return out, nil
		}}, []PipelinedCase{{Scenarios: sc}})
}
