package c11

// TestC11ReadYourWrites: many clients, each adding and removing its OWN key in a loop and listing in
// between. Nobody else touches a client's key, so in every sequential order its listing shows the
// key exactly when its own last completed operation on it was an addition.

import (
	"sync/atomic"
	"bytes"
	"fmt"
	"sync"
	"testing"
	"time"

	"github.com/theparanoids/ysshra/agent/shimagent"
	"github.com/theparanoids/ysshra/agent/yubiagent"
	"github.com/theparanoids/ysshra/zzverif/vh"
	"golang.org/x/crypto/ssh"
	"golang.org/x/crypto/ssh/agent"
)

type RYWCase struct {
	Scenarios []string // "<mode>/<via>/<comparator>"
	Clients   int
	Cycles    int
}

func rywScenario(name string, clients, cycles int) error {
	var mode, via, comp string
	if n, _ := fmt.Sscanf(replaceSlash(name), "%s %s %s", &mode, &via, &comp); n != 3 {
		return nil
	}
	p, err := vh.NewProxy()
	if err != nil {
		return nil
	}
	defer p.Close()
	_ = p.Ring().Add(agent.AddedKey{PrivateKey: vh.Key(sharedKey), Comment: "shared"})
	var cmp func(x, y ssh.PublicKey) bool
	switch comp {
	case "bytes":
		cmp = vh.PubKeyComp("bytes")
	case "slow": // an ordering that takes its time (it may consult a database, a file, ...)
		cmp = func(x, y ssh.PublicKey) bool {
			time.Sleep(20 * time.Microsecond)
			return bytes.Compare(x.Marshal(), y.Marshal()) < 0
		}
	}
	shim, serr := shimagent.New(shimagent.Option{Address: p.Path, NoUpstream: mode == "noupstream", PubKeyComp: cmp})
	if serr != nil {
		return vh.Errf("%s: shimagent.New: %v", name, serr)
	}
	defer func() { _ = vh.Catch(func() { shim.Close() }) }()
	served := yubiWrap{shim}
	var viol violation
	var stop atomic.Bool
	var wg sync.WaitGroup
	for g := 0; g < clients; g++ {
		g := g
		var ag yubiagent.YubiAgent = served
		var closeFn func()
		if via == "conn" {
			c1, c2, e := vh.SocketPair()
			if e != nil {
				return nil
			}
			go func() {
				_ = vh.Catch(func() { _ = yubiagent.ServeAgent(served, c2) })
				c2.Close()
			}()
			cl, e := yubiagent.NewClientFromConn(c1)
			if e != nil {
				return nil
			}
			ag, closeFn = cl, func() { c1.Close() }
		}
		own := ownKeys[g%len(ownKeys)]
		blob := vh.SSHPub(own).Marshal()
		wg.Add(1)
		go func() {
			defer wg.Done()
			if closeFn != nil {
				defer closeFn()
			}
			shows := func() (bool, error) {
				ks, e := ag.List()
				if e != nil {
					return false, e
				}
				for _, k := range ks {
					if bytes.Equal(k.Blob, blob) {
						return true, nil
					}
				}
				return false, nil
			}
			for i := 0; i < cycles && !stop.Load(); i++ {
				if e := ag.Add(agent.AddedKey{PrivateKey: vh.Key(own), Comment: fmt.Sprintf("g%d", g)}); e != nil {
					viol.set(vh.Errf("%s: client %d, cycle %d: add failed: %v", name, g, i, e))
					stop.Store(true)
					return
				}
				if has, e := shows(); e != nil || !has {
					viol.set(vh.Errf("%s: client %d, cycle %d: its own key, added by a call that had returned, is missing from its listing (err %v): a listing from before its own addition", name, g, i, e))
					stop.Store(true)
					return
				}
				if e := ag.Remove(vh.SSHPub(own)); e != nil {
					viol.set(vh.Errf("%s: client %d, cycle %d: remove failed: %v", name, g, i, e))
					stop.Store(true)
					return
				}
				if has, e := shows(); e != nil || has {
					viol.set(vh.Errf("%s: client %d, cycle %d: its own key, removed by a call that had returned, is still in its listing (err %v): a listing from before its own removal", name, g, i, e))
					stop.Store(true)
					return
				}
			}
		}()
	}
	done := make(chan struct{})
	go func() { wg.Wait(); close(done) }()
	select {
	case <-done:
	case <-time.After(15 * time.Minute):
		stop.Store(true)
		<-done
		return vh.Errf("%s: %d clients x %d cycles did not complete within 15 minutes", name, clients, cycles)
	}
	viol.mu.Lock()
	defer viol.mu.Unlock()
	return viol.err
}

func TestC11ReadYourWrites(t *testing.T) {
	var sc []string
	for _, mode := range []string{"upstream", "noupstream"} {
		for _, via := range []string{"direct", "conn"} {
			for _, comp := range []string{"default", "bytes", "slow"} {
				sc = append(sc, mode+"/"+via+"/"+comp)
			}
		}
	}
	cases := []RYWCase{{Scenarios: sc, Clients: 8, Cycles: 150}}
	if vh.Thorough() {
		cases = append(cases, RYWCase{Scenarios: sc, Clients: 14, Cycles: 400})
	}
	vh.Enumerate(t, vh.Spec[RYWCase]{Property: "C11", Name: "TestC11ReadYourWrites", Exhaustive: true, Journal: true,
		Rule: "8 clients (thorough: 14), each with a key of its own, run 150 (thorough: 400) cycles of add - list - remove - list on one shim, directly or through served connections, both upstream modes, with the default listing order, an ordering by bytes and a deliberately slow ordering function (12 scenarios side by side; race detector on). Oracle: a client's listing shows its own key exactly when its own last completed operation on it was the addition - nobody else touches that key, so no sequential order allows anything else",
		Exec: func(c RYWCase) (vh.Outcome, error) {
			out := vh.Outcome{NonTrivial: true}
			errs := make([]error, len(c.Scenarios))
			var wg sync.WaitGroup
			for i, s := range c.Scenarios {
				i, s := i, s
				wg.Add(1)
				go func() { defer wg.Done(); errs[i] = rywScenario(s, c.Clients, c.Cycles) }()
			}
			wg.Wait()
			for _, e := range errs {
				if e != nil {
					return out, e
				}
			}
			return out, nil
		}}, cases)
}
