package c11

// TestC11ParkedWaits: wait requests (code 35) for a code that does not arrive stay parked for as long
// as it takes; however many of them are parked on one server - and whether or not their clients are
// still there - every other operation on every connection completes, and the awaited request, when it
// does arrive, is served and releases the waiters that are left.

import (
	"fmt"
	"net"
	"sync"
	"testing"
	"time"

	"github.com/theparanoids/ysshra/agent/yubiagent"
	"github.com/theparanoids/ysshra/zzverif/vh"
	"golang.org/x/crypto/ssh/agent"
)

type ParkedCase struct {
	Scenarios []string // "<parked waits>/<of which leave>/<awaited code>"
}

func parkedScenario(name string) error {
	var parked, leave, code int
	if n, _ := fmt.Sscanf(replaceSlash(name), "%d %d %d", &parked, &leave, &code); n != 3 {
		return nil
	}
	p, err := vh.NewProxy()
	if err != nil {
		return nil
	}
	defer p.Close()
	srv, serr := yubiagent.NewServer(p.Path, true)
	if serr != nil {
		return vh.Errf("%s: NewServer: %v", name, serr)
	}
	defer func() { _ = vh.Catch(func() { srv.Close() }) }()
	var ends []net.Conn
	var endsMu sync.Mutex
	defer func() {
		endsMu.Lock()
		for _, e := range ends {
			e.Close()
		}
		endsMu.Unlock()
	}()
	open := func() (net.Conn, error) {
		c1, c2, e := vh.SocketPair()
		if e != nil {
			return nil, e
		}
		endsMu.Lock()
		ends = append(ends, c1, c2)
		endsMu.Unlock()
		go func() {
			_ = vh.Catch(func() { _ = yubiagent.ServeAgent(srv, c2) })
			c2.Close()
		}()
		return c1, nil
	}
	// the waiters
	released := make(chan int, parked)
	var stay []net.Conn
	for i := 0; i < parked; i++ {
		w, e := open()
		if e != nil {
			return nil
		}
		if _, werr := w.Write([]byte{0, 0, 0, 2, 35, byte(code)}); werr != nil {
			return nil
		}
		if i < leave {
			w.Close()
			continue
		}
		stay = append(stay, w)
		i := i
		go func() {
			var hdr [4]byte
			if _, rerr := readFull(w, hdr[:]); rerr == nil {
				released <- i
			}
		}()
	}
	time.Sleep(300 * time.Millisecond) // let the wait frames reach the server
	select {
	case i := <-released:
		return vh.Errf("%s: wait %d for code %d was answered although no request with that code has been sent", name, i, code)
	default:
	}
	// the working clients
	keys := []string{"ed25519b", "p256c", "p384a", "p521a", "rsa1536", "ed25519c"}
	var viol violation
	var wg sync.WaitGroup
	for ci, kn := range keys {
		ci, kn := ci, kn
		c1, e := open()
		if e != nil {
			return nil
		}
		cl, cerr := yubiagent.NewClientFromConn(c1)
		if cerr != nil {
			return nil
		}
		wg.Add(1)
		go func() {
			defer wg.Done()
			pub := vh.SSHPub(kn)
			for round := 0; round < 3; round++ {
				where := fmt.Sprintf("%s: client %d, round %d", name, ci, round)
				if e := cl.Add(agent.AddedKey{PrivateKey: vh.Key(kn), Comment: kn}); e != nil {
					viol.set(vh.Errf("%s: add failed: %v", where, e))
					return
				}
				ks, e := cl.List()
				found := false
				for _, k := range ks {
					if string(k.Blob) == string(pub.Marshal()) {
						found = true
					}
				}
				if e != nil || !found {
					viol.set(vh.Errf("%s: the listing after its own add shows %d identities without its key (%v)", where, len(ks), e))
					return
				}
				data := []byte(where)
				sig, e := cl.Sign(pub, data)
				if e != nil || pub.Verify(data, sig) != nil {
					viol.set(vh.Errf("%s: sign failed or does not verify: %v", where, e))
					return
				}
				if e := cl.Remove(pub); e != nil {
					viol.set(vh.Errf("%s: remove failed: %v", where, e))
					return
				}
			}
		}()
	}
	done := make(chan struct{})
	go func() { wg.Wait(); close(done) }()
	select {
	case <-done:
	case <-time.After(20 * time.Second):
		return vh.Errf("%s: with %d wait requests for code %d parked on the server (%d of their clients gone), the add / list / sign / remove operations of %d other clients did not complete within 20 s", name, parked, code, leave, len(keys))
	}
	if viol.err != nil {
		return viol.err
	}
	select {
	case i := <-released:
		return vh.Errf("%s: wait %d for code %d was answered by requests with other codes", name, i, code)
	default:
	}
	// the awaited request arrives: it is answered, and the waiters that are left are released
	r1, e := open()
	if e != nil {
		return nil
	}
	got := make(chan error, 1)
	go func() {
		if _, werr := r1.Write([]byte{0, 0, 0, 1, byte(code)}); werr != nil {
			got <- werr
			return
		}
		var hdr [4]byte
		_, rerr := readFull(r1, hdr[:])
		got <- rerr
	}()
	select {
	case gerr := <-got:
		if gerr != nil {
			return vh.Errf("%s: the request with the awaited code %d got no response: %v", name, code, gerr)
		}
	case <-time.After(20 * time.Second):
		return vh.Errf("%s: the request with the awaited code %d was not answered within 20 s while %d wait requests were parked", name, code, parked)
	}
	deadline := time.After(20 * time.Second)
	for n := 0; n < len(stay); n++ {
		select {
		case <-released:
		case <-deadline:
			return vh.Errf("%s: %d of the %d waiting clients that stayed were not released within 20 s of the request with code %d", name, len(stay)-n, len(stay), code)
		}
	}
	return nil
}

func readFull(c net.Conn, b []byte) (int, error) {
	n := 0
	for n < len(b) {
		m, err := c.Read(b[n:])
		n += m
		if err != nil {
			return n, err
		}
	}
	return n, nil
}

func TestC11ParkedWaits(t *testing.T) {
	sc := []string{"8/0/39", "31/15/39", "32/0/36", "33/16/39", "40/20/39", "64/64/38", "150/50/39"}
	if vh.Thorough() {
		sc = append(sc, "32/32/39", "100/0/37", "400/200/39", "600/300/36")
	}
	vh.Enumerate(t, vh.Spec[ParkedCase]{Property: "C11", Name: "TestC11ParkedWaits", Exhaustive: true, Journal: true,
		Rule: "the production pairing yubiagent.NewServer over a shim agent; 8 / 31 / 32 / 33 / 40 / 64 / 150 connections (thorough: up to 600) each send one wait request for a code nobody sends (36..39), none to all of them then close their connection; six further clients each run 3 rounds of add / list / sign / remove with their own key; finally one request with the awaited code is sent (scenarios side by side, one server each). Oracle: no wait is answered before the awaited code arrives; the six clients complete within 20 s with their own results (key listed after its add, verifying signature); the awaited request is answered and every waiting client that stayed is released within 20 s",
		Exec: func(c ParkedCase) (vh.Outcome, error) {
			out := vh.Outcome{NonTrivial: true}
			errs := make([]error, len(c.Scenarios))
			var wg sync.WaitGroup
			for i, s := range c.Scenarios {
				i, s := i, s
				wg.Add(1)
				go func() { defer wg.Done(); errs[i] = parkedScenario(s) }()
			}
			wg.Wait()
			for _, e := range errs {
				if e != nil {
					return out, e
				}
			}
			return out, nil
		}}, []ParkedCase{{Scenarios: sc}})
}
