package c04

// TestC04RealSigner: gensign.Run with the real regular handler AND the real crypki signer against
// harness CA endpoints, under live, cancelled, expired and too-short contexts. Whatever the reason the
// CA did not sign, the run must end in a signer error - success is reported only with the CA's
// certificate in the agent.

import (
	"context"
	"fmt"
	"os"
	"path/filepath"
	"strings"
	"testing"
	"time"

	"github.com/theparanoids/ysshra/crypki"
	"github.com/theparanoids/ysshra/gensign"
	"github.com/theparanoids/ysshra/gensign/regular"
	"github.com/theparanoids/ysshra/zzverif/vh"
	"golang.org/x/crypto/ssh/agent"
	"pgregory.net/rapid"
)

type RealCase struct {
	// Ctx: live | cancelled | expired | short (150 ms deadline against a hanging first endpoint)
	Ctx string
	// Endpoints: signreq | rpcerr | nolistener | hang
	Endpoints []string
	Stale     bool // a certificate of an earlier generation is in the agent
	Retries   int
	// NCerts: certificates per CA reply (0 = 1); BigAt > 0: that one (1-based) is a text line longer than 64 KiB
	NCerts int
	BigAt  int
	BigKB  int // size of the big certificate's padding in KiB (0 = 50)
	// Again: the run is made twice on the same signer, agent and endpoints
	Again bool
}

func execReal(c RealCase) (vh.Outcome, error) {
	out := vh.Outcome{NonTrivial: c.Ctx != "live" || c.Endpoints[0] != "signreq", Classes: []string{"ctx=" + c.Ctx}}
	p, err := vh.NewProxy()
	if err != nil {
		return out, nil
	}
	defer p.Close()
	dir, err := os.MkdirTemp("", "vkeys")
	if err != nil {
		return out, nil
	}
	defer os.RemoveAll(dir)
	os.WriteFile(filepath.Join(dir, "alice.pub"), vh.AuthorizedLine("p256b", "alice"), 0o644)
	_ = p.Ring().Add(agent.AddedKey{PrivateKey: vh.Key("p256b"), Comment: "long-term key"})
	conf, err := vh.WriteGensignConfig(dir, vh.HandlerConf{PubKeyDir: dir, ValiditySec: 3600, KeyIdentifiers: map[string]string{"default": "ssh-user-key"}})
	if err != nil {
		return out, nil
	}
	var specs []vh.CAServerSpec
	var ips []string
	signing := -1
	for i, b := range c.Endpoints {
		ip := fmt.Sprintf("127.0.0.%d", i+2)
		ips = append(ips, ip)
		specs = append(specs, vh.CAServerSpec{IP: ip, Behaviour: b, Code: 14, ClientAuth: "request", HangFor: 3 * time.Second, ReplyCerts: c.NCerts, BigAt: c.BigAt, BigPad: c.BigKB << 10})
		if b == "signreq" && signing < 0 {
			signing = i
		}
	}
	g, err := vh.StartCAGroup(specs)
	if err != nil {
		return out, nil
	}
	defer g.Stop()
	f := vh.Farm()
	perTry := 10 * time.Second
	for _, b := range c.Endpoints {
		if b == "hang" {
			perTry = 1200 * time.Millisecond
		}
	}
	signer, err := crypki.NewSigner(crypki.SignerConfig{TLSClientKeyFile: f.ClientKeyFile(), TLSClientCertFile: f.ClientCertFile(), TLSCACertFiles: []string{f.CAFile("caA")},
		CrypkiEndpoints: ips, CrypkiPort: uint(g.Port), Retries: uint(c.Retries), PerTryTimeout: perTry})
	if err != nil {
		return out, vh.Errf("NewSigner: %v", err)
	}
	runOne := func(ctx context.Context) (error, error) {
		conn, derr := vh.DialProxy(p)
		if derr != nil {
			return nil, derr
		}
		defer conn.Close()
		h, herr := regular.NewHandler(conf, conn)
		if herr != nil {
			return nil, herr
		}
		param, _ := vh.BuildParam(vh.ParamSpec{LogName: "alice", Policy: "NONS", ReqUser: "alice", ReqHost: "laptop", ClientIP: "172.17.0.1", TransID: "00000000aa"})
		var rerr error
		if cr := vh.Catch(func() { rerr = gensign.Run(ctx, param, []gensign.Handler{h}, signer) }); cr != nil {
			return nil, vh.Errf("Run crashed: %v", cr)
		}
		return rerr, nil
	}
	certsIn := func() map[string]bool {
		m := map[string]bool{}
		for _, k := range p.RingKeys() {
			if strings.Contains(k.Format, "-cert-") {
				m[string(k.Blob)] = true
			}
		}
		return m
	}
	if c.Stale {
		// an earlier, ordinary run leaves one generation behind (needs a signing endpoint)
		if signing >= 0 {
			if rerr, ierr := runOne(context.Background()); ierr != nil || rerr != nil {
				return out, nil
			}
		}
	}
	judge := func(iter int) (vh.Outcome, error) {
		before := certsIn()
		callsBefore := 0
		for _, s := range g.Servers {
			callsBefore += len(s.Calls())
		}
		ctx, cancel := context.WithCancel(context.Background())
		switch c.Ctx {
		case "cancelled":
			cancel()
		case "expired":
			cancel()
			ctx, cancel = context.WithDeadline(context.Background(), time.Now().Add(-time.Second))
		case "short":
			cancel()
			ctx, cancel = context.WithTimeout(context.Background(), 150*time.Millisecond)
		}
		defer cancel()
		rerr, ierr := runOne(ctx)
		if ierr != nil {
			if strings.HasPrefix(ierr.Error(), "Run crashed") {
				return out, ierr
			}
			return out, nil
		}
		after := certsIn()
		newCerts := 0
		for b := range after {
			if !before[b] {
				newCerts++
			}
		}
		signedNow := 0
		for _, s := range g.Servers {
			signedNow += len(s.Calls())
		}
		signedNow -= callsBefore
		desc := fmt.Sprintf("context %s, endpoints %v, retries %d, earlier generation %v, %d certificate(s) per reply", c.Ctx, c.Endpoints, c.Retries, c.Stale, c.NCerts)
		if rerr == nil {
			if newCerts == 0 {
				return out, vh.Errf("%s: Run reported success but no new certificate is in the agent (%d -> %d certificates; the endpoints received %d request(s))", desc, len(before), len(after), signedNow)
			}
			if signing < 0 {
				return out, vh.Errf("%s: Run reported success although no endpoint signs", desc)
			}
			want := c.NCerts
			if want <= 0 {
				want = 1
			}
			if newCerts != want {
				return out, vh.Errf("%s: Run reported success; the CA returned %d certificate(s) per reply (number %d padded with %d KiB) but %d new certificate(s) are in the agent", desc, want, c.BigAt, c.BigKB, newCerts)
			}
			if c.BigAt > 0 {
				out.Classes = append(out.Classes, "reply-with-a-certificate-line>64KiB")
			}
			return out, nil
		}
		if kind := vh.ErrKind(rerr); kind != "SignerSignErr" {
			// with a dead context the agent side may fail first; any typed error is a failure report
			if kind == "" || kind == "nil" {
				return out, vh.Errf("%s: Run failed with an untyped error: %v", desc, rerr)
			}
		}
		if newCerts != 0 {
			return out, vh.Errf("%s: Run failed (%v) but %d new certificate(s) reached the agent", desc, rerr, newCerts)
		}
		if c.Ctx == "live" && signing >= 0 {
			hang := false
			for _, b := range c.Endpoints[:signing] {
				hang = hang || b == "hang"
			}
			if !hang {
				return out, vh.Errf("%s: a live context and a signing endpoint, yet Run failed: %v", desc, rerr)
			}
		}
		return out, nil
	}
	o, jerr := judge(0)
	if jerr != nil || !c.Again {
		return o, jerr
	}
	// the same signer and agent serve the next request: it is judged exactly like the first
	out.Classes = append(out.Classes, "second-run-on-the-same-signer")
	o2, jerr2 := judge(1)
	if jerr2 != nil {
		return o2, vh.Errf("second run on the same signer: %v", jerr2)
	}
	return o2, nil
}

func TestC04RealSigner(t *testing.T) {
	vh.Run(t, vh.Spec[RealCase]{Property: "C04", Name: "TestC04RealSigner", Journal: true,
		Rule: "gensign.Run with the real regular handler and the real crypki.Signer (TLS, gRPC, 1..3 endpoints on loopback aliases out of {certifies the request's key, RPC error, no listener, hangs 3 s}, one try per endpoint; a hanging endpoint only in front of the 150 ms context; a signing endpoint answers with 1..3 certificates, in a quarter of the cases one of them a text line longer than 64 KiB - 50 KiB, 200 KiB or 1.2 MiB of padding in an extension) under a live, an already cancelled, an already expired and a 150 ms context, with or without an earlier generation of certificates in the agent; in half of the cases the run is made a second time on the same signer, agent and endpoints and judged the same way. Oracle: Run = nil only if some endpoint signs and every certificate of its reply is in the agent afterwards; otherwise a typed error and no new certificate; with a live context and a signing endpoint not preceded by a hanging one the run succeeds. Non-trivial: a context that is not live, or a first endpoint that does not sign.",
		Gen: func(t *rapid.T) RealCase {
			c := RealCase{Ctx: rapid.SampledFrom([]string{"live", "live", "cancelled", "expired", "short"}).Draw(t, "ctx"), Stale: rapid.Bool().Draw(t, "stale"), Retries: 1}
			n := rapid.IntRange(1, 3).Draw(t, "n")
			for i := 0; i < n; i++ {
				c.Endpoints = append(c.Endpoints, rapid.SampledFrom([]string{"signreq", "signreq", "rpcerr", "nolistener"}).Draw(t, fmt.Sprintf("e%d", i)))
			}
			c.Again = rapid.Bool().Draw(t, "again")
			c.NCerts = rapid.IntRange(1, 3).Draw(t, "ncerts")
			if rapid.IntRange(0, 3).Draw(t, "big") == 0 {
				c.BigAt = rapid.IntRange(1, c.NCerts).Draw(t, "bigAt")
				c.BigKB = rapid.SampledFrom([]int{50, 50, 200, 1200}).Draw(t, "bigKB")
			}
			if c.Ctx == "short" {
				c.Endpoints[0] = "hang"
			}
			return c
		}, Exec: execReal})
}

// TestC04BigReplies: the long-line class of TestC04RealSigner as a fixed grid (the random check reaches the
// largest size only once in sixty cases).
func TestC04BigReplies(t *testing.T) {
	var cases []RealCase
	for _, kb := range []int{50, 200, 1200, 2500} { // a reply stays below the transport's 4 MiB message limit
		for at := 1; at <= 3; at++ {
			cases = append(cases, RealCase{Ctx: "live", Endpoints: []string{"signreq"}, NCerts: 3, BigAt: at, BigKB: kb, Retries: 1, Stale: at == 2, Again: at == 3})
		}
	}
	cases = append(cases, RealCase{Ctx: "live", Endpoints: []string{"rpcerr", "signreq"}, NCerts: 1, BigAt: 1, BigKB: 1200, Retries: 1})
	vh.Enumerate(t, vh.Spec[RealCase]{Property: "C04", Name: "TestC04BigReplies", Exhaustive: true, Journal: true,
		Rule: "gensign.Run with the real regular handler and the real crypki.Signer against one signing endpoint whose reply holds 3 certificates, the first / second / third of them a text line padded with 50 KiB, 200 KiB, 1.2 MiB or 2.5 MiB (12 points; a reply stays below gRPC's 4 MiB message limit), plus a 1.2 MiB single-certificate reply behind a failing endpoint; live context. Oracle: TestC04RealSigner's (success only if every certificate of the reply is in the agent afterwards; with a live context and a signing endpoint the run succeeds)",
		Exec: execReal}, cases)
}
