// C04 — every fault ends in a typed error; never a silent success, never a crash.
package c04

import (
	"context"
	"fmt"
	"os"
	"path/filepath"
	"strings"
	"testing"
	"time"

	"github.com/theparanoids/ysshra/gensign"
	"github.com/theparanoids/ysshra/gensign/regular"
	"github.com/theparanoids/ysshra/zzverif/vh"
	"golang.org/x/crypto/ssh"
	"golang.org/x/crypto/ssh/agent"
	"pgregory.net/rapid"
)

type Scenario struct {
	Real   bool
	NKeys  int
	NReqs  int
	NCerts int
	Stale  int
	// RejectFirst puts a rejecting handler in front (its Name is used in the log).
	RejectFirst bool
	// RejectKind: the kind of error the handler in front rejects with (see vh.FakeHandler.RejectKind)
	RejectKind string
	// Ctx: "" = context.Background | cancel = a cancellable context (what cmd/gensign passes) | timeout = a 60 s deadline
	Ctx string
	// Window: the validity window the CA stamps (see vh.CABehaviour.Window)
	Window string
	// KeyAlgo (harness handler): the key-pair algorithm of its agent keys, 0 = the package default, otherwise
	// key.PublicKeyAlgo + 1 (RSA2048, RSA4096, P-256, P-384, P-521, Ed25519)
	KeyAlgo int `json:",omitempty"`
	// SameKeyID (harness handler): the requests of one agent key share one KeyId and name different CA keys
	SameKeyID bool `json:",omitempty"`
	// EmptyKeyAt (harness handler, 1-based, 0 = none): that agent key carries no signing request
	EmptyKeyAt int `json:",omitempty"`
	// NilParam: Run is called without request parameters (a nil pointer)
	NilParam bool `json:",omitempty"`
}

type Fault struct {
	// Where: none | agent | ca | handler | generate (the harness handler's Generate fails: Kind as vh.FakeHandler.GenErrKind)
	Where string
	Index int
	Kind  string // agent: fail|close ; ca: error|panic ; handler: name|authenticate|generate|csrs|addcerts
}

type runResult struct {
	err        error
	crash      error
	frames     []vh.Frame
	caCalls    []vh.CACall
	caMarks    []int // number of agent frames seen when CA call j started
	addedCerts [][]byte
	ringCerts  map[string]bool
	reached    bool
}

func runOnce(s Scenario, f Fault) (res runResult, infra error) {
	p, err := vh.NewProxy()
	if err != nil {
		return res, err
	}
	defer p.Close()
	dir, err := os.MkdirTemp("", "vkeys")
	if err != nil {
		return res, err
	}
	defer os.RemoveAll(dir)
	os.WriteFile(filepath.Join(dir, "alice.pub"), vh.AuthorizedLine("p256b", "alice"), 0o644)
	_ = p.Ring().Add(agent.AddedKey{PrivateKey: vh.Key("p256b"), Comment: "long-term key"})
	label := "paranoids.regular-cert"
	if !s.Real {
		label = "verif.h0-stale"
	}
	for i := 0; i < s.Stale; i++ {
		k := []string{"ed25519c", "p256c"}[i%2]
		c := vh.MakeSSHCert(vh.SSHCertSpec{Key: k, KeyID: fmt.Sprintf("stale %d", i), ValidAfter: 0, ValidBefore: ssh.CertTimeInfinity, Serial: uint64(900 + i)})
		_ = p.Ring().Add(agent.AddedKey{PrivateKey: vh.Key(k), Certificate: c, Comment: label})
	}
	conf, err := vh.WriteGensignConfig(dir, vh.HandlerConf{PubKeyDir: dir, ValiditySec: 3600, KeyIdentifiers: map[string]string{"default": "ssh-user-key"}})
	if err != nil {
		return res, err
	}
	conn, err := vh.DialProxy(p)
	if err != nil {
		return res, err
	}
	defer conn.Close()
	ca := &vh.FakeCA{Default: vh.CABehaviour{NCerts: s.NCerts, Window: s.Window}}
	var marks []int
	ca.OnCall = func(n int) { marks = append(marks, p.NumFrames()) }
	if f.Where == "ca" {
		for i := 0; i < f.Index; i++ {
			ca.Script = append(ca.Script, vh.CABehaviour{NCerts: s.NCerts, Window: s.Window})
		}
		b := vh.CABehaviour{Err: "verif: CA failure"}
		if f.Kind == "panic" {
			b = vh.CABehaviour{Panic: true}
		}
		if strings.HasPrefix(f.Kind, "error-") {
			b.ErrKind = strings.TrimPrefix(f.Kind, "error-")
		}
		if f.Kind == "error+certs" {
			b.ErrWithCerts, b.NCerts = true, s.NCerts
		}
		if f.Kind == "wrongkey" {
			b = vh.CABehaviour{NCerts: s.NCerts, Window: s.Window, WrongKey: true}
		}
		ca.Script = append(ca.Script, b, vh.CABehaviour{NCerts: s.NCerts, Window: s.Window})
	}
	hlog := &vh.HandlerLog{}
	var h gensign.Handler
	if s.Real {
		rh, herr := regular.NewHandler(conf, conn)
		if herr != nil {
			return res, herr
		}
		w := &vh.WrapHandler{Inner: rh}
		if f.Where == "handler" && f.Index == 0 {
			w.PanicIn = f.Kind
		}
		h = w
	} else {
		fh := &vh.FakeHandler{ID: "h0", Accept: true, Log: hlog, Agent: agent.NewClient(conn), NKeys: s.NKeys, NReqs: s.NReqs, KeyAlgo: s.KeyAlgo, SameKeyID: s.SameKeyID, EmptyKeyAt: s.EmptyKeyAt,
			Refresh: func(k *agent.Key) bool { return strings.Contains(k.Comment, "verif.h0-stale") }}
		if f.Where == "handler" && f.Index == 0 {
			fh.PanicIn = f.Kind
		}
		if f.Where == "generate" {
			fh.GenErr, fh.GenErrKind = true, f.Kind
		}
		h = fh
	}
	handlers := []gensign.Handler{h}
	if s.RejectFirst {
		rej := &vh.FakeHandler{ID: "rej", Accept: false, Log: hlog, RejectKind: s.RejectKind}
		if f.Where == "handler" && f.Kind == "name" {
			rej.PanicIn = "name"
		}
		if f.Where == "handler" && f.Index == 1 {
			// the panic is raised by the handler in front (which would otherwise reject), not by the one that authenticates
			rej.PanicIn = f.Kind
		}
		handlers = []gensign.Handler{rej, h}
	}
	if f.Where == "agent" {
		p.SetPlan([]vh.FaultRule{{Index: f.Index, Code: -1, Kind: f.Kind, Remaining: 1}})
	} else {
		p.SetPlan(nil)
	}
	param, _ := vh.BuildParam(vh.ParamSpec{LogName: "alice", Policy: "NONS", ReqUser: "alice", ReqHost: "laptop", ClientIP: "172.17.0.1", TransID: "00000000aa"})
	addsBefore := len(p.Adds())
	ctx := context.Background()
	switch s.Ctx {
	case "cancel":
		c2, cancel := context.WithCancel(ctx)
		defer cancel()
		ctx = c2
	case "timeout":
		c2, cancel := context.WithTimeout(ctx, 60*time.Second)
		defer cancel()
		ctx = c2
	}
	if s.NilParam {
		param = nil
	}
	res.crash = vh.Catch(func() { res.err = gensign.Run(ctx, param, handlers, ca) })
	res.frames = p.Frames()
	res.caCalls = ca.Calls
	res.caMarks = marks
	for _, a := range p.Adds()[addsBefore:] {
		if a.Certificate != nil {
			res.addedCerts = append(res.addedCerts, a.Certificate.Marshal())
		}
	}
	res.ringCerts = map[string]bool{}
	for _, k := range p.RingKeys() {
		res.ringCerts[string(k.Blob)] = true
	}
	for _, fr := range res.frames {
		if fr.Fault != "" {
			res.reached = true
		}
	}
	return res, nil
}

func checkSubset(res runResult) error {
	returned := map[string]bool{}
	for _, c := range res.caCalls {
		for _, cert := range c.Certs {
			returned[string(cert.Marshal())] = true
		}
	}
	for _, b := range res.addedCerts {
		if !returned[string(b)] {
			return vh.Errf("a certificate reached the agent that the CA did not return")
		}
	}
	return nil
}

func exec(s Scenario) (vh.Outcome, error) {
	out := vh.Outcome{Classes: []string{fmt.Sprintf("real=%v", s.Real)}}
	desc := fmt.Sprintf("scenario %+v", s)
	// ---- fault-free dry run ----
	dry, infra := runOnce(s, Fault{Where: "none"})
	if infra != nil {
		return out, nil
	}
	if dry.crash != nil {
		return out, vh.Errf("%s: fault-free run crashed: %v", desc, dry.crash)
	}
	if dry.err != nil {
		return out, vh.Errf("%s: fault-free run failed: %v", desc, dry.err)
	}
	wantCalls := 1
	if !s.Real {
		wantCalls = max(s.NKeys, 1) * max(s.NReqs, 1)
		if s.EmptyKeyAt > 0 {
			wantCalls -= max(s.NReqs, 1)
		}
	}
	if len(dry.caCalls) != wantCalls {
		return out, vh.Errf("%s: success reported after %d signing requests, expected %d", desc, len(dry.caCalls), wantCalls)
	}
	if !s.Real {
		i := 0
		for k := 0; k < max(s.NKeys, 1); k++ {
			for r := 0; r < max(s.NReqs, 1) && s.EmptyKeyAt != k+1; r++ {
				want := fmt.Sprintf("verif h0 key %d request %d", k, r)
				got := dry.caCalls[i].Req.KeyId
				if s.SameKeyID {
					want, got = fmt.Sprintf("verif h0 key %d / verif-slot-%d", k, r), got+" / "+dry.caCalls[i].Req.GetKeyMeta().GetIdentifier()
				}
				if got != want {
					return out, vh.Errf("%s: signing request %d is %q, expected %q (order)", desc, i, got, want)
				}
				i++
			}
		}
	}
	for _, c := range dry.caCalls {
		for _, cert := range c.Certs {
			if !dry.ringCerts[string(cert.Marshal())] {
				return out, vh.Errf("%s: success reported but a returned certificate was not handed to the agent", desc)
			}
		}
	}
	if err := checkSubset(dry); err != nil {
		return out, vh.Errf("%s: %v", desc, err)
	}
	n, m := len(dry.frames), len(dry.caCalls)
	firstCA := n
	if len(dry.caMarks) > 0 {
		firstCA = dry.caMarks[0]
	}

	// ---- every single fault ----
	var faults []Fault
	for i := 0; i < n; i++ {
		faults = append(faults, Fault{"agent", i, "fail"}, Fault{"agent", i, "close"})
	}
	for j := 0; j < m; j++ {
		faults = append(faults, Fault{"ca", j, "error"}, Fault{"ca", j, "panic"}, Fault{"ca", j, "error+certs"}, Fault{"ca", j, "wrongkey"}, Fault{"ca", j, "error-unknown"}, Fault{"ca", j, "error-unnamed"},
			Fault{"ca", j, "error-deadline"}, Fault{"ca", j, "error-canceled"}, Fault{"ca", j, "error-eof"}, Fault{"ca", j, "error-typed-signer"}, Fault{"ca", j, "error-typed-conf"})
	}
	for _, k := range []string{"name", "authenticate", "generate", "csrs", "addcerts"} {
		faults = append(faults, Fault{"handler", 0, k})
	}
	if s.RejectFirst {
		faults = append(faults, Fault{"handler", 1, "authenticate"})
	}
	if !s.Real {
		// request generation fails in every way a handler can fail it
		for _, k := range []string{"", "nameless", "nameless-wrapped", "nokeys", "emptykeys"} {
			faults = append(faults, Fault{"generate", 0, k})
		}
	}
	effective := 0
	for _, f := range faults {
		res, infra := runOnce(s, f)
		if infra != nil {
			continue
		}
		fd := fmt.Sprintf("%s, fault %+v", desc, f)
		if res.crash != nil {
			return out, vh.Errf("%s: Run crashed instead of returning an error: %v", fd, res.crash)
		}
		if err := checkSubset(res); err != nil {
			return out, vh.Errf("%s: %v", fd, err)
		}
		kind := vh.ErrKind(res.err)
		var allowed []string
		switch f.Where {
		case "agent":
			if !res.reached {
				continue
			}
			code := dry.frames[f.Index].Code
			switch {
			case code == vh.CodeSign:
				allowed = []string{"AllAuthFailed"}
			case f.Index < firstCA:
				allowed = []string{"HandlerGenCSRErr", "HandlerConfErr", "InvalidParams", "AgentOpCertErr"}
			default:
				allowed = []string{"AgentOpCertErr"}
			}
		case "ca":
			allowed = []string{"SignerSignErr"}
			if f.Kind == "panic" {
				allowed = []string{"Panic"}
			}
			if f.Kind == "wrongkey" {
				// the CA answered, with certificates for another key: they cannot be handed to the agent
				// beside this request's private key, so the run cannot be a success
				if res.err == nil {
					return out, vh.Errf("%s: the CA certified another key than the requested one, the certificates cannot have been handed to the agent, yet Run reported success", fd)
				}
				effective++
				continue
			}
			if len(res.caCalls) != f.Index+1 {
				return out, vh.Errf("%s: the signer received %d calls; the run must stop at the failed call %d", fd, len(res.caCalls), f.Index)
			}
		case "generate":
			allowed = []string{"HandlerGenCSRErr"}
			if len(res.caCalls) != 0 {
				return out, vh.Errf("%s: request generation failed, yet the CA received %d request(s)", fd, len(res.caCalls))
			}
		case "handler":
			if f.Kind == "name" && !s.RejectFirst {
				// Name is only used for logging: whether it runs at all is not part of the property
				if res.err == nil {
					continue
				}
			}
			allowed = []string{"Panic"}
		}
		effective++
		ok := false
		for _, a := range allowed {
			ok = ok || a == kind
		}
		if !ok {
			return out, vh.Errf("%s: Run returned %s (%v), expected one of %v", fd, kind, res.err, allowed)
		}
	}
	out.NonTrivial = effective > 0
	out.Classes = append(out.Classes, fmt.Sprintf("faults=%d", len(faults)))
	return out, nil
}

const rule = "scenarios: the real regular handler, or a harness handler producing 1..3 agent keys x 1..3 requests through the repository's AgentKey (in a third of the scenarios with several keys one of them carries no request at all; in a third the requests of one key share one KeyId and name different CA keys; key pairs of the default algorithm, RSA-2048, P-256 / 384 / 521 or Ed25519), CA returning 1..3 certificates per request (validity window as requested / without expiry / until 2^63 s / stamped by a clock 90 s ahead), 0..2 stale labelled certificates in the agent, optionally a rejecting handler in front (rejecting with an error of any kind, incl. the unknown kind and kinds that have no name), run under context.Background, a cancellable context (what cmd/gensign passes) or a deadline context (each case is journaled first: a fault that kills the process instead of coming back as an error is reported with its scenario). Per scenario a fault-free run fixes the number of agent operations n and CA calls m; then EVERY (operation index 0..n-1) x {failure reply, connection closed}, every CA call x {error (plain, typed with the unknown / an unnamed / the signer / a configuration kind, wrapping context.DeadlineExceeded or context.Canceled while the run's own context is alive, io.EOF), panic, error handed back together with certificates, certificates issued for another key} and a panic in each of Name / Authenticate / Generate / CSRs / AddCertsToAgent of the authenticating handler, plus a panic in Authenticate of the handler in front of it, plus - for the harness handler - every way Generate can fail (typed error with / without handler name, wrapped, no keys returned as nil or as an empty list) is executed in a fresh world (exhaustive per scenario; scenarios random). Oracle: challenge fault => AllAuthFailed; agent fault before the first CA call => a typed generation error; Generate failing or returning no key => the CSR-generation kind and no CA call; CA error => SignerSignErr and no further CA call; list / remove / add-certificate fault => AgentOpCertErr; any panic => Panic; always a *gensign.Error, the process survives; fault-free: nil, CA calls = all requests in order, every returned certificate in the agent; always: certificates added are a subset of those the CA returned. Non-trivial: at least one injected fault was reached and judged."

func TestC04Faults(t *testing.T) {
	vh.Run(t, vh.Spec[Scenario]{Property: "C04", Name: "TestC04Faults", Rule: rule, Journal: true,
		Gen: func(t *rapid.T) Scenario {
			s := Scenario{Real: rapid.Bool().Draw(t, "real"), NCerts: rapid.IntRange(1, 3).Draw(t, "ncerts"), Stale: rapid.IntRange(0, 2).Draw(t, "stale"), RejectFirst: rapid.Bool().Draw(t, "rejectFirst"), RejectKind: rapid.SampledFrom([]string{"", "", "disabled", "unknown", "unnamed", "zero", "untyped", "nocause", "nilcause"}).Draw(t, "rejectKind"),
				Ctx:    rapid.SampledFrom([]string{"", "cancel", "cancel", "timeout"}).Draw(t, "ctx"),
				Window: rapid.SampledFrom([]string{"", "", "forever", "ahead", "huge"}).Draw(t, "window")}
			if !s.Real {
				s.NKeys = rapid.IntRange(1, 3).Draw(t, "nkeys")
				s.NReqs = rapid.IntRange(1, 3).Draw(t, "nreqs")
				s.KeyAlgo = rapid.SampledFrom([]int{0, 0, 1, 3, 4, 5, 6}).Draw(t, "keyAlgo")
				s.SameKeyID = rapid.IntRange(0, 2).Draw(t, "sameKeyID") == 1
				if s.NKeys >= 2 && rapid.IntRange(0, 2).Draw(t, "emptyKey") == 1 {
					s.EmptyKeyAt = rapid.IntRange(1, s.NKeys).Draw(t, "emptyKeyAt")
				}
			}
			return s
		}, Exec: exec})
}

// TestC04NilParams: Run called without request parameters. Whatever then goes wrong - the handlers or Run
// itself dereference the missing parameters, and on top of that a handler, the CA or the agent fails or
// panics - comes back as a typed error; nothing escapes Run.
func TestC04NilParams(t *testing.T) {
	var cases []Scenario
	for _, real := range []bool{true, false} {
		for _, rf := range []bool{false, true} {
			sc := Scenario{Real: real, NCerts: 1, RejectFirst: rf, NilParam: true, Ctx: "cancel"}
			if !real {
				sc.NKeys, sc.NReqs = 1, 2
			}
			cases = append(cases, sc)
		}
	}
	vh.Enumerate(t, vh.Spec[Scenario]{Property: "C04", Name: "TestC04NilParams", Exhaustive: true, Journal: true,
		Rule: "gensign.Run with a nil parameter pointer, real or harness handler, with or without a rejecting handler in front: fault-free, and with a panic in each of Name / Authenticate / Generate / CSRs / AddCertsToAgent, a CA error or panic, an agent failure or closed connection at each of the first 8 operations (each case journaled first). Oracle: nothing escapes Run (no panic reaches the caller, the process survives) and every error returned is of the package's typed kind",
		Exec: func(s Scenario) (vh.Outcome, error) {
			out := vh.Outcome{NonTrivial: true}
			faults := []Fault{{Where: "none"}, {"ca", 0, "error"}, {"ca", 0, "panic"}}
			for _, k := range []string{"name", "authenticate", "generate", "csrs", "addcerts"} {
				faults = append(faults, Fault{"handler", 0, k})
			}
			for i := 0; i < 8; i++ {
				faults = append(faults, Fault{"agent", i, "fail"}, Fault{"agent", i, "close"})
			}
			for _, f := range faults {
				res, infra := runOnce(s, f)
				if infra != nil {
					continue
				}
				desc := fmt.Sprintf("scenario %+v, fault %+v", s, f)
				if res.crash != nil {
					return out, vh.Errf("%s: a panic escaped gensign.Run: %v", desc, res.crash)
				}
				if res.err == nil {
					continue // whether a run without parameters may complete is not this property's subject
				}
				if vh.ErrKind(res.err) == "" || vh.ErrKind(res.err) == "untyped" {
					return out, vh.Errf("%s: the error is not of the package's typed kind: %T %v", desc, res.err, res.err)
				}
			}
			return out, nil
		}}, cases)
}

// TestC04AllScenarios enumerates a fixed scenario grid completely.
func TestC04AllScenarios(t *testing.T) {
	var cases []Scenario
	for _, stale := range []int{0, 2} {
		for _, nc := range []int{1, 2} {
			cases = append(cases, Scenario{Real: true, NCerts: nc, Stale: stale, RejectFirst: stale == 0, Ctx: []string{"cancel", "timeout"}[nc-1]})
			for _, nk := range []int{1, 2} {
				for _, nr := range []int{1, 2} {
					cases = append(cases, Scenario{NKeys: nk, NReqs: nr, NCerts: nc, Stale: stale, RejectFirst: nk == 2, Ctx: []string{"", "cancel"}[nr-1]})
				}
			}
		}
	}
	// shapes the random scenarios reach only now and then: a key without requests in front of keys that have some,
	// requests that share a KeyId, every key algorithm
	cases = append(cases, Scenario{NKeys: 3, NReqs: 1, NCerts: 1, EmptyKeyAt: 1}, Scenario{NKeys: 3, NReqs: 2, NCerts: 1, EmptyKeyAt: 2, Ctx: "cancel"},
		Scenario{NKeys: 2, NReqs: 2, NCerts: 2, EmptyKeyAt: 2}, Scenario{NKeys: 1, NReqs: 3, NCerts: 1, SameKeyID: true}, Scenario{NKeys: 2, NReqs: 2, NCerts: 1, SameKeyID: true, Stale: 2})
	for _, ka := range []int{1, 3, 4, 5, 6} {
		cases = append(cases, Scenario{NKeys: 1, NReqs: 1, NCerts: 1, KeyAlgo: ka})
	}
	vh.Enumerate(t, vh.Spec[Scenario]{Property: "C04", Name: "TestC04AllScenarios", Exhaustive: true, Journal: true,
		Rule: "the grid {real handler, harness handler with 1..2 keys x 1..2 requests} x {1, 2 certificates} x {0, 2 stale certificates} (20 scenarios), plus 10 shapes (a key without requests in front of / between / behind keys that have some, requests sharing a KeyId, each key algorithm), each with its complete single-fault enumeration; same oracle",
		Exec: exec}, cases)
}
