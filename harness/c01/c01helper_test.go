package c01

// TestC01ChallengeHelper: agent/ssh.ChallengeSSHAgent, the exported form of the same proof of
// possession (used by handlers outside this repository): nil iff the agent returned a valid
// signature by the given key over this call's fresh 64-byte challenge.

import (
	"bytes"
	"crypto/rand"
	"errors"
	"fmt"
	"testing"

	agssh "github.com/theparanoids/ysshra/agent/ssh"
	"github.com/theparanoids/ysshra/zzverif/vh"
	"golang.org/x/crypto/ssh"
	"golang.org/x/crypto/ssh/agent"
	"pgregory.net/rapid"
)

type HelperCase struct {
	Key string
	// Behaviours of the agent, one per call: honest otherkey otherdata replay garbage empty fail nilsig
	Calls []string
}

type scriptedAgent struct {
	key        string
	behaviour  string
	challenges [][]byte
	last       *ssh.Signature
	asked      []ssh.PublicKey
}

func (a *scriptedAgent) Sign(key ssh.PublicKey, data []byte) (*ssh.Signature, error) {
	a.asked = append(a.asked, key)
	a.challenges = append(a.challenges, append([]byte(nil), data...))
	switch a.behaviour {
	case "honest":
		s, err := vh.SSHSigner(a.key).Sign(rand.Reader, data)
		a.last = s
		return s, err
	case "otherkey":
		return vh.SSHSigner("p256c").Sign(rand.Reader, data)
	case "otherdata":
		return vh.SSHSigner(a.key).Sign(rand.Reader, append([]byte("x"), data...))
	case "replay":
		if a.last != nil {
			return a.last, nil
		}
		return nil, errors.New("nothing to replay")
	case "garbage":
		return &ssh.Signature{Format: key.Type(), Blob: bytes.Repeat([]byte{0x5a}, 64)}, nil
	case "empty":
		return &ssh.Signature{Format: key.Type()}, nil
	case "nilsig":
		return nil, nil
	}
	return nil, errors.New("agent refuses")
}
func (a *scriptedAgent) List() ([]*agent.Key, error)    { return nil, nil }
func (a *scriptedAgent) Add(agent.AddedKey) error       { return errors.New("n/a") }
func (a *scriptedAgent) Remove(ssh.PublicKey) error     { return errors.New("n/a") }
func (a *scriptedAgent) RemoveAll() error               { return errors.New("n/a") }
func (a *scriptedAgent) Lock([]byte) error              { return errors.New("n/a") }
func (a *scriptedAgent) Unlock([]byte) error            { return errors.New("n/a") }
func (a *scriptedAgent) Signers() ([]ssh.Signer, error) { return nil, nil }

func TestC01ChallengeHelper(t *testing.T) {
	vh.Run(t, vh.Spec[HelperCase]{Property: "C01", Name: "TestC01ChallengeHelper",
		Rule: "agent/ssh.ChallengeSSHAgent against a scripted agent, 1..6 calls per case with a key of every pool type (RSA, ECDSA, Ed25519, DSA) and per call one behaviour of {honest, signs with another key, signs other data, replays the signature of the previous honest call, garbage signature, empty signature, no signature and no error, failure}. Oracle: nil iff the behaviour is honest; the agent is asked exactly once per call, for exactly the given key, with a 64-byte challenge different from every earlier one of the case; never a crash (a nil signature without error may be refused by error or by a recovered panic, never accepted). Non-trivial: a dishonest behaviour after an honest call.",
		Gen: func(t *rapid.T) HelperCase {
			c := HelperCase{Key: rapid.SampledFrom([]string{"p256b", "ed25519b", "rsa2048b", "p384a", "p521a", "dsa1024"}).Draw(t, "key")}
			n := rapid.IntRange(1, 6).Draw(t, "n")
			for i := 0; i < n; i++ {
				c.Calls = append(c.Calls, rapid.SampledFrom([]string{"honest", "honest", "otherkey", "otherdata", "replay", "replay", "garbage", "empty", "fail", "nilsig"}).Draw(t, fmt.Sprintf("b%d", i)))
			}
			return c
		},
		Exec: func(c HelperCase) (vh.Outcome, error) {
			out := vh.Outcome{}
			a := &scriptedAgent{key: c.Key}
			pub := vh.SSHPub(c.Key)
			honestSeen := false
			for i, b := range c.Calls {
				a.behaviour = b
				if b != "honest" && honestSeen {
					out.NonTrivial = true
				}
				out.Classes = append(out.Classes, "agent="+b)
				before := len(a.challenges)
				var err error
				perr := vh.Catch(func() { err = agssh.ChallengeSSHAgent(a, pub) })
				if perr != nil {
					if b == "nilsig" {
						continue // a nil signature without error is the agent's contract violation; not accepted is all that matters
					}
					return out, vh.Errf("call %d (%s): ChallengeSSHAgent crashed: %v", i, b, perr)
				}
				if len(a.challenges) != before+1 {
					return out, vh.Errf("call %d (%s): the agent was asked %d times", i, b, len(a.challenges)-before)
				}
				ch := a.challenges[before]
				if len(ch) != 64 {
					return out, vh.Errf("call %d: challenge of %d bytes", i, len(ch))
				}
				for j, old := range a.challenges[:before] {
					if bytes.Equal(old, ch) {
						return out, vh.Errf("call %d: the challenge equals the one of call %d", i, j)
					}
				}
				if !bytes.Equal(a.asked[before].Marshal(), pub.Marshal()) {
					return out, vh.Errf("call %d: the agent was challenged under another key", i)
				}
				if (err == nil) != (b == "honest") {
					return out, vh.Errf("call %d: agent behaviour %s, key %s: ChallengeSSHAgent returned %v", i, b, c.Key, err)
				}
				if b == "honest" {
					honestSeen = true
				}
			}
			return out, nil
		}})
}
