// C01 — certificates are requested only after proof of possession of the registered key.
package c01

import (
	"bytes"
	"context"
	"crypto/ecdsa"
	"crypto/ed25519"
	"crypto/elliptic"
	"crypto/rand"
	"crypto/sha256"
	"encoding/base64"
	"encoding/binary"
	"fmt"
	"io"
	"os"
	"path/filepath"
	"strings"
	"sync"
	"testing"
	"time"

	"github.com/theparanoids/ysshra/gensign"
	"github.com/theparanoids/ysshra/gensign/regular"
	"github.com/theparanoids/ysshra/zzverif/vh"
	"golang.org/x/crypto/ssh"
	"pgregory.net/rapid"
)

type RunSpec struct {
	LogName string
	Policy  string
	HardKey bool
	// ExtsKind: free-form extended attributes carried next to the typed ones (see extsOf)
	ExtsKind string `json:",omitempty"`
	ReqUser  string
	ReqHost  string
	Via      string
	NilAttrs bool   // the parameters carry no client attributes (struct built directly)
	Agent    string // honest nokey otherkey otherdata replay garbage empty fail close
	// StallMS: the forwarded agent answers the challenge only after this many milliseconds (a token waiting
	// for a touch); DeadlineMS: the run's context carries this deadline (0 = none). Slowness is neither
	// proof nor refusal: the model is unchanged.
	StallMS    int `json:",omitempty"`
	DeadlineMS int `json:",omitempty"`
	// DirEdit is applied to the registered-key directory before the run: file -> key spec, "" = delete.
	DirEdit map[string]string
	// SameNames: every harness handler of the list reports the same name (the real handler's, or another shared one)
	SameNames string `json:",omitempty"`
	// "panic": a harness handler whose Authenticate panics
	Handlers []string // real | accept | reject | reject-disabled | reject-invalid | reject-unknown | reject-untyped | reject-panic-typed
}

type Case struct {
	// Dir maps file names of the registered-key directory to a pool key name or "unparsable".
	Dir map[string]string
	// Held are the pool keys the forwarded agent holds.
	Held []string
	Runs []RunSpec
	// Reuse: the real handler object (and its forwarded connection) is built once and used by every run.
	Reuse bool
	// ShortEntropy: during this history the process's entropy source (crypto/rand.Reader, a variable a
	// deployment may point at a DRBG / HSM / FIPS wrapper) hands out 1..7 bytes per Read call, as any
	// io.Reader may. Sequential sub-checks only.
	ShortEntropy bool `json:",omitempty"`
	// Decoy: right after every regular handler of the history a second regular handler is built in the same
	// process from ANOTHER configuration - its key directory registers, for every login name, a key the
	// forwarded agent holds - and then left alone. The runs use the first handler, as before.
	Decoy bool `json:",omitempty"`
}

// shortReader is a legal io.Reader over the real entropy source that returns at most a few bytes per call.
type shortReader struct {
	inner io.Reader
	n     int
}

func (r *shortReader) Read(b []byte) (int, error) {
	r.n++
	max := 1 + r.n%7
	if len(b) > max {
		b = b[:max]
	}
	return r.inner.Read(b)
}

var entropyMu sync.Mutex

// extsOf: free-form extended attributes of the request that repeat, in other spellings and types, what the typed
// attributes say - or contradict them. The typed attributes are the request.
func extsOf(kind string) map[string]any {
	switch kind {
	case "hardkey-false":
		return map[string]any{"hardkey": false}
	case "HardKey-false-text":
		return map[string]any{"HardKey": "false"}
	case "HARDKEY-0":
		return map[string]any{"HARDKEY": "0", "note": "x"}
	case "hardKey-false":
		return map[string]any{"hardKey": false, "username": "root"}
	case "other":
		return map[string]any{"reason": "ticket-1", "n": 3}
	}
	return nil
}

// buildDecoy builds (and abandons) a regular handler whose configuration differs in every option: another key
// directory - in which every login name is registered with a key the forwarded agent holds -, another validity,
// another slot table.
func buildDecoy(p *vh.Proxy, held []string) (string, error) {
	dir, err := os.MkdirTemp("", "vdecoy")
	if err != nil {
		return "", nil
	}
	k := "p256b"
	if len(held) > 0 {
		k = held[0]
	}
	for _, n := range names {
		os.WriteFile(filepath.Join(dir, n+".pub"), vh.AuthorizedLine(k, n+"@decoy"), 0o644)
		os.WriteFile(filepath.Join(dir, n), vh.AuthorizedLine(k, n+"@decoy"), 0o644)
	}
	conf, err := vh.WriteGensignConfig(dir, vh.HandlerConf{PubKeyDir: dir, ValiditySec: 7200, KeyIdentifiers: map[string]string{"default": "decoy-slot", "rsa": "decoy-rsa"}})
	if err != nil {
		return dir, err
	}
	conn, err := vh.DialProxy(p)
	if err != nil {
		return dir, nil
	}
	defer conn.Close()
	_, err = regular.NewHandler(conf, conn)
	return dir, err
}

// login names: three accounts, a name that looks like a key file, and spellings that differ from an account's
// only in letter case (other accounts as far as the server is concerned: they have no key file of their own)
var names = []string{"alice", "bob", "carol", "alice.pub", "Alice", "BOB", "caRol"}
var userKeys = []string{"p256b", "ed25519b", "rsa2048b", "p384a"}

// registered "keys" of unusual types: security-key types, a certificate line, DSA. The forwarded
// agent can never prove possession of any of them, so they must never authenticate.
var oddKeys = []string{"sk-ed25519", "sk-ecdsa", "cert:p256b", "cert:ed25519b", "dsa"}

// skEd25519Blob is the wire form of the registered sk-ssh-ed25519 key (see registeredContent).
func skEd25519Blob() []byte {
	pub := vh.SSHPub("ed25519c").(ssh.CryptoPublicKey).CryptoPublicKey().(ed25519.PublicKey)
	return sshBytes([]byte("sk-ssh-ed25519@openssh.com"), []byte(pub), []byte("ssh:"))
}

// skEd25519Sign makes the signature a security key holding ed25519c would return.
func skEd25519Sign(data []byte) *ssh.Signature {
	app, msg := sha256.Sum256([]byte("ssh:")), sha256.Sum256(data)
	flags, counter := byte(1), uint32(7)
	signed := append(append([]byte{}, app[:]...), flags, byte(counter>>24), byte(counter>>16), byte(counter>>8), byte(counter))
	signed = append(signed, msg[:]...)
	sig := ed25519.Sign(vh.Key("ed25519c").(ed25519.PrivateKey), signed)
	return &ssh.Signature{Format: "sk-ssh-ed25519@openssh.com", Blob: sig, Rest: []byte{flags, byte(counter >> 24), byte(counter >> 16), byte(counter >> 8), byte(counter)}}
}

func sshBytes(parts ...[]byte) []byte {
	var out []byte
	for _, p := range parts {
		out = append(out, sshStr(p)...)
	}
	return out
}

const dsaLine = "ssh-dss AAAAB3NzaC1kc3MAAACBAP1/U4EddRIpUt9KnC7s5Of2EbdSPO9EAMMeP4C2USZpRV1AIlH7WT2NWPq/xfW6MPbLm1Vs14E7gB00b/JmYLdrmVClpJ+f6AR7ECLCT7up1/63xhv4O1fnxqimFQ8E+4P208UewwI1VBNaFpEy9nXzrith1yrv8iIDGZ3RSAHHAAAAFQCXYFCPFSMLzLKSuYKi64QL8Fgc9QAAAIEA9+GghdabPd7LvKtcNrhXuXmUr7v6OuqC+VdMCz0HgmdRWVeOutRZT+ZxBxCBgLRJFnEj6EwoFhO3zwkyjMim4TwWeotUfI0o4KOuHiuzpnWRbqN/C/ohNWLx+2J6ASQ7zKTxvqhRkImog9/hWuWfBpKLZl6Ae1UlZAFMO/7PSSoAAACAExB+4ArWPM5y4Nvb/4LxcyO24bD1ahv0yVRyGTRxKxPXpGQfRW/nJ+3e4mNvs3xvmNWXl7rEBY+zKqRtCJUdvRmVbHy9FWnPRT0HEMmVsFW9YWCw4yT5rhmWvHSYKCwkC3EVVSf0YCBvn+SOIwOd6wB4/l6Uiz+P96ZrJf1QcYM= dsa@registered"

func registeredContent(spec, comment string) []byte {
	switch {
	case spec == "unparsable":
		return []byte("this is not a public key\n")
	case spec == "sk-ed25519":
		pub := vh.SSHPub("ed25519c").(ssh.CryptoPublicKey).CryptoPublicKey().(ed25519.PublicKey)
		blob := sshBytes([]byte("sk-ssh-ed25519@openssh.com"), []byte(pub), []byte("ssh:"))
		return []byte("sk-ssh-ed25519@openssh.com " + base64.StdEncoding.EncodeToString(blob) + " " + comment + "\n")
	case spec == "sk-ecdsa":
		pub := vh.SSHPub("p256c").(ssh.CryptoPublicKey).CryptoPublicKey().(*ecdsa.PublicKey)
		point := elliptic.Marshal(elliptic.P256(), pub.X, pub.Y)
		blob := sshBytes([]byte("sk-ecdsa-sha2-nistp256@openssh.com"), []byte("nistp256"), point, []byte("ssh:"))
		return []byte("sk-ecdsa-sha2-nistp256@openssh.com " + base64.StdEncoding.EncodeToString(blob) + " " + comment + "\n")
	case strings.HasPrefix(spec, "cert:"):
		c := vh.MakeSSHCert(vh.SSHCertSpec{Key: strings.TrimPrefix(spec, "cert:"), KeyID: "registered certificate", ValidBefore: ssh.CertTimeInfinity})
		return ssh.MarshalAuthorizedKey(c)
	case spec == "dsa":
		return []byte(dsaLine + "\n")
	case strings.HasPrefix(spec, "multi:"):
		// several registered lines (a key being rotated, a stray line in front)
		var out []byte
		for i, part := range strings.Split(strings.TrimPrefix(spec, "multi:"), "+") {
			out = append(out, registeredContent(part, fmt.Sprintf("%s-line%d", comment, i))...)
		}
		return out
	case strings.HasPrefix(spec, "opts:"):
		// authorized_keys options in front of the key, and a comment line before it
		return append([]byte("# registered key\nrestrict,from=\"10.0.0.0/8\",command=\"/bin/true\" "), vh.AuthorizedLine(strings.TrimPrefix(spec, "opts:"), comment)...)
	}
	return vh.AuthorizedLine(spec, comment)
}

func gen(t *rapid.T) Case {
	c := Case{Dir: map[string]string{}}
	files := []string{"alice.pub", "alice", "bob.pub", "bob", "carol", "carol.pub", "alice.pub.pub"}
	for _, f := range files {
		switch rapid.IntRange(0, 5).Draw(t, "file:"+f) {
		case 0, 1:
			// absent
		case 2:
			c.Dir[f] = "unparsable"
		case 3:
			c.Dir[f] = rapid.SampledFrom(append(append([]string{}, oddKeys...), userKeys...)).Draw(t, "odd:"+f)
		default:
			c.Dir[f] = rapid.SampledFrom(userKeys).Draw(t, "key:"+f)
			if rapid.IntRange(0, 7).Draw(t, "opts:"+f) == 3 {
				c.Dir[f] = "opts:" + c.Dir[f]
			}
			if rapid.IntRange(0, 9).Draw(t, "multi:"+f) == 4 {
				lines := rapid.SliceOfN(rapid.SampledFrom(append([]string{"unparsable", "dsa", "sk-ed25519"}, userKeys...)), 2, 4).Draw(t, "lines:"+f)
				c.Dir[f] = "multi:" + strings.Join(lines, "+")
			}
		}
	}
	c.Held = rapid.SliceOfNDistinct(rapid.SampledFrom(userKeys), 0, 3, func(s string) string { return s }).Draw(t, "held")
	n := rapid.IntRange(1, 4).Draw(t, "nruns")
	c.Reuse = rapid.Bool().Draw(t, "reuseHandler")
	c.ShortEntropy = rapid.IntRange(0, 7).Draw(t, "shortEntropy") == 3
	c.Decoy = rapid.IntRange(0, 3).Draw(t, "decoy") == 1
	for i := 0; i < n; i++ {
		l := fmt.Sprintf("run%d", i)
		var edit map[string]string
		if i > 0 && rapid.IntRange(0, 2).Draw(t, l+"Edit") == 0 {
			f := rapid.SampledFrom(files[:4]).Draw(t, l+"EditFile")
			edit = map[string]string{f: rapid.SampledFrom(append([]string{"", "", "unparsable"}, userKeys...)).Draw(t, l+"EditTo")}
		}
		r := RunSpec{
			LogName:  rapid.SampledFrom(names).Draw(t, l+"Log"),
			Policy:   rapid.SampledFrom([]string{"NONS", "NONS", "NONS", "NONS", "NSOK", "NSOK", "nsok", "Nsok", "nsOK", "nons", "NSOK ", "", "NS", "NSOK,NONS"}).Draw(t, l+"Pol"),
			HardKey:  rapid.IntRange(0, 5).Draw(t, l+"HK") == 0,
			ExtsKind: rapid.SampledFrom([]string{"", "", "", "hardkey-false", "HardKey-false-text", "HARDKEY-0", "hardKey-false", "other"}).Draw(t, l+"Exts"),
			ReqUser:  rapid.SampledFrom([]string{"alice", "bob", "root", "carol", "mallory", "svc-deployment-automation-account-for-region-eu-central-1", strings.Repeat("u", 64), strings.Repeat("é", 200)}).Draw(t, l+"RU"),
			ReqHost:  rapid.SampledFrom([]string{"laptop", "host.example.com", "ip-10-20-30-40.eu-central-1.compute.internal.example-cloud.com", strings.Repeat("h", 64), strings.Repeat("x", 3000)}).Draw(t, l+"RH"),
			Via:      rapid.SampledFrom([]string{"direct", "env"}).Draw(t, l+"Via"),
			DirEdit:  edit,
			Agent:    rapid.SampledFrom([]string{"honest", "honest", "honest", "nokey", "otherkey", "otherdata", "replay", "replay", "garbage", "empty", "fail", "close"}).Draw(t, l+"Agent"),
		}
		if r.Via == "direct" && rapid.IntRange(0, 9).Draw(t, l+"NilAttrs") == 0 {
			r.NilAttrs = true
		}
		// handler list: at most one real handler, any accept/reject pattern around it
		nh := rapid.IntRange(1, 4).Draw(t, l+"NH")
		realAt := rapid.IntRange(-1, nh-1).Draw(t, l+"RealAt")
		if rapid.IntRange(0, 2).Draw(t, l+"ForceReal") > 0 && realAt < 0 {
			realAt = rapid.IntRange(0, nh-1).Draw(t, l+"RealAt2")
		}
		for j := 0; j < nh; j++ {
			if j == realAt {
				r.Handlers = append(r.Handlers, "real")
			} else {
				r.Handlers = append(r.Handlers, rapid.SampledFrom([]string{"reject", "reject", "accept", "accept", "reject-disabled", "reject-disabled", "reject-invalid", "reject-unknown", "reject-untyped", "reject-panic-typed", "reject-nocause", "reject-nocause-nameless", "reject-nilcause", "panic", "accept-genfail", "accept-genfail-conf", "accept-genfail-untyped"}).Draw(t, fmt.Sprintf("%sH%d", l, j)))
			}
		}
		if rapid.IntRange(0, 3).Draw(t, l+"SameNames") == 1 {
			// handler names need not be unique: two instances of one handler type report the same name
			r.SameNames = rapid.SampledFrom([]string{"paranoids.regular", "verif.shared", ""}).Draw(t, l+"SameName")
		}
		c.Runs = append(c.Runs, r)
	}
	if rapid.IntRange(0, 5).Draw(t, "straightPath") == 2 {
		// a sixth of the histories keep the path to the real handler's challenge straight - alice has a registered key the
		// honest agent holds, the namespace matches, the real handler stands alone - so that the remaining drawn dimensions
		// (hardware-key flag, extended attributes, declared user / host, parameter route, reuse, second handler, entropy)
		// meet an authentication that would otherwise succeed
		isUserKey := false
		for _, k := range userKeys {
			isUserKey = isUserKey || c.Dir["alice.pub"] == k
		}
		if rapid.IntRange(0, 5).Draw(t, "straightSK") == 1 {
			c.Dir["alice.pub"] = "sk-ed25519" // a registered security key, for which the honest agent answers as a token would
		} else if !isUserKey {
			c.Dir["alice.pub"] = "p256b"
		}
		if c.Dir["alice.pub"] != "sk-ed25519" {
			has := false
			for _, h := range c.Held {
				has = has || h == c.Dir["alice.pub"]
			}
			if !has {
				c.Held = append(c.Held, c.Dir["alice.pub"])
			}
		}
		for i := range c.Runs {
			c.Runs[i].LogName, c.Runs[i].Policy, c.Runs[i].Agent, c.Runs[i].Handlers, c.Runs[i].NilAttrs = "alice", "NONS", "honest", []string{"real"}, false
			c.Runs[i].HardKey = rapid.Bool().Draw(t, fmt.Sprintf("straightHK%d", i))
		}
	}
	return c
}

type signReq struct {
	keyBlob []byte
	data    []byte
	sig     []byte // signature blob sent back (nil when none)
}

func parseSign(req []byte) (blob, data []byte, ok bool) {
	b := req[1:]
	if len(b) < 4 {
		return nil, nil, false
	}
	l := int(binary.BigEndian.Uint32(b))
	if l > len(b)-4 {
		return nil, nil, false
	}
	blob, b = b[4:4+l], b[4+l:]
	if len(b) < 4 {
		return nil, nil, false
	}
	l = int(binary.BigEndian.Uint32(b))
	if l > len(b)-4 {
		return nil, nil, false
	}
	return blob, b[4 : 4+l], true
}

func sshStr(b []byte) []byte {
	out := make([]byte, 4+len(b))
	binary.BigEndian.PutUint32(out, uint32(len(b)))
	copy(out[4:], b)
	return out
}

func poolKeyByBlob(blob []byte) string {
	for _, k := range append(append([]string{}, userKeys...), vh.SSHKeyNames...) {
		if bytes.Equal(vh.SSHPub(k).Marshal(), blob) {
			return k
		}
	}
	return ""
}

func exec(c Case) (vh.Outcome, error) {
	out := vh.Outcome{}
	if c.ShortEntropy {
		entropyMu.Lock()
		orig := rand.Reader
		rand.Reader = &shortReader{inner: orig}
		defer func() { rand.Reader = orig; entropyMu.Unlock() }()
		out.Classes = append(out.Classes, "short-reads-from-the-entropy-source")
	}
	p, err := vh.NewProxy()
	if err != nil {
		return out, nil
	}
	defer p.Close()
	dir, err := os.MkdirTemp("", "vkeys")
	if err != nil {
		return out, nil
	}
	defer os.RemoveAll(dir)
	contents := map[string][]byte{}
	cur := map[string]string{}
	for f, k := range c.Dir {
		cur[f] = k
		contents[f] = registeredContent(k, f+"@registered")
		os.WriteFile(filepath.Join(dir, f), contents[f], 0o644)
	}
	conf, err := vh.WriteGensignConfig(dir, vh.HandlerConf{PubKeyDir: dir, ValiditySec: 3600, KeyIdentifiers: map[string]string{"default": "ssh-user-key"}})
	if err != nil {
		return out, vh.Errf("configuration did not load: %v", err)
	}
	held := map[string]bool{}
	for _, k := range c.Held {
		held[k] = true
	}
	captured := map[string][]byte{}
	var behaviour string
	var signs []signReq
	stallMS := 0
	p.Hook = func(idx int, req []byte) ([]byte, bool, bool) {
		if len(req) == 0 || req[0] != vh.CodeSign {
			return nil, false, false
		}
		if stallMS > 0 {
			time.Sleep(time.Duration(stallMS) * time.Millisecond)
		}
		blob, data, ok := parseSign(req)
		if !ok {
			return []byte{vh.CodeFailure}, false, true
		}
		sr := signReq{keyBlob: append([]byte{}, blob...), data: append([]byte{}, data...)}
		reply := []byte{vh.CodeFailure}
		drop := false
		name := poolKeyByBlob(blob)
		mk := func(s *ssh.Signature) []byte {
			sb := ssh.Marshal(s)
			sr.sig = sb
			return append([]byte{vh.CodeSignResponse}, sshStr(sb)...)
		}
		switch behaviour {
		case "honest":
			if name != "" && held[name] {
				s, _ := vh.SSHSigner(name).Sign(rand.Reader, data)
				captured[string(blob)] = ssh.Marshal(s)
				reply = mk(s)
			} else if bytes.Equal(blob, skEd25519Blob()) {
				// the requester's security key answers (a FIDO token signs application digest, flags,
				// counter and message digest)
				s := skEd25519Sign(data)
				captured[string(blob)] = ssh.Marshal(s)
				reply = mk(s)
			}
		case "nokey", "fail":
		case "otherkey":
			other := "p256c"
			s, _ := vh.SSHSigner(other).Sign(rand.Reader, data)
			reply = mk(s)
		case "otherdata":
			if name != "" {
				d2 := append([]byte("not the challenge:"), data...)
				s, _ := vh.SSHSigner(name).Sign(rand.Reader, d2)
				reply = mk(s)
			}
		case "replay":
			if old, ok := captured[string(blob)]; ok {
				sr.sig = old
				reply = append([]byte{vh.CodeSignResponse}, sshStr(old)...)
			}
		case "garbage":
			if len(data) > 0 && data[0]&1 == 0 {
				reply = mk(&ssh.Signature{Format: vh.SSHPub(orDefault(name)).Type(), Blob: bytes.Repeat([]byte{0x5a}, 64)})
			} else {
				reply = []byte{vh.CodeSignResponse, 0, 0, 0, 3, 1, 2, 3}
			}
		case "empty":
			reply = mk(&ssh.Signature{Format: vh.SSHPub(orDefault(name)).Type(), Blob: nil})
		case "close":
			drop = true
		}
		signs = append(signs, sr)
		return reply, drop, true
	}

	allChallenges := [][]byte{}
	adversarialWithKey, rejectBeforeAccept := false, false
	var shared gensign.Handler
	sharedUses, dirEdits := 0, 0
	for ri, r := range c.Runs {
		for f, k := range r.DirEdit {
			dirEdits++
			if k == "" {
				delete(cur, f)
				delete(contents, f)
				os.Remove(filepath.Join(dir, f))
				continue
			}
			cur[f] = k
			contents[f] = registeredContent(k, fmt.Sprintf("%s@registered-%d", f, ri))
			os.WriteFile(filepath.Join(dir, f), contents[f], 0o644)
		}
		where := fmt.Sprintf("run %d (login %q, policy %s, hardKey %v, agent %s, handlers %v)", ri, r.LogName, r.Policy, r.HardKey, r.Agent, r.Handlers)
		behaviour = r.Agent
		stallMS = r.StallMS
		signs = nil
		ca := &vh.FakeCA{Default: vh.CABehaviour{NCerts: 1}}
		hlog := &vh.HandlerLog{}
		param, perr := vh.BuildParam(vh.ParamSpec{LogName: r.LogName, Policy: r.Policy, HardKey: r.HardKey, ReqUser: r.ReqUser, ReqHost: r.ReqHost, ClientIP: "172.17.0.1", TransID: fmt.Sprintf("%010x", ri), Via: r.Via, NilAttrs: r.NilAttrs, Exts: extsOf(r.ExtsKind)})
		if perr != nil {
			if r.Policy != "NONS" && r.Policy != "NSOK" {
				// a namespace policy that is not one of the two defined values is refused when the parameters
				// are built from the environment: nothing is requested
				out.Classes = append(out.Classes, "undefined-policy-refused-by-the-loader")
				continue
			}
			return out, vh.Errf("%s: parameters did not build: %v", where, perr)
		}
		var handlers []gensign.Handler
		var fakes []*vh.FakeHandler
		for j, kind := range r.Handlers {
			if kind == "real" {
				var h gensign.Handler
				if c.Reuse && shared != nil {
					h = shared
					sharedUses++
				} else {
					conn, derr := vh.DialProxy(p)
					if derr != nil {
						return out, nil
					}
					defer conn.Close()
					rh, herr := regular.NewHandler(conf, conn)
					if herr != nil {
						return out, vh.Errf("%s: NewHandler failed: %v", where, herr)
					}
					h, shared = rh, rh
					if c.Decoy {
						ddir, derr := buildDecoy(p, c.Held)
						if ddir != "" {
							defer os.RemoveAll(ddir) // stays in place for the rest of the history, like any other directory of the host
						}
						if derr != nil {
							return out, vh.Errf("%s: a second regular handler with another configuration could not be built: %v", where, derr)
						}
						out.Classes = append(out.Classes, "second-handler-with-another-configuration")
					}
				}
				handlers = append(handlers, h)
				fakes = append(fakes, nil)
			} else {
				fh := &vh.FakeHandler{ID: fmt.Sprintf("h%d", j), Accept: kind == "accept" || strings.HasPrefix(kind, "accept-genfail"), Log: hlog, RejectKind: strings.TrimPrefix(strings.TrimPrefix(kind, "reject"), "-")}
				if strings.HasPrefix(kind, "accept-genfail") {
					fh.RejectKind, fh.GenErr, fh.GenErrKind = "", true, strings.TrimPrefix(strings.TrimPrefix(kind, "accept-genfail"), "-")
				}
				fh.NameAs = r.SameNames
				if kind == "panic" {
					fh.PanicIn = "authenticate"
				}
				handlers = append(handlers, fh)
				fakes = append(fakes, fh)
			}
		}
		addsBefore := len(p.Adds())
		var runErr error
		runCtx, runCancel := context.Background(), func() {}
		if r.DeadlineMS > 0 {
			runCtx, runCancel = context.WithTimeout(context.Background(), time.Duration(r.DeadlineMS)*time.Millisecond)
		}
		cerr := vh.Catch(func() { runErr = gensign.Run(runCtx, param, handlers, ca) })
		runCancel()
		if cerr != nil {
			return out, vh.Errf("%s: Run crashed: %v", where, cerr)
		}
		adds := len(p.Adds()) - addsBefore

		// ---- model: which handler authenticates ----
		regFile := r.LogName + ".pub"
		if _, ok := cur[regFile]; !ok {
			regFile = r.LogName
		}
		regKey, hasReg := cur[regFile]
		var K ssh.PublicKey
		// Ks: every key line of the registered file (independent parse). The code under test uses the first
		// one; a file with several lines registers at most those keys, so a proof under any of them is a proof
		// under a registered key and a challenge under any other key is not.
		var Ks []ssh.PublicKey
		if hasReg && regKey != "unparsable" {
			rest := contents[regFile]
			for len(rest) > 0 {
				k, _, _, r2, e := ssh.ParseAuthorizedKey(rest)
				if e != nil {
					break
				}
				Ks = append(Ks, k)
				rest = r2
			}
			if len(Ks) > 0 {
				K = Ks[0]
			}
			if len(Ks) > 1 {
				out.Classes = append(out.Classes, "several-registered-lines")
			}
		}
		isReg := func(blob []byte) ssh.PublicKey {
			for _, k := range Ks {
				if bytes.Equal(blob, k.Marshal()) {
					return k
				}
			}
			return nil
		}
		realAuth := false
		if r.Policy == "NONS" && !r.HardKey && K != nil {
			for _, s := range signs {
				if k := isReg(s.keyBlob); k != nil && s.sig != nil {
					var sig ssh.Signature
					if ssh.Unmarshal(s.sig, &sig) == nil && k.Verify(s.data, &sig) == nil {
						realAuth = true
					}
				}
			}
		}
		if K != nil && r.Agent != "honest" {
			adversarialWithKey = true
		}
		sel, crashAt := -1, -1
		for j, kind := range r.Handlers {
			// without client attributes the real handler refuses a foreign namespace as usual and
			// otherwise crashes on the missing attributes (reported as a Panic-typed error by Run)
			if kind == "real" && r.NilAttrs {
				kind = "reject"
				if r.Policy == "NONS" {
					kind = "panic"
				}
			}
			if kind == "panic" {
				crashAt = j
				break
			}
			if kind == "accept" || strings.HasPrefix(kind, "accept-genfail") || (kind == "real" && realAuth) {
				sel = j
				break
			}
		}
		if crashAt >= 0 {
			// a handler crashed (or may have) while authenticating: nothing may be signed or added by
			// this run unless a handler BEFORE it had authenticated (impossible here: sel < 0 or later)
			out.Classes = append(out.Classes, "authenticate-crash")
			kind := vh.ErrKind(runErr)
			if runErr == nil {
				return out, vh.Errf("%s: a handler crashed while authenticating, yet Run reported success", where)
			}
			if kind != "Panic" {
				return out, vh.Errf("%s: handler %d panics in Authenticate but Run returned %s (%v)", where, crashAt, kind, runErr)
			}
			if ca.NCalls() != 0 || adds != 0 {
				return out, vh.Errf("%s: no handler authenticated (one crashed), yet the CA received %d request(s) and the agent %d add(s)", where, ca.NCalls(), adds)
			}
			for j, fh := range fakes {
				if fh != nil && j > crashAt && len(hlogEvents(hlog, fh.ID)) != 0 {
					return out, vh.Errf("%s: handler %d was used after handler %d had crashed the run", where, j, crashAt)
				}
			}
			continue
		}
		if sel > 0 && len(r.Handlers) >= 2 {
			rejectBeforeAccept = true
		}
		out.Classes = append(out.Classes, "agent="+r.Agent, fmt.Sprintf("selected=%v", sel >= 0))

		// ---- challenges: 64 fresh bytes, only under the registered key ----
		for _, s := range signs {
			if len(s.data) != 64 {
				return out, vh.Errf("%s: challenge of %d bytes", where, len(s.data))
			}
			// unpredictable: 64 bytes from the entropy source hold a zero byte once in four challenges; 17 or more
			// of them (chance below 1e-25) means most of the challenge was never filled
			zeros := 0
			for _, b := range s.data {
				if b == 0 {
					zeros++
				}
			}
			distinct := map[byte]bool{}
			for _, b := range s.data {
				distinct[b] = true
			}
			// 64 bytes from the entropy source show 57 different values on average; fewer than 36 (chance about
			// 1e-15) means most of the challenge is text or padding somebody can predict
			if len(distinct) < 36 {
				return out, vh.Errf("%s: the challenge %x (%q) holds only %d different byte values in 64 bytes: most of it is predictable", where, s.data, s.data, len(distinct))
			}
			if zeros >= 17 {
				return out, vh.Errf("%s: the challenge %x holds %d zero bytes of 64: it was not filled from the entropy source (short reads from the entropy source: %v)", where, s.data, zeros, c.ShortEntropy)
			}
			if K == nil || isReg(s.keyBlob) == nil {
				return out, vh.Errf("%s: the agent was challenged under a key that is not the one registered for %q (file %q)", where, r.LogName, regFile)
			}
			for _, old := range allChallenges {
				if bytes.Equal(old, s.data) {
					return out, vh.Errf("%s: challenge %x was used before in this history", where, s.data)
				}
			}
			allChallenges = append(allChallenges, s.data)
		}
		if (r.Policy != "NONS" || r.HardKey) && len(signs) > 0 {
			// harmless but never needed; not part of the statement
		}

		events := hlog.Snapshot()
		count := func(e string) int {
			n := 0
			for _, x := range events {
				if x == e {
					n++
				}
			}
			return n
		}
		if sel < 0 {
			if vh.ErrKind(runErr) != "AllAuthFailed" {
				return out, vh.Errf("%s: no handler can authenticate but Run returned %s (%v)", where, vh.ErrKind(runErr), runErr)
			}
			if ca.NCalls() != 0 || adds != 0 {
				return out, vh.Errf("%s: nothing authenticated, yet the CA received %d request(s) and the agent %d add(s)", where, ca.NCalls(), adds)
			}
			for j, fh := range fakes {
				if fh != nil && (count(fh.ID+".generate") != 0 || count(fh.ID+".authenticate") != 1) {
					return out, vh.Errf("%s: handler %d: %d authenticate / %d generate calls (expected 1 / 0)", where, j, count(fh.ID+".authenticate"), count(fh.ID+".generate"))
				}
			}
			continue
		}
		if strings.HasPrefix(r.Handlers[sel], "accept-genfail") {
			// the first handler that authenticates cannot produce a request: nobody else may produce
			// one in its place (no later handler was authenticated), so nothing is signed or added
			out.Classes = append(out.Classes, "selected-handler-cannot-generate")
			if runErr == nil {
				return out, vh.Errf("%s: the selected handler %d failed to generate, yet Run reported success", where, sel)
			}
			if ca.NCalls() != 0 || adds != 0 {
				return out, vh.Errf("%s: the selected handler %d (%s) produced no request, yet the CA received %d request(s) and the agent %d add(s)", where, sel, r.Handlers[sel], ca.NCalls(), adds)
			}
			for j, fh := range fakes {
				if fh != nil && j > sel && len(hlogEvents(hlog, fh.ID)) != 0 {
					return out, vh.Errf("%s: handler %d was used (%v) although handler %d, before it, had authenticated", where, j, hlogEvents(hlog, fh.ID), sel)
				}
			}
			for j, kind := range r.Handlers {
				if kind == "real" && j > sel && len(signs) > 0 {
					return out, vh.Errf("%s: the real handler at position %d was asked after handler %d had authenticated", where, j, sel)
				}
			}
			continue
		}
		// a handler authenticates: everything after is honest, so the run must succeed
		if runErr != nil {
			return out, vh.Errf("%s: handler %d (%s) authenticates but Run returned %s: %v", where, sel, r.Handlers[sel], vh.ErrKind(runErr), runErr)
		}
		for j, fh := range fakes {
			if fh == nil {
				continue
			}
			wantAuth, wantGen := 0, 0
			if j <= sel {
				wantAuth = 1
			}
			if j == sel {
				wantGen = 1
			}
			if count(fh.ID+".authenticate") != wantAuth || count(fh.ID+".generate") != wantGen {
				return out, vh.Errf("%s: handler %d (%s): %d authenticate / %d generate calls, expected %d / %d (selected handler %d)", where, j, r.Handlers[j], count(fh.ID+".authenticate"), count(fh.ID+".generate"), wantAuth, wantGen, sel)
			}
		}
		// the real handler is challenged only if it is at or before the selected position
		for j, kind := range r.Handlers {
			if kind == "real" && j > sel && len(signs) > 0 {
				return out, vh.Errf("%s: the real handler at position %d was asked after handler %d had authenticated", where, j, sel)
			}
		}
		if ca.NCalls() != 1 {
			return out, vh.Errf("%s: the CA received %d requests, expected 1", where, ca.NCalls())
		}
		if r.Handlers[sel] == "real" {
			if adds < 2 {
				return out, vh.Errf("%s: the real handler authenticated but only %d identities were added", where, adds)
			}
			if !strings.Contains(ca.Calls[0].Req.KeyId, `"prins":["`+r.LogName+`"]`) {
				return out, vh.Errf("%s: the signing request is not the real handler's (KeyId %q)", where, ca.Calls[0].Req.KeyId)
			}
		} else {
			if adds != 0 {
				return out, vh.Errf("%s: %d identities were added although the real handler did not authenticate", where, adds)
			}
			if !strings.HasPrefix(ca.Calls[0].Req.KeyId, "verif h"+fmt.Sprint(sel)+" ") {
				return out, vh.Errf("%s: the signing request %q was not produced by the selected handler %d", where, ca.Calls[0].Req.KeyId, sel)
			}
		}
	}
	out.NonTrivial = adversarialWithKey || rejectBeforeAccept
	if sharedUses > 0 {
		out.Classes = append(out.Classes, "handler-object-reused")
	}
	if dirEdits > 0 {
		out.Classes = append(out.Classes, "directory-edited-between-runs")
	}
	return out, nil
}

func hlogEvents(l *vh.HandlerLog, id string) []string {
	var out []string
	for _, e := range l.Snapshot() {
		if strings.HasPrefix(e, id+".") {
			out = append(out, e)
		}
	}
	return out
}

func orDefault(name string) string {
	if name == "" {
		return "p256b"
	}
	return name
}

const rule = "histories of 1..4 runs of gensign.Run sharing one registered-key directory (a third of the later runs first replace, break or delete a '<name>.pub' / '<name>' file) and one scripted forwarded agent; in half of the histories every run uses the same regular.Handler object and forwarded connection, otherwise each run builds its own. A sixth of the histories keep the path to the real handler's challenge straight (alice's registered key held by an honest agent, matching namespace, the real handler alone) so that the other drawn dimensions meet an authentication that would otherwise succeed. In a quarter of the histories a second regular handler is built in the same process from another configuration (another key directory in which every login name is registered with a key the agent holds, another validity, other slots) right after each handler the runs use. In an eighth of the histories the process's entropy source (crypto/rand.Reader) hands out only 1..7 bytes per Read call, as an io.Reader may. Per run: login name (incl. names of other users, 'alice.pub', and 'Alice' / 'BOB' / 'caRol', which have no key file of their own), namespace policy NONS / NSOK and spellings that are neither (other letter case, a trailing blank, empty, a prefix, both joined), hardware-key flag (in half of the runs next to free-form extended attributes that spell 'hardkey' = false in various ways: the typed flag is the request), client-declared user / host different from the login name (short, or 55..3000 bytes long), parameters built directly or through NewReqParam, agent behaviour {honest, lacks the key, signs with another key, signs other data, replays a signature captured earlier in the history, garbage, empty signature, failure, closes the connection}, handler list of 1..4 entries (in a quarter of the runs all harness handlers report one and the same name - the real handler's or another -, as instances of one handler type do) with at most one real regular handler among accepting harness handlers and harness handlers rejecting with every kind of error (authentication, disabled, invalid parameters, unknown, panic-typed, untyped, typed errors without a wrapped cause) or panicking inside Authenticate, and accepting harness handlers whose Generate then fails (generation, configuration or untyped error); a tenth of the directly built parameter sets carry no client attributes at all. Directory: '<n>.pub' and bare '<n>' files holding any user's key (RSA, ECDSA, Ed25519, and the types nobody can answer for through the forwarded agent: security-key types (the honest agent does answer for the sk-ed25519 one, as a token would), a certificate line, DSA), both with different keys, unparsable, absent; a tenth of the key files hold 2..4 lines (keys of any of these kinds, unparsable lines), where a proof under any line's key counts as a proof under a registered key. Oracle: the harness sees every sign request and reply and decides itself (K.Verify over this run's challenge under the registered key) whether the real handler may authenticate; CA call or add-identity => the selected handler is the first in list order that authenticates, earlier ones asked once, later ones never; none => AllAuthFailed, no Generate, no CA call, no add; a handler that crashes while authenticating never counts as authenticated (error returned, no CA call, no add, no later handler used); the first handler that authenticates cannot generate => error, no CA call, no add, no later handler used; a handler authenticates (and generates) => the run succeeds with exactly one request from that handler; challenges are 64 bytes, filled and not mostly predictable text (fewer than 17 zero bytes, at least 36 different byte values: both fail for random bytes with a chance below 1e-14), only under the registered key, pairwise distinct over the history. Non-trivial: an adversarial agent while the key file exists, or a reject before an accept in a list of >= 2."

// TestC01Slow: a forwarded agent that takes seconds to answer the challenge (and then proves
// possession, refuses, or answers with another key), under a run deadline that is longer than that.
// Taking long is neither proof nor refusal: the same model applies.
func TestC01Slow(t *testing.T) {
	var cases []Case
	for _, agent := range []string{"honest", "nokey", "otherkey", "fail"} {
		for _, handlers := range [][]string{{"real", "reject"}, {"real", "accept"}, {"reject", "real", "reject", "accept"}, {"real"}} {
			for _, deadline := range []int{6000, 0} {
				cases = append(cases, Case{Dir: map[string]string{"alice.pub": "p256b"}, Held: []string{"p256b"},
					Runs: []RunSpec{{LogName: "alice", Policy: "NONS", ReqUser: "alice", ReqHost: "laptop", Via: "direct", Agent: agent, Handlers: handlers, StallMS: 3500, DeadlineMS: deadline}}})
			}
		}
	}
	// all of them side by side (each takes the stall time)
	type batch struct{ Cases []Case }
	vh.Enumerate(t, vh.Spec[batch]{Property: "C01", Name: "TestC01Slow", Exhaustive: true,
		Rule: "the forwarded agent answers the challenge only after 3.5 s - honestly with the registered key, without the key, with another key, with a failure - while the run's context carries a 6 s deadline or none; handler lists [real, reject], [real, accept], [reject, real, reject, accept], [real] (32 runs side by side). Oracle: TestC01Auth's, unchanged (a slow agent is neither proof nor refusal): CA call or add => the first handler that authenticates produced the request; a real handler whose agent did not prove possession is never the selected one",
		Exec: func(b batch) (vh.Outcome, error) {
			out := vh.Outcome{NonTrivial: true}
			errs := make([]error, len(b.Cases))
			var wg sync.WaitGroup
			for i, c := range b.Cases {
				i, c := i, c
				wg.Add(1)
				go func() { defer wg.Done(); _, errs[i] = exec(c) }()
			}
			wg.Wait()
			for _, e := range errs {
				if e != nil {
					return out, e
				}
			}
			return out, nil
		}}, []batch{{Cases: cases}})
}

func TestC01Auth(t *testing.T) {
	vh.Run(t, vh.Spec[Case]{Property: "C01", Name: "TestC01Auth", Rule: rule, Gen: gen, Exec: exec})
}
