package c03

// TestC03Replay: the same request is provisioned again through the same agent key (a retry after a
// failure, or a repeated request) and the CA answers with the very certificates it issued before.
// The second run is a run like any other: after it the agent holds every certificate of its reply.

import (
	"context"
	"fmt"
	"strings"
	"testing"

	"github.com/theparanoids/ysshra/gensign"
	"github.com/theparanoids/ysshra/zzverif/vh"
	"golang.org/x/crypto/ssh/agent"
	"pgregory.net/rapid"
)

type ReplayCase struct {
	NCerts   int
	NReqs    int
	Comments []string
	// FirstFails: the first run fails because the agent refuses the FailAt-th certificate insertion (then
	// the retry is the recovery), otherwise the first run succeeds and the second is a plain repetition
	FirstFails bool
	FailAt     int
	Runs       int // 2..4 runs in all
}

func execReplay(c ReplayCase) (vh.Outcome, error) {
	out := vh.Outcome{NonTrivial: true, Classes: []string{fmt.Sprintf("first-fails=%v", c.FirstFails)}}
	p, err := vh.NewProxy()
	if err != nil {
		return out, nil
	}
	defer p.Close()
	_ = p.Ring().Add(agent.AddedKey{PrivateKey: vh.Key("p256b"), Comment: "long-term key"})
	conn, err := vh.DialProxy(p)
	if err != nil {
		return out, nil
	}
	defer conn.Close()
	h := &vh.FakeHandler{ID: "r0", Accept: true, Log: &vh.HandlerLog{}, Agent: agent.NewClient(conn), NKeys: 1, NReqs: c.NReqs, ReuseKeys: true}
	ca := &vh.FakeCA{Default: vh.CABehaviour{NCerts: c.NCerts, Comments: c.Comments}, Replay: true}
	param, _ := vh.BuildParam(vh.ParamSpec{LogName: "alice", Policy: "NONS", ReqUser: "alice", ReqHost: "laptop", ClientIP: "172.17.0.1", TransID: "00000000aa"})
	for run := 0; run < c.Runs; run++ {
		where := fmt.Sprintf("run %d of %d on one agent key (%d request(s) x %d certificate(s), the CA replays its earlier answer)", run+1, c.Runs, c.NReqs, c.NCerts)
		if run == 0 && c.FirstFails {
			p.SetPlan([]vh.FaultRule{{Index: -1, Code: vh.CodeAddConstrained, Kind: "fail", Remaining: 1, Skip: 1 + c.FailAt}})
		} else {
			p.SetPlan(nil)
		}
		callsBefore := ca.NCalls()
		var runErr error
		if perr := vh.Catch(func() { runErr = gensign.Run(context.Background(), param, []gensign.Handler{h}, ca) }); perr != nil {
			return out, vh.Errf("%s: Run crashed: %v", where, perr)
		}
		if runErr != nil {
			if run == 0 && c.FirstFails {
				continue // the injected refusal: a failed run, judged by C04
			}
			return out, vh.Errf("%s: failed without a fault: %v", where, runErr)
		}
		// success: every certificate of this run's replies is in the agent
		held := map[string]bool{}
		for _, k := range p.RingKeys() {
			held[string(k.Blob)] = true
		}
		returned := 0
		for _, call := range ca.Calls[callsBefore:] {
			for _, ct := range call.Certs {
				returned++
				if !held[string(ct.Marshal())] {
					return out, vh.Errf("%s: Run reported success but certificate serial %d of the CA's reply is not in the agent (%d identities there: %s)", where, ct.Serial, len(held), describeRing(p))
				}
			}
		}
		if returned == 0 {
			return out, vh.Errf("%s: Run reported success but the CA returned nothing", where)
		}
	}
	return out, nil
}

func describeRing(p *vh.Proxy) string {
	var parts []string
	for _, k := range p.RingKeys() {
		parts = append(parts, k.Format+" "+k.Comment)
	}
	return strings.Join(parts, "; ")
}

func TestC03Replay(t *testing.T) {
	vh.Run(t, vh.Spec[ReplayCase]{Property: "C03", Name: "TestC03Replay",
		Rule: "2..4 runs through ONE agent key (the repository's AgentKey, 1..2 signing requests, 1..3 certificates per reply with 0..n comments) against a CA that answers a repeated request with the very certificates it issued before; the first run either succeeds (then the others are plain repetitions) or fails because the agent refuses one certificate insertion (then the second is the retry). Oracle: every run that reports success leaves every certificate of its replies in the agent. Non-trivial: every case.",
		Gen: func(t *rapid.T) ReplayCase {
			c := ReplayCase{NCerts: rapid.IntRange(1, 3).Draw(t, "ncerts"), NReqs: rapid.IntRange(1, 2).Draw(t, "nreqs"), FirstFails: rapid.Bool().Draw(t, "firstFails"), Runs: rapid.IntRange(2, 4).Draw(t, "runs")}
			c.FailAt = rapid.IntRange(0, c.NCerts*c.NReqs-1).Draw(t, "failAt")
			for i, n := 0, rapid.IntRange(0, c.NCerts).Draw(t, "ncomments"); i < n; i++ {
				c.Comments = append(c.Comments, rapid.SampledFrom([]string{"", "TouchlessSSH", "ca-comment"}).Draw(t, fmt.Sprintf("c%d", i)))
			}
			return c
		}, Exec: execReplay})
}
