// C03 — provisioned credentials are usable, key-bound, ephemeral and non-destructive.
package c03

import (
	"math/bits"
	"runtime"
	"time"
	"bytes"
	"context"
	"crypto/rand"
	"fmt"
	"os"
	"path/filepath"
	"sort"
	"testing"

	"github.com/theparanoids/ysshra/gensign"
	"github.com/theparanoids/ysshra/gensign/regular"
	"github.com/theparanoids/ysshra/zzverif/vh"
	"golang.org/x/crypto/ssh"
	"golang.org/x/crypto/ssh/agent"
	"pgregory.net/rapid"
)

type Pre struct {
	Cert    bool
	Key     string
	Comment string
	// KID (certificates): "" = a free-text key identifier; otherwise a key identifier in the RA's own format, as
	// another deployment or another handler of this RA writes it: "regular" (the attribute combination the
	// regular handler itself requests, for alice or for someone else), "hw", "ff", "nonce", "sshonly"
	KID string `json:",omitempty"`
}

func preKeyID(kind string, i int) string {
	a := vh.KeyIDAttrs{Prins: []string{"alice"}, TransID: fmt.Sprintf("%010x", 9000+i), ReqUser: "alice", ReqIP: "172.17.0.1", ReqHost: "laptop", Touch: 1, Version: 1}
	switch kind {
	case "":
		return fmt.Sprintf("foreign certificate %d", i)
	case "regular-other":
		a.Prins, a.ReqUser, a.ReqHost = []string{"someone"}, "someone", "staging.example.com"
	case "hw":
		a.HW = true
	case "ff":
		a.FF, a.Touch = true, 0
	case "nonce":
		a.Nonce = true
	case "sshonly":
		a.Usage = 1
	}
	return a.Text()
}

type RunSpec struct {
	// Outcome: cadelay (the caller's context ends after 150 ms, the CA answers - successfully - after 450 ms:
	// the run is a late success or a failure, and a failure must stay one) | ok | noauth | noslot | caerr | addfail (the agent refuses the first certificate insertion once;
	// the private key insertion before it passes) | removefail (the agent refuses the first removal request of the run,
	// keeping the identity; without an earlier generation no removal is requested and the run is an ordinary one)
	Outcome  string
	NCerts   int
	Comments []string
	Validity uint64
	// KeyLabel: the handler's "key_label" configuration option ("" = left out)
	KeyLabel string
	// Multi: 0 = the real regular handler (one request); 2..3 = a harness handler whose single agent
	// key (the repository's AgentKey) carries that many signing requests
	Multi int
	// KeyAlgo / PrivLabel (Multi runs): the agent key's algorithm (0 = default, else key.PublicKeyAlgo+1:
	// RSA2048, RSA4096, P-256, P-384, P-521, Ed25519) and private-key label
	KeyAlgo   int
	PrivLabel string
	// Window: the validity window the CA stamps (see vh.CABehaviour.Window)
	Window string
	// PlainAt: the CA's reply carries a plain public key (its own key line) as PlainAt-th entry (0 = none)
	PlainAt int `json:",omitempty"`
	// Login: the login name of the run ("" = alice; alice-admin and root are registered with the same key)
	Login string `json:",omitempty"`
	// Reuse: run with the real handler object (and forwarded connection) built by the latest earlier run
	// of the real handler, whose configuration (validity, key slots) then applies.
	Reuse bool
}

type Case struct {
	Pre  []Pre
	Runs []RunSpec
	// ListOrder: the order in which the agent lists its identities ("" = insertion order | reverse | bycomment)
	ListOrder string `json:",omitempty"`
}

var nearMiss = []string{"", "private-key", "certificate", "Paranoids.Regular-cert", "PARANOIDS.REGULAR", "paranoids.regula", "paranoids-regular-cert", "paranoids regular", "aranoids.regular", "regular", "paranoids.Regular", "user_a@laptop", "é 日本"}

func gen(t *rapid.T) Case {
	c := Case{}
	np := rapid.IntRange(0, 5).Draw(t, "npre")
	for i := 0; i < np; i++ {
		c.Pre = append(c.Pre, Pre{
			Cert:    rapid.Bool().Draw(t, fmt.Sprintf("preCert%d", i)),
			Key:     rapid.SampledFrom([]string{"rsa1536", "p256c", "ed25519c", "p521a", "p384a"}).Draw(t, fmt.Sprintf("preKey%d", i)),
			Comment: rapid.SampledFrom(nearMiss).Draw(t, fmt.Sprintf("preComment%d", i)),
			KID:     rapid.SampledFrom([]string{"", "", "", "regular", "regular-other", "hw", "ff", "nonce", "sshonly"}).Draw(t, fmt.Sprintf("preKID%d", i)),
		})
		if !c.Pre[i].Cert {
			c.Pre[i].KID = ""
		}
	}
	c.ListOrder = rapid.SampledFrom([]string{"", "", "", "reverse", "bycomment"}).Draw(t, "listOrder")
	nr := rapid.IntRange(1, 6).Draw(t, "nruns")
	for i := 0; i < nr; i++ {
		l := fmt.Sprintf("run%d", i)
		r := RunSpec{
			Outcome:  rapid.SampledFrom([]string{"ok", "ok", "ok", "ok", "noauth", "noslot", "caerr", "removefail", "addfail"}).Draw(t, l+"Outcome"),
			NCerts:   rapid.IntRange(1, 3).Draw(t, l+"NCerts"),
			Validity: rapid.SampledFrom([]uint64{1, 2, 3599, 3600, 43200, 1 << 31, 315360000, 0}).Draw(t, l+"Validity"),
		}
		if rapid.IntRange(0, 30).Draw(t, l+"ManyCerts") == 14 {
			r.NCerts = rapid.SampledFrom([]int{8, 16, 20}).Draw(t, l+"NCertsMany") // nothing bounds the number of certificates in a reply
		}
		r.Login = rapid.SampledFrom([]string{"", "", "", "alice-admin", "root"}).Draw(t, l+"Login")
		r.KeyLabel = rapid.SampledFrom([]string{"", "", "", "regular", "prod-east", "paranoids.regular", "my label", "x", "paranoids"}).Draw(t, l+"KeyLabel")
		if r.Validity == 0 {
			r.Validity = rapid.Uint64Range(1, 315360000).Draw(t, l+"ValidityAny")
		}
		if rapid.IntRange(0, 31).Draw(t, l+"SlowCA") == 0x0b { // rare: each such run takes half a second
			r.Outcome = "cadelay"
		}
		if rapid.IntRange(0, 3).Draw(t, l+"IsMulti") == 0 {
			r.Multi = rapid.IntRange(2, 3).Draw(t, l+"Multi")
			r.KeyAlgo = rapid.SampledFrom([]int{0, 0, 1, 3, 4, 5, 6, 6}).Draw(t, l+"KeyAlgo")
			if rapid.IntRange(0, 40).Draw(t, l+"RSA4096") == 17 {
				r.KeyAlgo = 2
			}
			r.PrivLabel = rapid.SampledFrom([]string{"", "", "private-key", "verif-key", "paranoids.regular-key", "é"}).Draw(t, l+"PrivLabel")
			if r.Outcome == "noslot" {
				r.Outcome = "caerr"
			}
		}
		if i > 0 && r.Multi == 0 && r.Outcome != "noslot" {
			r.Reuse = rapid.IntRange(0, 2).Draw(t, l+"Reuse") == 0
		}
		if rapid.IntRange(0, 5).Draw(t, l+"HasPlain") == 2 {
			r.PlainAt = rapid.IntRange(1, r.NCerts+1).Draw(t, l+"PlainAt")
		}
		r.Window = rapid.SampledFrom([]string{"", "", "", "forever", "ahead", "huge", "shortfirst", "shortfirst"}).Draw(t, l+"Window")
		nc := rapid.IntRange(0, r.NCerts+1).Draw(t, l+"NComments")
		for j := 0; j < nc; j++ {
			r.Comments = append(r.Comments, rapid.SampledFrom([]string{"", "TouchlessSSH", "ca-comment", "paranoids.regular"}).Draw(t, fmt.Sprintf("%sC%d", l, j)))
		}
		c.Runs = append(c.Runs, r)
	}
	return c
}

type entry struct {
	blob, comment string
	isCert        bool
}

func ringEntries(p *vh.Proxy) []entry {
	var out []entry
	for _, k := range p.RingKeys() {
		e := entry{blob: string(k.Blob), comment: k.Comment}
		if pk, err := ssh.ParsePublicKey(k.Blob); err == nil {
			_, e.isCert = pk.(*ssh.Certificate)
		}
		out = append(out, e)
	}
	return out
}

func certSet(es []entry) []string {
	var out []string
	for _, e := range es {
		if e.isCert {
			out = append(out, e.blob)
		}
	}
	sort.Strings(out)
	return out
}

func has(es []entry, blob string) (entry, bool) {
	for _, e := range es {
		if e.blob == blob {
			return e, true
		}
	}
	return entry{}, false
}

func exec(c Case) (vh.Outcome, error) {
	out := vh.Outcome{}
	p, err := vh.NewProxy()
	if err != nil {
		return out, nil
	}
	defer p.Close()
	p.ListOrder = c.ListOrder
	if c.ListOrder != "" {
		out.Classes = append(out.Classes, "list-order="+c.ListOrder)
	}
	dir, err := os.MkdirTemp("", "vkeys")
	if err != nil {
		return out, nil
	}
	defer os.RemoveAll(dir)
	os.WriteFile(filepath.Join(dir, "alice.pub"), vh.AuthorizedLine("p256b", "alice"), 0o644)
	// the same person's other accounts (same registered key): runs for different login names share the agent
	os.WriteFile(filepath.Join(dir, "alice-admin.pub"), vh.AuthorizedLine("p256b", "alice-admin"), 0o644)
	os.WriteFile(filepath.Join(dir, "root.pub"), vh.AuthorizedLine("p256b", "root"), 0o644)
	_ = p.Ring().Add(agent.AddedKey{PrivateKey: vh.Key("p256b"), Comment: "long-term key"})
	// pre-existing identities
	for i, pre := range c.Pre {
		ak := agent.AddedKey{PrivateKey: vh.Key(pre.Key), Comment: pre.Comment}
		if pre.Cert {
			ak.Certificate = vh.MakeSSHCert(vh.SSHCertSpec{Key: pre.Key, KeyID: preKeyID(pre.KID, i), ValidAfter: 0, ValidBefore: ssh.CertTimeInfinity, Serial: uint64(500 + i), Principals: []string{"someone"}})
		}
		_ = p.Ring().Add(ak)
	}
	foreign := ringEntries(p)
	addsBase := len(p.Adds())

	provisioned := map[string][]string{} // per handler: certificates of its last successful run
	successes, failAfterSuccess := 0, false
	var lastReal gensign.Handler
	var lastValidity uint64
	var lastConn interface{ Close() error }
	reused := 0
	defer func() {
		if lastConn != nil {
			lastConn.Close()
		}
	}()
	for ri, r := range c.Runs {
		where := fmt.Sprintf("run %d (%s, %d certs, comments %q, validity %d)", ri, r.Outcome, r.NCerts, r.Comments, r.Validity)
		out.Classes = append(out.Classes, "outcome="+r.Outcome)
		ids := map[string]string{"default": "ssh-user-key"}
		if r.Outcome == "noslot" {
			ids = map[string]string{"rsa": "other"}
		}
		conf, cerr := vh.WriteGensignConfig(dir, vh.HandlerConf{PubKeyDir: dir, ValiditySec: r.Validity, KeyIdentifiers: ids, KeyLabel: r.KeyLabel})
		if cerr != nil {
			return out, vh.Errf("%s: configuration did not load: %v", where, cerr)
		}
		ca := &vh.FakeCA{Default: vh.CABehaviour{NCerts: r.NCerts, Comments: r.Comments, Window: r.Window, PlainAt: r.PlainAt}}
		if r.Outcome == "cadelay" {
			ca.Default.DelayMS = 450
		}
		if r.Outcome == "caerr" {
			ca.Default = vh.CABehaviour{Err: "verif: the CA is down"}
			if r.Multi > 0 {
				// the CA signs the earlier requests of the key and fails on the last one
				ca.Script = nil
				for j := 0; j < r.Multi-1; j++ {
					ca.Script = append(ca.Script, vh.CABehaviour{NCerts: r.NCerts, Comments: r.Comments, Window: r.Window, PlainAt: r.PlainAt})
				}
				ca.Script = append(ca.Script, vh.CABehaviour{Err: "verif: the CA is down"})
			}
		}
		if r.Outcome == "noauth" {
			p.SetPlan([]vh.FaultRule{{Index: -1, Code: vh.CodeSign, Kind: "fail", Remaining: 1}})
		} else if r.Outcome == "addfail" {
			p.SetPlan([]vh.FaultRule{{Index: -1, Code: vh.CodeAddConstrained, Kind: "fail", Remaining: 1, Skip: 1}})
		} else if r.Outcome == "removefail" {
			p.SetPlan([]vh.FaultRule{{Index: -1, Code: vh.CodeRemove, Kind: "fail", Remaining: 1}})
		} else {
			p.SetPlan(nil)
		}
		reuse := r.Reuse && r.Multi == 0 && lastReal != nil
		conn, derr := vh.DialProxy(p)
		if derr != nil {
			return out, nil
		}
		var h gensign.Handler
		hname := "real"
		if reuse {
			r.Validity = lastValidity
			reused++
		}
		checkValidity := r.Validity
		if r.Multi > 0 {
			hname, checkValidity = "multi", 3600
			fh := &vh.FakeHandler{ID: "m0", Accept: r.Outcome != "noauth", Log: &vh.HandlerLog{}, Agent: agent.NewClient(conn), NKeys: 1, NReqs: r.Multi, KeyAlgo: r.KeyAlgo, PrivLabel: r.PrivLabel}
			h = fh
		} else if reuse {
			h = lastReal
		} else {
			rh, herr := regular.NewHandler(conf, conn)
			if herr != nil {
				conn.Close()
				return out, vh.Errf("%s: NewHandler: %v", where, herr)
			}
			h = rh
			if r.Outcome != "noslot" {
				if lastConn != nil {
					lastConn.Close()
				}
				lastReal, lastValidity, lastConn = rh, r.Validity, conn
			}
		}
		login := r.Login
		if login == "" {
			login = "alice"
		}
		param, _ := vh.BuildParam(vh.ParamSpec{LogName: login, Policy: "NONS", ReqUser: "alice", ReqHost: "laptop", ClientIP: "172.17.0.1", TransID: fmt.Sprintf("%010x", ri)})
		before := ringEntries(p)
		addsBefore := len(p.Adds())
		framesBefore := p.NumFrames()
		_ = checkValidity
		var runErr error
		runCtx, runCancel := context.Background(), func() {}
		if r.Outcome == "cadelay" {
			runCtx, runCancel = context.WithTimeout(context.Background(), 150*time.Millisecond)
		}
		var m0, m1 runtime.MemStats
		runtime.ReadMemStats(&m0)
		cr := vh.Catch(func() { runErr = gensign.Run(runCtx, param, []gensign.Handler{h}, ca) })
		runCancel()
		runtime.ReadMemStats(&m1)
		// handing n certificates with short comments to the agent is a linear job of a few hundred KiB
		// (plus key generation); a run whose memory use grows faster than that cannot succeed for replies a
		// little larger ("every number of certificates and comments")
		nReplies := r.NCerts
		if r.Multi > 0 {
			nReplies *= r.Multi
		}
		if used := (m1.TotalAlloc - m0.TotalAlloc) >> 20; used > 16 {
			out.Classes = append(out.Classes, fmt.Sprintf("run-allocated>%dMiB", 16<<(bits.Len64(used/16)-1)))
		}
		if used, budget := (m1.TotalAlloc-m0.TotalAlloc)>>20, uint64(64+nReplies); used > budget {
			return out, vh.Errf("%s: the run allocated %d MiB for %d certificate(s) with %d comment(s) (budget %d MiB: 64 MiB for key generation and the run itself plus 1 MiB per certificate): memory use is not linear in the CA's reply", where, used, nReplies, len(r.Comments), budget)
		}
		if r.Outcome == "cadelay" {
			if runErr == nil {
				r.Outcome = "ok" // the run waited for the CA: a late, ordinary success
			} else {
				// the run gave up; whatever it left running must not touch the agent afterwards
				time.Sleep(700 * time.Millisecond)
				out.Classes = append(out.Classes, "gave-up-on-a-slow-CA")
			}
		}
		if lastConn != interface{ Close() error }(conn) {
			conn.Close()
		}
		p.SetPlan(nil)
		if cr != nil {
			return out, vh.Errf("%s: Run crashed: %v", where, cr)
		}
		after := ringEntries(p)
		adds := p.Adds()[addsBefore:]

		// foreign identities are never removed or altered
		for _, f := range foreign {
			e, ok := has(after, f.blob)
			if !ok {
				return out, vh.Errf("%s: a pre-existing identity with comment %q (certificate: %v) was removed", where, f.comment, f.isCert)
			}
			if e.comment != f.comment {
				return out, vh.Errf("%s: the comment of a pre-existing identity changed from %q to %q", where, f.comment, e.comment)
			}
		}
		// every identity the RA added carries a finite lifetime not shorter than the validity
		for _, a := range adds {
			// the validity that counts is the certificate's own window where it is shorter than the configured one
			need := checkValidity
			if a.Certificate != nil && a.Certificate.ValidBefore > a.Certificate.ValidAfter {
				w := a.Certificate.ValidBefore - uint64(time.Now().Unix())
				if a.Certificate.ValidBefore < 1<<62 && w < need {
					need = w
				}
				// a CA that stamps exactly the window it was asked for: the certificate's remaining validity is what
				// the RA itself requested, so the lifetime covers it whatever the configuration says
				if r.Window == "" && a.Certificate.ValidBefore < 1<<62 && w > need {
					need = w
				}
			}
			if a.LifetimeSecs == 0 || uint64(a.LifetimeSecs) < need {
				return out, vh.Errf("%s: an identity (comment %q, certificate: %v) was added with agent lifetime %d s for a validity of %d s", where, a.Comment, a.Certificate != nil, a.LifetimeSecs, need)
			}
		}
		if r.Outcome == "removefail" {
			refused := false
			for _, fr := range p.Frames() {
				if fr.Index >= framesBefore && fr.Fault != "" {
					refused = true
				}
			}
			if !refused {
				r.Outcome = "ok" // nothing had to be removed: an ordinary run
			} else {
				out.Classes = append(out.Classes, "removal-refused-by-agent")
			}
		}
		if r.Outcome != "ok" {
			if runErr == nil {
				return out, vh.Errf("%s: Run succeeded", where)
			}
			if successes > 0 {
				failAfterSuccess = true
			}
			if r.Outcome == "addfail" {
				// the previous generation is already gone when an insertion is refused; the statement only
				// covers failures before or during signing. What is checked above still holds: nothing
				// the RA did insert lacks its lifetime.
				provisioned[hname] = nil
				continue
			}
			if !equal(certSet(before), certSet(after)) {
				return out, vh.Errf("%s: the run failed (%s) but the certificates in the agent changed: %d -> %d", where, vh.ErrKind(runErr), len(certSet(before)), len(certSet(after)))
			}
			continue
		}
		if runErr != nil {
			return out, vh.Errf("%s: Run failed: %v", where, runErr)
		}
		successes++
		wantCalls := 1
		if r.Multi > 0 {
			wantCalls = r.Multi
		}
		if ca.NCalls() != wantCalls {
			return out, vh.Errf("%s: %d CA calls, expected %d", where, ca.NCalls(), wantCalls)
		}
		reqPub, _, _, _, _ := ssh.ParseAuthorizedKey([]byte(ca.Calls[0].Req.PublicKey))
		if _, ok := has(after, string(reqPub.Marshal())); !ok {
			return out, vh.Errf("%s: the new private key is not in the agent", where)
		}
		var allCerts []*ssh.Certificate
		for _, call := range ca.Calls {
			allCerts = append(allCerts, call.Certs...)
		}
		var now []string
		for j, cert := range allCerts {
			blob := string(cert.Marshal())
			now = append(now, blob)
			if _, ok := has(after, blob); !ok {
				return out, vh.Errf("%s: certificate %d of %d returned by the CA is not in the agent", where, j, r.NCerts)
			}
			data := []byte(fmt.Sprintf("sign with certificate %d of run %d", j, ri))
			sig, serr := p.Ring().Sign(cert, data)
			if serr != nil {
				return out, vh.Errf("%s: the agent cannot sign with certificate %d (stored without its private key?): %v", where, j, serr)
			}
			if verr := cert.Key.Verify(data, sig); verr != nil {
				return out, vh.Errf("%s: signature made with certificate %d does not verify under its key: %v", where, j, verr)
			}
		}
		// certificates of the previous generation are gone
		for _, old := range provisioned[hname] {
			if _, ok := has(after, old); ok {
				return out, vh.Errf("%s: a certificate provisioned by an earlier run is still in the agent (more than one generation)", where)
			}
		}
		// nothing else appeared: certificates in the agent = foreign certificates + this generation
		wantCerts := append(certSet(foreign), now...)
		for other, certs := range provisioned {
			if other != hname {
				wantCerts = append(wantCerts, certs...)
			}
		}
		sort.Strings(wantCerts)
		if !equal(wantCerts, certSet(after)) {
			return out, vh.Errf("%s: the agent holds %d certificates, expected %d (foreign + this run's)", where, len(certSet(after)), len(wantCerts))
		}
		provisioned[hname] = now
	}
	_ = addsBase
	_ = rand.Reader
	_ = bytes.Equal
	if reused > 0 {
		out.Classes = append(out.Classes, "handler-object-reused")
	}
	out.NonTrivial = (successes >= 2 || failAfterSuccess) && len(c.Pre) >= 1
	return out, nil
}

func equal(a, b []string) bool {
	if len(a) != len(b) {
		return false
	}
	for i := range a {
		if a[i] != b[i] {
			return false
		}
	}
	return true
}

const rule = "histories against one recording keyring agent (which lists its identities in insertion order, newest first, or sorted by comment: the protocol promises no order): 0..5 pre-existing identities (plain RSA / ECDSA / Ed25519 keys and foreign certificates whose comments are near-misses of the handler label: other case, truncation, '-' for '.', missing first letter, 'private-key', empty, non-ASCII; comments containing the exact handler name are not generated; two thirds of the foreign certificates carry a key identifier in the RA's own format - the regular handler's attribute combination for the same or another user, or hardware / firefighter / nonce / SSH-only ones -, as another deployment would issue), then 1..6 runs (for the login name alice or, two runs in five, for another account registered with the same key) - of the real handler (a third of the later ones through the handler object and forwarded connection an earlier run built, class handler-object-reused), or (a quarter) of a harness handler whose one agent key (the repository's AgentKey) carries 2..3 signing requests, with the key-pair algorithm (default, RSA-2048, rarely RSA-4096, P-256 / 384 / 521, Ed25519) and the private-key label drawn - each succeeding or failing {agent refuses the challenge / handler rejects, no key slot configured, CA error - for several requests: on the last one, after the earlier ones were signed -, the agent refusing to remove an identity of the previous generation, the agent refusing one certificate insertion, a CA that answers 300 ms after the caller's context ended (late success, or a failure after which the agent is looked at 700 ms later)}, the CA returning 1..3 (one run in 30: 8 / 16 / 20) certificates (validity window as requested, or without expiry, or valid until 2^63 s, or stamped by a CA clock 90 s ahead, or the first certificate of a reply valid for 5 minutes only; a sixth of the replies also carry a plain public key - the CA's own key line - in front of, between or behind the certificates) with 0..n+1 comments (present / empty / containing the handler name), validity from {1, 2, 3599, 3600, 43200, 2^31, 315360000} or random in 1 s..10 y, the handler's 'key_label' option left out or set (the default, another text, the handler name, a text with a space). Oracle after a successful run: the new private key and every returned certificate are listed, signing with each certificate yields a signature verifying under its key, every AddedKey the agent received has 0 < lifetime and lifetime >= validity (the configured one, and - when the CA stamps exactly the requested window - the remaining validity of the certificate it carries), the run allocated no more than 64 MiB + 1 MiB per returned certificate, certificates of the earlier generation are absent, the certificate set is exactly foreign + this generation, every pre-existing identity is present with identical blob and comment; after a failing run the certificate set is unchanged. Non-trivial: >= 2 successful runs or a failure after a success, with >= 1 pre-existing identity."

func TestC03Provision(t *testing.T) {
	vh.Run(t, vh.Spec[Case]{Property: "C03", Name: "TestC03Provision", Rule: rule, Gen: gen, Exec: exec})
}
