package c15

// TestC15Concurrent: the message codec is a pure function of its input also when several callers use
// it at once: the round-trip and text oracles of the sequential checks applied from 2..16 goroutines.

import (
	"fmt"
	"testing"

	"github.com/theparanoids/ysshra/zzverif/vh"
	"pgregory.net/rapid"
)

type ConcCase struct {
	JSON       []AttrCase
	Legacy     []AttrCase
	Texts      []JSONTextCase
	Goroutines int
	Rounds     int
}

func TestC15Concurrent(t *testing.T) {
	vh.Run(t, vh.Spec[ConcCase]{Property: "C15", Name: "TestC15Concurrent",
		Rule: "2..12 attribute sets for the JSON format, 0..6 for the legacy format and 0..6 JSON texts (the generators of the sequential checks: acceptable and refused ones mixed), encoded / decoded 20..100 times each by 2..16 goroutines at the same moment. Oracle: the sequential oracles, unchanged, for every call (inputs they reject when used alone are left to the sequential checks). Non-trivial: >= 2 goroutines and >= 3 inputs.",
		Gen: func(t *rapid.T) ConcCase {
			c := ConcCase{Goroutines: rapid.SampledFrom([]int{2, 4, 8, 16}).Draw(t, "goroutines"), Rounds: rapid.SampledFrom([]int{20, 50, 100}).Draw(t, "rounds")}
			for i, n := 0, rapid.IntRange(2, 12).Draw(t, "njson"); i < n; i++ {
				c.JSON = append(c.JSON, genJSONCase(t))
			}
			for i, n := 0, rapid.IntRange(0, 6).Draw(t, "nlegacy"); i < n; i++ {
				c.Legacy = append(c.Legacy, genLegacyCase(t))
			}
			for i, n := 0, rapid.IntRange(0, 6).Draw(t, "ntext"); i < n; i++ {
				c.Texts = append(c.Texts, genJSONText(t))
			}
			return c
		},
		Exec: func(c ConcCase) (vh.Outcome, error) {
			n := len(c.JSON) + len(c.Legacy) + len(c.Texts)
			out := vh.Outcome{NonTrivial: c.Goroutines >= 2 && n >= 3, Classes: []string{fmt.Sprintf("goroutines=%d", c.Goroutines)}}
			judged, err := vh.Concurrently(c.Goroutines, c.Rounds, n, func(i int) error {
				var e error
				switch {
				case i < len(c.JSON):
					_, e = execJSON(c.JSON[i])
				case i < len(c.JSON)+len(c.Legacy):
					_, e = execLegacy(c.Legacy[i-len(c.JSON)])
				default:
					_, e = checkUnmarshalText(c.Texts[i-len(c.JSON)-len(c.Legacy)].Text)
				}
				return e
			})
			if !judged {
				out.NonTrivial = false
			}
			return out, err
		}})
}
