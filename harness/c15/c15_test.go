// C15 — client request messages round-trip through both wire formats.
package c15

import (
	"math"
	"crypto/x509"
	"encoding/json"
	"fmt"
	"reflect"
	"strconv"
	"strings"
	"testing"

	"github.com/theparanoids/ysshra/message"
	"github.com/theparanoids/ysshra/zzverif/vh"
	"pgregory.net/rapid"
)

type TS struct {
	IsFirefighter bool
	Hosts         string
	Time          int64
}

type AttrCase struct {
	IfVer            int
	Username         string
	Hostname         string
	SSHClientVersion string
	CAPubKeyAlgo     int
	SignatureAlgo    int
	HardKey          bool
	Touch2SSH        bool
	TS               *TS            `json:",omitempty"`
	Exts             map[string]any `json:",omitempty"`
	ExtsEmpty        bool
	// Unencodable: an extension value JSON cannot express is put under this key path ("" = none):
	// nan | inf | chan | func, at the top level or nested one level down
	Unencodable       string
	UnencodableNested bool
}

func (c AttrCase) attrs() *message.Attributes {
	a := &message.Attributes{
		IfVer: c.IfVer, Username: c.Username, Hostname: c.Hostname, SSHClientVersion: c.SSHClientVersion,
		CAPubKeyAlgo: x509.PublicKeyAlgorithm(c.CAPubKeyAlgo), SignatureAlgo: x509.SignatureAlgorithm(c.SignatureAlgo),
		HardKey: c.HardKey, Touch2SSH: c.Touch2SSH,
	}
	if c.TS != nil {
		a.TouchlessSudo = &message.TouchlessSudo{IsFirefighter: c.TS.IsFirefighter, Hosts: c.TS.Hosts, Time: c.TS.Time}
	}
	if c.Exts != nil {
		a.Exts = deepCopy(c.Exts).(map[string]any)
	} else if c.ExtsEmpty {
		a.Exts = map[string]any{}
	}
	if c.Unencodable != "" {
		var v any
		switch c.Unencodable {
		case "nan":
			v = math.NaN()
		case "inf":
			v = math.Inf(-1)
		case "chan":
			v = unencodableChan
		default:
			v = unencodableFunc
		}
		if a.Exts == nil {
			a.Exts = map[string]any{}
		}
		if c.UnencodableNested {
			a.Exts["nested"] = map[string]any{"deep": []any{"x", v}}
		} else {
			a.Exts["odd"] = v
		}
	}
	return a
}

var (
	unencodableChan = make(chan int)
	unencodableFunc = func() {}
)

func deepCopy(v any) any {
	switch x := v.(type) {
	case map[string]any:
		m := map[string]any{}
		for k, e := range x {
			m[k] = deepCopy(e)
		}
		return m
	case []any:
		l := make([]any, len(x))
		for i, e := range x {
			l[i] = deepCopy(e)
		}
		return l
	default:
		return v
	}
}

func (c AttrCase) requiredPresent() bool {
	return c.Username != "" && c.Hostname != "" && c.SSHClientVersion != ""
}

func genTS(t *rapid.T, plain bool) *TS {
	switch rapid.IntRange(0, 3).Draw(t, "tsKind") {
	case 0:
		return nil
	case 1:
		return &TS{}
	}
	ts := &TS{IsFirefighter: rapid.Bool().Draw(t, "tsFF")}
	if rapid.Bool().Draw(t, "tsHasHosts") {
		if rapid.IntRange(0, 2).Draw(t, "tsHostList") == 1 {
			// host lists as clients write them: several entries, repeated ones, other letter case, empty entries, a final comma
			ts.Hosts = rapid.SampledFrom([]string{"host01,host02,host03", "host01,host02,host01", "Host01,host01", "a,,b,,a", "a,a", "*,*", "h1,h2,", ",h1", "H1.example.com,h1.example.com,h1.example.com.", "b,a,c,a,b"}).Draw(t, "tsHostListValue")
		} else if plain {
			ts.Hosts = vh.GenPlainToken(t, "tsHosts")
		} else {
			ts.Hosts = vh.GenAnyString(t, "tsHosts")
		}
	}
	if rapid.Bool().Draw(t, "tsHasTime") {
		ts.Time = rapid.SampledFrom([]int64{0, 1, 30, -5, 1 << 40, -(1 << 62), 1<<63 - 1}).Draw(t, "tsTime")
	}
	return ts
}

func genRequired(t *rapid.T, plain bool, label string) string {
	if rapid.IntRange(0, 11).Draw(t, label+"Empty") == 0 {
		return ""
	}
	if plain {
		return vh.GenPlainToken(t, label)
	}
	return vh.GenAnyString(t, label)
}

// ---------- JSON format ----------

func genJSONCase(t *rapid.T) AttrCase {
	c := AttrCase{
		IfVer:            rapid.SampledFrom([]int{7, 7, 8, 9, 100, 1 << 40}).Draw(t, "ifVer"),
		Username:         genRequired(t, false, "user"),
		Hostname:         genRequired(t, false, "host"),
		SSHClientVersion: genRequired(t, false, "ver"),
		CAPubKeyAlgo:     rapid.IntRange(0, 5).Draw(t, "caAlgo"),
		SignatureAlgo:    rapid.IntRange(0, 17).Draw(t, "sigAlgo"),
		HardKey:          rapid.Bool().Draw(t, "hardKey"),
		Touch2SSH:        rapid.Bool().Draw(t, "touch2SSH"),
		TS:               genTS(t, false),
	}
	switch rapid.IntRange(0, 3).Draw(t, "extsKind") {
	case 0:
	case 1:
		c.ExtsEmpty = true
	default:
		c.Exts = vh.GenJSONMap(t, "exts", 3, 1)
	}
	if rapid.IntRange(0, 19).Draw(t, "deepExts") == 7 {
		// extension maps nested deeply (maps in maps, lists in lists): nothing bounds the depth below
		// the JSON library's own limit of 10000
		depth := rapid.SampledFrom([]int{31, 32, 33, 40, 100, 500}).Draw(t, "deepExtsDepth")
		var v any = "leaf"
		for i := 0; i < depth; i++ {
			if i%2 == 0 {
				v = map[string]any{"n": v}
			} else {
				v = []any{v}
			}
		}
		c.Exts = map[string]any{"deep": v}
	}
	if rapid.IntRange(0, 15).Draw(t, "unencodable") == 9 {
		c.Unencodable = rapid.SampledFrom([]string{"nan", "inf", "chan", "func"}).Draw(t, "unencodableKind")
		c.UnencodableNested = rapid.Bool().Draw(t, "unencodableNested")
	}
	return c
}

func execJSON(c AttrCase) (vh.Outcome, error) {
	a := c.attrs()
	before := c.attrs()
	if c.Unencodable != "" {
		// an extension value the JSON format cannot carry: the encoder can only refuse (whatever it returned
		// instead could not decode to an equal attribute set); it must not crash or change its input
		out := vh.Outcome{NonTrivial: true, Classes: []string{"json", "unencodable-extension"}}
		var s string
		var err error
		if perr := vh.Catch(func() { s, err = a.Marshal() }); perr != nil {
			return out, vh.Errf("Marshal crashed on an extension value JSON cannot express (%s): %v", c.Unencodable, perr)
		}
		if err == nil {
			return out, vh.Errf("Marshal accepted an attribute set (interface version %d) whose extension map holds a value JSON cannot express (%s, nested %v) and produced %q: that text cannot decode to an equal attribute set", c.IfVer, c.Unencodable, c.UnencodableNested, s)
		}
		return out, nil
	}
	out := vh.Outcome{NonTrivial: len(c.Exts) > 0 || nonASCII(c.Username+c.Hostname+c.SSHClientVersion) || (c.TS != nil && *c.TS != TS{}),
		Classes: []string{"json"}}
	var s string
	var err error
	if perr := vh.Catch(func() { s, err = a.Marshal() }); perr != nil {
		return out, vh.Errf("Marshal crashed: %v", perr)
	}
	if !reflect.DeepEqual(a, before) {
		return out, vh.Errf("Marshal modified the attribute set: %+v -> %+v", before, a)
	}
	if !c.requiredPresent() {
		out.Classes = append(out.Classes, "required-missing")
		if err == nil {
			return out, vh.Errf("Marshal accepted an attribute set with an empty required member: %+v -> %s", c, s)
		}
		return out, nil
	}
	if err != nil {
		return out, vh.Errf("Marshal refused a complete attribute set %+v: %v", c, err)
	}
	// wire names: the text must be a JSON object carrying the documented members
	ref, ok := vh.RefDecodeJSON(s)
	if !ok {
		return out, vh.Errf("Marshal output is not a JSON attribute object: %s", s)
	}
	if ref.IfVer != c.IfVer || ref.Username != c.Username || ref.Hostname != c.Hostname || ref.SSHClientVersion != c.SSHClientVersion ||
		ref.CAPubKeyAlgo != c.CAPubKeyAlgo || ref.SignatureAlgo != c.SignatureAlgo || ref.HardKey != c.HardKey || ref.Touch2SSH != c.Touch2SSH {
		return out, vh.Errf("JSON text does not carry the attributes under the documented member names:\n attrs %+v\n text %s", c, s)
	}
	var got *message.Attributes
	if perr := vh.Catch(func() { got, err = message.Unmarshal(s) }); perr != nil {
		return out, vh.Errf("Unmarshal crashed on %s: %v", s, perr)
	}
	if err != nil {
		return out, vh.Errf("Unmarshal(Marshal(a)) failed: %v\n text %s", err, s)
	}
	want := c.attrs()
	if want.TouchlessSudo == nil {
		want.TouchlessSudo = &message.TouchlessSudo{}
	}
	if len(want.Exts) == 0 {
		want.Exts = nil
	}
	if len(got.Exts) == 0 {
		got.Exts = nil
	}
	if !reflect.DeepEqual(got, want) {
		return out, vh.Errf("JSON round trip changed the attributes:\n in   %s\n out  %s\n text %s", dump(want), dump(got), s)
	}
	return out, nil
}

func dump(a *message.Attributes) string {
	ts := "nil"
	if a.TouchlessSudo != nil {
		ts = fmt.Sprintf("%+v", *a.TouchlessSudo)
	}
	return fmt.Sprintf("%+v touchlessSudo=%s exts=%#v", *a, ts, a.Exts)
}

func nonASCII(s string) bool {
	for _, r := range s {
		if r > 127 {
			return true
		}
	}
	return false
}

func TestC15JSONRoundTrip(t *testing.T) {
	vh.Run(t, vh.Spec[AttrCase]{Property: "C15", Name: "TestC15JSONRoundTrip",
		Rule: "attribute sets with interface version >= 7: all booleans, algorithm numbers 0..5 / 0..17, touchless-sudo nil / empty / partially filled, extension maps nil / empty / nested to depth 3 with JSON-native values (rarely with a value JSON cannot express - NaN, -Inf, a channel, a function - which the encoder must refuse), arbitrary UTF-8 strings, ~8% empty required members. Oracle: Marshal errs iff a required member is empty; the text carries the attributes under the documented wire names; Unmarshal(Marshal(a)) equals a up to the documented normalisation (nil touchless-sudo = empty struct, empty map = nil). Non-trivial: non-empty extension map, non-ASCII text or touchless-sudo partly set; distinct by Case hash.",
		Gen:  genJSONCase, Exec: execJSON})
}

// ---------- legacy format through Marshal ----------

func genLegacyCase(t *rapid.T) AttrCase {
	return AttrCase{
		IfVer:            rapid.SampledFrom([]int{0, 1, 5, 6, 6, 6, -1}).Draw(t, "ifVer"),
		Username:         genRequired(t, true, "user"),
		Hostname:         genRequired(t, true, "host"),
		SSHClientVersion: genRequired(t, true, "ver"),
		CAPubKeyAlgo:     rapid.IntRange(0, 5).Draw(t, "caAlgo"),
		SignatureAlgo:    rapid.IntRange(0, 17).Draw(t, "sigAlgo"),
		HardKey:          rapid.Bool().Draw(t, "hardKey"),
		Touch2SSH:        rapid.Bool().Draw(t, "touch2SSH"),
		TS:               genTS(t, true),
	}
}

func execLegacy(c AttrCase) (vh.Outcome, error) {
	a := c.attrs()
	out := vh.Outcome{NonTrivial: nonASCII(c.Username+c.Hostname+c.SSHClientVersion) || (c.TS != nil && *c.TS != TS{}) || strings.Contains(c.Username+c.Hostname+c.SSHClientVersion, "="),
		Classes: []string{"legacy"}}
	var s string
	var err error
	if perr := vh.Catch(func() { s, err = a.Marshal() }); perr != nil {
		return out, vh.Errf("Marshal crashed: %v", perr)
	}
	if !c.requiredPresent() {
		out.Classes = append(out.Classes, "required-missing")
		if err == nil {
			return out, vh.Errf("Marshal accepted an attribute set with an empty required member: %+v -> %q", c, s)
		}
		return out, nil
	}
	if err != nil {
		return out, vh.Errf("Marshal refused a complete attribute set %+v: %v", c, err)
	}
	var got *message.Attributes
	if perr := vh.Catch(func() { got, err = message.Unmarshal(s) }); perr != nil {
		return out, vh.Errf("Unmarshal crashed on %q: %v", s, perr)
	}
	if err != nil {
		return out, vh.Errf("Unmarshal(Marshal(a)) failed in the legacy format: %v\n text %q", err, s)
	}
	ts := TS{}
	if c.TS != nil {
		ts = *c.TS
	}
	if got.TouchlessSudo == nil {
		return out, vh.Errf("legacy decode left touchless-sudo nil: %q", s)
	}
	gts := TS{got.TouchlessSudo.IsFirefighter, got.TouchlessSudo.Hosts, got.TouchlessSudo.Time}
	if got.SSHClientVersion != c.SSHClientVersion || got.Username != c.Username || got.Hostname != c.Hostname ||
		got.HardKey != c.HardKey || got.Touch2SSH != c.Touch2SSH || gts != ts {
		return out, vh.Errf("legacy round trip changed a field:\n in   %+v ts=%+v\n out  %s\n text %q", c, ts, dump(got), s)
	}
	if got.IfVer != 6 {
		return out, vh.Errf("legacy message reports interface version %d, expected 6: %q", got.IfVer, s)
	}
	// raw tokens mirrored into the extension map
	keys, vals := vh.LegacyTokens(s)
	for _, k := range keys {
		v, ok := got.Exts[k]
		if !ok {
			return out, vh.Errf("token %q of %q is not mirrored in the extension map %v", k, s, got.Exts)
		}
		sv, isStr := v.(string)
		if !isStr || !contains(vals[k], sv) {
			return out, vh.Errf("extension %q = %#v, expected one of %q (text %q)", k, v, vals[k], s)
		}
	}
	// the text carries the documented tokens
	if vals["req"] == nil || vals["req"][0] != c.Username+"@"+c.Hostname || vals["SSHClientVersion"] == nil || vals["SSHClientVersion"][0] != c.SSHClientVersion || vals["IFVer"] == nil || vals["IFVer"][0] != "6" {
		return out, vh.Errf("legacy text does not carry the documented tokens: %q", s)
	}
	return out, nil
}

func contains(l []string, s string) bool {
	for _, e := range l {
		if e == s {
			return true
		}
	}
	return false
}

func TestC15LegacyRoundTrip(t *testing.T) {
	vh.Run(t, vh.Spec[AttrCase]{Property: "C15", Name: "TestC15LegacyRoundTrip",
		Rule: "attribute sets with interface version < 7 whose strings are free of Unicode whitespace and '@' (including '=', quotes, JSON look-alikes, non-ASCII), all booleans, touchless-sudo nil / empty / partial with extreme times. Oracle: Marshal errs iff a required member is empty; Unmarshal(Marshal(a)) keeps version, user, host, hardKey, touch2SSH and touchless-sudo members, reports interface version 6 and mirrors every token in the extension map. Non-trivial: non-ASCII or '=' in a value, or touchless-sudo partly set.",
		Gen:  genLegacyCase, Exec: execLegacy})
}

// ---------- legacy texts ----------

type LegacyTextCase struct {
	Tokens []string
	Seps   []int // number of spaces after each token (>=1), plus leading spaces in Seps[len]
	Lead   int
}

func (c LegacyTextCase) text() string {
	var b strings.Builder
	b.WriteString(strings.Repeat(" ", c.Lead))
	for i, tok := range c.Tokens {
		b.WriteString(tok)
		n := 1
		if i < len(c.Seps) {
			n = c.Seps[i]
		}
		if i < len(c.Tokens)-1 || n > 1 {
			b.WriteString(strings.Repeat(" ", n))
		}
	}
	return b.String()
}

func genLegacyText(t *rapid.T) LegacyTextCase {
	n := rapid.IntRange(0, 8).Draw(t, "n")
	if rapid.IntRange(0, 15).Draw(t, "many") == 7 {
		n = rapid.SampledFrom([]int{31, 32, 33, 40, 64, 65, 200}).Draw(t, "manyN") // long token lists
	}
	c := LegacyTextCase{Lead: rapid.SampledFrom([]int{0, 0, 0, 1, 3}).Draw(t, "lead")}
	keys := []string{"IFVer", "SSHClientVersion", "req", "req", "req", "HardKey", "Touch2SSH", "IsFirefighter", "TouchlessSudoHosts", "TouchlessSudoTime", "privKeyNeeded", "x", "REQ", "hardkey"}
	for i := 0; i < n; i++ {
		k := rapid.SampledFrom(keys).Draw(t, fmt.Sprintf("k%d", i))
		var tok string
		switch rapid.IntRange(0, 5).Draw(t, fmt.Sprintf("shape%d", i)) {
		case 0:
			tok = k // bare key
		case 1:
			tok = k + "=" // empty value
		default:
			var v string
			switch k {
			case "req", "REQ":
				v = rapid.SampledFrom([]string{"user@host.com", "u@h", "u", "@", "u@", "@h", "a@b@c", "u=1@h=2", ""}).Draw(t, fmt.Sprintf("v%d", i))
			case "HardKey", "Touch2SSH", "IsFirefighter", "hardkey":
				v = rapid.SampledFrom([]string{"true", "false", "1", "0", "T", "TRUE", "yes", "t", "True", "tru"}).Draw(t, fmt.Sprintf("v%d", i))
			case "IFVer", "TouchlessSudoTime":
				v = rapid.SampledFrom([]string{"6", "7", "0", "-1", "30", "x", "1.5", "99999999999999999999", "+5", "0x10"}).Draw(t, fmt.Sprintf("v%d", i))
			default:
				v = vh.GenPlainToken(t, fmt.Sprintf("v%d", i))
			}
			tok = k + "=" + v
		}
		c.Tokens = append(c.Tokens, tok)
		c.Seps = append(c.Seps, rapid.SampledFrom([]int{1, 1, 1, 2, 4}).Draw(t, fmt.Sprintf("sep%d", i)))
	}
	return c
}

func parseBoolSet(vals []string) map[bool]bool {
	m := map[bool]bool{}
	for _, v := range vals {
		b, _ := strconv.ParseBool(v)
		m[b] = true
	}
	return m
}

func execLegacyText(c LegacyTextCase) (vh.Outcome, error) {
	s := c.text()
	keys, vals := vh.LegacyTokens(s)
	repeated := false
	for _, k := range keys {
		if len(vals[k]) > 1 {
			repeated = true
		}
	}
	out := vh.Outcome{NonTrivial: len(keys) >= 2 && (repeated || strings.Contains(s, "  ")), Classes: []string{"legacy-text"}}
	if _, isJSON := vh.RefDecodeJSON(s); isJSON {
		return out, nil // cannot happen for these token shapes; guarded for soundness
	}
	var got *message.Attributes
	var err error
	if perr := vh.Catch(func() { got, err = message.Unmarshal(s) }); perr != nil {
		return out, vh.Errf("Unmarshal crashed on %q: %v", s, perr)
	}
	// a usable requester token must exist: user@host with exactly one '@'
	okReq := false
	for _, v := range vals["req"] {
		if strings.Count(v, "@") == 1 {
			okReq = true
		}
	}
	allReqOK := len(vals["req"]) > 0
	for _, v := range vals["req"] {
		if strings.Count(v, "@") != 1 {
			allReqOK = false
		}
	}
	if err != nil {
		out.Classes = append(out.Classes, "refused")
		if allReqOK {
			return out, vh.Errf("legacy text with a well-formed requester was refused: %q: %v", s, err)
		}
		return out, nil
	}
	out.Classes = append(out.Classes, "accepted")
	if !okReq {
		return out, vh.Errf("legacy text without a usable requester token was accepted: %q -> %s", s, dump(got))
	}
	if !contains(vals["req"], got.Username+"@"+got.Hostname) {
		return out, vh.Errf("user/host %q@%q is not a requester token of %q", got.Username, got.Hostname, s)
	}
	if len(vals["SSHClientVersion"]) == 0 {
		if got.SSHClientVersion != "" {
			return out, vh.Errf("client version %q invented for %q", got.SSHClientVersion, s)
		}
	} else if !contains(vals["SSHClientVersion"], got.SSHClientVersion) {
		return out, vh.Errf("client version %q is not a token value of %q", got.SSHClientVersion, s)
	}
	for name, gotB := range map[string]bool{"HardKey": got.HardKey, "Touch2SSH": got.Touch2SSH, "IsFirefighter": got.TouchlessSudo != nil && got.TouchlessSudo.IsFirefighter} {
		set := parseBoolSet(vals[name])
		if len(vals[name]) == 0 {
			set = map[bool]bool{false: true}
		}
		if !set[gotB] {
			return out, vh.Errf("%s = %v does not follow from the tokens %q of %q", name, gotB, vals[name], s)
		}
	}
	for _, k := range keys {
		v, ok := got.Exts[k]
		sv, isStr := v.(string)
		if !ok || !isStr || !contains(vals[k], sv) {
			return out, vh.Errf("token %q (values %q) is not mirrored in the extension map %#v (text %q)", k, vals[k], got.Exts, s)
		}
	}
	if len(got.Exts) != len(keys) {
		return out, vh.Errf("extension map %#v has entries that are not tokens of %q", got.Exts, s)
	}
	return out, nil
}

func TestC15LegacyText(t *testing.T) {
	vh.Run(t, vh.Spec[LegacyTextCase]{Property: "C15", Name: "TestC15LegacyText",
		Rule: "legacy texts of 0..8 (rarely 31..200) tokens over the documented keys (plus case variants and unknown keys) as bare key, 'k=' or 'k=v' with '=' inside values, repeated keys, leading and repeated spaces; requester values with 0..2 '@'. Oracle (set-valued reference tokeniser, any occurrence of a repeated key may win): accepted iff a requester token with exactly one '@' is used, every field follows from some token of its key, every token is mirrored in the extension map and nothing else is. Non-trivial: >=2 keys with a repeated key or a run of spaces.",
		Gen:  genLegacyText, Exec: execLegacyText})
}

// ---------- JSON texts (decoder side) ----------

type JSONTextCase struct {
	Text string
	Kind string
}

func genJSONText(t *rapid.T) JSONTextCase {
	bait := rapid.SampledFrom([]string{"", " req=a@b ", "x req=evil@host SSHClientVersion=9.9 y"}).Draw(t, "bait")
	user := genRequired(t, false, "user")
	host := genRequired(t, false, "host")
	ver := genRequired(t, false, "ver")
	ms := []vh.Member{}
	add := func(name, raw string) { ms = append(ms, vh.Member{Name: name, Raw: raw}) }
	if rapid.IntRange(0, 9).Draw(t, "hasIfVer") > 0 {
		add("ifVer", strconv.Itoa(rapid.SampledFrom([]int{7, 6, 0, 8}).Draw(t, "ifVer")))
	}
	dropped := rapid.IntRange(0, 7).Draw(t, "drop")
	if dropped != 1 {
		add("username", vh.JStr(user))
	}
	if dropped != 2 {
		add("hostname", vh.JStr(host))
	}
	if dropped != 3 {
		add("sshClientVersion", vh.JStr(ver))
	}
	if rapid.Bool().Draw(t, "hk") {
		add("hardKey", strconv.FormatBool(rapid.Bool().Draw(t, "hkv")))
	}
	if rapid.Bool().Draw(t, "hasTS") {
		add("touchlessSudo", rapid.SampledFrom([]string{`{}`, `null`, `{"isFirefighter":true}`, `{"hosts":"h1,h2","time":30}`, `{"time":-1}`}).Draw(t, "ts"))
	}
	if rapid.Bool().Draw(t, "hasExts") {
		b, _ := json.Marshal(vh.GenJSONMap(t, "exts", 2, 0))
		add("exts", string(b))
	}
	if bait != "" {
		add(rapid.SampledFrom([]string{"note", "x", "exts2"}).Draw(t, "baitName"), vh.JStr(bait))
	}
	kind := "object"
	switch rapid.IntRange(0, 9).Draw(t, "mut") {
	case 0: // retype a member: decoding fails, the legacy path is taken
		if len(ms) > 0 {
			i := rapid.IntRange(0, len(ms)-1).Draw(t, "ri")
			ms[i].Raw = rapid.SampledFrom([]string{`1`, `"x"`, `[]`, `{}`, `true`, `null`}).Draw(t, "rv")
			kind = "retyped"
		}
	case 1:
		if len(ms) > 0 {
			i := rapid.IntRange(0, len(ms)-1).Draw(t, "ci")
			ms[i].Name = strings.ToUpper(ms[i].Name)
			kind = "upper"
		}
	case 2:
		if len(ms) > 0 {
			i := rapid.IntRange(0, len(ms)-1).Draw(t, "di")
			ms = append(ms, vh.Member{Name: ms[i].Name, Raw: rapid.SampledFrom([]string{`""`, `"other"`}).Draw(t, "dv")})
			kind = "dup"
		}
	case 3: // a case variant of a member beside the exact one, with another value of the right or a wrong type
		if len(ms) > 0 {
			i := rapid.IntRange(0, len(ms)-1).Draw(t, "vi")
			n := ms[i].Name
			variant := rapid.SampledFrom([]string{strings.ToUpper(n), strings.ToLower(n), strings.ToUpper(n[:1]) + n[1:]}).Draw(t, "vn")
			ms = append(ms, vh.Member{Name: variant, Raw: rapid.SampledFrom([]string{`""`, `"other"`, `0`, `6`, `8`, `true`, `false`, `null`, `{}`}).Draw(t, "vv")})
			kind = "dup-case"
		}
	}
	if rapid.Bool().Draw(t, "shuffle") {
		ms = rapid.Permutation(ms).Draw(t, "order")
	}
	text := vh.JoinMembers(ms, rapid.SampledFrom([]string{"", " "}).Draw(t, "ws"))
	switch rapid.IntRange(0, 14).Draw(t, "wrap") {
	case 0:
		text = rapid.SampledFrom([]string{"null", " null ", "[]", "{}", `"req=a@b"`, "1", "true", `[{"username":"u"}]`, `{"username":"u","hostname":"h","sshClientVersion":"8.1"} trailing`, ""}).Draw(t, "other")
		kind = "other"
	case 1:
		text = " \n" + text + "\t "
	}
	return JSONTextCase{Text: text, Kind: kind}
}

// checkUnmarshalText is the decoder-side oracle, shared with the fuzz target.
func checkUnmarshalText(text string) (cls string, err error) {
	var got *message.Attributes
	var uerr error
	if perr := vh.Catch(func() { got, uerr = message.Unmarshal(text) }); perr != nil {
		return "crash", vh.Errf("Unmarshal crashed on %q: %v", text, perr)
	}
	if uerr == nil && got == nil {
		return "", vh.Errf("Unmarshal returned (nil, nil) for %q", text)
	}
	ref, isJSON := vh.RefDecodeJSON(text)
	if isJSON {
		if !ref.RequiredPresent() {
			if uerr == nil {
				return "json-incomplete", vh.Errf("text decodes as a JSON attribute object lacking a required member but was accepted (legacy reinterpretation or missing check):\n text %q\n got  %s", text, dump(got))
			}
			return "json-incomplete", nil
		}
		if uerr != nil {
			return "json-complete", vh.Errf("complete JSON attribute object was refused: %q: %v", text, uerr)
		}
		// must be the JSON interpretation
		wantTS := message.TouchlessSudo{}
		if ref.TouchlessSudo != nil {
			wantTS = message.TouchlessSudo{IsFirefighter: ref.TouchlessSudo.IsFirefighter, Hosts: ref.TouchlessSudo.Hosts, Time: ref.TouchlessSudo.Time}
		}
		if got.TouchlessSudo == nil {
			return "json-complete", vh.Errf("decoded attributes have nil touchless-sudo: %q", text)
		}
		gx, wx := got.Exts, ref.Exts
		if len(gx) == 0 {
			gx = nil
		}
		if len(wx) == 0 {
			wx = nil
		}
		if got.IfVer != ref.IfVer || got.Username != ref.Username || got.Hostname != ref.Hostname || got.SSHClientVersion != ref.SSHClientVersion ||
			int(got.CAPubKeyAlgo) != ref.CAPubKeyAlgo || int(got.SignatureAlgo) != ref.SignatureAlgo || got.HardKey != ref.HardKey || got.Touch2SSH != ref.Touch2SSH ||
			*got.TouchlessSudo != wantTS || !reflect.DeepEqual(gx, wx) {
			return "json-complete", vh.Errf("decoded attributes are not the JSON interpretation of the text:\n text %q\n got  %s\n want %+v", text, dump(got), *ref)
		}
		return "json-complete", nil
	}
	// not a JSON attribute object: legacy interpretation or refusal
	if uerr != nil {
		return "legacy-refused", nil
	}
	_, vals := vh.LegacyTokens(text)
	if !contains(vals["req"], got.Username+"@"+got.Hostname) {
		return "legacy-accepted", vh.Errf("accepted non-JSON text whose user/host %q@%q is not a requester token: %q", got.Username, got.Hostname, text)
	}
	return "legacy-accepted", nil
}

func TestC15JSONText(t *testing.T) {
	vh.Run(t, vh.Spec[JSONTextCase]{Property: "C15", Name: "TestC15JSONText",
		Rule: "hand-built JSON objects under the documented wire names with a required member dropped (3 of 8) or empty (~8% each), a string member carrying legacy bait (' req=a@b '), one member retyped / upper-cased / duplicated / accompanied by a case variant with another value, shuffled order, surrounding whitespace; other JSON values (null, arrays, numbers, strings, trailing data). Oracle: when encoding/json decodes the text into the attribute shape the result is exactly that interpretation, or an error iff a required member is empty - never the legacy interpretation; otherwise accepted results must follow from a requester token. Non-trivial: JSON attribute objects (complete or incomplete).",
		Gen:  genJSONText,
		Exec: func(c JSONTextCase) (vh.Outcome, error) {
			cls, err := checkUnmarshalText(c.Text)
			return vh.Outcome{NonTrivial: strings.HasPrefix(cls, "json-"), Classes: []string{"kind=" + c.Kind, cls}}, err
		}})
}

func FuzzC15Unmarshal(f *testing.F) {
	f.Add(`{"ifVer":7,"username":"user","hostname":"host.com","sshClientVersion":"8.1","caPubKeyAlgo":1,"signatureAlgo":1,"hardKey":true,"exts":{"field1":"value1","field2":100}}`)
	f.Add(`{"ifVer":7,"username":"user","hostname":"host.com","sshClientVersion":"8.1","hardKey":true,"touchlessSudo":{"isFirefighter":true,"hosts":"host01,host02,host03","time":30}}`)
	f.Add("IFVer=6 SSHClientVersion=8.1 req=user@host.com HardKey=true IsFirefighter=true TouchlessSudoHosts=host01,host02,host03 TouchlessSudoTime=30")
	f.Add(`{"username":"","x":" req=a@b "}`)
	f.Add(`null`)
	f.Add(``)
	f.Fuzz(func(t *testing.T, text string) {
		if _, err := checkUnmarshalText(text); err != nil {
			t.Fatal(err)
		}
	})
}
