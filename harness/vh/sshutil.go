package vh

import (
	"crypto/rand"
	"fmt"
	"sync"

	"golang.org/x/crypto/ssh"
)

var (
	signerMu sync.Mutex
	signers  = map[string]ssh.Signer{}
)

// SSHSigner returns the ssh.Signer of a pool key.
func SSHSigner(name string) ssh.Signer {
	signerMu.Lock()
	defer signerMu.Unlock()
	if s, ok := signers[name]; ok {
		return s
	}
	s, err := ssh.NewSignerFromKey(PrivKey(name))
	if err != nil {
		panic(fmt.Sprintf("ssh signer %s: %v", name, err))
	}
	signers[name] = s
	return s
}

// SSHPub returns the ssh public key of a pool key.
func SSHPub(name string) ssh.PublicKey { return SSHSigner(name).PublicKey() }

// SSHCertSpec describes an SSH user certificate.
type SSHCertSpec struct {
	Key         string // pool key certified
	CA          string // pool key signing (default ed25519a)
	KeyID       string
	ValidAfter  uint64
	ValidBefore uint64
	Principals  []string
	CritOpts    map[string]string
	Extensions  map[string]string
	Serial      uint64
	// Host makes it a host certificate (the kind is no input of anything the properties state)
	Host bool
}

// MakeSSHCert signs an SSH certificate.
func MakeSSHCert(s SSHCertSpec) *ssh.Certificate {
	ca := s.CA
	if ca == "" {
		ca = "ed25519a"
	}
	c := &ssh.Certificate{
		Key:             SSHPub(s.Key),
		Serial:          s.Serial,
		CertType:        ssh.UserCert,
		KeyId:           s.KeyID,
		ValidPrincipals: s.Principals,
		ValidAfter:      s.ValidAfter,
		ValidBefore:     s.ValidBefore,
		Permissions:     ssh.Permissions{CriticalOptions: s.CritOpts, Extensions: s.Extensions},
	}
	if s.Host {
		c.CertType = ssh.HostCert
	}
	if err := c.SignCert(rand.Reader, SSHSigner(ca)); err != nil {
		panic(fmt.Sprintf("SignCert: %v", err))
	}
	return c
}

// SSHKeyNames are the pool keys used as ssh identities in agent histories.
var SSHKeyNames = []string{"rsa2048b", "rsa1536", "p256b", "p384a", "p521a", "ed25519b", "ed25519c", "p256c", "dsa1024"}
