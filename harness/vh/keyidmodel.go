package vh

import (
	"encoding/json"
	"fmt"
	"strings"
)

// Independent re-statement of "is a YSSHCA KeyID" (README + property C05/C09/C19):
// a JSON object with ver == 1, the 11 required member names present with exact spelling,
// decodable into the documented shape, and consistent headless / nonce attributes.

// RequiredV1 are the member names every version-1 KeyID text must contain.
var RequiredV1 = []string{"prins", "transID", "reqUser", "reqIP", "reqHost", "isFirefighter", "isHWKey", "isHeadless", "isNonce", "touchPolicy", "ver"}

// KeyIDAttrs is the plain-data form of a KeyID used by generators.
type KeyIDAttrs struct {
	Prins    []string
	PrinsNil bool
	TransID  string
	ReqUser  string
	ReqIP    string
	ReqHost  string
	FF       bool
	HW       bool
	Headless bool
	Nonce    bool
	Usage    int
	Touch    int
	Version  int
}

// ConsistentKeyID is the consistency rule of version 1.
func ConsistentKeyID(ff, hw, hl, nonce bool, touch int) bool {
	if hl && (hw || ff || touch != 1) {
		return false
	}
	if nonce && (ff || hl || touch != 1) {
		return false
	}
	return true
}

// Valid says whether the attributes form a supported, consistent KeyID.
func (a KeyIDAttrs) Valid() bool {
	return a.Version == 1 && ConsistentKeyID(a.FF, a.HW, a.Headless, a.Nonce, a.Touch)
}

// Member is one member of a JSON object text, in order.
type Member struct{ Name, Raw string }

// JStr encodes a string as a JSON string.
func JStr(s string) string {
	b, _ := json.Marshal(s)
	return string(b)
}

// Members returns the members of the KeyID text in documented order.
func (a KeyIDAttrs) Members() []Member {
	prins := "null"
	if !a.PrinsNil {
		parts := make([]string, len(a.Prins))
		for i, p := range a.Prins {
			parts[i] = JStr(p)
		}
		prins = "[" + strings.Join(parts, ",") + "]"
	}
	b := func(v bool) string {
		if v {
			return "true"
		}
		return "false"
	}
	return []Member{
		{"prins", prins}, {"transID", JStr(a.TransID)}, {"reqUser", JStr(a.ReqUser)}, {"reqIP", JStr(a.ReqIP)},
		{"reqHost", JStr(a.ReqHost)}, {"isFirefighter", b(a.FF)}, {"isHWKey", b(a.HW)},
		{"isHeadless", b(a.Headless)}, {"isNonce", b(a.Nonce)}, {"usage", fmt.Sprint(a.Usage)},
		{"touchPolicy", fmt.Sprint(a.Touch)}, {"ver", fmt.Sprint(a.Version)},
	}
}

// JoinMembers renders members as a JSON object text.
func JoinMembers(ms []Member, ws string) string {
	parts := make([]string, len(ms))
	for i, m := range ms {
		parts[i] = JStr(m.Name) + ":" + ws + m.Raw
	}
	return "{" + ws + strings.Join(parts, ","+ws) + ws + "}"
}

// Text renders the KeyID in the documented order without whitespace.
func (a KeyIDAttrs) Text() string { return JoinMembers(a.Members(), "") }

// TopLevelNames returns the exact member names (with duplicates) of the single top-level
// JSON object in text, or ok=false when text is anything else.
func TopLevelNames(text string) (names []string, ok bool) {
	dec := json.NewDecoder(strings.NewReader(text))
	tok, err := dec.Token()
	if err != nil {
		return nil, false
	}
	if d, isDelim := tok.(json.Delim); !isDelim || d != '{' {
		return nil, false
	}
	for dec.More() {
		tok, err := dec.Token()
		if err != nil {
			return nil, false
		}
		name, isStr := tok.(string)
		if !isStr {
			return nil, false
		}
		names = append(names, name)
		var skip json.RawMessage
		if err := dec.Decode(&skip); err != nil {
			return nil, false
		}
	}
	if _, err := dec.Token(); err != nil {
		return nil, false
	}
	var rest json.RawMessage
	if err := dec.Decode(&rest); err == nil {
		return nil, false
	}
	return names, json.Valid([]byte(text))
}

type refKeyID struct {
	Prins    []string `json:"prins"`
	TransID  string   `json:"transID"`
	ReqUser  string   `json:"reqUser"`
	ReqIP    string   `json:"reqIP"`
	ReqHost  string   `json:"reqHost"`
	FF       bool     `json:"isFirefighter"`
	HW       bool     `json:"isHWKey"`
	Headless bool     `json:"isHeadless"`
	Nonce    bool     `json:"isNonce"`
	Usage    int      `json:"usage"`
	Touch    int      `json:"touchPolicy"`
	Version  uint16   `json:"ver"`
}

// RefDecodeKeyID is the reference decision "text is a YSSHCA KeyID" and its attributes.
func RefDecodeKeyID(text string) (KeyIDAttrs, bool) {
	names, ok := TopLevelNames(text)
	if !ok {
		return KeyIDAttrs{}, false
	}
	have := map[string]bool{}
	for _, n := range names {
		have[n] = true
	}
	for _, r := range RequiredV1 {
		if !have[r] {
			return KeyIDAttrs{}, false
		}
	}
	var r refKeyID
	if err := json.Unmarshal([]byte(text), &r); err != nil {
		return KeyIDAttrs{}, false
	}
	a := KeyIDAttrs{Prins: r.Prins, PrinsNil: r.Prins == nil, TransID: r.TransID, ReqUser: r.ReqUser, ReqIP: r.ReqIP, ReqHost: r.ReqHost,
		FF: r.FF, HW: r.HW, Headless: r.Headless, Nonce: r.Nonce, Usage: r.Usage, Touch: r.Touch, Version: int(r.Version)}
	return a, a.Valid()
}
