package vh

import (
	"sync"
	"bytes"
	"crypto/rand"
	"fmt"
	"sort"
	"strings"
	"time"

	"github.com/theparanoids/ysshra/agent/shimagent"
	"golang.org/x/crypto/ssh"
	"golang.org/x/crypto/ssh/agent"
)

// This file is the sequential reference model and executor of the shim agent used by the
// checks of C07, C08, C09 and C10. The harness owns the keyring behind the proxy, so the
// underlying identities are observed directly; only the in-memory table and the lock flag
// are modelled.

// CertDef describes a certificate of a shim history.
type CertDef struct {
	Key string // pool key name
	// KeyIDClass: "ysshca0".."ysshca6" (the 7 types), "missing", "version", "inconsistent", "text", "empty"
	KeyIDClass string
	// Validity: current | forever | past | justpast | future | soon | lapsing | opening | zero | aftermax | beforebig
	Validity string
	Serial   uint64
	// Host: a host certificate instead of a user certificate
	Host bool `json:",omitempty"`
	// Twin: a second certificate over the same key with the same serial, type and KeyID as an earlier
	// CertDef (whose Key / KeyIDClass / Serial / Host it copies): a different certificate (other principals)
	Twin bool `json:",omitempty"`
}

// Op is one step of a shim history.
type Op struct {
	// Kind: addkey addcert addhard remove removeall list signers sign signvia signheld oobadd oobaddcert oobremove
	// lapse lock unlock close forward extension plan
	Kind string
	Key  string `json:",omitempty"` // pool key name (plain-key target)
	Cert int    // index into Certs, -1 = none (certificate target)
	// Comment is the comment / suffix of add operations.
	Comment  string      `json:",omitempty"`
	Data     []byte      `json:",omitempty"`
	Flags    int         `json:",omitempty"`
	// AsAgentKey: sign / remove name their target as an *agent.Key (format + blob, what a listing hands
	// out) instead of a parsed key or certificate object
	AsAgentKey bool `json:",omitempty"`
	Pass     string      `json:",omitempty"`
	Lifetime uint32      `json:",omitempty"`
	Body     []byte      `json:",omitempty"`
	Plan     []FaultRule `json:",omitempty"`
	// IdleMS (kind idle): nothing happens for that long (the shim agent is a long-lived object)
	IdleMS int `json:",omitempty"`
}

// ShimCase is a whole history.
type ShimCase struct {
	NoUpstream bool
	BadAddress bool
	Certs      []CertDef
	// Initial operations are applied to the keyring before the shim is constructed (oobadd / oobaddcert only).
	Initial []Op
	// ListsWhileLocked: the underlying agent keeps listing its identities while locked.
	ListsWhileLocked bool        `json:",omitempty"`
	ConstructPlan    []FaultRule `json:",omitempty"`
	// SlowCodes / SlowMS: the underlying agent answers the first request of each of these codes only after
	// SlowMS milliseconds (a token waiting for a touch, a passphrase prompt); everything else is unchanged
	SlowCodes []int `json:",omitempty"`
	SlowMS    int   `json:",omitempty"`
	// Comp: Option.PubKeyComp, the listing order: "" (default) | bytes | type | fingerprint
	Comp string `json:",omitempty"`
	Ops  []Op
}

// PubKeyComp returns the listing-order function named by Comp (nil = the default).
func PubKeyComp(name string) func(x, y ssh.PublicKey) bool {
	switch name {
	case "bytes":
		return func(x, y ssh.PublicKey) bool { return bytes.Compare(x.Marshal(), y.Marshal()) < 0 }
	case "type":
		return func(x, y ssh.PublicKey) bool { return x.Type() < y.Type() }
	case "fingerprint":
		return func(x, y ssh.PublicKey) bool { return ssh.FingerprintSHA256(x) < ssh.FingerprintSHA256(y) }
	}
	return nil
}

// Trace reports what a history exercised (for the non-trivial rules of the properties).
type Trace struct {
	Purged            int // certificates the model purged during a listing-type operation
	OrphanDecisions   int // orphan decisions taken with a non-empty report
	EmptyReportKept   int // orphan candidates kept because the report was empty
	PurgedSignRefused int
	LockedMutations   int // mutating operations attempted while locked
	Unlocks           int // successful unlocks after a lock
	WrongUnlocks      int
	RefusedLockOps    int // lock / unlock refused by the underlying agent
	HiddenSeen        int // listings / signers / sign decisions involving a hidden certificate
	YSSHCAInRing      int
	HeldSigner        int // signatures asked of a signer kept from an earlier Signers() call
	HardDecisions     int // add-hardware-certificate acceptance decisions
	HardAccepted      int
	FaultsReached     int
	Forwards          int
	ListChecks        int
	SignChecks        int
	TimeAmbiguous     bool
	Dead              bool
	ConstructFailed   bool
}

type memEntry struct {
	cert    *ssh.Certificate
	comment string
	maybe   bool
	// anyComment: after an ambiguous re-add the comment may be the old or the new one
	anyComment bool
}

const anyCommentMark = "\x00<any comment>"

type world struct {
	c      ShimCase
	p      *Proxy
	sh     shimagent.ShimAgent
	certs  []*ssh.Certificate
	mem    map[string]*memEntry
	locked bool
	pass   string
	// upLocked mirrors the lock state of the underlying agent (it can lose its lock out of band)
	upLocked bool
	held     []ssh.Signer // what the last successful Signers() call returned (the caller keeps it)
	dead     bool         // the connection to the underlying agent was destroyed by a fault
	closed   bool
	tr       Trace

	// soonVA: the ValidAfter of certificates of validity class "soon" (premature, about to become valid in
	// 25 s); a history that lasts until 2 s before that moment is abandoned as time-ambiguous
	soonVA     int64
	hasLapsing bool
	lapsed     bool
	lapseVB    int64
	// the mirror image: one certificate whose window OPENS 3 s after the start of the history
	hasOpening bool
	opened     bool
	openVA     int64
	// replies of earlier raw forwards / extensions, as handed out and as they were at that moment: what a caller
	// got back is the caller's, a later call does not rewrite it
	kept []keptReply
	// lifetimeAsked: some operation of the history asked for a lifetime constraint
	lifetimeAsked bool
}

const critName = "touchless-sudo-hosts"

func keyIDFor(class string, serial uint64, key string) (string, map[string]string) {
	a := KeyIDAttrs{Prins: []string{"user_a"}, TransID: fmt.Sprintf("%010x", serial), ReqUser: "user_a", ReqIP: "172.17.0.1", ReqHost: "localhost", Touch: 1, Version: 1}
	var crit map[string]string
	switch class {
	case "ysshca0": // TouchSudo
		a.HW, a.Touch = true, 3
	case "ysshca1": // Touchless
		a.HW, a.Touch = true, 1
	case "ysshca2": // TouchlessSudo
		a.HW, a.Touch = true, 1
		crit = map[string]string{critName: "www.example.com"}
	case "ysshca3": // Firefighter
		a.FF, a.HW, a.Touch = true, true, 2
	case "ysshca4": // Nonce
		a.Nonce, a.Touch = true, 1
	case "ysshca5": // TouchlessInAgent
		a.FF, a.Touch = true, 0
	case "ysshca6": // TouchlessSudoInAgent
		a.FF, a.Touch = true, 0
		crit = map[string]string{critName: "a.example.com,b.example.com"}
	case "ysshca7": // decodable but selects no rule (default touch): still a YSSHCA KeyID
		a.Touch = 0
	case "ysshca8": // principals encoded as null (what Marshal produces for a nil list)
		a.Prins, a.PrinsNil = nil, true
		a.HW, a.Touch = true, 1
	case "ysshca9": // the same KeyID in another textual form: members reordered, JSON whitespace inside and around
		a.HW, a.Touch = true, 1
		ms := a.Members()
		for i, j := 0, len(ms)-1; i < j; i, j = i+1, j-1 {
			ms[i], ms[j] = ms[j], ms[i]
		}
		return " \n" + JoinMembers(ms, " ") + "\t\n", nil
	case "ysshcabig": // a valid KeyID of several KiB (300 principals)
		a.HW, a.Touch = true, 1
		for i := 0; i < 300; i++ {
			a.Prins = append(a.Prins, fmt.Sprintf("role-%04d-user", i))
		}
	case "ysshcahuge": // a valid KeyID beyond 64 KiB (one long value)
		a.HW, a.Touch = true, 3
		a.ReqHost = strings.Repeat("h", 70000)
	case "casevar": // one required member only under another letter case: not the required member, so not a YSSHCA KeyID
		a.HW, a.Touch = true, 1
		ms := a.Members()
		i := int(serial) % len(ms)
		if ms[i].Name == "usage" {
			i = 0
		}
		ms[i].Name = strings.ToUpper(ms[i].Name[:1]) + ms[i].Name[1:]
		return JoinMembers(ms, ""), nil
	case "missing":
		ms := a.Members()
		ms = append(ms[:4:4], ms[5:]...) // drop reqHost
		return JoinMembers(ms, ""), nil
	case "version":
		a.Version = 2
	case "inconsistent":
		a.Headless, a.HW = true, true
	case "text":
		return "user_a@localhost " + key, nil
	case "empty":
		return "", nil
	}
	return a.Text(), crit
}

// ShimCert builds one certificate of the shim generator's shapes outside a history (validity classes
// current / forever / past / future only).
func ShimCert(d CertDef) *ssh.Certificate {
	w := &world{c: ShimCase{Certs: []CertDef{d}}}
	w.buildCerts(time.Now().Unix())
	return w.certs[0]
}

func (w *world) buildCerts(now int64) {
	for _, d := range w.c.Certs {
		kid, crit := keyIDFor(d.KeyIDClass, d.Serial, d.Key)
		s := SSHCertSpec{Key: d.Key, KeyID: kid, CritOpts: crit, Serial: d.Serial, Principals: []string{"user_a"}, Host: d.Host}
		if d.Twin {
			s.Principals = []string{"user_a", "user_b"}
		}
		switch d.Validity {
		case "current":
			s.ValidAfter, s.ValidBefore = uint64(now-3600), uint64(now+7200)
		case "forever":
			s.ValidAfter, s.ValidBefore = 0, ssh.CertTimeInfinity
		case "past":
			s.ValidAfter, s.ValidBefore = uint64(now-7200), uint64(now-3600)
		case "future":
			s.ValidAfter, s.ValidBefore = uint64(now+3600), uint64(now+7200)
		case "lapsing":
			s.ValidAfter, s.ValidBefore = uint64(now-3600), uint64(now+2)
			w.hasLapsing, w.lapseVB = true, now+2
		case "opening":
			s.ValidAfter, s.ValidBefore = uint64(now+3), uint64(now+7200)
			w.hasOpening, w.openVA = true, now+3
		case "justpast": // expired a few seconds ago
			s.ValidAfter, s.ValidBefore = uint64(now-3600), uint64(now-5)
		case "soon":
			s.ValidAfter, s.ValidBefore = uint64(now+25), uint64(now+7200)
			w.soonVA = now + 25
		case "inverted-past": // an empty window (it ends before it starts), both ends in the past
			s.ValidAfter, s.ValidBefore = uint64(now-3600), uint64(now-7200)
		case "inverted-future":
			s.ValidAfter, s.ValidBefore = uint64(now+7200), uint64(now+3600)
		case "zero":
			s.ValidAfter, s.ValidBefore = 0, 0
		case "aftermax":
			s.ValidAfter, s.ValidBefore = 1<<63+5, ssh.CertTimeInfinity
		case "beforebig":
			s.ValidAfter, s.ValidBefore = 0, 1<<63+7
		default:
			s.ValidAfter, s.ValidBefore = uint64(now-3600), uint64(now+7200)
		}
		w.certs = append(w.certs, MakeSSHCert(s))
	}
}

type ident struct {
	blob    string
	comment string
	cert    *ssh.Certificate // nil for plain keys
}

func parseIdent(k *agent.Key) ident {
	id := ident{blob: string(k.Blob), comment: k.Comment}
	if pk, err := ssh.ParsePublicKey(k.Blob); err == nil {
		if c, ok := pk.(*ssh.Certificate); ok {
			id.cert = c
		}
	}
	return id
}

func (w *world) ring() []ident {
	var out []ident
	for _, k := range w.p.RingKeys() {
		out = append(out, parseIdent(k))
	}
	return out
}

func blobsOf(ids []ident) []string {
	out := make([]string, len(ids))
	for i, id := range ids {
		out[i] = id.blob
	}
	sort.Strings(out)
	return out
}

func describeBlob(b string) string {
	pk, err := ssh.ParsePublicKey([]byte(b))
	if err != nil {
		return fmt.Sprintf("unparsable(%d bytes)", len(b))
	}
	if c, ok := pk.(*ssh.Certificate); ok {
		return fmt.Sprintf("cert{%s serial=%d va=%d vb=%d keyid=%.60q}", c.Key.Type(), c.Serial, c.ValidAfter, c.ValidBefore, c.KeyId)
	}
	return fmt.Sprintf("key{%s %s}", pk.Type(), ssh.FingerprintSHA256(pk))
}

func describe(blobs []string) string {
	var parts []string
	for _, b := range blobs {
		parts = append(parts, describeBlob(b))
	}
	return "[" + strings.Join(parts, ", ") + "]"
}

// purgeModel applies the documented purge (orphans judged against the reported list, nothing
// dropped on an empty report, then expiry) to the model and returns the expected keyring content.
func (w *world) purgeModel(ring []ident, now int64, commit bool) (ringAfter []ident, memAfter map[string]*memEntry) {
	memAfter = map[string]*memEntry{}
	for k, v := range w.mem {
		cp := *v
		memAfter[k] = &cp
	}
	if len(ring) > 0 {
		have := map[string]bool{}
		for _, r := range ring {
			if r.cert != nil {
				have[string(r.cert.Key.Marshal())] = true
			} else {
				have[r.blob] = true
			}
		}
		for k, m := range memAfter {
			if !have[string(m.cert.Key.Marshal())] {
				delete(memAfter, k)
				if commit {
					w.tr.OrphanDecisions++
					w.tr.Purged++
				}
			}
		}
	} else if commit {
		w.tr.EmptyReportKept += len(memAfter)
	}
	for _, r := range ring {
		if r.cert != nil && !CertValidAt(r.cert, now) {
			delete(memAfter, r.blob)
			if commit {
				w.tr.Purged++
			}
			continue
		}
		ringAfter = append(ringAfter, r)
	}
	for k, m := range memAfter {
		if !CertValidAt(m.cert, now) {
			delete(memAfter, k)
			if commit {
				w.tr.Purged++
			}
		}
	}
	return
}

func (w *world) hidden(r ident) bool {
	return w.c.NoUpstream && r.cert != nil && IsYSSHCA(r.cert)
}

func expectedRingComment(r ident) string {
	if r.cert == nil {
		return r.comment
	}
	if l, ok := RefLabel(r.cert); ok {
		if r.comment != "" {
			return l + "-" + r.comment
		}
		return l
	}
	return r.comment
}

func expectedMemComment(c *ssh.Certificate, suffix string) string {
	if l, ok := RefLabel(c); ok {
		if suffix != "" {
			return l + "-" + suffix
		}
		return l
	}
	return suffix
}

type pair struct{ blob, comment string }

func sortPairs(p []pair) {
	sort.Slice(p, func(i, j int) bool {
		if p[i].blob != p[j].blob {
			return p[i].blob < p[j].blob
		}
		return p[i].comment < p[j].comment
	})
}

// expectedView computes the multiset (blob, comment) a listing must show: required entries and
// optional ("maybe") in-memory entries.
func (w *world) expectedView(ringAfter []ident, memAfter map[string]*memEntry) (required, optional []pair) {
	for _, m := range memAfter {
		p := pair{string(m.cert.Marshal()), m.comment}
		if m.anyComment {
			p.comment = anyCommentMark
		}
		if m.maybe {
			optional = append(optional, p)
		} else {
			required = append(required, p)
		}
	}
	for _, r := range ringAfter {
		if w.hidden(r) {
			continue
		}
		required = append(required, pair{r.blob, expectedRingComment(r)})
	}
	sortPairs(required)
	sortPairs(optional)
	return
}

// matchView compares a shown multiset with required+optional; withComments=false ignores comments.
func matchView(shown, required, optional []pair, withComments bool) error {
	key := func(p pair) string {
		if withComments {
			return p.blob + "\x00" + p.comment
		}
		return p.blob
	}
	need := map[string]int{}
	may := map[string]int{}
	for _, p := range required {
		need[key(p)]++
	}
	for _, p := range optional {
		may[key(p)]++
	}
	for _, p := range shown {
		k := key(p)
		wild := key(pair{p.blob, anyCommentMark})
		switch {
		case need[k] > 0:
			need[k]--
		case withComments && need[wild] > 0:
			need[wild]--
		case may[k] > 0:
			may[k]--
		case withComments && may[wild] > 0:
			may[wild]--
		default:
			return fmt.Errorf("unexpected entry %s comment %q", describeBlob(p.blob), p.comment)
		}
	}
	for _, p := range required {
		if need[key(p)] > 0 {
			return fmt.Errorf("missing entry %s comment %q", describeBlob(p.blob), p.comment)
		}
	}
	return nil
}

func (w *world) target(op Op) (ssh.PublicKey, string) {
	if op.Cert >= 0 && op.Cert < len(w.certs) {
		return w.certs[op.Cert], fmt.Sprintf("cert#%d", op.Cert)
	}
	if op.Key != "" {
		return SSHPub(op.Key), "key " + op.Key
	}
	return nil, "nil"
}

// opWatchdog bounds a single shim operation (they take milliseconds; the underlying agent of these
// histories never stalls): an operation that does not come back is a stuck agent.
const opWatchdog = 10 * time.Second

type stuckError struct{ after time.Duration }

func (e stuckError) Error() string {
	return fmt.Sprintf("the operation did not come back within %s (the agent is stuck: a lock that is never released?)", e.after)
}

// CatchWithin is catchWithin for the harness packages.
func CatchWithin(d time.Duration, f func()) error { return catchWithin(d, f) }

// catchWithin is Catch with a completion watchdog.
func catchWithin(d time.Duration, f func()) error {
	done := make(chan error, 1)
	go func() { done <- Catch(f) }()
	select {
	case e := <-done:
		return e
	case <-time.After(d):
		return stuckError{d}
	}
}

// scribble overwrites a buffer the harness handed to the code under test, after the call returned.
func scribble(b []byte) {
	for i := range b {
		b[i] = 0xA5
	}
}

// faultCount returns the number of faulted frames recorded so far.
func (w *world) faultCount() (n int, fatal bool) {
	for _, f := range w.p.Frames() {
		if f.Fault != "" {
			n++
			if f.Fault == "close" || f.Fault == "oversize" || f.Fault == "truncate" {
				fatal = true
			}
		}
	}
	return
}

// markUncertain: after an operation disturbed by a fault, invalid or orphan in-memory entries may
// or may not have been purged; still-valid, key-backed entries must survive.
func (w *world) markUncertain(ring []ident, now int64) {
	_, after := w.purgeModel(ring, now, false)
	for k, m := range w.mem {
		if _, kept := after[k]; !kept {
			m.maybe = true
		}
	}
}

// RunShimCase executes a history and checks every step against the model.
func RunShimCase(c ShimCase) (tr Trace, err error) {
	w := &world{c: c, mem: map[string]*memEntry{}}
	defer func() { tr = w.tr }()
	p, perr := NewProxy()
	if perr != nil {
		return w.tr, nil // infrastructure: not judged
	}
	w.p = p
	defer p.Close()
	p.ListsWhileLocked = c.ListsWhileLocked
	if len(c.SlowCodes) > 0 && c.SlowMS > 0 {
		var smu sync.Mutex
		used := map[int]bool{}
		p.Latency = func(code int) time.Duration {
			smu.Lock()
			defer smu.Unlock()
			for _, sc := range c.SlowCodes {
				if sc == code && !used[code] {
					used[code] = true
					return time.Duration(c.SlowMS) * time.Millisecond
				}
			}
			return 0
		}
	}
	w.buildCerts(time.Now().Unix())

	for _, op := range c.Initial {
		w.oob(op)
	}
	for _, r := range w.ring() {
		if r.cert != nil && IsYSSHCA(r.cert) {
			w.tr.YSSHCAInRing++
		}
	}

	// ---- construction ----
	p.SetPlan(c.ConstructPlan)
	addr := p.Path
	if c.BadAddress {
		addr = p.Path + ".missing"
	}
	var sh shimagent.ShimAgent
	var nerr error
	f0, _ := w.faultCount()
	if perr := Catch(func() { sh, nerr = shimagent.New(shimagent.Option{Address: addr, NoUpstream: c.NoUpstream, PubKeyComp: PubKeyComp(c.Comp)}) }); perr != nil {
		return w.tr, Errf("shimagent.New crashed (no-upstream=%v, bad address=%v, construct plan %+v): %v", c.NoUpstream, c.BadAddress, c.ConstructPlan, perr)
	}
	f1, fatal := w.faultCount()
	if f1 > f0 {
		w.tr.FaultsReached += f1 - f0
		w.tr.ConstructFailed = true
		if nerr == nil {
			return w.tr, Errf("shimagent.New succeeded although the underlying agent failed during construction (plan %+v)", c.ConstructPlan)
		}
		return w.tr, nil
	}
	if c.BadAddress {
		w.tr.ConstructFailed = true
		if nerr == nil {
			return w.tr, Errf("shimagent.New succeeded for an address nobody listens on")
		}
		return w.tr, nil
	}
	if nerr != nil || sh == nil {
		return w.tr, Errf("shimagent.New failed without a fault: %v", nerr)
	}
	_ = fatal
	w.sh = sh
	defer func() {
		if !w.closed {
			// a stuck agent must not hang the harness as well
			_ = catchWithin(2*time.Second, func() { sh.Close() })
		}
	}()

	for i, op := range c.Ops {
		if e := w.step(i, op); e != nil {
			return w.tr, e
		}
		if w.tr.TimeAmbiguous {
			return w.tr, nil
		}
	}
	// final listing: "forever" certificates never expire, nothing valid was lost
	if !w.closed && !w.dead {
		if w.locked {
			if e := w.step(len(c.Ops), Op{Kind: "unlock", Pass: w.pass, Cert: -1}); e != nil {
				return w.tr, e
			}
		}
		if e := w.step(len(c.Ops)+1, Op{Kind: "list", Cert: -1}); e != nil {
			return w.tr, e
		}
	}
	return w.tr, nil
}

func (w *world) oob(op Op) {
	switch op.Kind {
	case "oobadd":
		_ = w.p.Ring().Add(agent.AddedKey{PrivateKey: PrivKey(op.Key), Comment: op.Comment})
	case "oobaddcert":
		if op.Cert >= 0 && op.Cert < len(w.certs) {
			_ = w.p.Ring().Add(agent.AddedKey{PrivateKey: PrivKey(w.c.Certs[op.Cert].Key), Certificate: w.certs[op.Cert], Comment: op.Comment})
		}
	case "oobremove":
		if k, _ := w.target(op); k != nil {
			_ = w.p.Ring().Remove(k)
		}
	case "oobremoveall":
		_ = w.p.Ring().RemoveAll()
	case "oobunlock":
		w.p.ForceUnlock()
		w.upLocked = false
	}
}

func (w *world) waitLapse() {
	for time.Now().Unix() <= w.lapseVB {
		time.Sleep(100 * time.Millisecond)
	}
	time.Sleep(50 * time.Millisecond)
	w.lapsed = true
}

type keptReply struct {
	step       int
	live, copy []byte
}

// checkKept: every reply handed out earlier still reads as it did when it was handed out.
func (w *world) checkKept(where string) error {
	for _, k := range w.kept {
		if !bytes.Equal(k.live, k.copy) {
			return Errf("%s: the reply the caller received at step %d (%d bytes, then %.24x...) now reads %.24x... - a later call rewrote memory that had been handed out", where, k.step, len(k.copy), k.copy, k.live)
		}
	}
	return nil
}

func (w *world) waitOpen() {
	for time.Now().Unix() < w.openVA {
		time.Sleep(100 * time.Millisecond)
	}
	time.Sleep(50 * time.Millisecond)
	w.opened = true
}

func (w *world) step(i int, op Op) error {
	where := fmt.Sprintf("step %d (%s)", i, op.Kind)
	if strings.HasPrefix(op.Kind, "oob") {
		w.oob(op)
		return nil
	}
	if op.Kind == "lapse" {
		if w.hasLapsing && !w.lapsed {
			w.waitLapse()
		}
		return nil
	}
	if op.Kind == "idle" {
		before := w.ring()
		time.Sleep(time.Duration(op.IdleMS) * time.Millisecond)
		after := w.ring()
		// nothing was asked of anybody: what the underlying agent holds can only shrink by a lifetime constraint,
		// and this history has not asked for one
		if !w.lifetimeAsked && !sameBlobs(before, after) {
			return Errf("%s: while nothing happened for %d ms the underlying agent went from %s to %s, although no identity of this history was added with a lifetime", where, op.IdleMS, describe(blobsOf(before)), describe(blobsOf(after)))
		}
		return nil
	}
	if op.Lifetime > 0 {
		w.lifetimeAsked = true
	}
	if op.Kind == "open" {
		if w.hasOpening && !w.opened {
			w.waitOpen()
		}
		return nil
	}
	if op.Kind == "plan" {
		w.p.SetPlan(op.Plan)
		return nil
	}
	if w.closed {
		return nil
	}
	if w.hasLapsing && !w.lapsed && time.Now().Unix()+1 >= w.lapseVB {
		w.waitLapse()
	}
	if w.hasOpening && !w.opened && time.Now().Unix()+1 >= w.openVA {
		w.waitOpen()
	}
	ringBefore := w.ring()
	f0, _ := w.faultCount()
	frames0 := w.p.NumFrames()
	now := time.Now().Unix()

	var opErr error
	var keys []*agent.Key
	var signers []ssh.Signer
	var sig *ssh.Signature
	var reply []byte
	heldInMemory := false
	key, keyDesc := w.target(op)
	data := op.Data
	if data == nil {
		data = []byte{}
	}
	perr := catchWithin(opWatchdog, func() {
		switch op.Kind {
		case "list":
			keys, opErr = w.sh.List()
		case "signers":
			signers, opErr = w.sh.Signers()
			if opErr == nil {
				w.held = signers
			}
		case "signheld":
			// through a signer the caller kept from an earlier Signers() call of this history (none kept:
			// as signvia, from a fresh call)
			var hs ssh.Signer
			for _, s := range w.held {
				if key != nil && bytes.Equal(s.PublicKey().Marshal(), key.Marshal()) {
					hs = s
				}
			}
			if hs == nil {
				signers, opErr = w.sh.Signers()
				if opErr == nil {
					w.held = signers
					opErr = fmt.Errorf("verif: no signer for the target")
					for _, s := range signers {
						if key != nil && bytes.Equal(s.PublicKey().Marshal(), key.Marshal()) {
							hs = s
						}
					}
				}
			} else {
				w.tr.HeldSigner++
				// which kind of signer was kept: the one for certificates of the underlying agent routes the
				// request (naming the certificate) through the shim; every other kind - the one for in-memory
				// hardware certificates - signs with the token's plain key
				_, inMem := w.mem[string(key.Marshal())]
				if tn := fmt.Sprintf("%T", hs); inMem || tn != "shimagent.upstreamSigner" {
					// the kept signer of an in-memory hardware certificate signs with the token's plain key
					// and names that key, not the certificate: what it does once the certificate has left
					// its window (or the table) is not part of the statement
					heldInMemory = true
				}
			}
			if hs != nil {
				sig, opErr = hs.Sign(rand.Reader, data)
			}
		case "sign":
			// every byte slice handed to the agent is the caller's: overwritten once the call returned
			d2 := append([]byte{}, data...)
			var named ssh.PublicKey = key
			if op.AsAgentKey && key != nil {
				named = &agent.Key{Format: key.Type(), Blob: key.Marshal()}
			}
			sig, opErr = w.sh.SignWithFlags(named, d2, agent.SignatureFlags(op.Flags))
			scribble(d2)
		case "signvia":
			signers, opErr = w.sh.Signers()
			if opErr == nil {
				opErr = fmt.Errorf("verif: no signer for the target")
				for _, s := range signers {
					if key != nil && bytes.Equal(s.PublicKey().Marshal(), key.Marshal()) {
						// with flags: through the signer's algorithm-selecting entry point, as an ssh client does
						if as, ok := s.(ssh.AlgorithmSigner); ok && (op.Flags == 2 || op.Flags == 4) {
							sig, opErr = as.SignWithAlgorithm(rand.Reader, data, map[int]string{2: ssh.KeyAlgoRSASHA256, 4: ssh.KeyAlgoRSASHA512}[op.Flags])
						} else {
							sig, opErr = s.Sign(rand.Reader, data)
						}
						break
					}
				}
			}
		case "addkey":
			opErr = w.sh.Add(agent.AddedKey{PrivateKey: PrivKey(op.Key), Comment: op.Comment, LifetimeSecs: op.Lifetime})
		case "addcert":
			opErr = w.sh.Add(agent.AddedKey{PrivateKey: PrivKey(w.c.Certs[op.Cert].Key), Certificate: w.certs[op.Cert], Comment: op.Comment, LifetimeSecs: op.Lifetime})
		case "addhard":
			opErr = w.sh.AddHardCert(key, op.Comment)
		case "remove":
			opErr = w.sh.Remove(key)
		case "removeall":
			opErr = w.sh.RemoveAll()
		case "lock":
			// the caller wipes its passphrase buffer as soon as the call returns (what a careful caller does)
			buf := []byte(op.Pass)
			opErr = w.sh.Lock(buf)
			for i := range buf {
				buf[i] = 0
			}
		case "unlock":
			buf := []byte(op.Pass)
			opErr = w.sh.Unlock(buf)
			for i := range buf {
				buf[i] = 'X'
			}
		case "close":
			opErr = w.sh.Close()
		case "forward":
			b2 := append([]byte{}, op.Body...)
			reply, opErr = w.sh.Forward(b2)
			scribble(b2)
		case "extension":
			b2 := append([]byte{}, op.Body...)
			reply, opErr = w.sh.Extension("verif@harness", b2)
			scribble(b2)
		}
	})
	if op.Kind == "signheld" {
		op.Kind = "signvia" // judged like a signature through a fresh signer: holding a signer changes nothing
	}
	if se, stuck := perr.(stuckError); stuck {
		return Errf("%s on %s: %v", where, keyDesc, se)
	}
	if perr != nil {
		return Errf("%s on %s crashed: %v", where, keyDesc, perr)
	}
	if w.hasLapsing && !w.lapsed && time.Now().Unix() > w.lapseVB {
		w.tr.TimeAmbiguous = true
		return nil
	}
	if w.hasOpening && !w.opened && time.Now().Unix() >= w.openVA {
		w.tr.TimeAmbiguous = true
		return nil
	}
	if w.soonVA != 0 && time.Now().Unix()+2 >= w.soonVA {
		w.tr.TimeAmbiguous = true
		return nil
	}
	f1, fatal := w.faultCount()
	faulted := f1 > f0
	if faulted {
		w.tr.FaultsReached += f1 - f0
	}
	wasDead := w.dead
	if fatal {
		w.dead = true
		w.tr.Dead = true
	}
	ringAfter := w.ring()

	// ---- a dead or faulted underlying agent: errors, no crash, nothing valid discarded ----
	if w.dead || faulted {
		switch op.Kind {
		case "list", "signers", "sign", "signvia":
			// the operation during which the connection died may still succeed when the failing
			// sub-step is one whose error is ignored by design; later operations cannot
			if wasDead && opErr == nil && !w.locked {
				return Errf("%s succeeded although the connection to the underlying agent was destroyed", where)
			}
			// whatever went wrong underneath: an answer that does come back never contains a certificate
			// outside its validity window, and no signature is made with one
			if opErr == nil && !w.locked && !w.hasLapsing && !w.hasOpening {
				var shownBlobs [][]byte
				for _, k := range keys {
					shownBlobs = append(shownBlobs, k.Blob)
				}
				for _, sg := range signers {
					shownBlobs = append(shownBlobs, sg.PublicKey().Marshal())
				}
				if (op.Kind == "sign" || op.Kind == "signvia") && key != nil {
					shownBlobs = append(shownBlobs, key.Marshal())
				}
				for _, b := range shownBlobs {
					if pk, perr := ssh.ParsePublicKey(b); perr == nil {
						if c, isCert := pk.(*ssh.Certificate); isCert && !CertValidAt(c, now) {
							return Errf("%s (disturbed by a fault of the underlying agent) still answered with / signed with a certificate outside its validity window: %s", where, describeBlob(string(b)))
						}
					}
				}
			}
		case "forward", "extension":
			// a reply that never arrived completely (connection closed, cut inside the frame, declared
			// length beyond the limit) must come back as an error, not as a shorter reply
			lost := wasDead
			for _, f := range w.p.Frames() {
				if f.Index >= frames0 && (f.Fault == "close" || f.Fault == "oversize" || f.Fault == "truncate") {
					lost = true
				}
			}
			if lost && opErr == nil {
				return Errf("%s: the underlying agent's reply was lost (connection closed / frame cut / oversize), yet the call reported success with a reply of %d bytes", where, len(reply))
			}
		case "close":
			if opErr == nil {
				w.closed = true
			}
		case "removeall":
			if !w.locked {
				w.mem = map[string]*memEntry{}
			}
			// whatever the underlying agent refused on the way: a remove-all that reports success has removed
			// everything (nothing else edits the keyring during the call)
			if opErr == nil && !w.locked && len(ringAfter) != 0 {
				return Errf("%s (disturbed by a fault of the underlying agent) reported success, yet the underlying agent still holds %s", where, describe(blobsOf(ringAfter)))
			}
		case "remove":
			// the in-memory entry is dropped before the underlying agent is asked
			if key != nil && !w.locked {
				delete(w.mem, string(key.Marshal()))
			}
		case "lock":
			w.tr.RefusedLockOps++
			if opErr == nil {
				w.locked, w.pass, w.upLocked = true, op.Pass, true
			}
		case "unlock":
			w.tr.RefusedLockOps++
			if opErr == nil {
				w.locked, w.upLocked = false, false
			}
		case "addhard":
			if opErr == nil && key != nil && !w.locked {
				if c, ok := key.(*ssh.Certificate); ok {
					if _, ok := w.mem[string(c.Marshal())]; !ok {
						w.mem[string(c.Marshal())] = &memEntry{cert: c, comment: expectedMemComment(c, op.Comment)}
					}
				}
			}
		}
		if !w.locked {
			w.markUncertain(ringBefore, now)
		}
		return nil
	}

	// ---- locked ----
	if w.locked {
		switch op.Kind {
		case "list":
			if opErr != nil || len(keys) != 0 {
				return Errf("%s while locked returned %d identities, err %v (expected an empty list without error)", where, len(keys), opErr)
			}
		case "unlock":
			if op.Pass == w.pass && w.upLocked {
				if opErr != nil {
					return Errf("%s with the right passphrase failed: %v", where, opErr)
				}
				w.locked, w.upLocked = false, false
				w.tr.Unlocks++
			} else if !w.upLocked {
				// the underlying agent lost its lock behind the shim's back: it refuses the unlock,
				// and a refused unlock leaves the shim's lock state unchanged
				w.tr.RefusedLockOps++
				if opErr == nil {
					return Errf("%s succeeded although the underlying agent refused it (it is not locked any more); passphrase %q", where, op.Pass)
				}
			} else {
				w.tr.WrongUnlocks++
				if opErr == nil {
					return Errf("%s with a wrong passphrase %q succeeded (lock passphrase %q)", where, op.Pass, w.pass)
				}
			}
		case "forward", "extension":
			// not covered by the lock statement; the underlying agent refuses by itself
		default:
			if op.Kind != "signers" && op.Kind != "sign" && op.Kind != "signvia" && op.Kind != "lock" && op.Kind != "close" {
				w.tr.LockedMutations++
			}
			if opErr == nil {
				return Errf("%s on %s succeeded while the agent is locked", where, keyDesc)
			}
		}
		if !sameBlobs(ringBefore, ringAfter) {
			return Errf("%s while locked changed the underlying identities: %s -> %s", where, describe(blobsOf(ringBefore)), describe(blobsOf(ringAfter)))
		}
		return nil
	}

	// ---- unlocked ----
	switch op.Kind {
	case "list", "signers":
		if opErr != nil {
			return Errf("%s failed without a fault: %v", where, opErr)
		}
		expRing, memAfter := w.purgeModel(ringBefore, now, true)
		if !sameBlobs(expRing, ringAfter) {
			return Errf("%s: underlying agent holds %s, expected %s after purging (before: %s)", where, describe(blobsOf(ringAfter)), describe(blobsOf(expRing)), describe(blobsOf(ringBefore)))
		}
		required, optional := w.expectedView(expRing, memAfter)
		var shown []pair
		if op.Kind == "list" {
			for _, k := range keys {
				shown = append(shown, pair{string(k.Blob), k.Comment})
			}
		} else {
			for _, s := range signers {
				shown = append(shown, pair{string(s.PublicKey().Marshal()), ""})
			}
		}
		sortPairs(shown)
		if err := matchView(shown, required, optional, op.Kind == "list"); err != nil {
			var sb []string
			var sc []string
			for _, s := range shown {
				sb = append(sb, s.blob)
				sc = append(sc, s.comment)
			}
			return Errf("%s (no-upstream=%v): %v\n shown comments: %q\n shown: %s\n underlying before: %s\n in-memory model: %s", where, w.c.NoUpstream, err, sc, describe(sb), describe(blobsOf(ringBefore)), w.memDesc())
		}
		// resolve optional entries by observation: an optional in-memory entry was kept iff its blob
		// is shown more often than the (definite) required entries account for
		shownCount, reqCount := map[string]int{}, map[string]int{}
		for _, s := range shown {
			shownCount[s.blob]++
		}
		for _, r := range required {
			reqCount[r.blob]++
		}
		for k, m := range memAfter {
			if m.maybe {
				if shownCount[k] > reqCount[k] {
					m.maybe = false
				} else {
					delete(memAfter, k)
				}
			}
		}
		w.mem = memAfter
		w.tr.ListChecks++
		for _, r := range expRing {
			if w.hidden(r) {
				w.tr.HiddenSeen++
			}
		}
	case "sign", "signvia":
		if key == nil {
			if opErr == nil {
				return Errf("%s with a nil key succeeded", where)
			}
			return nil
		}
		before := len(w.mem)
		expRing, memAfter := w.purgeModel(ringBefore, now, true)
		if !sameBlobs(expRing, ringAfter) {
			return Errf("%s: underlying agent holds %s, expected %s after purging", where, describe(blobsOf(ringAfter)), describe(blobsOf(expRing)))
		}
		blob := string(key.Marshal())
		inRing := func(b string) bool {
			for _, r := range expRing {
				if r.blob == b {
					return true
				}
			}
			return false
		}
		cert, isCert := key.(*ssh.Certificate)
		m, inMem := memAfter[blob]
		signFrames := 0
		for _, f := range w.p.Frames() {
			if f.Index >= frames0 && f.Code == CodeSign {
				signFrames++
			}
		}
		if heldInMemory && isCert {
			// not judged beyond: a signature that does come back verifies under the token key
			if opErr == nil && sig != nil {
				if verr := cert.Key.Verify(data, sig); verr != nil {
					return Errf("%s on %s: signature of the kept signer does not verify under the certificate's key: %v", where, keyDesc, verr)
				}
			}
			w.mem = memAfter
			return nil
		}
		// the flags of the caller's request reach the underlying agent as they are
		for _, f := range w.p.Frames() {
			if f.Index >= frames0 && f.Code == CodeSign && len(f.Body) >= 4 && len(f.Body) == f.Len {
				got := int(f.Body[len(f.Body)-4])<<24 | int(f.Body[len(f.Body)-3])<<16 | int(f.Body[len(f.Body)-2])<<8 | int(f.Body[len(f.Body)-1])
				if op.Kind == "sign" && got != op.Flags {
					return Errf("%s on %s: the caller asked with signature flags %d, the sign request that reached the underlying agent carries flags %d", where, keyDesc, op.Flags, got)
				}
			}
		}
		var expectOK, unsure bool
		var verifyKey ssh.PublicKey = key
		switch {
		case isCert && inMem:
			unsure = m.maybe
			expectOK = inRing(string(cert.Key.Marshal()))
			verifyKey = cert.Key
			if !expectOK && inRing(blob) {
				unsure = true // memory copy redirects to the plain key; unspecified when only the certificate identity exists
			}
		case isCert && w.c.NoUpstream && IsYSSHCA(cert):
			w.tr.HiddenSeen++
			if opErr == nil {
				return Errf("%s: signing with a hidden YSSHCA certificate of the underlying agent succeeded in no-upstream mode", where)
			}
			if signFrames > 0 && op.Kind == "sign" {
				return Errf("%s: a sign request for a hidden YSSHCA certificate reached the underlying agent", where)
			}
			w.mem = memAfter
			return nil
		default:
			expectOK = inRing(blob)
		}
		if heldInMemory {
			unsure = true
		}
		if isCert && !CertValidAt(cert, now) && !heldInMemory {
			w.tr.PurgedSignRefused++
			if opErr == nil {
				return Errf("%s: signing with a certificate outside its validity window succeeded (%s)", where, describeBlob(blob))
			}
		}
		if !unsure {
			if expectOK && opErr != nil {
				return Errf("%s on %s failed although the identity is available: %v\n underlying: %s\n in-memory model: %s", where, keyDesc, opErr, describe(blobsOf(expRing)), w.memDesc())
			}
			if !expectOK && opErr == nil {
				return Errf("%s on %s succeeded although no such identity is available\n underlying: %s\n in-memory model: %s", where, keyDesc, describe(blobsOf(expRing)), w.memDesc())
			}
		}
		if opErr == nil {
			if sig == nil {
				return Errf("%s returned neither signature nor error", where)
			}
			if verr := verifyKey.Verify(data, sig); verr != nil {
				return Errf("%s on %s: signature does not verify under the identity's key: %v", where, keyDesc, verr)
			}
			// an RSA identity asked for SHA-2 (flags 2 / 4) answers in that algorithm, as the underlying agent would
			baseType := verifyKey.Type()
			if vc, isC := verifyKey.(*ssh.Certificate); isC {
				baseType = vc.Key.Type() // a certificate over an RSA key signs like the key
			}
			if want, ok := map[int]string{2: ssh.KeyAlgoRSASHA256, 4: ssh.KeyAlgoRSASHA512}[op.Flags]; ok && baseType == ssh.KeyAlgoRSA && sig.Format != want {
				return Errf("%s on %s with flags %d: signature algorithm %q, the underlying agent would answer %q", where, keyDesc, op.Flags, sig.Format, want)
			}
			w.tr.SignChecks++
		}
		_ = before
		w.mem = memAfter
	case "addkey", "addcert":
		if opErr != nil {
			return Errf("%s failed without a fault: %v", where, opErr)
		}
		var wantBlob string
		if op.Kind == "addkey" {
			wantBlob = string(SSHPub(op.Key).Marshal())
		} else {
			wantBlob = string(w.certs[op.Cert].Marshal())
		}
		exp := map[string]bool{wantBlob: true}
		for _, r := range ringBefore {
			exp[r.blob] = true
		}
		got := map[string]bool{}
		for _, r := range ringAfter {
			got[r.blob] = true
		}
		if len(exp) != len(got) || len(ringAfter) != len(got) {
			return Errf("%s: underlying agent holds %s after adding to %s", where, describe(blobsOf(ringAfter)), describe(blobsOf(ringBefore)))
		}
		for b := range exp {
			if !got[b] {
				return Errf("%s: %s is not in the underlying agent after the add", where, describeBlob(b))
			}
		}
	case "addhard":
		if key == nil {
			if opErr == nil {
				return Errf("%s with a nil key succeeded", where)
			}
			return nil
		}
		blob := string(key.Marshal())
		if m, ok := w.mem[blob]; ok && m.maybe {
			// the entry may have been purged during a disturbed operation: both "still held" (no-op)
			// and "offered anew" (key test) are legitimate
			listed := false
			if c, isCert := key.(*ssh.Certificate); isCert {
				for _, r := range ringBefore {
					if r.blob == string(c.Key.Marshal()) {
						listed = true
					}
				}
			}
			switch {
			case opErr != nil && listed:
				return Errf("%s: certificate over a listed key was refused: %v", where, opErr)
			case opErr != nil:
				delete(w.mem, blob) // it was not held any more
			case listed:
				m.maybe = false
				if nc := expectedMemComment(m.cert, op.Comment); nc != m.comment {
					m.anyComment = true
				}
			default:
				m.maybe = false // accepted without a listed key: it was still held
			}
			return nil
		} else if ok {
			if opErr != nil {
				return Errf("%s: adding a held hardware certificate again failed: %v", where, opErr)
			}
			return nil
		}
		w.tr.HardDecisions++
		cert, isCert := key.(*ssh.Certificate)
		accept := false
		if isCert {
			kb := string(cert.Key.Marshal())
			for _, r := range ringBefore {
				if r.blob == kb {
					accept = true
				}
			}
		}
		if accept && opErr != nil {
			return Errf("%s: certificate over a key the underlying agent lists was refused: %v", where, opErr)
		}
		if !accept && opErr == nil {
			return Errf("%s on %s was accepted although it is not a certificate over a listed key (underlying: %s)", where, keyDesc, describe(blobsOf(ringBefore)))
		}
		if accept {
			w.tr.HardAccepted++
			w.mem[blob] = &memEntry{cert: cert, comment: expectedMemComment(cert, op.Comment)}
		}
		if !sameBlobs(ringBefore, ringAfter) {
			return Errf("%s changed the underlying identities", where)
		}
	case "remove":
		if key == nil {
			if opErr == nil {
				return Errf("%s with a nil key succeeded", where)
			}
			return nil
		}
		blob := string(key.Marshal())
		m, inMem := w.mem[blob]
		inRing := false
		var exp []ident
		for _, r := range ringBefore {
			if r.blob == blob {
				inRing = true
				continue
			}
			exp = append(exp, r)
		}
		definite := inMem && !m.maybe
		if (definite || inRing) && opErr != nil {
			return Errf("%s on %s failed although the identity exists: %v", where, keyDesc, opErr)
		}
		if !inMem && !inRing && opErr == nil {
			return Errf("%s on %s succeeded although no such identity exists", where, keyDesc)
		}
		delete(w.mem, blob)
		if !sameBlobs(exp, ringAfter) {
			return Errf("%s: underlying agent holds %s, expected %s", where, describe(blobsOf(ringAfter)), describe(blobsOf(exp)))
		}
	case "removeall":
		if opErr != nil {
			return Errf("%s failed without a fault: %v", where, opErr)
		}
		w.mem = map[string]*memEntry{}
		if len(ringAfter) != 0 {
			return Errf("%s left %s in the underlying agent", where, describe(blobsOf(ringAfter)))
		}
	case "lock":
		if opErr != nil {
			return Errf("%s failed without a fault: %v", where, opErr)
		}
		w.locked, w.pass, w.upLocked = true, op.Pass, true
	case "unlock":
		if opErr == nil {
			return Errf("%s of an unlocked agent succeeded", where)
		}
	case "close":
		if opErr != nil {
			return Errf("%s failed: %v", where, opErr)
		}
		w.closed = true
	case "forward":
		w.tr.Forwards++
		fs := w.p.Frames()
		var seen *Frame
		for j := range fs {
			if fs[j].Index >= frames0 {
				seen = &fs[j]
				break
			}
		}
		if opErr != nil {
			return Errf("%s of %d bytes failed without a fault: %v", where, len(op.Body), opErr)
		}
		if seen == nil || seen.Len != len(op.Body) || seen.Hash != sha256sum(op.Body) {
			return Errf("%s: the underlying agent did not receive the raw request byte-for-byte (sent %d bytes)", where, len(op.Body))
		}
		if len(op.Body) == 0 || !knownCodes[int(op.Body[0])] {
			want := append([]byte{EchoMark}, op.Body...)
			if w.upLocked {
				want = []byte{CodeFailure} // a locked underlying agent refuses whatever it is sent; the refusal is relayed as it is
			}
			if !bytes.Equal(reply, want) {
				return Errf("%s: reply of %d bytes differs from what the underlying agent sent (%d bytes)", where, len(reply), len(want))
			}
		}
		if err := w.checkKept(where); err != nil {
			return err
		}
		if len(reply) > 0 && len(w.kept) < 16 {
			w.kept = append(w.kept, keptReply{step: i, live: reply, copy: append([]byte{}, reply...)})
		}
	case "extension":
		if opErr != nil {
			return Errf("%s failed without a fault: %v", where, opErr)
		}
		if len(reply) < 1 || reply[0] != ExtMark || !bytes.HasSuffix(reply, op.Body) {
			return Errf("%s: reply does not echo the payload", where)
		}
		if err := w.checkKept(where); err != nil {
			return err
		}
		if len(w.kept) < 16 {
			w.kept = append(w.kept, keptReply{step: i, live: reply, copy: append([]byte{}, reply...)})
		}
	}
	return nil
}

func (w *world) memDesc() string {
	var parts []string
	for k, m := range w.mem {
		s := describeBlob(k)
		if m.maybe {
			s += "?"
		}
		parts = append(parts, s)
	}
	sort.Strings(parts)
	return "[" + strings.Join(parts, ", ") + "]"
}

func sameBlobs(a, b []ident) bool {
	x, y := blobsOf(a), blobsOf(b)
	if len(x) != len(y) {
		return false
	}
	for i := range x {
		if x[i] != y[i] {
			return false
		}
	}
	return true
}
