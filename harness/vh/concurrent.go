package vh

import (
	"fmt"
	"sync"
)

// Concurrently runs judge(i) for every i in 0..n-1, `rounds` times, from `goroutines` goroutines at the
// same moment (every goroutine starts at another index), after having run each judge(i) once on its
// own: an input the oracle rejects sequentially is not this helper's subject (ok=false is returned and
// nothing is judged). The first error met under concurrency is returned, prefixed with the situation.
func Concurrently(goroutines, rounds, n int, judge func(i int) error) (judged bool, err error) {
	if n == 0 {
		return false, nil
	}
	for i := 0; i < n; i++ {
		if judge(i) != nil {
			return false, nil
		}
	}
	errs := make([]error, goroutines)
	var wg sync.WaitGroup
	start := make(chan struct{})
	for g := 0; g < goroutines; g++ {
		g := g
		wg.Add(1)
		go func() {
			defer wg.Done()
			<-start
			for r := 0; r < rounds && errs[g] == nil; r++ {
				for i := 0; i < n; i++ {
					k := (i + g) % n
					var e error
					if perr := Catch(func() { e = judge(k) }); perr != nil {
						e = fmt.Errorf("crash: %v", perr)
					}
					if e != nil {
						errs[g] = Errf("with %d goroutines calling at once (the same input is judged correctly on its own): %v", goroutines, e)
						return
					}
				}
			}
		}()
	}
	close(start)
	wg.Wait()
	for _, e := range errs {
		if e != nil {
			return true, e
		}
	}
	return true, nil
}
