// Package vh is the shared plumbing of the /verif harness: it runs a generated
// check (generator -> Case -> executor -> oracle), counts what was generated,
// writes failing Cases as replay files and reads them back.
//
// The package is injected into the ysshra module through a build overlay (see
// /verif/check); it is never part of /repo.
package vh

import (
	"crypto/sha256"
	"encoding/binary"
	"encoding/json"
	"fmt"
	"os"
	"path/filepath"
	"runtime/debug"
	"sort"
	"strings"
	"sync"
	"testing"
	"time"

	"pgregory.net/rapid"
)

// Outcome is what an executor reports about one Case that did not violate the property.
type Outcome struct {
	// NonTrivial says whether the Case is non-trivial by the per-check rule.
	NonTrivial bool
	// Classes are labels for the class histogram (generator distribution).
	Classes []string
	// Excluded is set when the Case hit a listed known finding and was not judged.
	Excluded bool
}

// Spec describes one generated check.
type Spec[C any] struct {
	// Property is the property id (C01..C20).
	Property string
	// Name is the sub-check name; it equals the name of the Go test function.
	Name string
	// Rule is the human description of generation and of the non-trivial rule.
	Rule string
	// Gen draws a Case; all randomness must come from t.
	Gen func(t *rapid.T) C
	// Exec runs the Case against the code under test and applies the oracle.
	// A non-nil error is a violation of the property.
	Exec func(c C) (Outcome, error)
	// Journal makes the runner write each Case to disk before executing it, so
	// that a process death (fatal error, race report) still leaves a replay file.
	Journal bool
	// Exhaustive marks an Enumerate run as covering its finite space completely.
	Exhaustive bool
}

type stats struct {
	Property    string          `json:"property"`
	Name        string          `json:"name"`
	Rule        string          `json:"rule"`
	Evaluations int             `json:"evaluations"`
	NonTrivial  int             `json:"nontrivial_evaluations"`
	Distinct    int             `json:"distinct_nontrivial"`
	Excluded    int             `json:"excluded_known"`
	Classes     map[string]int  `json:"classes"`
	Samples     []any           `json:"samples"`
	Exhaustive  bool            `json:"exhaustive"`
	Violations  int             `json:"violations"`
	ShrinkRuns  int             `json:"shrink_runs"`
	WallS       float64         `json:"wall_s"`
	Replay      bool            `json:"replay"`
	Extra       map[string]any  `json:"extra,omitempty"`
	hashes      map[uint64]bool `json:"-"`
}

type runner[C any] struct {
	spec   Spec[C]
	st     *stats
	mu     sync.Mutex
	failed bool
	start  time.Time
	outDir string
}

func outDir() string {
	d := os.Getenv("VERIF_OUT")
	if d == "" {
		d = filepath.Join(os.TempDir(), "verif-out")
	}
	_ = os.MkdirAll(d, 0o755)
	return d
}

// Tier returns "quick" or "thorough".
func Tier() string {
	if os.Getenv("VERIF_TIER") == "thorough" {
		return "thorough"
	}
	return "quick"
}

// Thorough reports whether the thorough tier is running.
func Thorough() bool { return Tier() == "thorough" }

func newRunner[C any](spec Spec[C]) *runner[C] {
	return &runner[C]{
		spec: spec,
		st: &stats{Property: spec.Property, Name: spec.Name, Rule: spec.Rule,
			Classes: map[string]int{}, hashes: map[uint64]bool{}, Exhaustive: spec.Exhaustive},
		start:  time.Now(),
		outDir: outDir(),
	}
}

func caseHash(b []byte) uint64 {
	s := sha256.Sum256(b)
	return binary.BigEndian.Uint64(s[:8])
}

// FailRecord is the replay file format.
type FailRecord struct {
	Property string          `json:"property"`
	Check    string          `json:"check"`
	Error    string          `json:"error"`
	Case     json.RawMessage `json:"case"`
}

func (r *runner[C]) writeFail(kind string, c C, msg string) {
	b, err := json.Marshal(c)
	if err != nil {
		b = []byte(fmt.Sprintf("%q", fmt.Sprintf("unencodable case: %v", err)))
	}
	rec := FailRecord{Property: r.spec.Property, Check: r.spec.Name, Error: msg, Case: b}
	out, _ := json.MarshalIndent(rec, "", " ")
	_ = os.WriteFile(filepath.Join(r.outDir, r.spec.Name+"."+kind+".json"), out, 0o644)
}

// safeExec runs Exec, turning a panic on the calling goroutine into a violation.
func (r *runner[C]) safeExec(c C) (o Outcome, err error) {
	defer func() {
		if p := recover(); p != nil {
			err = fmt.Errorf("panic: %v\n%s", p, debug.Stack())
		}
	}()
	return r.spec.Exec(c)
}

// one executes a single Case and does all the bookkeeping. It returns the violation, if any.
func (r *runner[C]) one(c C) error {
	if r.spec.Journal {
		r.writeFail("journal", c, "journal: case was running when the process died")
	}
	o, err := r.safeExec(c)
	r.mu.Lock()
	defer r.mu.Unlock()
	if r.failed {
		r.st.ShrinkRuns++
	} else {
		r.st.Evaluations++
	}
	if err != nil {
		r.failed = true
		r.st.Violations = 1
		r.writeFail("fail", c, err.Error())
		return err
	}
	if r.failed {
		return nil
	}
	for _, cl := range o.Classes {
		r.st.Classes[cl]++
	}
	if o.Excluded {
		r.st.Excluded++
		return nil
	}
	if o.NonTrivial {
		r.st.NonTrivial++
		b, _ := json.Marshal(c)
		h := caseHash(b)
		if !r.st.hashes[h] {
			r.st.hashes[h] = true
			n := len(r.st.hashes)
			// keep the 1st, 2nd, 10th, 100th, 1000th ... distinct non-trivial case
			if n <= 2 || n == 10 || n == 100 || n == 1000 || n == 10000 || n == 100000 {
				if len(b) < 6000 {
					r.st.Samples = append(r.st.Samples, json.RawMessage(b))
				}
			}
		}
	}
	return nil
}

func (r *runner[C]) finish() {
	r.mu.Lock()
	defer r.mu.Unlock()
	r.st.Distinct = len(r.st.hashes)
	r.st.WallS = time.Since(r.start).Seconds()
	out, _ := json.MarshalIndent(r.st, "", " ")
	_ = os.WriteFile(filepath.Join(r.outDir, r.spec.Name+".stats.json"), out, 0o644)
	hs := make([]uint64, 0, len(r.st.hashes))
	for h := range r.st.hashes {
		hs = append(hs, h)
	}
	sort.Slice(hs, func(i, j int) bool { return hs[i] < hs[j] })
	buf := make([]byte, 8*len(hs))
	for i, h := range hs {
		binary.BigEndian.PutUint64(buf[8*i:], h)
	}
	_ = os.WriteFile(filepath.Join(r.outDir, r.spec.Name+".hashes"), buf, 0o644)
	_ = os.Remove(filepath.Join(r.outDir, r.spec.Name+".journal.json"))
}

// replayCase loads the Case of a replay file when VERIF_REPLAY names one for this check.
// ok is false when no replay was requested; skip is true when the file is for another check.
func replayCase[C any](name string) (c C, ok bool, skip bool, err error) {
	p := os.Getenv("VERIF_REPLAY")
	if p == "" {
		return c, false, false, nil
	}
	b, err := os.ReadFile(p)
	if err != nil {
		return c, true, false, err
	}
	var rec FailRecord
	if err := json.Unmarshal(b, &rec); err != nil {
		return c, true, false, err
	}
	if rec.Check != name {
		return c, true, true, nil
	}
	if err := json.Unmarshal(rec.Case, &c); err != nil {
		return c, true, false, err
	}
	return c, true, false, nil
}

// Run executes a generated check under rapid (or replays one Case, bypassing rapid).
func Run[C any](t *testing.T, spec Spec[C]) {
	r := newRunner(spec)
	if c, ok, skip, err := replayCase[C](spec.Name); ok {
		if skip {
			t.Skip("replay file is for another check")
		}
		if err != nil {
			t.Fatalf("cannot load replay file: %v", err)
		}
		r.st.Replay = true
		verr := r.one(c)
		r.finish()
		if verr != nil {
			t.Fatalf("REPLAY-VIOLATION %s/%s: %v", spec.Property, spec.Name, verr)
		}
		return
	}
	defer r.finish()
	rapid.Check(t, func(rt *rapid.T) {
		c := spec.Gen(rt)
		if err := r.one(c); err != nil {
			rt.Fatalf("%s/%s: %v", spec.Property, spec.Name, err)
		}
	})
}

// Enumerate executes an explicit list of Cases (a finite sub-space enumerated completely,
// or deterministic probes), with the same bookkeeping as Run.
func Enumerate[C any](t *testing.T, spec Spec[C], cases []C) {
	r := newRunner(spec)
	if c, ok, skip, err := replayCase[C](spec.Name); ok {
		if skip {
			t.Skip("replay file is for another check")
		}
		if err != nil {
			t.Fatalf("cannot load replay file: %v", err)
		}
		r.st.Replay = true
		verr := r.one(c)
		r.finish()
		if verr != nil {
			t.Fatalf("REPLAY-VIOLATION %s/%s: %v", spec.Property, spec.Name, verr)
		}
		return
	}
	defer r.finish()
	for _, c := range cases {
		if err := r.one(c); err != nil {
			t.Fatalf("%s/%s: %v", spec.Property, spec.Name, err)
			return
		}
	}
}

// Errf is fmt.Errorf, shorter to type in oracles.
func Errf(format string, a ...any) error { return fmt.Errorf(format, a...) }

// Catch runs f and converts a panic into an error (used around single calls into the
// code under test where "never crashes" is part of the property).
func Catch(f func()) (err error) {
	defer func() {
		if p := recover(); p != nil {
			err = fmt.Errorf("panic: %v\n%s", p, debug.Stack())
		}
	}()
	f()
	return nil
}

// Known reports whether a finding key is listed in KNOWN_FINDINGS.txt for the running property
// (the driver passes the listed keys in VERIF_KNOWN).
func Known(key string) bool {
	for _, k := range strings.Split(os.Getenv("VERIF_KNOWN"), ",") {
		if k == key {
			return true
		}
	}
	return false
}
