package vh

// A fixed, test-only DSA key (L1024 N160) generated once: ssh-dss identities and ssh-dss-cert-v01
// certificates are among the types an ssh-agent can hold; crypto/dsa keys have no PKCS#8 form, hence
// the separate file.

import (
	"crypto/dsa"
	"math/big"
)

const (
	dsaP = "d7646b3900632cf7cc6257b2b4d6b0c6ef942df61b432c9e0bb824f8ff5aa00385b6ffff59baf505af261863b250d567272cf76c1c4cc5ab0853ddd1ff84c0e18e88c713da2447c5446579877f51966b367728d573dac4bfa6eeb56afbe53351be70991eb50a4f7880614489c46270527ef7e2c27c102088213de7490a72c59d"
	dsaQ = "b2ad12f3257e542533f602f3c6720d36a8d91c5d"
	dsaG = "74f4a0682ff502594fc3972643aa98a804a841e7040f0ab6202ed3393ee283d0992bc2a2a4f311cc04386a38246b99bc696692db94aad51d1468b99af1e12972013e493f9b6c7fcc2961ae2e2fad0b7d35cadb772d484d0325b5fb12720a159c468415fea25a0f118ed2d044eba53a0058daf5e36be629bfdddeddd3199f2e48"
	dsaY = "bef82dc62006b77bd3f82b8970d2ebc59f6e391cc90134312f7b06e9249e06f4328638947bd25c68982020fa2d9e04fb29160dc18e3d2d8eeca63a9b0c31d1322e8e576399c98ec239e9399bd0b623cd44b49ef65023f07897d5ed5b299123786b8b9b6bec9086f1323b361a295728233a98fb3170a439492141874aae6b8bba"
	dsaX = "82e0c573e8ed89397b071f583407f4cb07dcb13c"
)

func hexInt(s string) *big.Int {
	n, ok := new(big.Int).SetString(s, 16)
	if !ok {
		panic("bad hex constant")
	}
	return n
}

// DSAKey returns the pool's DSA private key ("dsa1024").
func DSAKey() *dsa.PrivateKey {
	return &dsa.PrivateKey{PublicKey: dsa.PublicKey{Parameters: dsa.Parameters{P: hexInt(dsaP), Q: hexInt(dsaQ), G: hexInt(dsaG)}, Y: hexInt(dsaY)}, X: hexInt(dsaX)}
}

// PrivKey returns the private key of a pool key in the form agent.AddedKey and ssh.NewSignerFromKey
// take: crypto.Signer for the PKCS#8 pool, *dsa.PrivateKey for "dsa1024".
func PrivKey(name string) any {
	if name == "dsa1024" {
		return DSAKey()
	}
	return Key(name)
}
