package vh

import (
	"encoding/json"
	"fmt"
	"strconv"
	"strings"
	"unicode"

	"pgregory.net/rapid"
)

// Reference view of the client request message (wire format documented in the README and
// used by separately shipped clients): JSON member names and the legacy "k=v" tokens.

// RefTouchlessSudo mirrors the touchlessSudo member.
type RefTouchlessSudo struct {
	IsFirefighter bool   `json:"isFirefighter,omitempty"`
	Hosts         string `json:"hosts,omitempty"`
	Time          int64  `json:"time,omitempty"`
}

// RefAttrs mirrors the JSON wire format of the request message.
type RefAttrs struct {
	IfVer            int               `json:"ifVer"`
	Username         string            `json:"username"`
	Hostname         string            `json:"hostname"`
	SSHClientVersion string            `json:"sshClientVersion"`
	CAPubKeyAlgo     int               `json:"caPubKeyAlgo,omitempty"`
	SignatureAlgo    int               `json:"signatureAlgo,omitempty"`
	HardKey          bool              `json:"hardKey"`
	Touch2SSH        bool              `json:"touch2SSH,omitempty"`
	TouchlessSudo    *RefTouchlessSudo `json:"touchlessSudo,omitempty"`
	Exts             map[string]any    `json:"exts,omitempty"`
}

// RequiredPresent is the required-member rule shared by encoder and decoder.
func (a *RefAttrs) RequiredPresent() bool {
	return a.SSHClientVersion != "" && a.Username != "" && a.Hostname != ""
}

// RefDecodeJSON reports whether encoding/json decodes text into the attribute shape.
func RefDecodeJSON(text string) (*RefAttrs, bool) {
	a := &RefAttrs{}
	if err := json.Unmarshal([]byte(text), a); err != nil {
		return nil, false
	}
	return a, true
}

// LegacyTokens is the reference tokenisation of a legacy message: split on single spaces,
// trim, drop empties, key = text before the first '='. All values of a repeated key are kept.
func LegacyTokens(text string) (keys []string, values map[string][]string) {
	values = map[string][]string{}
	for _, tok := range strings.Split(text, " ") {
		tok = strings.TrimSpace(tok)
		if tok == "" {
			continue
		}
		k, v := tok, ""
		if i := strings.IndexByte(tok, '='); i >= 0 {
			k, v = tok[:i], tok[i+1:]
		}
		if _, seen := values[k]; !seen {
			keys = append(keys, k)
		}
		values[k] = append(values[k], v)
	}
	return
}

// HasSpaceOrAt reports whether s contains Unicode whitespace or '@'.
func HasSpaceOrAt(s string) bool {
	for _, r := range s {
		if r == '@' || unicode.IsSpace(r) {
			return true
		}
	}
	return false
}

// GenPlainToken draws a non-empty string free of Unicode whitespace and '@'.
func GenPlainToken(t *rapid.T, label string) string {
	if rapid.IntRange(0, 19).Draw(t, label+"Long") == 0 {
		// long values: around the buffer sizes of the usual readers (4 KiB, 64 KiB) and beyond
		n := rapid.SampledFrom([]int{4095, 4096, 4097, 65535, 65536, 65537, 100000, 200001}).Draw(t, label+"Len")
		unit := rapid.SampledFrom([]string{"a", "ab=", "é", "0123456789"}).Draw(t, label+"Unit")
		return strings.Repeat(unit, n/len(unit)+1)[:n/len(unit)*len(unit)]
	}
	switch rapid.IntRange(0, 5).Draw(t, label+"K") {
	case 0:
		return rapid.SampledFrom([]string{"a=b", "=", "x==y", `"`, `{"a":1}`, "日本", "é", "IFVer=6", "req", "HardKey=true", "\x00", "a,b,c", "-1", "true"}).Draw(t, label)
	case 1:
		s := rapid.String().Draw(t, label)
		s = strings.ToValidUTF8(s, "?")
		var b strings.Builder
		for _, r := range s {
			if r == '@' || unicode.IsSpace(r) {
				continue
			}
			b.WriteRune(r)
		}
		if b.Len() == 0 {
			return "x"
		}
		return b.String()
	default:
		return rapid.StringMatching(`[a-zA-Z0-9_.-]{1,12}`).Draw(t, label)
	}
}

// GenAnyString draws an arbitrary valid UTF-8 string (possibly empty).
func GenAnyString(t *rapid.T, label string) string {
	switch rapid.IntRange(0, 6).Draw(t, label+"K") {
	case 6:
		// texts that look like JSON escapes themselves (a literal backslash followed by an escape letter)
		return rapid.SampledFrom([]string{`\u0026`, `x\u003cy`, `\u003e\u003c`, `\n`, `\"`, `\\`, `\u00e9`, `a\u0026b&c`, "&amp;", "\u2028", "a&b<c>d", `\\u0026`,
			// texts full of brackets and braces (data, not structure)
			strings.Repeat("[", 40), strings.Repeat("{", 33) + "x", "]]]]}}}}", strings.Repeat("[{", 70), strings.Repeat("(", 100)}).Draw(t, label)
	case 0:
		return rapid.SampledFrom([]string{" ", "a b", "a@b", " req=a@b ", `"`, `\`, "<>&", " ", "日本 語", "\t", "\n", "\x00", " ", "user name"}).Draw(t, label)
	case 1:
		if s := strings.ToValidUTF8(rapid.String().Draw(t, label), "?"); s != "" {
			return s
		}
		return "x"
	default:
		return rapid.StringMatching(`[a-zA-Z0-9_.-]{1,12}`).Draw(t, label)
	}
}

// GenVersionText draws a declared client version text and says whether it is a valid
// major.minor with both parts in 0..65535, plus its canonical "M.m" rendering.
func GenVersionText(t *rapid.T, label string) (text string, valid bool, canon string) {
	switch rapid.IntRange(0, 9).Draw(t, label+"K") {
	case 0:
		text = rapid.SampledFrom([]string{"8", "8.", ".1", "8.1.2", "8.1p1", "v8.1", "8,1", "-8.1", "8.-1", "+8.1", " 8.1", "8.1 ", "8.1\n", "٨.١", "8．1", "0x8.1", "1e1.0", "65536.0", "0.65536", "99999999999999999999.1", "8.1\x00"}).Draw(t, label)
		return text, false, ""
	case 1:
		maj := rapid.SampledFrom([]int{0, 1, 65535}).Draw(t, label+"Maj")
		min := rapid.SampledFrom([]int{0, 9, 65535}).Draw(t, label+"Min")
		pad1 := strings.Repeat("0", rapid.IntRange(0, 3).Draw(t, label+"P1"))
		pad2 := strings.Repeat("0", rapid.IntRange(0, 25).Draw(t, label+"P2"))
		return fmt.Sprintf("%s%d.%s%d", pad1, maj, pad2, min), true, fmt.Sprintf("%d.%d", maj, min)
	default:
		maj := rapid.IntRange(0, 65535).Draw(t, label+"Maj")
		min := rapid.IntRange(0, 65535).Draw(t, label+"Min")
		return fmt.Sprintf("%d.%d", maj, min), true, fmt.Sprintf("%d.%d", maj, min)
	}
}

// RefVersion is an independent parser of "major.minor" (ASCII digits, each part 0..65535).
func RefVersion(s string) (canon string, ok bool) {
	i := strings.IndexByte(s, '.')
	if i <= 0 || i == len(s)-1 {
		return "", false
	}
	part := func(p string) (int, bool) {
		n := 0
		for _, c := range []byte(p) {
			if c < '0' || c > '9' {
				return 0, false
			}
			if n < 1<<20 {
				n = n*10 + int(c-'0')
			}
		}
		return n, n <= 65535
	}
	a, ok1 := part(s[:i])
	b, ok2 := part(s[i+1:])
	if !ok1 || !ok2 {
		return "", false
	}
	return strconv.Itoa(a) + "." + strconv.Itoa(b), true
}

// GenJSONValue draws a JSON-native value (string, float64, bool, nil, list, object) to the given depth.
func GenJSONValue(t *rapid.T, label string, depth int) any {
	max := 6
	if depth <= 0 {
		max = 4
	}
	switch rapid.IntRange(0, max).Draw(t, label+"T") {
	case 0:
		return GenAnyString(t, label+"S")
	case 1:
		return rapid.SampledFrom([]float64{0, 1, -1, 100, 1.5, 1e21, -2.5e-7, 9007199254740993, 4294967296}).Draw(t, label+"F")
	case 2:
		return rapid.Bool().Draw(t, label+"B")
	case 3:
		return nil
	case 4:
		return rapid.Float64Range(-1e9, 1e9).Draw(t, label+"F2")
	case 5:
		n := rapid.IntRange(0, 3).Draw(t, label+"N")
		l := make([]any, n)
		for i := range l {
			l[i] = GenJSONValue(t, fmt.Sprintf("%s[%d]", label, i), depth-1)
		}
		return l
	default:
		return GenJSONMap(t, label+"M", depth-1, 0)
	}
}

// GenJSONMap draws a map with at least min entries of JSON-native values.
func GenJSONMap(t *rapid.T, label string, depth, min int) map[string]any {
	n := rapid.IntRange(min, 3).Draw(t, label+"N")
	m := map[string]any{}
	for i := 0; i < n; i++ {
		k := rapid.OneOf(
			rapid.SampledFrom([]string{"field1", "field2", "privKeyNeeded", "", "a b", "req", "Username", "é"}),
			rapid.StringMatching(`[a-zA-Z0-9]{1,8}`),
		).Draw(t, fmt.Sprintf("%s.k%d", label, i))
		m[k] = GenJSONValue(t, fmt.Sprintf("%s.%s", label, k), depth)
	}
	// an extension named like a typed attribute or like a legacy token, with a value of that attribute's
	// kind: extensions are data, they must never be read back into the typed fields
	if rapid.IntRange(0, 3).Draw(t, label+"Alias") == 0 {
		k := rapid.SampledFrom([]string{"HardKey", "hardKey", "hardkey", "Touch2SSH", "touch2SSH", "IsFirefighter", "isFirefighter", "TouchlessSudoHosts", "TouchlessSudoTime", "touchlessSudo", "IFVer", "ifVer", "SSHClientVersion", "username", "hostname", "req"}).Draw(t, label+"AliasK")
		m[k] = rapid.SampledFrom([]any{"true", true, "1", "30", float64(30), "host01,host02", "user@host", "T"}).Draw(t, label+"AliasV")
	}
	return m
}
