package vh

// A tiny DER toolbox (independent of encoding/asn1 decoding), shared by the checks that need
// certificates in the encoding old YubiKey firmware produced.

type tlv struct {
	tag     byte
	content []byte
	full    []byte
}

func readTLV(b []byte) (t tlv, rest []byte, ok bool) {
	if len(b) < 2 {
		return t, nil, false
	}
	t.tag = b[0]
	l := int(b[1])
	off := 2
	if l&0x80 != 0 {
		n := l & 0x7f
		if n == 0 || n > 3 || len(b) < 2+n {
			return t, nil, false
		}
		l = 0
		for i := 0; i < n; i++ {
			l = l<<8 | int(b[2+i])
		}
		off = 2 + n
	}
	if len(b) < off+l {
		return t, nil, false
	}
	t.content = b[off : off+l]
	t.full = b[:off+l]
	return t, b[off+l:], true
}

func children(content []byte) []tlv {
	var out []tlv
	for len(content) > 0 {
		t, rest, ok := readTLV(content)
		if !ok {
			return nil
		}
		out = append(out, t)
		content = rest
	}
	return out
}

func wrap(tag byte, content []byte) []byte {
	l := len(content)
	var hdr []byte
	switch {
	case l < 0x80:
		hdr = []byte{tag, byte(l)}
	case l < 0x100:
		hdr = []byte{tag, 0x81, byte(l)}
	case l < 0x10000:
		hdr = []byte{tag, 0x82, byte(l >> 8), byte(l)}
	default:
		hdr = []byte{tag, 0x83, byte(l >> 16), byte(l >> 8), byte(l)}
	}
	return append(hdr, content...)
}

func concat(ts []tlv) []byte {
	var out []byte
	for _, t := range ts {
		out = append(out, t.full...)
	}
	return out
}

// StripKeyNULL rewrites a certificate so that the RSA key algorithm identifier omits the NULL
// parameter (as old YubiKey firmware did), fixing all enclosing lengths. ok=false if not applicable.
func StripKeyNULL(der []byte) ([]byte, bool) {
	cert, rest, ok := readTLV(der)
	if !ok || len(rest) != 0 || cert.tag != 0x30 {
		return nil, false
	}
	top := children(cert.content)
	if len(top) != 3 {
		return nil, false
	}
	tbs := children(top[0].content)
	idx := 5
	if len(tbs) > 0 && tbs[0].tag == 0xa0 {
		idx = 6
	}
	if len(tbs) <= idx {
		return nil, false
	}
	spki := children(tbs[idx].content)
	if len(spki) != 2 {
		return nil, false
	}
	alg := children(spki[0].content)
	if len(alg) != 2 || alg[1].tag != 0x05 || len(alg[1].content) != 0 {
		return nil, false
	}
	newAlg := wrap(0x30, alg[0].full)
	newSPKI := wrap(0x30, append(append([]byte{}, newAlg...), spki[1].full...))
	var newTBS []byte
	for i, c := range tbs {
		if i == idx {
			newTBS = append(newTBS, newSPKI...)
		} else {
			newTBS = append(newTBS, c.full...)
		}
	}
	out := wrap(0x30, append(append(wrap(0x30, newTBS), top[1].full...), top[2].full...))
	return out, true
}

// AddUniqueIDs rewrites a certificate so that its body carries issuerUniqueID ([1] IMPLICIT BIT STRING) and / or
// subjectUniqueID ([2]) in front of the extensions - legal in version 2 and 3 certificates, never emitted by
// crypto/x509 - fixing the enclosing lengths. The signature is left as it is (it no longer covers the body:
// parsers do not look at it). nil = leave that identifier out. ok=false if not applicable.
func AddUniqueIDs(der []byte, issuerID, subjectID []byte) ([]byte, bool) {
	cert, rest, ok := readTLV(der)
	if !ok || len(rest) != 0 || cert.tag != 0x30 {
		return nil, false
	}
	top := children(cert.content)
	if len(top) != 3 {
		return nil, false
	}
	tbs := children(top[0].content)
	if len(tbs) < 7 || tbs[0].tag != 0xa0 { // version 1 certificates have no unique identifiers
		return nil, false
	}
	var ids []byte
	if issuerID != nil {
		ids = append(ids, wrap(0x81, append([]byte{0}, issuerID...))...)
	}
	if subjectID != nil {
		ids = append(ids, wrap(0x82, append([]byte{0}, subjectID...))...)
	}
	var newTBS []byte
	done := false
	for _, c := range tbs {
		if c.tag == 0xa3 && !done {
			newTBS = append(newTBS, ids...)
			done = true
		}
		newTBS = append(newTBS, c.full...)
	}
	if !done {
		newTBS = append(newTBS, ids...)
	}
	return wrap(0x30, append(append(wrap(0x30, newTBS), top[1].full...), top[2].full...)), true
}

// ReplaceSPKI rewrites a certificate issued by an RSA key with SHA-256 so that its body carries another
// subjectPublicKeyInfo (complete DER of the SEQUENCE), and signs the new body with the issuer's pool key: a
// well-formed, validly issued certificate for a key type crypto/x509 cannot issue itself.
func ReplaceSPKI(der, spki []byte, issuerRSAKey string) ([]byte, bool) {
	cert, rest, ok := readTLV(der)
	if !ok || len(rest) != 0 || cert.tag != 0x30 {
		return nil, false
	}
	top := children(cert.content)
	if len(top) != 3 {
		return nil, false
	}
	tbs := children(top[0].content)
	if len(tbs) < 7 || tbs[0].tag != 0xa0 {
		return nil, false
	}
	var newTBS []byte
	for i, c := range tbs {
		if i == 6 {
			newTBS = append(newTBS, spki...)
		} else {
			newTBS = append(newTBS, c.full...)
		}
	}
	body := wrap(0x30, newTBS)
	sig, err := signPKCS1SHA256(issuerRSAKey, body)
	if err != nil {
		return nil, false
	}
	return wrap(0x30, append(append(append([]byte{}, body...), top[1].full...), wrap(0x03, append([]byte{0}, sig...))...)), true
}

// SPKI builds a subjectPublicKeyInfo from the DER of its algorithm identifier's content (OID and parameters) and the key bits.
func SPKI(algContent, keyBits []byte) []byte {
	return wrap(0x30, append(wrap(0x30, algContent), wrap(0x03, append([]byte{0}, keyBits...))...))
}
