package vh

import (
	"math"

	"golang.org/x/crypto/ssh"
)

// Reference decision table for certificate type / label (README + property C19).

// Cert type numbers of the reference table.
const (
	RTUnknown = iota
	RTTouchSudo
	RTTouchless
	RTTouchlessSudo
	RTFirefighter
	RTNonce
	RTTouchlessInAgent
	RTTouchlessSudoInAgent
)

// RTName is the documented label prefix of each type.
var RTName = map[int]string{
	RTTouchSudo: "TouchSudo", RTTouchless: "Touchless", RTTouchlessSudo: "TouchlessSudo", RTFirefighter: "FireFighterSudo",
	RTNonce: "Nonce", RTTouchlessInAgent: "TouchlessInAgent", RTTouchlessSudoInAgent: "TouchlessSudoInAgent",
}

// RefType derives the type from decoded attributes and the critical option.
func RefType(decodable bool, a KeyIDAttrs, critSet bool) int {
	if !decodable {
		return RTUnknown
	}
	switch {
	case a.Nonce:
		return RTNonce
	case a.FF && a.HW:
		return RTFirefighter
	case a.FF:
		if critSet {
			return RTTouchlessSudoInAgent
		}
		return RTTouchlessInAgent
	case a.Touch == 2 || a.Touch == 3:
		return RTTouchSudo
	case a.Touch == 1:
		if critSet {
			return RTTouchlessSudo
		}
		return RTTouchless
	}
	return RTUnknown
}

// RefLabel is the reference label of a certificate ("" , false for the unknown type).
func RefLabel(c *ssh.Certificate) (string, bool) {
	if c == nil {
		return "", false
	}
	a, ok := RefDecodeKeyID(c.KeyId)
	crit := c.CriticalOptions != nil && c.CriticalOptions["touchless-sudo-hosts"] != ""
	t := RefType(ok, a, crit)
	if t == RTUnknown {
		return "", false
	}
	return RTName[t] + "SSH-" + a.TransID, true
}

// IsYSSHCA says whether the certificate's KeyID is a YSSHCA KeyID by the reference model.
func IsYSSHCA(c *ssh.Certificate) bool {
	_, ok := RefDecodeKeyID(c.KeyId)
	return ok
}

// CertValidAt is the reference validity rule: ValidAfter <= now <= ValidBefore with values above
// MaxInt64 (including the "forever" value) clamped.
func CertValidAt(c *ssh.Certificate, now int64) bool {
	va, vb := c.ValidAfter, c.ValidBefore
	if va > math.MaxInt64 {
		va = math.MaxInt64
	}
	if vb > math.MaxInt64 {
		vb = math.MaxInt64
	}
	return int64(va) <= now && now <= int64(vb)
}
