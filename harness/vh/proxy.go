package vh

import (
	"sort"
	"bytes"
	"crypto/sha256"
	"encoding/binary"
	"fmt"
	"io"
	"net"
	"os"
	"path/filepath"
	"sync"
	"sync/atomic"
	"time"

	"golang.org/x/crypto/ssh"
	"golang.org/x/crypto/ssh/agent"
)

// Agent protocol codes used by the proxy.
const (
	CodeFailure         = 5
	CodeSuccess         = 6
	CodeList            = 11
	CodeIdentities      = 12
	CodeSign            = 13
	CodeSignResponse    = 14
	CodeAdd             = 17
	CodeRemove          = 18
	CodeRemoveAll       = 19
	CodeLock            = 22
	CodeUnlock          = 23
	CodeAddConstrained  = 25
	CodeExtension       = 27
	CodeExtensionFailed = 28
	// EchoMark is the first byte of the proxy's echo reply to requests no agent knows.
	EchoMark = 0xEC
	// ExtMark is the first byte of the proxy's echo reply to extension requests.
	ExtMark = 0xED
)

// Frame is one request seen by the proxy.
type Frame struct {
	Conn  int
	Index int
	Code  int
	Len   int
	Hash  [32]byte
	Body  []byte // whole request (code byte included) when <= 8 KiB
	Fault string
	// ReplyLen is the length of the reply sent (0 when the connection was dropped).
	ReplyLen int
}

// FaultRule makes the proxy misbehave. The first matching rule with Remaining != 0 applies.
type FaultRule struct {
	// Index matches the n-th request after the plan was installed (-1: any).
	Index int
	// Code matches the request code (-1: any).
	Code int
	// Kind: fail | malformed | oversize | close | truncate | empty
	Kind string
	// Remaining is how often the rule fires (-1: always).
	Remaining int
	// Skip is the number of matching requests that pass untouched before the rule starts firing.
	Skip int `json:",omitempty"`
}

// Proxy is a frame-level ssh-agent served on a unix socket in front of a real keyring.
type Proxy struct {
	Path string
	dir  string
	ring agent.Agent
	ln   net.Listener

	mu       sync.Mutex
	frames   []Frame
	rules    []FaultRule
	planBase int
	nreq     int
	nconn    int
	locked   bool
	pass     []byte
	conns    []net.Conn

	beMu sync.Mutex
	be   net.Conn

	inflight atomic.Int32
	closed   atomic.Bool

	// Hook, when set, sees every request first. handled=true means reply (or drop) is used
	// instead of the honest answer; it runs outside the proxy mutex.
	Hook func(idx int, req []byte) (reply []byte, drop bool, handled bool)

	recMu sync.Mutex
	adds  []agent.AddedKey

	// ListsWhileLocked makes the emulated lock behave like an agent that keeps listing its identities
	// while locked (hardware-style agents do).
	ListsWhileLocked bool
	// ListOrder: the order in which the emulated agent lists its identities: "" = insertion order (the keyring's) |
	// reverse (newest first) | bycomment (sorted by comment). The protocol promises no order.
	ListOrder string

	// Latency, when set, delays the answer to a request of the given code (widens race windows).
	Latency func(code int) time.Duration
}

// recRing records the AddedKey of every add request on its way to the keyring.
type recRing struct {
	agent.ExtendedAgent
	p *Proxy
}

func (r recRing) Add(k agent.AddedKey) error {
	r.p.recMu.Lock()
	r.p.adds = append(r.p.adds, k)
	r.p.recMu.Unlock()
	return r.ExtendedAgent.Add(k)
}

// Adds returns the AddedKey values (constraints included) the underlying agent received so far.
func (p *Proxy) Adds() []agent.AddedKey {
	p.recMu.Lock()
	defer p.recMu.Unlock()
	return append([]agent.AddedKey(nil), p.adds...)
}

// NewProxy starts a proxy over a fresh keyring.
func NewProxy() (*Proxy, error) {
	dir, err := os.MkdirTemp("", "vp")
	if err != nil {
		return nil, err
	}
	p := &Proxy{dir: dir, Path: filepath.Join(dir, "a.sock"), ring: agent.NewKeyring()}
	p.ln, err = net.Listen("unix", p.Path)
	if err != nil {
		os.RemoveAll(dir)
		return nil, err
	}
	c1, c2 := net.Pipe()
	p.be = c1
	go func() { _ = agent.ServeAgent(recRing{p.ring.(agent.ExtendedAgent), p}, c2) }()
	go p.acceptLoop()
	return p, nil
}

// Close stops the proxy and removes its socket directory.
func (p *Proxy) Close() {
	if p.closed.Swap(true) {
		return
	}
	p.ln.Close()
	p.mu.Lock()
	for _, c := range p.conns {
		c.Close()
	}
	p.mu.Unlock()
	p.be.Close()
	os.RemoveAll(p.dir)
}

// Ring is the keyring behind the proxy (for out-of-band inspection and edits).
func (p *Proxy) Ring() agent.Agent { return p.ring }

// RingKeys lists the keyring directly.
func (p *Proxy) RingKeys() []*agent.Key {
	ks, _ := p.ring.List()
	return ks
}

// SetPlan installs a fault plan; rule indexes count from this moment.
func (p *Proxy) SetPlan(rules []FaultRule) {
	p.mu.Lock()
	defer p.mu.Unlock()
	p.rules = append([]FaultRule(nil), rules...)
	p.planBase = p.nreq
}

// Frames returns a copy of the recorded requests.
func (p *Proxy) Frames() []Frame {
	p.mu.Lock()
	defer p.mu.Unlock()
	return append([]Frame(nil), p.frames...)
}

// NumFrames is the number of requests seen so far.
func (p *Proxy) NumFrames() int {
	p.mu.Lock()
	defer p.mu.Unlock()
	return p.nreq
}

// Locked reports the emulated lock state of the underlying agent.
func (p *Proxy) Locked() bool {
	p.mu.Lock()
	defer p.mu.Unlock()
	return p.locked
}

// ForceUnlock drops the emulated lock behind the client's back (as a restart of the agent or an
// unlock by another client would).
func (p *Proxy) ForceUnlock() {
	p.mu.Lock()
	p.locked, p.pass = false, nil
	p.mu.Unlock()
}

// InFlight reports whether a request is being processed.
func (p *Proxy) InFlight() bool { return p.inflight.Load() > 0 }

func (p *Proxy) acceptLoop() {
	for {
		c, err := p.ln.Accept()
		if err != nil {
			return
		}
		p.mu.Lock()
		p.nconn++
		id := p.nconn
		p.conns = append(p.conns, c)
		p.mu.Unlock()
		go p.serve(c, id)
	}
}

func readFrame(c io.Reader) ([]byte, error) {
	var l [4]byte
	if _, err := io.ReadFull(c, l[:]); err != nil {
		return nil, err
	}
	n := binary.BigEndian.Uint32(l[:])
	if n > 64<<20 {
		return nil, fmt.Errorf("proxy: frame of %d bytes", n)
	}
	b := make([]byte, n)
	if _, err := io.ReadFull(c, b); err != nil {
		return nil, err
	}
	return b, nil
}

func writeFrame(c io.Writer, b []byte) error {
	buf := make([]byte, 4+len(b))
	binary.BigEndian.PutUint32(buf, uint32(len(b)))
	copy(buf[4:], b)
	_, err := c.Write(buf)
	return err
}

func (p *Proxy) matchRule(idx, code int) string {
	for i := range p.rules {
		r := &p.rules[i]
		if r.Remaining == 0 {
			continue
		}
		if r.Index >= 0 && r.Index != idx-p.planBase {
			continue
		}
		if r.Code >= 0 && r.Code != code {
			continue
		}
		if r.Skip > 0 {
			r.Skip--
			continue
		}
		if r.Remaining > 0 {
			r.Remaining--
		}
		return r.Kind
	}
	return ""
}

var knownCodes = map[int]bool{1: true, 9: true, CodeList: true, CodeSign: true, CodeAdd: true, CodeRemove: true, CodeRemoveAll: true, CodeLock: true, CodeUnlock: true, CodeAddConstrained: true, CodeExtension: true}

func (p *Proxy) serve(c net.Conn, id int) {
	defer c.Close()
	for {
		req, err := readFrame(c)
		if err != nil {
			return
		}
		p.inflight.Add(1)
		code := -1
		if len(req) > 0 {
			code = int(req[0])
		}
		p.mu.Lock()
		idx := p.nreq
		p.nreq++
		fault := p.matchRule(idx, code)
		fr := Frame{Conn: id, Index: idx, Code: code, Len: len(req), Hash: sha256.Sum256(req), Fault: fault}
		if len(req) <= 8192 {
			fr.Body = append([]byte(nil), req...)
		}
		p.mu.Unlock()

		var reply []byte
		var pre [][]byte // raw writes performed before dropping the connection
		drop := false
		if fault == "" && p.Hook != nil {
			if r, d, handled := p.Hook(idx, req); handled {
				reply, drop = r, d
				fault = "hook"
				fr.Fault = "hook"
			}
		}
		switch fault {
		case "hook":
		case "fail":
			reply = []byte{CodeFailure}
		case "malformed":
			reply = []byte{CodeIdentities, 0xff, 0xff, 0xff, 0xff, 1, 2, 3}
			if code == CodeSign {
				reply = []byte{CodeSignResponse, 0, 0, 0, 9, 1}
			}
		case "empty":
			reply = []byte{}
		case "oversize":
			// declare a frame larger than 16 MiB, then drop the connection
			var l [4]byte
			binary.BigEndian.PutUint32(l[:], (16<<20)+1)
			pre = [][]byte{l[:], {CodeSuccess}}
			drop = true
		case "truncate":
			var l [4]byte
			binary.BigEndian.PutUint32(l[:], 64)
			pre = [][]byte{l[:], {CodeIdentities, 0, 0}}
			drop = true
		case "close":
			drop = true
		default:
			if p.Latency != nil {
				if d := p.Latency(code); d > 0 {
					time.Sleep(d)
				}
			}
			reply = p.answer(req, code)
		}
		fr.ReplyLen = len(reply)
		// the record is visible before any byte of the reply: observers that see the reply see the record
		p.mu.Lock()
		p.frames = append(p.frames, fr)
		p.mu.Unlock()
		if drop {
			for _, b := range pre {
				c.Write(b)
			}
			p.inflight.Add(-1)
			return
		}
		err = writeFrame(c, reply)
		p.inflight.Add(-1)
		if err != nil {
			return
		}
	}
}

// answer produces the honest reply: lock emulation, echo for unknown codes and extensions,
// the real keyring for everything else.
func (p *Proxy) answer(req []byte, code int) []byte {
	switch code {
	case CodeLock, CodeUnlock:
		var m struct {
			Pass []byte
		}
		if err := ssh.Unmarshal(req[1:], &m); err != nil {
			return []byte{CodeFailure}
		}
		p.mu.Lock()
		defer p.mu.Unlock()
		if code == CodeLock {
			if p.locked {
				return []byte{CodeFailure}
			}
			p.locked, p.pass = true, append([]byte(nil), m.Pass...)
			return []byte{CodeSuccess}
		}
		if !p.locked || !bytes.Equal(p.pass, m.Pass) {
			return []byte{CodeFailure}
		}
		p.locked, p.pass = false, nil
		return []byte{CodeSuccess}
	}
	p.mu.Lock()
	locked := p.locked
	p.mu.Unlock()
	if locked {
		if code == CodeList && !p.ListsWhileLocked {
			return []byte{CodeIdentities, 0, 0, 0, 0}
		}
		if code != CodeList {
			return []byte{CodeFailure}
		}
	}
	if code == CodeExtension {
		return append([]byte{ExtMark}, req...)
	}
	if !knownCodes[code] {
		return append([]byte{EchoMark}, req...)
	}
	p.beMu.Lock()
	defer p.beMu.Unlock()
	if err := writeFrame(p.be, req); err != nil {
		return []byte{CodeFailure}
	}
	rep, err := readFrame(p.be)
	if err != nil {
		return []byte{CodeFailure}
	}
	if code == CodeList && p.ListOrder != "" {
		rep = reorderIdentities(rep, p.ListOrder)
	}
	return rep
}

// reorderIdentities rewrites an identities answer (code, count, then blob / comment string pairs) in another order.
func reorderIdentities(rep []byte, order string) []byte {
	if len(rep) < 5 || rep[0] != CodeIdentities {
		return rep
	}
	n := int(binary.BigEndian.Uint32(rep[1:5]))
	type ent struct{ raw, comment []byte }
	var ents []ent
	b := rep[5:]
	for i := 0; i < n; i++ {
		start := b
		var parts [2][]byte
		for k := 0; k < 2; k++ {
			if len(b) < 4 {
				return rep
			}
			l := int(binary.BigEndian.Uint32(b))
			if len(b) < 4+l {
				return rep
			}
			parts[k] = b[4 : 4+l]
			b = b[4+l:]
		}
		ents = append(ents, ent{raw: start[:len(start)-len(b)], comment: parts[1]})
	}
	switch order {
	case "reverse":
		for i, j := 0, len(ents)-1; i < j; i, j = i+1, j-1 {
			ents[i], ents[j] = ents[j], ents[i]
		}
	case "bycomment":
		sort.SliceStable(ents, func(i, j int) bool { return bytes.Compare(ents[i].comment, ents[j].comment) < 0 })
	}
	out := append([]byte{}, rep[:5]...)
	for _, e := range ents {
		out = append(out, e.raw...)
	}
	return append(out, b...)
}

func sha256sum(b []byte) [32]byte { return sha256.Sum256(b) }
