package vh

import (
	"fmt"
	"strings"

	"pgregory.net/rapid"
)

// ShimProfile tunes the shared shim history generator for one property.
type ShimProfile struct {
	Validities   []string
	KeyIDClasses []string
	Lock         bool
	Faults       bool
	Forward      bool
	// NoUpstream: 0 random, 1 always, 2 never
	NoUpstream      int
	MaxOps          int
	ConstructFaults bool
	BadAddress      bool
}

// AllKeyIDClasses lists every KeyID class of the generator.
var AllKeyIDClasses = []string{"ysshca0", "ysshca1", "ysshca2", "ysshca3", "ysshca4", "ysshca5", "ysshca6", "ysshca7", "ysshca8", "ysshca9", "ysshcabig", "ysshcahuge", "casevar", "missing", "version", "inconsistent", "text", "empty"}

func isRSAName(k string) bool { return strings.HasPrefix(k, "rsa") }

// GenFaultRules draws a fault plan.
func GenFaultRules(t *rapid.T, label string) []FaultRule {
	n := rapid.IntRange(1, 2).Draw(t, label+"N")
	var out []FaultRule
	for i := 0; i < n; i++ {
		r := FaultRule{Index: -1, Code: -1, Remaining: 1}
		r.Kind = rapid.SampledFrom([]string{"fail", "fail", "fail", "fail", "fail", "malformed", "malformed", "empty", "oversize", "close", "truncate"}).Draw(t, fmt.Sprintf("%sK%d", label, i))
		if rapid.Bool().Draw(t, fmt.Sprintf("%sByIdx%d", label, i)) {
			r.Index = rapid.IntRange(0, 6).Draw(t, fmt.Sprintf("%sI%d", label, i))
		} else {
			r.Code = rapid.SampledFrom([]int{CodeList, CodeList, CodeSign, CodeAdd, CodeAddConstrained, CodeRemove, CodeRemoveAll, CodeLock, CodeUnlock, 200}).Draw(t, fmt.Sprintf("%sC%d", label, i))
			r.Remaining = rapid.SampledFrom([]int{1, 1, 2, -1}).Draw(t, fmt.Sprintf("%sR%d", label, i))
		}
		out = append(out, r)
	}
	return out
}

// ShimGenNote describes what every GenShimCase history draws besides its operations.
const ShimGenNote = " A third of the sign operations name their target as an *agent.Key (format and blob, as a listing hands it out) instead of a parsed object. Signatures are also asked of signers the caller kept from an earlier Signers() call of the same history (operation signheld; judged like any other signature). Half of the histories have a focus certificate named by two thirds of their certificate-bound operations (so that one certificate is added upstream, registered in memory, signed with and removed in one history). Replies of raw forwards and extension calls are kept by the caller and must read the same after every later forward / extension call of the history (what was handed out is not rewritten). Every history draws 1..6 certificates (a sixth of the later ones a twin of an earlier one: same key, serial, type and KeyID, other principals) and the shim's listing-order option PubKeyComp (default, by bytes, by type, by fingerprint)."

// GenShimCase draws a shim history.
func GenShimCase(t *rapid.T, pr ShimProfile) ShimCase {
	c := ShimCase{}
	switch pr.NoUpstream {
	case 1:
		c.NoUpstream = true
	case 2:
		c.NoUpstream = false
	default:
		c.NoUpstream = rapid.Bool().Draw(t, "noUpstream")
	}
	c.Comp = rapid.SampledFrom([]string{"", "", "", "bytes", "type", "fingerprint"}).Draw(t, "comp")
	nc := rapid.IntRange(1, 6).Draw(t, "ncerts")
	lapsing, opening := false, false
	for i := 0; i < nc; i++ {
		d := CertDef{
			Key:        rapid.SampledFrom(SSHKeyNames).Draw(t, fmt.Sprintf("certKey%d", i)),
			KeyIDClass: rapid.SampledFrom(pr.KeyIDClasses).Draw(t, fmt.Sprintf("certKID%d", i)),
			Validity:   rapid.SampledFrom(pr.Validities).Draw(t, fmt.Sprintf("certVal%d", i)),
			Serial:     uint64(1000 + i),
			Host:       rapid.IntRange(0, 7).Draw(t, fmt.Sprintf("certHost%d", i)) == 5,
		}
		if i > 0 && rapid.IntRange(0, 5).Draw(t, fmt.Sprintf("certTwin%d", i)) == 3 {
			o := c.Certs[rapid.IntRange(0, i-1).Draw(t, fmt.Sprintf("certTwinOf%d", i))]
			d.Key, d.KeyIDClass, d.Serial, d.Host, d.Twin = o.Key, o.KeyIDClass, o.Serial, o.Host, !o.Twin
		}
		if d.Validity == "lapsing" {
			if lapsing {
				d.Validity = "current"
			}
			lapsing = true
		}
		if d.Validity == "opening" {
			if opening {
				d.Validity = "current"
			}
			opening = true
		}
		c.Certs = append(c.Certs, d)
	}
	// half of the histories have a focus certificate that two thirds of the certificate-bound operations
	// name: the same certificate is then added upstream, registered in memory, signed with and removed
	focus := -1
	if rapid.Bool().Draw(t, "hasFocusCert") {
		focus = rapid.IntRange(0, nc-1).Draw(t, "focusCert")
	}
	certIdx := func(label string) int {
		if focus >= 0 && rapid.IntRange(0, 2).Draw(t, label+"Focus") != 0 {
			return focus
		}
		return rapid.IntRange(0, nc-1).Draw(t, label)
	}
	genTarget := func(label string) (string, int) {
		if rapid.IntRange(0, 2).Draw(t, label+"IsKey") == 0 {
			return rapid.SampledFrom(SSHKeyNames).Draw(t, label+"Key"), -1
		}
		return "", certIdx(label + "Cert")
	}
	comment := func(label string) string {
		return rapid.SampledFrom([]string{"", "", "yubikey", "user_a@host", "é 日本", "TouchSudoSSH-x", "a-b"}).Draw(t, label)
	}
	// initial content of the underlying agent
	ni := rapid.IntRange(0, 6).Draw(t, "ninitial")
	for i := 0; i < ni; i++ {
		if rapid.Bool().Draw(t, fmt.Sprintf("initIsKey%d", i)) {
			c.Initial = append(c.Initial, Op{Kind: "oobadd", Key: rapid.SampledFrom(SSHKeyNames).Draw(t, fmt.Sprintf("initKey%d", i)), Cert: -1, Comment: comment(fmt.Sprintf("initC%d", i))})
		} else {
			c.Initial = append(c.Initial, Op{Kind: "oobaddcert", Cert: rapid.IntRange(0, nc-1).Draw(t, fmt.Sprintf("initCert%d", i)), Comment: comment(fmt.Sprintf("initC%d", i))})
		}
	}
	if pr.ConstructFaults && rapid.IntRange(0, 9).Draw(t, "constructFault") == 0 {
		c.ConstructPlan = []FaultRule{{Index: 0, Code: -1, Remaining: 1, Kind: rapid.SampledFrom([]string{"fail", "malformed", "empty", "oversize", "close", "truncate"}).Draw(t, "constructKind")}}
	}
	if pr.BadAddress && rapid.IntRange(0, 30).Draw(t, "badAddress") == 0 {
		c.BadAddress = true
	}
	var hardCerts []int
	kinds := []string{"oobremoveall", "list", "list", "list", "list", "signers", "signers", "sign", "sign", "sign", "sign", "signvia", "signheld", "addkey", "addkey", "addcert", "addcert", "addhard", "addhard", "addhard", "addhard", "remove", "remove", "removeall", "oobremove", "oobremove", "oobadd"}
	if lapsing {
		kinds = append(kinds, "lapse", "lapse")
	}
	if opening {
		kinds = append(kinds, "open", "open")
	}
	if pr.Lock {
		kinds = append(kinds, "lock", "lock", "lock", "unlock", "unlock", "unlock", "unlock", "close")
	}
	if pr.Forward {
		kinds = append(kinds, "forward", "forward", "extension")
	}
	if pr.Faults {
		kinds = append(kinds, "plan", "plan")
	}
	// passphrases incl. near misses of each other (trailing blank / newline / NUL, leading blank, other case)
	passes := []string{"", "pw", "correct horse", strings.Repeat("x", 300), "pw ", "pw\n", "pw\r\n", "pw\x00", " pw", "PW", "\n", "p"}
	maxOps := pr.MaxOps
	if maxOps == 0 {
		maxOps = 30
	}
	n := rapid.IntRange(1, maxOps).Draw(t, "nops")
	lastPass := "pw"
	for i := 0; i < n; i++ {
		l := fmt.Sprintf("op%d", i)
		op := Op{Kind: rapid.SampledFrom(kinds).Draw(t, l), Cert: -1}
		switch op.Kind {
		case "sign", "signvia", "signheld":
			op.Key, op.Cert = genTarget(l + "T")
			keyName := op.Key
			if op.Cert >= 0 {
				keyName = c.Certs[op.Cert].Key
			}
			if isRSAName(keyName) && op.Kind == "sign" {
				op.Flags = rapid.SampledFrom([]int{0, 2, 4}).Draw(t, l+"Flags")
			}
			op.Data = rapid.SliceOfN(rapid.Byte(), 0, 64).Draw(t, l+"Data")
			if op.Kind == "sign" {
				op.AsAgentKey = rapid.IntRange(0, 2).Draw(t, l+"AsAgentKey") == 1
			}
		case "addkey", "oobadd":
			op.Key = rapid.SampledFrom(SSHKeyNames).Draw(t, l+"Key")
			op.Comment = comment(l + "C")
		case "addcert":
			op.Cert = certIdx(l + "Cert")
			op.Comment = comment(l + "C")
		case "addhard":
			// mostly certificates, sometimes a plain key (must be refused)
			if rapid.IntRange(0, 7).Draw(t, l+"Plain") == 0 {
				op.Key = rapid.SampledFrom(SSHKeyNames).Draw(t, l+"Key")
			} else {
				op.Cert = certIdx(l + "Cert")
				hardCerts = append(hardCerts, op.Cert)
				if rapid.Bool().Draw(t, l+"WithKey") {
					// make the acceptance branch likely: the certificate's key is added first
					c.Ops = append(c.Ops, Op{Kind: "addkey", Key: c.Certs[op.Cert].Key, Cert: -1, Comment: comment(l + "KC")})
					if rapid.IntRange(0, 3).Draw(t, l+"AlsoUpstream") == 0 {
						// ... and the same certificate is also handed to the underlying agent: held twice
						c.Ops = append(c.Ops, Op{Kind: "addcert", Cert: op.Cert, Comment: comment(l + "UC")})
					}
				}
			}
			op.Comment = comment(l + "C")
		case "remove", "oobremove":
			if len(hardCerts) > 0 && rapid.Bool().Draw(t, l+"Orphan") {
				// aim at the key behind a hardware certificate: creates orphans
				op.Key = c.Certs[hardCerts[rapid.IntRange(0, len(hardCerts)-1).Draw(t, l+"HC")]].Key
			} else if len(hardCerts) > 0 && rapid.IntRange(0, 2).Draw(t, l+"TheHardCert") == 0 {
				// aim at a certificate that was registered as hardware certificate
				op.Cert = hardCerts[rapid.IntRange(0, len(hardCerts)-1).Draw(t, l+"HCC")]
			} else {
				op.Key, op.Cert = genTarget(l + "T")
			}
		case "lock":
			op.Pass = rapid.SampledFrom(passes).Draw(t, l+"Pass")
			lastPass = op.Pass
			if rapid.IntRange(0, 2).Draw(t, l+"Burst") > 0 {
				// a burst of operations attempted while locked, then (mostly) the right passphrase
				c.Ops = append(c.Ops, op)
				nb := rapid.IntRange(1, 4).Draw(t, l+"NB")
				for b := 0; b < nb; b++ {
					bl := fmt.Sprintf("%sB%d", l, b)
					bop := Op{Kind: rapid.SampledFrom([]string{"addkey", "addcert", "addhard", "remove", "removeall", "list", "signers", "sign", "lock", "close", "unlock-wrong"}).Draw(t, bl), Cert: -1}
					switch bop.Kind {
					case "addkey":
						bop.Key = rapid.SampledFrom(SSHKeyNames).Draw(t, bl+"Key")
					case "addcert", "addhard":
						bop.Cert = certIdx(bl + "Cert")
					case "remove", "sign":
						bop.Key, bop.Cert = genTarget(bl + "T")
					case "lock":
						bop.Pass = "again"
					case "unlock-wrong":
						bop.Kind, bop.Pass = "unlock", lastPass+"x"
					}
					c.Ops = append(c.Ops, bop)
				}
				op = Op{Kind: "unlock", Cert: -1, Pass: lastPass}
				if rapid.IntRange(0, 4).Draw(t, l+"NoUnlock") == 0 {
					op = Op{Kind: "list", Cert: -1}
				}
			}
		case "unlock":
			if rapid.IntRange(0, 2).Draw(t, l+"Right") > 0 {
				op.Pass = lastPass
			} else {
				op.Pass = rapid.SampledFrom(passes).Draw(t, l+"Pass")
			}
		case "forward":
			switch rapid.IntRange(0, 5).Draw(t, l+"FK") {
			case 0:
				op.Body = []byte{CodeList}
			case 1:
				op.Body = []byte{}
			case 2:
				sz := rapid.SampledFrom([]int{1, 255, 256, 4096, 65535, 65536}).Draw(t, l+"Size")
				op.Body = make([]byte, sz)
				op.Body[0] = byte(rapid.IntRange(40, 255).Draw(t, l+"Code"))
				for j := 1; j < sz; j++ {
					op.Body[j] = byte(j * 31)
				}
			default:
				op.Body = append([]byte{byte(rapid.OneOf(rapid.SampledFrom([]int{0, 2, 3, 4, 7, 8, 10, 12, 14, 15, 16, 20, 21, 21, 24, 26, 28, 29, 30, 31, 32, 33, 34, 35, 39, 40, 100, 200, 255}), rapid.IntRange(0, 255)).Draw(t, l+"Code"))}, rapid.SliceOfN(rapid.Byte(), 0, 40).Draw(t, l+"Body")...)
			}
		case "extension":
			op.Body = rapid.SliceOfN(rapid.Byte(), 0, 32).Draw(t, l+"Body")
		case "plan":
			op.Plan = GenFaultRules(t, l+"P")
		}
		c.Ops = append(c.Ops, op)
	}
	return c
}
