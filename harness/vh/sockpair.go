package vh

import (
	"net"
	"os"
	"syscall"
)

// SocketPair returns two connected unix stream sockets (real kernel sockets: unlike net.Pipe they
// buffer, and a zero-length write does not block).
func SocketPair() (net.Conn, net.Conn, error) {
	fds, err := syscall.Socketpair(syscall.AF_UNIX, syscall.SOCK_STREAM, 0)
	if err != nil {
		return nil, nil, err
	}
	f1, f2 := os.NewFile(uintptr(fds[0]), "sp1"), os.NewFile(uintptr(fds[1]), "sp2")
	defer f1.Close()
	defer f2.Close()
	c1, err := net.FileConn(f1)
	if err != nil {
		return nil, nil, err
	}
	c2, err := net.FileConn(f2)
	if err != nil {
		c1.Close()
		return nil, nil, err
	}
	return c1, c2, nil
}
