package vh

import (
	"io"
	"bytes"
	"crypto/x509"
	"errors"
	"fmt"
	"sync"
	"time"

	"golang.org/x/crypto/ssh"
	"golang.org/x/crypto/ssh/agent"
)

// RecAgent is a total, recording implementation of the extended agent interface
// (yubiagent.YubiAgent). Every method records its arguments and returns the scripted
// result, so a check can compare "what the caller sent / got" with "what the served
// agent received / returned".

// Call is one recorded invocation.
type Call struct {
	Op       string
	KeyBlob  []byte // marshalled public key argument
	Data     []byte
	Flags    uint32
	Comment  string
	Pass     []byte
	Slot     string
	Code     byte
	Raw      []byte
	Added    *agent.AddedKey
	ExtType  string
	Lifetime time.Duration
	Confirm  bool
}

// Script is the result the next call returns.
type Script struct {
	Err    string // non-empty: the call fails with this text
	Keys   []*agent.Key
	Sig    *ssh.Signature
	Slots  []string
	Cert   *x509.Certificate
	Reply  []byte
	HasErr bool // fail even with an empty text
	// WithResult: a failing call hands back its result value together with the error
	WithResult bool
}

func (s Script) err() error {
	// the texts of the io sentinels are returned AS those sentinels (a served agent whose own upstream
	// connection ended returns exactly io.EOF)
	switch s.Err {
	case "EOF":
		return io.EOF
	case "unexpected EOF":
		return io.ErrUnexpectedEOF
	case "wrapped EOF":
		return fmt.Errorf("wrapped %w", io.EOF) // its text is "wrapped EOF"
	}
	if s.Err != "" || s.HasErr {
		return errors.New(s.Err)
	}
	return nil
}

// RecAgent implements yubiagent.YubiAgent.
type RecAgent struct {
	mu    sync.Mutex
	Calls []Call
	Next  Script
	// Default is used when Next was consumed (streams with many requests).
	Default Script
	sticky  bool
	// Delay, when set, is slept inside every call whose operation name it returns a duration for (a
	// served agent that is slow: a token waiting for a touch).
	Delay func(op string) time.Duration
	// kept are the key objects handed to add-type calls, as a served agent that stores them would
	// keep them (the shim agent does), with their encoding at the time of the call.
	kept []keptKey
}

type keptKey struct {
	op   string
	n    int
	key  ssh.PublicKey
	snap []byte
}

func (r *RecAgent) keep(op string, k ssh.PublicKey) {
	if k == nil {
		return
	}
	r.mu.Lock()
	r.kept = append(r.kept, keptKey{op, len(r.kept), k, blobOf(k)})
	r.mu.Unlock()
}

// Corrupted reports the first key object, stored by an earlier add-type call, whose encoding is no
// longer what it was when the call was made (it aliases memory that was reused since).
func (r *RecAgent) Corrupted() error {
	r.mu.Lock()
	defer r.mu.Unlock()
	for _, k := range r.kept {
		var now []byte
		if perr := Catch(func() { now = k.key.Marshal() }); perr != nil {
			return fmt.Errorf("the key object the served agent received in %s call #%d can no longer be encoded: %v", k.op, k.n, perr)
		}
		if !bytes.Equal(now, k.snap) {
			return fmt.Errorf("the key object the served agent received in %s call #%d changed after the call returned: %d of %d bytes differ (it shares memory with later requests)", k.op, k.n, diffBytes(now, k.snap), len(k.snap))
		}
	}
	return nil
}

func diffBytes(a, b []byte) int {
	n := 0
	for i := 0; i < len(a) && i < len(b); i++ {
		if a[i] != b[i] {
			n++
		}
	}
	if len(a) > len(b) {
		n += len(a) - len(b)
	} else {
		n += len(b) - len(a)
	}
	return n
}

// NewRecAgent returns an agent answering every call with def.
func NewRecAgent(def Script) *RecAgent { return &RecAgent{Default: def, Next: def, sticky: true} }

// SetNext scripts the next call.
func (r *RecAgent) SetNext(s Script) {
	r.mu.Lock()
	defer r.mu.Unlock()
	r.Next = s
}

// Take returns and clears the recorded calls.
func (r *RecAgent) Take() []Call {
	r.mu.Lock()
	defer r.mu.Unlock()
	c := r.Calls
	r.Calls = nil
	return c
}

func (r *RecAgent) rec(c Call) Script {
	if r.Delay != nil {
		if d := r.Delay(c.Op); d > 0 {
			time.Sleep(d)
		}
	}
	r.mu.Lock()
	defer r.mu.Unlock()
	r.Calls = append(r.Calls, c)
	return r.Next
}

func blobOf(k ssh.PublicKey) []byte {
	if k == nil {
		return nil
	}
	return append([]byte(nil), k.Marshal()...)
}

func (r *RecAgent) List() ([]*agent.Key, error) {
	s := r.rec(Call{Op: "list"})
	if s.err() != nil && !s.WithResult {
		return nil, s.err()
	}
	return s.Keys, s.err()
}

func (r *RecAgent) Sign(key ssh.PublicKey, data []byte) (*ssh.Signature, error) {
	s := r.rec(Call{Op: "sign", KeyBlob: blobOf(key), Data: append([]byte(nil), data...)})
	if e := s.err(); e != nil {
		if s.WithResult {
			return s.Sig, e
		}
		return nil, e
	}
	return s.Sig, nil
}

func (r *RecAgent) SignWithFlags(key ssh.PublicKey, data []byte, flags agent.SignatureFlags) (*ssh.Signature, error) {
	s := r.rec(Call{Op: "signflags", KeyBlob: blobOf(key), Data: append([]byte(nil), data...), Flags: uint32(flags)})
	if e := s.err(); e != nil {
		if s.WithResult {
			return s.Sig, e
		}
		return nil, e
	}
	return s.Sig, nil
}

func (r *RecAgent) Add(key agent.AddedKey) error {
	if key.Certificate != nil {
		r.keep("add", key.Certificate)
	}
	k := key
	return r.rec(Call{Op: "add", Added: &k, Comment: key.Comment}).err()
}

func (r *RecAgent) Remove(key ssh.PublicKey) error {
	return r.rec(Call{Op: "remove", KeyBlob: blobOf(key)}).err()
}

func (r *RecAgent) RemoveAll() error { return r.rec(Call{Op: "removeall"}).err() }

func (r *RecAgent) Lock(p []byte) error {
	return r.rec(Call{Op: "lock", Pass: append([]byte(nil), p...)}).err()
}

func (r *RecAgent) Unlock(p []byte) error {
	return r.rec(Call{Op: "unlock", Pass: append([]byte(nil), p...)}).err()
}

func (r *RecAgent) Signers() ([]ssh.Signer, error) {
	r.rec(Call{Op: "signers"})
	return nil, errors.New("verif: Signers is never reached through the wire")
}

func (r *RecAgent) Extension(t string, c []byte) ([]byte, error) {
	s := r.rec(Call{Op: "extension", ExtType: t, Raw: append([]byte(nil), c...)})
	return s.Reply, s.err()
}

func (r *RecAgent) Forward(req []byte) ([]byte, error) {
	s := r.rec(Call{Op: "forward", Raw: append([]byte(nil), req...)})
	if e := s.err(); e != nil {
		return nil, e
	}
	if s.Reply == nil {
		return append([]byte{EchoMark}, req...), nil
	}
	return s.Reply, nil
}

func (r *RecAgent) AddHardCert(key ssh.PublicKey, comment string) error {
	r.keep("addhard", key)
	return r.rec(Call{Op: "addhard", KeyBlob: blobOf(key), Comment: comment}).err()
}

func (r *RecAgent) Wait(code byte) error { return r.rec(Call{Op: "wait", Code: code}).err() }

func (r *RecAgent) Close() error { return r.rec(Call{Op: "close"}).err() }

func (r *RecAgent) ListSlots() ([]string, error) {
	s := r.rec(Call{Op: "listslots"})
	if s.err() != nil && !s.WithResult {
		return nil, s.err()
	}
	return s.Slots, s.err()
}

func (r *RecAgent) ReadSlot(slot string) (*x509.Certificate, error) {
	s := r.rec(Call{Op: "readslot", Slot: slot})
	if e := s.err(); e != nil {
		if s.WithResult {
			return s.Cert, e
		}
		return nil, e
	}
	return s.Cert, nil
}

func (r *RecAgent) AttestSlot(slot string) (*x509.Certificate, error) {
	s := r.rec(Call{Op: "attestslot", Slot: slot})
	if e := s.err(); e != nil {
		if s.WithResult {
			return s.Cert, e
		}
		return nil, e
	}
	return s.Cert, nil
}

func (r *RecAgent) AddSmartcardKey(id string, pin []byte, lifetime time.Duration, confirm bool) error {
	return r.rec(Call{Op: "addsmartcard", Slot: id, Pass: pin, Lifetime: lifetime, Confirm: confirm}).err()
}

func (r *RecAgent) RemoveSmartcardKey(id string, pin []byte) error {
	return r.rec(Call{Op: "removesmartcard", Slot: id, Pass: pin}).err()
}
