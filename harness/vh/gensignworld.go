package vh

import (
	sshkey "github.com/theparanoids/ysshra/sshutils/key"
	"context"
	"io"
	"crypto/rand"
	"crypto/x509"
	"encoding/json"
	"errors"
	"fmt"
	"github.com/theparanoids/ysshra/sshutils/version"
	"net"
	"os"
	"path/filepath"
	"strings"
	"sync"
	"time"

	"github.com/rs/zerolog"
	"github.com/theparanoids/crypki/proto"
	gproto "google.golang.org/protobuf/proto"
	agssh "github.com/theparanoids/ysshra/agent/ssh"
	"github.com/theparanoids/ysshra/common"
	"github.com/theparanoids/ysshra/config"
	"github.com/theparanoids/ysshra/csr"
	"github.com/theparanoids/ysshra/gensign"
	"github.com/theparanoids/ysshra/gensign/regular"
	"github.com/theparanoids/ysshra/message"
	"golang.org/x/crypto/ssh"
	"golang.org/x/crypto/ssh/agent"
)

// Building blocks of the gensign checks (C01..C04): a recording fake CA, harness handlers,
// request-parameter and configuration builders, and the key directory.

func init() {
	// the code under test logs every run; keep the check output readable
	zerolog.SetGlobalLevel(zerolog.Disabled)
}

// ---------- fake CA ----------

// CACall is one signing request seen by the fake CA.
type CACall struct {
	Req   *proto.SSHCertificateSigningRequest
	Certs []*ssh.Certificate
	Err   string
}

// CABehaviour scripts one call: NCerts certificates with Comments, or an error, or a panic.
type CABehaviour struct {
	NCerts   int
	Comments []string
	Err      string
	Panic    bool
	// ErrWithCerts: the call fails (Err) but hands back certificates next to the error; they are
	// not recorded in CACall.Certs, because the request was not signed.
	ErrWithCerts bool
	// Window: validity window the CA stamps: "" = [now-60 s, now+validity] | forever = [0, infinity] |
	// ahead = the CA's clock is 90 s ahead and it does not backdate | huge = valid until 2^63 s
	Window string
	// WrongKey: the CA certifies another public key than the one of the request (a mix-up at the CA)
	WrongKey bool
	// DelayMS: the CA takes this long before it answers (it does not watch the context)
	DelayMS int
	// PlainAt: when > 0, a plain public key (no certificate: e.g. the CA's own key line) is the PlainAt-th
	// entry (1-based) of the returned list, in front of / between / behind the certificates
	PlainAt int
	// ErrKind: with Err, the error is a *gensign.Error of that kind: "" = a plain error | unknown |
	// unnamed (a kind without a name, ErrorType(200)) | zero (ErrorType(0))
	ErrKind string
}

// FakeCA implements csr.Signer: it really certifies the requested public key.
type FakeCA struct {
	// Scribble: the signer edits the request object it was handed (after copying it for its record)
	Scribble bool
	mu      sync.Mutex
	Calls   []CACall
	Script  []CABehaviour // per call index; the last entry repeats
	Default CABehaviour
	// Replay: a request for a public key the CA has certified before gets the very same certificates again
	// (a CA that answers a repeated request from its records)
	Replay   bool
	replayed map[string][]ssh.PublicKey
	OnCall  func(n int)
}

func (ca *FakeCA) behaviour(i int) CABehaviour {
	if len(ca.Script) == 0 {
		return ca.Default
	}
	if i < len(ca.Script) {
		return ca.Script[i]
	}
	return ca.Script[len(ca.Script)-1]
}

// NCalls is the number of signing requests received.
func (ca *FakeCA) NCalls() int {
	ca.mu.Lock()
	defer ca.mu.Unlock()
	return len(ca.Calls)
}

// Sign implements csr.Signer.
func (ca *FakeCA) Sign(ctx context.Context, req *proto.SSHCertificateSigningRequest) ([]ssh.PublicKey, []string, error) {
	ca.mu.Lock()
	i := len(ca.Calls)
	b := ca.behaviour(i)
	call := CACall{Req: req, Err: b.Err}
	if ca.Scribble {
		// a signer that treats the request it was handed as its own: it keeps a copy for the record and edits the original
		call.Req = gproto.Clone(req).(*proto.SSHCertificateSigningRequest)
		delete(req.Extensions, "permit-X11-forwarding")
		if req.Extensions != nil {
			req.Extensions["verif-scribble"] = "1"
		}
		if req.CriticalOptions != nil {
			req.CriticalOptions["verif-scribble"] = "1"
		}
		req.Principals = append(req.Principals, "scribbled-by-the-signer")
		req.Validity, req.KeyId = 1, "scribbled"
	}
	ca.Calls = append(ca.Calls, call)
	on := ca.OnCall
	ca.mu.Unlock()
	if on != nil {
		on(i)
	}
	if b.DelayMS > 0 {
		time.Sleep(time.Duration(b.DelayMS) * time.Millisecond)
	}
	if b.Panic {
		panic("verif: the signer panics")
	}
	if b.Err != "" && !b.ErrWithCerts {
		switch b.ErrKind {
		case "unknown":
			return nil, nil, gensign.NewErrWithMsg(gensign.Unknown, b.Err)
		case "unnamed":
			return nil, nil, gensign.NewErrWithMsg(gensign.ErrorType(200), b.Err)
		case "zero":
			return nil, nil, gensign.NewErrWithMsg(gensign.ErrorType(0), b.Err)
		case "deadline": // the CA client gave up on its OWN per-try deadline (the run's context is still alive)
			return nil, nil, fmt.Errorf("%s: %w", b.Err, context.DeadlineExceeded)
		case "canceled":
			return nil, nil, fmt.Errorf("%s: %w", b.Err, context.Canceled)
		case "eof":
			return nil, nil, io.EOF
		case "typed-signer": // a decorating signer that already classified its failure
			return nil, nil, gensign.NewErrWithMsg(gensign.SignerSignErr, b.Err)
		case "typed-conf":
			return nil, nil, gensign.NewErrorWithMsg(gensign.HandlerConfErr, "decorator", b.Err)
		}
		return nil, nil, errors.New(b.Err)
	}
	pub, _, _, _, err := ssh.ParseAuthorizedKey([]byte(req.PublicKey))
	if err != nil {
		return nil, nil, fmt.Errorf("fake CA: bad public key: %v", err)
	}
	if b.WrongKey {
		pub = SSHPub("p256c")
	}
	if ca.Replay && b.Err == "" {
		ca.mu.Lock()
		old, ok := ca.replayed[req.PublicKey]
		ca.mu.Unlock()
		if ok {
			var cs []*ssh.Certificate
			for _, k := range old {
				if c, isCert := k.(*ssh.Certificate); isCert {
					cs = append(cs, c)
				}
			}
			ca.mu.Lock()
			ca.Calls[i].Certs = cs
			ca.mu.Unlock()
			return old, b.Comments, nil
		}
	}
	n := b.NCerts
	if n <= 0 {
		n = 1
	}
	now := uint64(time.Now().Unix())
	var out []ssh.PublicKey
	var certs []*ssh.Certificate
	for j := 0; j < n; j++ {
		c := &ssh.Certificate{Key: pub, Serial: uint64(i*10 + j), CertType: ssh.UserCert, KeyId: req.KeyId, ValidPrincipals: req.Principals,
			ValidAfter: now - 60, ValidBefore: now + req.Validity, Permissions: ssh.Permissions{Extensions: req.Extensions}}
		switch b.Window {
		case "forever":
			c.ValidAfter, c.ValidBefore = 0, ssh.CertTimeInfinity
		case "ahead":
			c.ValidAfter, c.ValidBefore = now+90, now+90+req.Validity
		case "huge":
			c.ValidBefore = 1 << 63
		case "shortfirst": // the first certificate of the reply is short-lived (5 minutes), the others as requested
			if j == 0 && req.Validity > 300 {
				c.ValidBefore = now + 300
			}
		}
		caKey := []string{"ed25519a", "p256a", "rsa2048a"}[j%3]
		if err := c.SignCert(rand.Reader, SSHSigner(caKey)); err != nil {
			return nil, nil, err
		}
		out = append(out, c)
		certs = append(certs, c)
	}
	if b.PlainAt > 0 {
		at := b.PlainAt - 1
		if at > len(out) {
			at = len(out)
		}
		out = append(out[:at:at], append([]ssh.PublicKey{SSHPub("ed25519a")}, out[at:]...)...)
	}
	if b.Err != "" {
		return out, b.Comments, errors.New(b.Err)
	}
	ca.mu.Lock()
	ca.Calls[i].Certs = certs
	if ca.Replay {
		if ca.replayed == nil {
			ca.replayed = map[string][]ssh.PublicKey{}
		}
		ca.replayed[req.PublicKey] = out
	}
	ca.mu.Unlock()
	return out, b.Comments, nil
}

// ---------- key directory and configuration ----------

// AuthorizedLine renders a pool key as an authorized_keys line.
func AuthorizedLine(key, comment string) []byte {
	b := ssh.MarshalAuthorizedKey(SSHPub(key))
	if comment != "" {
		b = append(b[:len(b)-1], []byte(" "+comment+"\n")...)
	}
	return b
}

// HandlerConf is the regular handler's configuration as written to the JSON file.
type HandlerConf struct {
	PubKeyDir       string
	ValiditySec     uint64
	KeyIdentifiers  map[string]string
	OmitValidity    bool
	OmitIdentifiers bool
	// KeyLabel: the handler's "key_label" option ("" = left out)
	KeyLabel string
	// OtherSections: the file also configures other handlers - among them sections whose names differ from the
	// regular handler's only in letter case or by a suffix - with another validity and other key slots
	OtherSections bool
}

// WriteGensignConfig writes a configuration file and loads it with the repository's loader.
func WriteGensignConfig(dir string, hc HandlerConf) (*config.GensignConfig, error) {
	h := map[string]any{"pub_key_dir": hc.PubKeyDir}
	if !hc.OmitValidity {
		h["cert_validity_sec"] = hc.ValiditySec
	}
	if hc.KeyLabel != "" {
		h["key_label"] = hc.KeyLabel
	}
	if !hc.OmitIdentifiers {
		h["key_identifiers"] = hc.KeyIdentifiers
	}
	handlers := map[string]any{regular.HandlerName: h}
	if hc.OtherSections {
		other := func(tag string) map[string]any {
			return map[string]any{"pub_key_dir": hc.PubKeyDir + "/" + tag, "cert_validity_sec": 2592000 + len(tag),
				"key_identifiers": map[string]string{"default": "slot-of-" + tag, "rsa": "rsa-slot-of-" + tag, "ecdsa": "ecdsa-slot-of-" + tag, "ed25519": "ed25519-slot-of-" + tag, "dsa": "dsa-slot-of-" + tag}}
		}
		for _, n := range []string{"Paranoids.Regular", "PARANOIDS.REGULAR", regular.HandlerName + "2", "paranoids", "a.first", "zz.last"} {
			handlers[n] = other(n)
		}
	}
	doc := map[string]any{"keyid_version": 1, "handlers": handlers}
	b, _ := json.Marshal(doc)
	p := filepath.Join(dir, fmt.Sprintf("config-%d.json", time.Now().UnixNano()))
	if err := os.WriteFile(p, b, 0o644); err != nil {
		return nil, err
	}
	defer os.Remove(p)
	return config.NewGensignConfig(p)
}

// RefAlgoOfConfigKey resolves a key_identifiers map key the documented way: an algorithm name in
// any case (default/unknown = 0, rsa, dsa, ecdsa, ed25519) or a decimal number.
func RefAlgoOfConfigKey(k string) (int, bool) {
	lower := ""
	for _, r := range k {
		if r >= 'A' && r <= 'Z' {
			r += 32
		}
		lower += string(r)
	}
	switch lower {
	case "default", "unknown":
		return 0, true
	case "rsa":
		return int(x509.RSA), true
	case "dsa":
		return int(x509.DSA), true
	case "ecdsa":
		return int(x509.ECDSA), true
	case "ed25519":
		return int(x509.Ed25519), true
	}
	n := 0
	if k == "" {
		return 0, false
	}
	for _, c := range k {
		if c < '0' || c > '9' {
			return 0, false
		}
		n = n*10 + int(c-'0')
		if n > 1<<20 {
			return 0, false
		}
	}
	return n, true
}

// ParamSpec describes request parameters.
type ParamSpec struct {
	LogName  string
	Policy   string
	HardKey  bool
	ReqUser  string
	ReqHost  string
	ClientIP string
	TransID  string
	CAAlgo   int
	// further client claims carried by the request message
	Touch2SSH     bool
	TSFirefighter bool
	TSHosts       string
	TSTime        int64
	Exts          map[string]any
	SigAlgo       int
	// Via: direct (struct literal) | env (through csr.NewReqParam)
	Via string
	// ClientVersion is the client-declared SSH client version ("" = 8.1).
	ClientVersion string
	// NilAttrs (direct only): the parameters carry no client attributes at all.
	NilAttrs bool
}

// BuildParam constructs the request parameters either directly or through NewReqParam.
func BuildParam(s ParamSpec) (*csr.ReqParam, error) {
	if s.ClientVersion == "" {
		s.ClientVersion = "8.1"
	}
	if s.Via == "env" {
		m := map[string]any{"ifVer": 7, "username": s.ReqUser, "hostname": s.ReqHost, "sshClientVersion": s.ClientVersion, "hardKey": s.HardKey, "caPubKeyAlgo": s.CAAlgo,
			"touch2SSH": s.Touch2SSH, "signatureAlgo": s.SigAlgo}
		if s.TSFirefighter || s.TSHosts != "" || s.TSTime != 0 {
			m["touchlessSudo"] = map[string]any{"isFirefighter": s.TSFirefighter, "hosts": s.TSHosts, "time": s.TSTime}
		}
		if s.Exts != nil {
			m["exts"] = s.Exts
		}
		cmd, _ := json.Marshal(m)
		env := map[string]string{"SSH_ORIGINAL_COMMAND": string(cmd), "LOGNAME": s.LogName, "SSH_CONNECTION": s.ClientIP + " 51234 10.0.0.1 22"}
		return csr.NewReqParam(func(k string) string { return env[k] }, func() []string {
			return []string{"gensign", "-c", "/usr/bin/gensign " + s.Policy + " " + regular.HandlerName}
		})
	}
	if s.NilAttrs {
		return &csr.ReqParam{NamespacePolicy: common.NamespacePolicy(s.Policy), HandlerName: regular.HandlerName, ClientIP: s.ClientIP, LogName: s.LogName,
			ReqUser: s.ReqUser, ReqHost: s.ReqHost, TransID: s.TransID}, nil
	}
	cv, _ := version.Unmarshal(s.ClientVersion)
	return &csr.ReqParam{
		NamespacePolicy: common.NamespacePolicy(s.Policy), HandlerName: regular.HandlerName, ClientIP: s.ClientIP, LogName: s.LogName,
		ReqUser: s.ReqUser, ReqHost: s.ReqHost, TransID: s.TransID, SSHClientVersion: cv,
		Attrs: &message.Attributes{IfVer: 7, Username: s.ReqUser, Hostname: s.ReqHost, SSHClientVersion: s.ClientVersion, HardKey: s.HardKey, CAPubKeyAlgo: x509.PublicKeyAlgorithm(s.CAAlgo),
			Touch2SSH: s.Touch2SSH, SignatureAlgo: x509.SignatureAlgorithm(s.SigAlgo), Exts: s.Exts,
			TouchlessSudo: &message.TouchlessSudo{IsFirefighter: s.TSFirefighter, Hosts: s.TSHosts, Time: s.TSTime}},
	}, nil
}

// ---------- harness handlers ----------

// HandlerLog records the order in which handler methods were called.
type HandlerLog struct {
	mu     sync.Mutex
	Events []string
}

func (l *HandlerLog) add(s string) {
	l.mu.Lock()
	l.Events = append(l.Events, s)
	l.mu.Unlock()
}

// Snapshot returns a copy of the events.
func (l *HandlerLog) Snapshot() []string {
	l.mu.Lock()
	defer l.mu.Unlock()
	return append([]string(nil), l.Events...)
}

// FakeHandler is a harness implementation of gensign.Handler.
type FakeHandler struct {
	ID     string
	Accept bool
	// RejectKind: "" / authn (HandlerAuthN) | disabled | invalid | unknown | unnamed | zero | untyped | panic-typed
	RejectKind string
	Log        *HandlerLog
	PanicIn    string // name | authenticate | generate | csrs | addcerts
	// Agent, when set, makes Generate create NKeys real agent keys (each with NReqs requests).
	Agent   agent.Agent
	NKeys   int
	NReqs   int
	GenErr  bool
	// ReuseKeys: a second Generate hands back the agent keys (and requests) of the first instead of making new ones
	ReuseKeys bool
	// NameAs: the name the handler reports ("" = a name of its own, "verif.<ID>"); names need not be
	// unique - every instance of one handler type reports the same name
	NameAs string
	// GenErrKind: with GenErr, how Generate fails: "" (generation error naming the handler) | conf | untyped |
	// nameless | nameless-wrapped (typed errors without a handler name) | nokeys | emptykeys (no error, no key)
	GenErrKind string
	// KeyAlgo (with Agent): the key pair algorithm of the agent keys, 0 = the package default, otherwise
	// key.PublicKeyAlgo + 1; PrivLabel: the private key's label ("" = default)
	KeyAlgo   int
	PrivLabel string
	// SameKeyID: the requests of one agent key all carry the same KeyId and differ in the CA key they name
	// (KeyMeta.Identifier "verif-slot-<j>"): one certificate per CA key for the same key and identity
	SameKeyID bool
	// EmptyKeyAt (1-based, 0 = none): that agent key carries no signing request at all
	EmptyKeyAt int
	Keys    []*FakeAgentKey
	Refresh func(*agent.Key) bool
}

// FakeAgentKey wraps a real agent key (or nothing) with a CSR list.
type FakeAgentKey struct {
	h     *FakeHandler
	inner *agssh.AgentKey
	csrs  []*proto.SSHCertificateSigningRequest
	Added [][]byte // certificate blobs handed to AddCertsToAgent
}

func (k *FakeAgentKey) CSRs() []*proto.SSHCertificateSigningRequest {
	k.h.Log.add(k.h.ID + ".csrs")
	if k.h.PanicIn == "csrs" {
		panic("verif: CSRs panics")
	}
	return k.csrs
}

func (k *FakeAgentKey) AddCertsToAgent(certs []ssh.PublicKey, comments []string) error {
	k.h.Log.add(k.h.ID + ".addcerts")
	if k.h.PanicIn == "addcerts" {
		panic("verif: AddCertsToAgent panics")
	}
	for _, c := range certs {
		k.Added = append(k.Added, c.Marshal())
	}
	if k.inner != nil {
		return k.inner.AddCertsToAgent(certs, comments)
	}
	return nil
}

func (h *FakeHandler) Name() string {
	if h.PanicIn == "name" {
		panic("verif: Name panics")
	}
	if h.NameAs != "" {
		return h.NameAs
	}
	return "verif." + h.ID
}

func (h *FakeHandler) Authenticate(p *csr.ReqParam) error {
	h.Log.add(h.ID + ".authenticate")
	if h.PanicIn == "authenticate" {
		panic("verif: Authenticate panics")
	}
	if h.Accept {
		return nil
	}
	switch h.RejectKind {
	case "disabled":
		return gensign.NewErrorWithMsg(gensign.HandlerDisabled, h.Name(), "verif: handler disabled")
	case "invalid":
		return gensign.NewErrorWithMsg(gensign.InvalidParams, h.Name(), "verif: invalid parameters")
	case "unknown":
		return gensign.NewErrorWithMsg(gensign.Unknown, h.Name(), "verif: unknown")
	case "unnamed": // a kind no name exists for
		return gensign.NewErrorWithMsg(gensign.ErrorType(200), h.Name(), "verif: unnamed kind")
	case "zero":
		return gensign.NewErrorWithMsg(gensign.ErrorType(0), h.Name(), "verif: kind zero")
	case "untyped":
		return errors.New("verif: rejected (untyped error)")
	case "panic-typed":
		return gensign.NewErrorWithMsg(gensign.Panic, h.Name(), "verif: rejected with a panic-typed error")
	case "nocause": // a typed error without a wrapped cause (the constructor documents the cause as optional)
		return gensign.NewError(gensign.HandlerAuthN, h.Name())
	case "nocause-nameless":
		return gensign.NewErr(gensign.HandlerDisabled)
	case "nilcause":
		return gensign.NewError(gensign.InvalidParams, h.Name(), nil)
	}
	return gensign.NewErrorWithMsg(gensign.HandlerAuthN, h.Name(), "verif: rejected")
}

func (h *FakeHandler) Generate(p *csr.ReqParam) ([]csr.AgentKey, error) {
	h.Log.add(h.ID + ".generate")
	if h.PanicIn == "generate" {
		panic("verif: Generate panics")
	}
	if h.ReuseKeys && len(h.Keys) > 0 {
		var again []csr.AgentKey
		for _, k := range h.Keys {
			again = append(again, k)
		}
		return again, nil
	}
	if h.GenErr {
		switch h.GenErrKind {
		case "conf":
			return nil, gensign.NewErrorWithMsg(gensign.HandlerConfErr, h.Name(), "verif: not configured for the requested CA key algorithm")
		case "untyped":
			return nil, fmt.Errorf("verif: generation failed")
		case "nameless": // a typed error that does not name its handler
			return nil, gensign.NewErrWithMsg(gensign.HandlerGenCSRErr, "verif: generation failed")
		case "nameless-wrapped":
			return nil, gensign.NewErr(gensign.HandlerGenCSRErr, fmt.Errorf("verif: generation failed"))
		case "nokeys":
			return nil, nil
		case "emptykeys":
			return []csr.AgentKey{}, nil
		}
		return nil, gensign.NewErrorWithMsg(gensign.HandlerGenCSRErr, h.Name(), "verif: generation failed")
	}
	nk, nr := h.NKeys, h.NReqs
	if nk <= 0 {
		nk = 1
	}
	if nr <= 0 {
		nr = 1
	}
	var out []csr.AgentKey
	for i := 0; i < nk; i++ {
		fk := &FakeAgentKey{h: h}
		pubText := string(ssh.MarshalAuthorizedKey(SSHPub("ed25519c")))
		if h.Agent != nil {
			opt := agssh.DefaultKeyOpt
			// one label per agent key ("an agent key operates certificates for one private key only");
			// its refresh filter selects that label, plus whatever the scenario declares stale
			own := fmt.Sprintf("verif.%s.k%d-", h.ID, i)
			opt.CertLabel = own + "cert"
			opt.PrivateKeyValiditySec = 7200
			if h.KeyAlgo > 0 {
				opt.PublicKeyAlgo = sshkey.PublicKeyAlgo(h.KeyAlgo - 1)
			}
			if h.PrivLabel != "" {
				opt.PrivateKeyLabel = h.PrivLabel
			}
			extra := h.Refresh
			opt.KeyRefreshFilter = func(k *agent.Key) bool {
				return strings.Contains(k.Comment, own) || (extra != nil && extra(k))
			}
			ak, err := agssh.NewSSHAgentKeyWithOpt(h.Agent, opt)
			if err != nil {
				return nil, gensign.NewError(gensign.HandlerGenCSRErr, h.Name(), err)
			}
			fk.inner = ak
			pubText = string(ssh.MarshalAuthorizedKey(ak.PublicKey()))
		}
		for j := 0; j < nr && h.EmptyKeyAt != i+1; j++ {
			req := &proto.SSHCertificateSigningRequest{KeyMeta: &proto.KeyMeta{Identifier: "verif"}, Principals: []string{p.LogName},
				PublicKey: pubText, Validity: 3600, KeyId: fmt.Sprintf("verif %s key %d request %d", h.ID, i, j)}
			if h.SameKeyID {
				req.KeyId, req.KeyMeta.Identifier = fmt.Sprintf("verif %s key %d", h.ID, i), fmt.Sprintf("verif-slot-%d", j)
			}
			fk.csrs = append(fk.csrs, req)
		}
		h.Keys = append(h.Keys, fk)
		out = append(out, fk)
	}
	return out, nil
}

// DialProxy opens a connection to the proxy for a handler.
func DialProxy(p *Proxy) (net.Conn, error) { return net.Dial("unix", p.Path) }

// ErrKind names the gensign error type of err ("nil", "untyped", or the type's name).
func ErrKind(err error) string {
	if err == nil {
		return "nil"
	}
	e, ok := gensign.IsError(err)
	if !ok {
		return "untyped"
	}
	switch e.Type() {
	case gensign.AllAuthFailed:
		return "AllAuthFailed"
	case gensign.HandlerGenCSRErr:
		return "HandlerGenCSRErr"
	case gensign.HandlerConfErr:
		return "HandlerConfErr"
	case gensign.InvalidParams:
		return "InvalidParams"
	case gensign.SignerSignErr:
		return "SignerSignErr"
	case gensign.AgentOpCertErr:
		return "AgentOpCertErr"
	case gensign.Panic:
		return "Panic"
	case gensign.HandlerAuthN:
		return "HandlerAuthN"
	}
	return fmt.Sprintf("type%d", e.Type())
}

// WrapHandler delegates to a real handler and can panic inside any method (for C04).
type WrapHandler struct {
	Inner   gensign.Handler
	PanicIn string // name | authenticate | generate | csrs | addcerts
}

type wrapKey struct {
	inner csr.AgentKey
	w     *WrapHandler
}

func (k wrapKey) CSRs() []*proto.SSHCertificateSigningRequest {
	if k.w.PanicIn == "csrs" {
		panic("verif: CSRs panics")
	}
	return k.inner.CSRs()
}

func (k wrapKey) AddCertsToAgent(certs []ssh.PublicKey, comments []string) error {
	if k.w.PanicIn == "addcerts" {
		panic("verif: AddCertsToAgent panics")
	}
	return k.inner.AddCertsToAgent(certs, comments)
}

func (w *WrapHandler) Name() string {
	if w.PanicIn == "name" {
		panic("verif: Name panics")
	}
	return w.Inner.Name()
}

func (w *WrapHandler) Authenticate(p *csr.ReqParam) error {
	if w.PanicIn == "authenticate" {
		panic("verif: Authenticate panics")
	}
	return w.Inner.Authenticate(p)
}

func (w *WrapHandler) Generate(p *csr.ReqParam) ([]csr.AgentKey, error) {
	if w.PanicIn == "generate" {
		panic("verif: Generate panics")
	}
	ks, err := w.Inner.Generate(p)
	if err != nil {
		return nil, err
	}
	out := make([]csr.AgentKey, len(ks))
	for i, k := range ks {
		out[i] = wrapKey{k, w}
	}
	return out, nil
}
