package vh

import (
	"bytes"
	"strings"
	"context"
	"crypto/rand"
	"crypto/tls"
	"crypto/x509"
	"encoding/pem"
	"fmt"
	"github.com/theparanoids/ysshra/config"
	"github.com/theparanoids/ysshra/crypki"
	"golang.org/x/crypto/ssh"
	"net"
	"os"
	"path/filepath"
	"sync"
	"time"

	pb "github.com/theparanoids/crypki/proto"
	"google.golang.org/grpc"
	"google.golang.org/grpc/codes"
	"google.golang.org/grpc/credentials"
	"google.golang.org/grpc/peer"
	"google.golang.org/grpc/status"
)

// Fake CA servers for C17 / C18: real gRPC-over-TLS Signing servers on 127.0.0.N:port (all
// endpoints of a crypki.Signer share one port), with TLS identities issued by harness CAs.

// TLSFarm holds the TLS material of a test process.
type TLSFarm struct {
	Dir        string
	mu         sync.Mutex
	cas        map[string]*x509.Certificate
	serverCert map[string]tls.Certificate
}

var (
	farmOnce sync.Once
	farm     *TLSFarm
)

// caA2 carries the same subject name as caA under another key (the successor of a CA after a key roll-over).
var caKeys = map[string]string{"caA": "p256a", "caB": "p384b", "caForeign": "p256c", "caClients": "p521b", "caA2": "p521a"}

// Farm returns the process-wide TLS material (files under a temp dir).
func Farm() *TLSFarm {
	farmOnce.Do(func() {
		d, err := os.MkdirTemp("", "vtls")
		if err != nil {
			panic(err)
		}
		f := &TLSFarm{Dir: d, cas: map[string]*x509.Certificate{}, serverCert: map[string]tls.Certificate{}}
		for name, key := range caKeys {
			cn := "verif " + name
			if name == "caA2" {
				cn = "verif caA"
			}
			c, der, err := MakeCert(CertSpec{CN: cn, Key: key, IsCA: true, Serial: 11})
			if err != nil {
				panic(err)
			}
			f.cas[name] = c
			os.WriteFile(filepath.Join(d, name+".crt"), PEMCert(der), 0o644)
		}
		// a bundle file holding two CAs, and an unparsable file
		os.WriteFile(filepath.Join(d, "bundleAB.crt"), append(PEMCert(f.cas["caA"].Raw), PEMCert(f.cas["caB"].Raw)...), 0o644)
		os.WriteFile(filepath.Join(d, "bundleAA2.crt"), append(PEMCert(f.cas["caA"].Raw), PEMCert(f.cas["caA2"].Raw)...), 0o644)
		// the same CA files without the final newline (a file written by printf, an editor, a templating tool)
		for _, n := range []string{"caA", "caB"} {
			os.WriteFile(filepath.Join(d, n+"-nonl.crt"), bytes.TrimRight(PEMCert(f.cas[n].Raw), "\n"), 0o644)
		}
		// bundles in which CA A is NOT the first certificate of the file
		os.WriteFile(filepath.Join(d, "bundleBA.crt"), append(PEMCert(f.cas["caB"].Raw), PEMCert(f.cas["caA"].Raw)...), 0o644)
		os.WriteFile(filepath.Join(d, "bundleBClientsA.crt"), append(append(append([]byte("# old and new CAs\n"), PEMCert(f.cas["caB"].Raw)...), PEMCert(f.cas["caClients"].Raw)...), PEMCert(f.cas["caA"].Raw)...), 0o644)
		// CA files whose NAMES contain pattern metacharacters, blanks or non-ASCII letters, next to the files
		// such patterns would match (caA.crt, caB.crt, caForeign.crt ... in the same directory)
		for name, ca := range OddCAFiles {
			os.WriteFile(filepath.Join(d, name), PEMCert(f.cas[ca].Raw), 0o644)
		}
		// client certificate (issued by caClients)
		_, der, err := MakeCert(CertSpec{CN: "verif ysshra client", Key: "p256b", Issuer: f.cas["caClients"], IssuerKey: caKeys["caClients"], Serial: 21,
			Mutate: func(t *x509.Certificate) { t.ExtKeyUsage = []x509.ExtKeyUsage{x509.ExtKeyUsageClientAuth} }})
		if err != nil {
			panic(err)
		}
		os.WriteFile(filepath.Join(d, "client.crt"), PEMCert(der), 0o644)
		// the same client certificate followed by its issuer (a leaf + chain bundle, as many deployments ship it)
		os.WriteFile(filepath.Join(d, "client-chain.crt"), append(PEMCert(der), PEMCert(f.cas["caClients"].Raw)...), 0o644)
		// a second client certificate for the same key, issued by an INTERMEDIATE CA under caClients; the
		// file holds leaf + intermediate (the root stays with the servers)
		intc, intDER, err := MakeCert(CertSpec{CN: "verif client intermediate", Key: "p384a", IsCA: true, Issuer: f.cas["caClients"], IssuerKey: caKeys["caClients"], Serial: 22})
		if err != nil {
			panic(err)
		}
		_, leaf2, err := MakeCert(CertSpec{CN: "verif ysshra client (via intermediate)", Key: "p256b", Issuer: intc, IssuerKey: "p384a", Serial: 23,
			Mutate: func(t *x509.Certificate) { t.ExtKeyUsage = []x509.ExtKeyUsage{x509.ExtKeyUsageClientAuth} }})
		if err != nil {
			panic(err)
		}
		os.WriteFile(filepath.Join(d, "client-int-chain.crt"), append(PEMCert(leaf2), PEMCert(intDER)...), 0o644)
		kb, _ := x509.MarshalPKCS8PrivateKey(Key("p256b"))
		os.WriteFile(filepath.Join(d, "client.key"), pem.EncodeToMemory(&pem.Block{Type: "PRIVATE KEY", Bytes: kb}), 0o600)
		// The "foreign" CA is the one CA this process's HOST trust store trusts (crypto/x509 loads the
		// system roots lazily from these variables): a server certified by it stands for a server with a
		// publicly trusted certificate, which the RA must refuse all the same unless it is configured.
		os.Mkdir(filepath.Join(d, "emptycertdir"), 0o755)
		os.Setenv("SSL_CERT_FILE", filepath.Join(d, "caForeign.crt"))
		os.Setenv("SSL_CERT_DIR", filepath.Join(d, "emptycertdir"))
		farm = f
	})
	return farm
}

// OddCAFiles: oddly named CA files of the farm directory and the one CA each holds.
var OddCAFiles = map[string]string{"ca[AB].crt": "caA", "ca?.crt": "caB", "ca*.crt": "caA", "my ca (B) é.crt": "caB", "{caA,caForeign}.crt": "caA", "ca\\B.crt": "caB"}

// CAFile returns the path of a CA certificate file (caA, caB, caForeign, bundleAB).
func (f *TLSFarm) CAFile(name string) string {
	if _, odd := OddCAFiles[name]; odd {
		return filepath.Join(f.Dir, name)
	}
	return filepath.Join(f.Dir, name+".crt")
}

// ClientCertFile / ClientKeyFile are the RA's client credentials.
func (f *TLSFarm) ClientCertFile() string { return filepath.Join(f.Dir, "client.crt") }
func (f *TLSFarm) ClientKeyFile() string  { return filepath.Join(f.Dir, "client.key") }

// ClientChainFile is the client certificate followed by the certificate of the CA that issued it.
func (f *TLSFarm) ClientChainFile() string { return filepath.Join(f.Dir, "client-chain.crt") }

// ClientIntChainFile is a client certificate issued by an intermediate CA, followed by that intermediate.
func (f *TLSFarm) ClientIntChainFile() string { return filepath.Join(f.Dir, "client-int-chain.crt") }

// LeafDER returns the DER of the first certificate of a PEM file.
func LeafDER(file string) []byte {
	b, _ := os.ReadFile(file)
	blk, _ := pem.Decode(b)
	if blk == nil {
		return nil
	}
	return blk.Bytes
}

// ClientCertDER returns the DER of the configured client certificate.
func (f *TLSFarm) ClientCertDER() []byte {
	b, _ := os.ReadFile(f.ClientCertFile())
	blk, _ := pem.Decode(b)
	return blk.Bytes
}

// ServerCert returns a server certificate for ip with the given identity:
// caA | caB | foreign | selfsigned | expired | wrongname | notyet | justexpired | justvalid
func (f *TLSFarm) ServerCert(identity, ip string) tls.Certificate {
	f.mu.Lock()
	defer f.mu.Unlock()
	k := identity + "/" + ip
	// certificates whose dates are relative to "a few seconds ago" are made afresh every time
	fresh := identity == "justexpired" || identity == "justvalid" || identity == "expiring" || identity == "soonvalid"
	if c, ok := f.serverCert[k]; ok && !fresh {
		return c
	}
	key := "p384a"
	if strings.HasSuffix(identity, "+rsa") { // the same identity with an RSA server key
		key, identity = "rsa2048b", strings.TrimSuffix(identity, "+rsa")
	}
	spec := CertSpec{CN: "crypki " + ip, Key: key, Serial: 31}
	san := net.ParseIP(ip)
	now := time.Now()
	switch identity {
	case "caA", "expired", "wrongname", "notyet", "justexpired", "justvalid", "expiring", "soonvalid":
		spec.Issuer, spec.IssuerKey = f.cas["caA"], caKeys["caA"]
	case "caB":
		spec.Issuer, spec.IssuerKey = f.cas["caB"], caKeys["caB"]
	case "caA2":
		spec.Issuer, spec.IssuerKey = f.cas["caA2"], caKeys["caA2"]
	case "dns-localhost": // issued by CA A for the DNS name localhost only (no IP SAN)
		spec.Issuer, spec.IssuerKey = f.cas["caA"], caKeys["caA"]
	case "foreign":
		spec.Issuer, spec.IssuerKey = f.cas["caForeign"], caKeys["caForeign"]
	case "clientsca": // issued by the CA that issues the RA's CLIENT certificate (never a configured server CA)
		spec.Issuer, spec.IssuerKey = f.cas["caClients"], caKeys["caClients"]
	case "selfsigned":
	}
	if identity == "expired" {
		spec.NotBefore, spec.NotAfter = now.Add(-48*time.Hour), now.Add(-24*time.Hour)
	}
	if identity == "justexpired" { // issued by the configured CA, right name, expired 20 s ago
		spec.NotBefore, spec.NotAfter = now.Add(-48*time.Hour), now.Add(-20*time.Second)
	}
	if identity == "expiring" { // genuine for the next 3 seconds only
		spec.NotBefore, spec.NotAfter = now.Add(-48*time.Hour), now.Add(3*time.Second)
	}
	if identity == "justvalid" { // genuine, and valid since 20 s only
		spec.NotBefore, spec.NotAfter = now.Add(-20*time.Second), now.Add(48*time.Hour)
	}
	if identity == "soonvalid" { // issued by the configured CA, right name, valid from 3 s after the server starts
		spec.NotBefore, spec.NotAfter = now.Add(3*time.Second), now.Add(48*time.Hour)
	}
	if identity == "notyet" {
		spec.NotBefore, spec.NotAfter = now.Add(24*time.Hour), now.Add(48*time.Hour)
	}
	if identity == "wrongname" {
		san = net.ParseIP("10.9.8.7")
	}
	spec.Mutate = func(t *x509.Certificate) {
		t.IPAddresses = []net.IP{san}
		t.DNSNames = []string{"crypki.example.com"}
		if identity == "dns-localhost" {
			t.IPAddresses, t.DNSNames = nil, []string{"localhost"}
		}
		t.ExtKeyUsage = []x509.ExtKeyUsage{x509.ExtKeyUsageServerAuth}
	}
	_, der, err := MakeCert(spec)
	if err != nil {
		panic(err)
	}
	c := tls.Certificate{Certificate: [][]byte{der}, PrivateKey: Key(key)}
	f.serverCert[k] = c
	return c
}

// CAServerSpec describes one fake CA endpoint.
type CAServerSpec struct {
	IP       string
	Identity string // see ServerCert; "" = caA
	// Behaviour: sign (fixed KeyText) | signreq (certifies the request's key) | flaky (odd calls fail with Code, even calls sign) | rpcerr | empty | unparsable | hang | nolistener
	Behaviour string
	Code      int
	KeyText   string // reply of a signing server
	// Later, when non-empty, is the behaviour from the second round on (see CAGroup.Round).
	Later     string
	LaterCode int
	MinTLS    uint16
	MaxTLS    uint16
	// ClientAuth: none | request | require
	ClientAuth string
	HangFor    time.Duration
	// ReplyCerts (signreq): certificates per reply (0 = 1); BigAt, when > 0, makes the BigAt-th of them
	// (1-based) a certificate whose text line is longer than 64 KiB (a padded extension).
	ReplyCerts int
	BigAt      int
	// ErrText: the status message of an rpcerr answer ("" = a harness text); "%d" is replaced by the request's validity
	ErrText string
	// BigPad: size of the padding extension of the big certificate in bytes (0 = 50 KiB)
	BigPad int
}

// CASeen is one RPC received by a fake CA endpoint.
type CASeen struct {
	Seq        int
	Req        *pb.SSHCertificateSigningRequest
	TLSVersion uint16
	PeerCerts  [][]byte
	// Signed: the endpoint answered this call with certificates
	Signed bool
}

// CAServer is a running fake endpoint.
type CAServer struct {
	pb.UnimplementedSigningServer
	Spec CAServerSpec
	srv  *grpc.Server
	ln   net.Listener
	mu   sync.Mutex
	Seen []CASeen
	seq  *int
	smu  *sync.Mutex
	grp  *CAGroup
}

// PostUserSSHCertificate implements the signing RPC.
func (s *CAServer) PostUserSSHCertificate(ctx context.Context, req *pb.SSHCertificateSigningRequest) (*pb.SSHKey, error) {
	seen := CASeen{Req: req}
	if p, ok := peer.FromContext(ctx); ok {
		if ti, ok := p.AuthInfo.(credentials.TLSInfo); ok {
			seen.TLSVersion = ti.State.Version
			for _, c := range ti.State.PeerCertificates {
				seen.PeerCerts = append(seen.PeerCerts, c.Raw)
			}
		}
	}
	s.smu.Lock()
	seen.Seq = *s.seq
	*s.seq++
	s.smu.Unlock()
	s.mu.Lock()
	s.Seen = append(s.Seen, seen)
	nth := len(s.Seen)
	s.mu.Unlock()
	behaviour, code := s.Spec.Behaviour, s.Spec.Code
	if s.grp != nil && s.grp.Round() > 0 && s.Spec.Later != "" {
		behaviour, code = s.Spec.Later, s.Spec.LaterCode
	}
	if behaviour == "flaky" {
		// every odd call (first, third, ...) fails, every even call signs
		behaviour = "rpcerr"
		if nth%2 == 0 {
			behaviour = "sign"
		}
	}
	if behaviour == "sign" || behaviour == "signreq" {
		s.mu.Lock()
		s.Seen[nth-1].Signed = true
		s.mu.Unlock()
	}
	switch behaviour {
	case "rpcerr":
		msg := "verif: scripted failure"
		if s.Spec.ErrText != "" {
			msg = strings.ReplaceAll(s.Spec.ErrText, "%d", fmt.Sprint(req.Validity))
		}
		return nil, status.Error(codes.Code(code), msg)
	case "empty":
		return &pb.SSHKey{Key: ""}, nil
	case "unparsable":
		return &pb.SSHKey{Key: "this is not a key\nneither is this\n"}, nil
	case "slowerr": // fails, but only after HangFor (a CA that reports its error late)
		select {
		case <-ctx.Done():
		case <-time.After(s.Spec.HangFor):
		}
		return nil, status.Error(codes.Internal, "verif: late failure")
	case "hang":
		select {
		case <-ctx.Done():
		case <-time.After(s.Spec.HangFor):
		}
		return nil, status.Error(codes.DeadlineExceeded, "verif: too late")
	}
	if behaviour == "signreq" {
		// a real CA: certify the key of the request
		pub, _, _, _, err := ssh.ParseAuthorizedKey([]byte(req.PublicKey))
		if err != nil {
			return nil, status.Error(codes.InvalidArgument, "verif: bad public key")
		}
		now := uint64(time.Now().Unix())
		n := s.Spec.ReplyCerts
		if n <= 0 {
			n = 1
		}
		text := ""
		for i := 0; i < n; i++ {
			exts := map[string]string{}
			for k, v := range req.Extensions {
				exts[k] = v
			}
			if s.Spec.BigAt == i+1 {
				pad := s.Spec.BigPad
				if pad <= 0 {
					pad = 50 << 10
				}
				exts["verif-pad@example.com"] = strings.Repeat("p", pad)
			}
			c := &ssh.Certificate{Key: pub, Serial: uint64(seen.Seq*16 + i), CertType: ssh.UserCert, KeyId: req.KeyId, ValidPrincipals: req.Principals,
				ValidAfter: now - 60, ValidBefore: now + req.Validity, Permissions: ssh.Permissions{Extensions: exts}}
			if err := c.SignCert(rand.Reader, SSHSigner("ed25519a")); err != nil {
				return nil, status.Error(codes.Internal, err.Error())
			}
			text += string(ssh.MarshalAuthorizedKey(c))
		}
		return &pb.SSHKey{Key: text}, nil
	}
	return &pb.SSHKey{Key: s.Spec.KeyText}, nil
}

// Calls returns the RPCs received.
func (s *CAServer) Calls() []CASeen {
	s.mu.Lock()
	defer s.mu.Unlock()
	return append([]CASeen(nil), s.Seen...)
}

// CAGroup is a set of endpoints sharing one port.
type CAGroup struct {
	reserve net.Listener
	// LateFailed: an endpoint that was to come up in a later round could not bind its address.
	LateFailed bool
	Port       int
	Servers    []*CAServer
	seq        int
	smu        sync.Mutex
	round      int
}

// Round / SetRound: the round number selects Behaviour (0) or Later (>= 1) of every endpoint.
func (g *CAGroup) Round() int {
	g.smu.Lock()
	defer g.smu.Unlock()
	return g.round
}

func (g *CAGroup) SetRound(r int) {
	g.smu.Lock()
	g.round = r
	g.smu.Unlock()
	if r < 1 {
		return
	}
	// connection-level changes: an endpoint without listener comes up, a listening one goes away
	for _, s := range g.Servers {
		switch {
		case s.Spec.Behaviour == "nolistener" && s.Spec.Later != "" && s.Spec.Later != "nolistener" && s.srv == nil:
			if err := g.startServer(s); err != nil {
				g.LateFailed = true
			}
		case s.Spec.Later == "nolistener" && s.srv != nil:
			s.srv.Stop()
			s.ln.Close()
			s.srv, s.ln = nil, nil
		}
	}
}

// StartCAGroup starts the endpoints (those with Behaviour "nolistener" are left unbound).
func StartCAGroup(specs []CAServerSpec) (*CAGroup, error) {
	Farm()
	for attempt := 0; attempt < 8; attempt++ {
		probe, err := net.Listen("tcp", "127.0.0.1:0")
		if err != nil {
			return nil, err
		}
		port := probe.Addr().(*net.TCPAddr).Port
		// the probe listener on 127.0.0.1 (never an endpoint address) is kept for the life of the group:
		// it reserves the port number against every other harness process probing the same way, so that
		// an unbound ("no listener") address of this group can never be served by a parallel shard
		g := &CAGroup{Port: port, reserve: probe}
		ok := true
		for _, sp := range specs {
			s := &CAServer{Spec: sp, seq: &g.seq, smu: &g.smu, grp: g}
			g.Servers = append(g.Servers, s)
			if sp.Behaviour == "nolistener" {
				continue
			}
			if err := g.startServer(s); err != nil {
				ok = false
				break
			}
		}
		if ok {
			return g, nil
		}
		g.Stop()
	}
	return nil, fmt.Errorf("no common free port on the loopback aliases")
}

// startServer binds and serves one endpoint on the group's port.
func (g *CAGroup) startServer(s *CAServer) error {
	f := Farm()
	sp := s.Spec
	var ln net.Listener
	if sp.IP == "127.0.0.1" && g.reserve != nil {
		// the address the port was probed (and is reserved) on: the reservation listener serves it
		ln = g.reserve
	} else {
		var err error
		ln, err = net.Listen("tcp", net.JoinHostPort(sp.IP, fmt.Sprint(g.Port)))
		if err != nil {
			return err
		}
	}
	s.ln = ln
	id := sp.Identity
	if id == "" {
		id = "caA"
	}
	cfg := &tls.Config{Certificates: []tls.Certificate{f.ServerCert(id, sp.IP)}, MinVersion: sp.MinTLS, MaxVersion: sp.MaxTLS}
	if cfg.MinVersion == 0 {
		cfg.MinVersion = tls.VersionTLS10
	}
	otherPool := x509.NewCertPool()
	otherPool.AddCert(f.cas["caForeign"])
	switch sp.ClientAuth {
	case "request-otherca": // asks, names a CA that did not issue the RA's certificate, enforces nothing
		cfg.ClientAuth = tls.RequestClientCert
		cfg.ClientCAs = otherPool
	case "verifyifgiven": // verifies what it gets against the right client CA
		cfg.ClientAuth = tls.VerifyClientCertIfGiven
		pool := x509.NewCertPool()
		pool.AddCert(f.cas["caClients"])
		cfg.ClientCAs = pool
	case "verifyifgiven-otherca": // verifies what it gets against another CA: the RA's certificate is refused
		cfg.ClientAuth = tls.VerifyClientCertIfGiven
		cfg.ClientCAs = otherPool
	case "request":
		cfg.ClientAuth = tls.RequestClientCert
	case "require":
		cfg.ClientAuth = tls.RequireAndVerifyClientCert
		pool := x509.NewCertPool()
		pool.AddCert(f.cas["caClients"])
		cfg.ClientCAs = pool
	}
	s.srv = grpc.NewServer(grpc.Creds(credentials.NewTLS(cfg)))
	pb.RegisterSigningServer(s.srv, s)
	go s.srv.Serve(ln)
	return nil
}

// Stop shuts all endpoints down.
func (g *CAGroup) Stop() {
	if g.reserve != nil {
		g.reserve.Close()
	}
	for _, s := range g.Servers {
		if s.srv != nil {
			s.srv.Stop()
		}
		if s.ln != nil {
			s.ln.Close()
		}
	}
}

// NewCrypkiSigner builds the repository's signer either directly from the struct or, when viaMap is
// set, the way cmd/gensign does: from the "signer" map of a gensign configuration (mapstructure
// decoding with the documented key names, durations as strings).
func NewCrypkiSigner(c crypki.SignerConfig, viaMap bool) (*crypki.Signer, error) {
	if !viaMap {
		return crypki.NewSigner(c)
	}
	cas := make([]interface{}, len(c.TLSCACertFiles))
	for i, f := range c.TLSCACertFiles {
		cas[i] = f
	}
	eps := make([]interface{}, len(c.CrypkiEndpoints))
	for i, e := range c.CrypkiEndpoints {
		eps[i] = e
	}
	m := map[string]interface{}{
		"tls_client_key_file": c.TLSClientKeyFile, "tls_client_cert_file": c.TLSClientCertFile, "tls_ca_cert_files": cas,
		"crypki_endpoints": eps, "crypki_port": float64(c.CrypkiPort), "retries": float64(c.Retries), "per_try_timeout": c.PerTryTimeout.String(),
	}
	return crypki.NewSignerWithGensignConf(config.GensignConfig{SignerConfig: m})
}
