package vh

import (
	"strings"
	"crypto"
	"crypto/ecdsa"
	"crypto/ed25519"
	"crypto/rand"
	"crypto/rsa"
	"crypto/sha256"
	"crypto/x509"
	"crypto/x509/pkix"
	"encoding/pem"
	"fmt"
	"math/big"
	"sort"
	"sync"
	"time"
)

var (
	poolOnce sync.Once
	poolKeys map[string]crypto.Signer
)

func loadPool() {
	poolKeys = map[string]crypto.Signer{}
	all := map[string]string{}
	for name, p := range poolPEM {
		all[name] = p
	}
	for name, p := range poolPEMExtra {
		all[name] = p
	}
	for name, p := range all {
		b, _ := pem.Decode([]byte(p))
		if b == nil {
			panic("keypool: bad PEM for " + name)
		}
		k, err := x509.ParsePKCS8PrivateKey(b.Bytes)
		if err != nil {
			panic("keypool: " + name + ": " + err.Error())
		}
		s, ok := k.(crypto.Signer)
		if !ok {
			panic("keypool: not a signer: " + name)
		}
		poolKeys[name] = s
	}
}

// Key returns a private key of the committed pool.
func Key(name string) crypto.Signer {
	poolOnce.Do(loadPool)
	derivedMu.Lock()
	defer derivedMu.Unlock()
	k, ok := poolKeys[name]
	if ok {
		return k
	}
	if dk, ok := derivedKeys[name]; ok {
		return dk
	}
	// "<rsa key>+e<bits>": the same modulus under the public exponent 2^bits + 1 (3 for bits = 1), with
	// the matching private exponent; only its numbers are used (the library refuses to sign with
	// exponents beyond 31 bits)
	if base, bits, found := strings.Cut(name, "+e"); found {
		if bk, isRSA := poolKeys[base].(*rsa.PrivateKey); isRSA {
			var nb int
			fmt.Sscanf(bits, "%d", &nb)
			e := new(big.Int).Add(new(big.Int).Lsh(big.NewInt(1), uint(nb)), big.NewInt(1))
			phi := new(big.Int).Mul(new(big.Int).Sub(bk.Primes[0], big.NewInt(1)), new(big.Int).Sub(bk.Primes[1], big.NewInt(1)))
			d := new(big.Int).ModInverse(e, phi)
			if d != nil && e.IsInt64() {
				dk := &rsa.PrivateKey{PublicKey: rsa.PublicKey{N: bk.N, E: int(e.Int64())}, D: d, Primes: bk.Primes}
				derivedKeys[name] = dk
				return dk
			}
			// no such private exponent for this modulus (the exponent divides p-1 or q-1): the base key stands in
			derivedKeys[name] = bk
			return bk
		}
	}
	panic("keypool: unknown key " + name)
}

var (
	derivedMu   sync.Mutex
	derivedKeys = map[string]crypto.Signer{}
)

// RSAKey returns an RSA private key of the pool.
func RSAKey(name string) *rsa.PrivateKey { return Key(name).(*rsa.PrivateKey) }

// KeyNames lists the pool keys whose name starts with one of the prefixes (sorted).
func KeyNames(prefixes ...string) []string {
	poolOnce.Do(loadPool)
	var out []string
	for n := range poolKeys {
		for _, p := range prefixes {
			if len(n) >= len(p) && n[:len(p)] == p {
				out = append(out, n)
				break
			}
		}
	}
	sort.Strings(out)
	return out
}

// RSAKeyNames are the RSA keys of the pool ordered by size.
var RSAKeyNames = []string{"rsa1024a", "rsa1024b", "rsa1025", "rsa1031", "rsa1536", "rsa2047", "rsa2048a", "rsa2048b", "rsa2048c", "rsa2048d", "rsa3072", "rsa4096"}

// PublicOf returns the public half of a pool key.
func PublicOf(name string) crypto.PublicKey { return Key(name).Public() }

var _ = []any{ecdsa.PublicKey{}, ed25519.PublicKey{}}

// ---- X.509 helpers ----

// CertSpec describes a certificate to create.
type CertSpec struct {
	CN        string
	Key       string // pool key certified
	IssuerKey string // pool key signing ("" = self-signed with Key)
	Issuer    *x509.Certificate
	IsCA      bool
	NotBefore time.Time
	NotAfter  time.Time
	Serial    int64
	SigAlg    x509.SignatureAlgorithm
	Mutate    func(tpl *x509.Certificate)
}

// MakeCert creates and parses a certificate.
func MakeCert(s CertSpec) (*x509.Certificate, []byte, error) {
	if s.Serial == 0 {
		s.Serial = 1
	}
	if s.NotBefore.IsZero() {
		s.NotBefore = time.Now().Add(-24 * time.Hour)
	}
	if s.NotAfter.IsZero() {
		s.NotAfter = time.Now().Add(10 * 365 * 24 * time.Hour)
	}
	tpl := &x509.Certificate{
		SerialNumber:          big.NewInt(s.Serial),
		Subject:               pkix.Name{CommonName: s.CN},
		NotBefore:             s.NotBefore,
		NotAfter:              s.NotAfter,
		BasicConstraintsValid: true,
		IsCA:                  s.IsCA,
		SignatureAlgorithm:    s.SigAlg,
	}
	if s.IsCA {
		tpl.KeyUsage = x509.KeyUsageCertSign | x509.KeyUsageDigitalSignature
	} else {
		tpl.KeyUsage = x509.KeyUsageDigitalSignature
	}
	if s.Mutate != nil {
		s.Mutate(tpl)
	}
	parent := s.Issuer
	signer := s.IssuerKey
	if parent == nil {
		parent = tpl
		if signer == "" {
			signer = s.Key
		}
	}
	der, err := x509.CreateCertificate(rand.Reader, tpl, parent, PublicOf(s.Key), Key(signer))
	if err != nil {
		return nil, nil, fmt.Errorf("CreateCertificate(%s): %w", s.CN, err)
	}
	c, err := x509.ParseCertificate(der)
	if err != nil {
		return nil, nil, fmt.Errorf("ParseCertificate(%s): %w", s.CN, err)
	}
	return c, der, nil
}

// PEMCert encodes DER as a CERTIFICATE PEM block.
func PEMCert(der []byte) []byte {
	return pem.EncodeToMemory(&pem.Block{Type: "CERTIFICATE", Bytes: der})
}

func signPKCS1SHA256(rsaKey string, msg []byte) ([]byte, error) {
	d := sha256.Sum256(msg)
	return rsa.SignPKCS1v15(rand.Reader, RSAKey(rsaKey), crypto.SHA256, d[:])
}
