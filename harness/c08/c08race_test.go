package c08

// TestC08LockRace: listings, signer listings and signatures issued WHILE another client locks and
// unlocks the agent. Whatever the interleaving, each observation must be one a sequential history
// allows: the complete unlocked view, or the locked answer (empty list / refusal) - never a part of
// the view.

import (
	"crypto/rand"
	"fmt"
	"runtime"
	"sort"
	"sync"
	"sync/atomic"
	"testing"
	"time"

	"github.com/theparanoids/ysshra/agent/shimagent"
	"github.com/theparanoids/ysshra/zzverif/vh"
	"golang.org/x/crypto/ssh"
	"golang.org/x/crypto/ssh/agent"
	"pgregory.net/rapid"
)

type RaceCase struct {
	NoUpstream bool
	Keys       int // plain keys in the underlying agent (1..3), each with a hardware certificate when Hard[i]
	Hard       []bool
	Upstream   int // further certificates held by the underlying agent (free-text KeyID: never hidden)
	Listers    int
	Cycles     int // lock / unlock cycles
	Spin       int
}

var raceKeys = []string{"p256b", "ed25519b", "rsa1536"}
var raceUp = []string{"p384a", "ed25519c"}

func raceCert(key, what string) *ssh.Certificate {
	return vh.MakeSSHCert(vh.SSHCertSpec{Key: key, KeyID: what + " " + key, ValidAfter: 0, ValidBefore: ssh.CertTimeInfinity, Principals: []string{"user_a"}})
}

func execRace(c RaceCase) (vh.Outcome, error) {
	out := vh.Outcome{NonTrivial: true, Classes: []string{fmt.Sprintf("noUpstream=%v", c.NoUpstream), fmt.Sprintf("listers=%d", c.Listers)}}
	p, err := vh.NewProxy()
	if err != nil {
		return out, nil
	}
	defer p.Close()
	var full []string
	for i := 0; i < c.Keys; i++ {
		_ = p.Ring().Add(agent.AddedKey{PrivateKey: vh.Key(raceKeys[i]), Comment: "k"})
		full = append(full, string(vh.SSHPub(raceKeys[i]).Marshal()))
	}
	for i := 0; i < c.Upstream; i++ {
		uc := raceCert(raceUp[i], "upstream")
		_ = p.Ring().Add(agent.AddedKey{PrivateKey: vh.Key(raceUp[i]), Certificate: uc, Comment: "u"})
		full = append(full, string(uc.Marshal()))
	}
	shim, serr := shimagent.New(shimagent.Option{Address: p.Path, NoUpstream: c.NoUpstream})
	if serr != nil {
		return out, vh.Errf("shimagent.New: %v", serr)
	}
	defer shim.Close()
	var hard []*ssh.Certificate
	for i := 0; i < c.Keys; i++ {
		if i < len(c.Hard) && c.Hard[i] {
			hc := raceCert(raceKeys[i], "hardware")
			if e := shim.AddHardCert(hc, "hw"); e != nil {
				return out, vh.Errf("AddHardCert: %v", e)
			}
			hard = append(hard, hc)
			full = append(full, string(hc.Marshal()))
		}
	}
	sort.Strings(full)
	same := func(got []string) bool {
		sort.Strings(got)
		if len(got) != len(full) {
			return false
		}
		for i := range got {
			if got[i] != full[i] {
				return false
			}
		}
		return true
	}
	// sanity: the unlocked view is the full view
	ks, lerr := shim.List()
	if lerr != nil {
		return out, vh.Errf("initial listing failed: %v", lerr)
	}
	var first []string
	for _, k := range ks {
		first = append(first, string(k.Blob))
	}
	if !same(first) {
		return out, nil // not what this check assumes (judged by the sequential C08 / C10 checks)
	}
	var stop atomic.Bool
	var viol atomic.Value
	var partial, empties, fulls atomic.Int64
	var wg sync.WaitGroup
	for l := 0; l < c.Listers; l++ {
		l := l
		wg.Add(1)
		go func() {
			defer wg.Done()
			for n := 0; !stop.Load(); n++ {
				for s := 0; s < c.Spin; s++ {
					runtime.Gosched()
				}
				switch (n + l) % 3 {
				case 0:
					ks, e := shim.List()
					if e != nil {
						viol.CompareAndSwap(nil, fmt.Sprintf("a listing concurrent with lock / unlock failed: %v", e))
						return
					}
					var got []string
					for _, k := range ks {
						got = append(got, string(k.Blob))
					}
					switch {
					case len(got) == 0:
						empties.Add(1)
					case same(got):
						fulls.Add(1)
					default:
						partial.Add(1)
						viol.CompareAndSwap(nil, fmt.Sprintf("a listing concurrent with lock / unlock returned %d of the %d identities: neither the unlocked view nor the empty locked view", len(got), len(full)))
						return
					}
				case 1:
					ss, e := shim.Signers()
					if e != nil {
						continue // locked
					}
					var got []string
					for _, s := range ss {
						got = append(got, string(s.PublicKey().Marshal()))
					}
					if !same(got) {
						viol.CompareAndSwap(nil, fmt.Sprintf("Signers concurrent with lock / unlock returned %d of the %d identities", len(got), len(full)))
						return
					}
				default:
					if len(hard) == 0 {
						continue
					}
					hc := hard[n%len(hard)]
					data := []byte(fmt.Sprintf("race %d %d", l, n))
					sig, e := shim.Sign(hc, data)
					if e != nil {
						continue // locked
					}
					if verr := hc.Key.Verify(data, sig); verr != nil {
						viol.CompareAndSwap(nil, fmt.Sprintf("signature obtained concurrently with lock / unlock does not verify: %v", verr))
						return
					}
				}
			}
		}()
	}
	for i := 0; i < c.Cycles && viol.Load() == nil; i++ {
		if e := shim.Lock([]byte("pw")); e != nil {
			stop.Store(true)
			wg.Wait()
			return out, vh.Errf("cycle %d: lock failed: %v", i, e)
		}
		ks, e := shim.List()
		if e != nil || len(ks) != 0 {
			stop.Store(true)
			wg.Wait()
			return out, vh.Errf("cycle %d: listing by the locking client itself returned %d identities, err %v", i, len(ks), e)
		}
		if _, e := shim.Sign(vh.SSHPub(raceKeys[0]), []byte("x")); e == nil {
			stop.Store(true)
			wg.Wait()
			return out, vh.Errf("cycle %d: signing succeeded while the agent is locked", i)
		}
		if e := shim.Unlock([]byte("pw")); e != nil {
			stop.Store(true)
			wg.Wait()
			return out, vh.Errf("cycle %d: unlock with the right passphrase failed: %v", i, e)
		}
	}
	stop.Store(true)
	done := make(chan struct{})
	go func() { wg.Wait(); close(done) }()
	select {
	case <-done:
	case <-time.After(60 * time.Second):
		return out, vh.Errf("listers did not finish within 60 s")
	}
	if v := viol.Load(); v != nil {
		return out, vh.Errf("%s (keys %d, hardware certificates %d, upstream certificates %d, no-upstream %v)", v, c.Keys, len(hard), c.Upstream, c.NoUpstream)
	}
	if empties.Load() > 0 && fulls.Load() > 0 {
		out.Classes = append(out.Classes, "saw-both-views")
	}
	_ = rand.Reader
	return out, nil
}

func TestC08LockRace(t *testing.T) {
	vh.Run(t, vh.Spec[RaceCase]{Property: "C08", Name: "TestC08LockRace", Journal: true,
		Rule: "one shim over 1..3 plain keys (each optionally with an in-memory hardware certificate) and 0..2 further certificates in the underlying agent, both upstream modes; 1..4 goroutines keep listing, listing signers and signing with a hardware certificate while the main goroutine runs 20..150 lock / (list, sign) / unlock cycles. Oracle: every concurrent listing is either the complete unlocked view or empty, never a part (e.g. the in-memory certificates alone); Signers returns the complete view or fails; signatures verify; the locking client itself always sees the locked answer between its lock and unlock; the right passphrase always unlocks. Non-trivial: all cases (class saw-both-views: the listers observed both answers).",
		Gen: func(t *rapid.T) RaceCase {
			c := RaceCase{NoUpstream: rapid.Bool().Draw(t, "noUpstream"), Keys: rapid.IntRange(1, 3).Draw(t, "keys"), Upstream: rapid.IntRange(0, 2).Draw(t, "upstream"),
				Listers: rapid.IntRange(1, 4).Draw(t, "listers"), Cycles: rapid.IntRange(20, 150).Draw(t, "cycles"), Spin: rapid.SampledFrom([]int{0, 0, 1, 5}).Draw(t, "spin")}
			for i := 0; i < c.Keys; i++ {
				c.Hard = append(c.Hard, rapid.IntRange(0, 3).Draw(t, fmt.Sprintf("hard%d", i)) > 0)
			}
			return c
		}, Exec: execRace})
}
