// C08 — a locked shim agent discloses and changes nothing; only the passphrase unlocks.
package c08

import (
	"fmt"
	"testing"

	"github.com/theparanoids/ysshra/zzverif/vh"
	"pgregory.net/rapid"
)

var profile = vh.ShimProfile{
	Validities:   []string{"current", "forever"},
	KeyIDClasses: []string{"ysshca0", "ysshca1", "ysshca3", "text", "missing"},
	Lock:         true,
	MaxOps:       30,
}

func exec(c vh.ShimCase) (vh.Outcome, error) {
	tr, err := vh.RunShimCase(c)
	out := vh.Outcome{NonTrivial: tr.LockedMutations > 0 && tr.Unlocks > 0, Classes: []string{fmt.Sprintf("noUpstream=%v", c.NoUpstream)}}
	if tr.LockedMutations > 0 {
		out.Classes = append(out.Classes, "mutation-while-locked")
	}
	if tr.Unlocks > 0 {
		out.Classes = append(out.Classes, "unlocked-again")
	}
	if tr.WrongUnlocks > 0 {
		out.Classes = append(out.Classes, "wrong-passphrase")
	}
	if tr.RefusedLockOps > 0 {
		out.Classes = append(out.Classes, "lock-op-refused-by-agent")
	}
	return out, err
}

// genWithRefusals adds fault plans that make the underlying agent refuse the lock or unlock request.
func genWithRefusals(t *rapid.T) vh.ShimCase {
	c := vh.GenShimCase(t, profile)
	c.ListsWhileLocked = rapid.IntRange(0, 3).Draw(t, "listsWhileLocked") == 0
	// most histories should contain a complete episode: lock, operations attempted while locked,
	// the right passphrase, and a look at the result
	if rapid.IntRange(0, 4).Draw(t, "episode") > 0 {
		nc := len(c.Certs)
		ep := []vh.Op{
			{Kind: "addkey", Key: c.Certs[0].Key, Cert: -1},
			{Kind: "addhard", Cert: 0, Comment: "hw"},
			{Kind: "lock", Cert: -1, Pass: "episode"},
		}
		nb := rapid.IntRange(1, 5).Draw(t, "episodeN")
		for b := 0; b < nb; b++ {
			l := fmt.Sprintf("ep%d", b)
			k := rapid.SampledFrom([]string{"addkey", "addcert", "addhard", "addhard", "remove", "remove", "removeall", "list", "signers", "sign", "lock", "close", "rawunlock", "rawunlock", "rawsmartcard"}).Draw(t, l)
			op := vh.Op{Kind: k, Cert: -1}
			switch k {
			case "rawunlock":
				// a raw unlock request relayed by Forward which the underlying agent refuses (a passphrase
				// no lock of any history uses; or the agent is not locked at all): nothing changes anywhere
				code := byte(vh.CodeUnlock)
				pass := rapid.SampledFrom([]string{"never a lock passphrase", "never-a-lock-passphrase\n", "episodE!"}).Draw(t, l+"RawPass")
				op = vh.Op{Kind: "forward", Cert: -1, Body: append([]byte{code, 0, 0, 0, byte(len(pass))}, pass...)}
				if rapid.IntRange(0, 3).Draw(t, l+"RawShort") == 0 {
					op.Body = []byte{code} // malformed: refused as well
				}
			case "rawsmartcard":
				// smartcard requests (add / remove a card's keys) relayed by Forward: the locked underlying agent refuses them
				code := rapid.SampledFrom([]byte{21, 20, 26}).Draw(t, l+"SCCode")
				op = vh.Op{Kind: "forward", Cert: -1, Body: []byte{code, 0, 0, 0, 1, 'r', 0, 0, 0, 0}}
			case "addkey":
				op.Key = rapid.SampledFrom(vh.SSHKeyNames).Draw(t, l+"Key")
			case "addcert", "addhard":
				op.Cert = rapid.IntRange(0, nc-1).Draw(t, l+"Cert")
			case "remove", "sign":
				if rapid.Bool().Draw(t, l+"IsCert") {
					op.Cert = rapid.IntRange(0, nc-1).Draw(t, l+"Cert")
				} else {
					op.Key = c.Certs[0].Key
				}
			case "lock":
				op.Pass = "again"
			}
			ep = append(ep, op)
		}
		if rapid.Bool().Draw(t, "episodeWrong") {
			ep = append(ep, vh.Op{Kind: "unlock", Cert: -1, Pass: rapid.SampledFrom([]string{"episodE", "episode\n", "episode\r\n", "episode ", " episode", "episod", "episode\x00", "episodee", ""}).Draw(t, "episodeWrongPass")})
		}
		if rapid.IntRange(0, 5).Draw(t, "episodeLostLock") == 0 {
			// the underlying agent loses its lock behind the shim's back; a wrong passphrase follows
			ep = append(ep, vh.Op{Kind: "oobunlock", Cert: -1}, vh.Op{Kind: "unlock", Cert: -1, Pass: "not the passphrase"}, vh.Op{Kind: "list", Cert: -1})
		}
		if rapid.IntRange(0, 4).Draw(t, "episodeOtherFault") == 2 {
			// a failure of ANOTHER request kind is pending while the right passphrase is given (a flaky
			// listing, a refused removal): it belongs to whichever later operation issues that request
			code := rapid.SampledFrom([]int{vh.CodeList, vh.CodeList, vh.CodeRemove, vh.CodeSign}).Draw(t, "episodeOtherFaultCode")
			ep = append(ep, vh.Op{Kind: "plan", Cert: -1, Plan: []vh.FaultRule{{Index: -1, Code: code, Kind: "fail", Remaining: 1}}})
			ep = append(ep, vh.Op{Kind: "unlock", Cert: -1, Pass: "episode"}, vh.Op{Kind: "plan", Cert: -1}, vh.Op{Kind: "list", Cert: -1}, vh.Op{Kind: "lock", Cert: -1, Pass: "episode"})
		}
		ep = append(ep, vh.Op{Kind: "unlock", Cert: -1, Pass: "episode"}, vh.Op{Kind: "list", Cert: -1}, vh.Op{Kind: "sign", Cert: 0})
		at := rapid.IntRange(0, len(c.Ops)).Draw(t, "episodeAt")
		ops := append([]vh.Op{}, c.Ops[:at]...)
		ops = append(ops, ep...)
		c.Ops = append(ops, c.Ops[at:]...)
	}
	if rapid.IntRange(0, 2).Draw(t, "refusals") == 0 {
		var ops []vh.Op
		for i, op := range c.Ops {
			if (op.Kind == "lock" || op.Kind == "unlock") && rapid.IntRange(0, 2).Draw(t, fmt.Sprintf("refuse%d", i)) == 0 {
				code := vh.CodeLock
				if op.Kind == "unlock" {
					code = vh.CodeUnlock
				}
				// the refusal: a failure reply, or an answer the client cannot decode (malformed, empty) - the
				// request was not carried out either way
				kind := rapid.SampledFrom([]string{"fail", "fail", "malformed", "empty"}).Draw(t, fmt.Sprintf("refuseKind%d", i))
				ops = append(ops, vh.Op{Kind: "plan", Cert: -1, Plan: []vh.FaultRule{{Index: -1, Code: code, Kind: kind, Remaining: 1}}})
				ops = append(ops, op)
				ops = append(ops, vh.Op{Kind: "plan", Cert: -1}) // clear the plan
				continue
			}
			ops = append(ops, op)
		}
		c.Ops = ops
	}
	return c
}

const rule = "histories of 1..30 operations interleaving lock / unlock (right, wrong, empty, 300-byte and near-miss passphrases) / close with add, add-hardware-certificate, remove, remove-all, list, signers, sign and out-of-band keyring edits, starting from 0..6 underlying identities and hardware certificates; in a third of the histories the underlying agent refuses individual lock / unlock requests (fault plan on that request kind: a failure reply, or a reply the client cannot decode - malformed or empty); in a fifth of the lock episodes a failure of another request kind (list, remove, sign) is pending while the right passphrase is given; in a quarter the underlying agent keeps listing its identities while locked; sometimes it loses its lock behind the shim's back and then refuses every unlock. Inside the lock episodes raw unlock requests that the underlying agent refuses (a passphrase no lock uses, malformed) and smartcard requests (add / remove a card's keys) are also relayed through Forward: a refused request changes nothing. Certificates are current or forever so time cannot interfere. Oracle: model with a locked flag: while locked, list = empty without error, every other listed operation errs, the keyring is unchanged (observed directly) and after the right passphrase the view equals the model's pre-lock view; wrong passphrase => error and still locked; unlock when unlocked => error; a refused lock / unlock leaves the behaviour unchanged (probed by the following operations). Non-trivial: at least one mutating operation attempted while locked and a later successful unlock."

// TestC08Slow: the same histories with an underlying agent that takes seconds to answer the first
// lock, unlock, list or sign request (a passphrase prompt, a token waiting for a touch). Slowness is
// not a refusal: the model is unchanged.
func TestC08Slow(t *testing.T) {
	vh.Run(t, vh.Spec[vh.ShimCase]{Property: "C08", Name: "TestC08Slow", Journal: true,
		Rule: "TestC08Lock's histories (with a complete lock episode) in which the underlying agent answers the first lock and / or unlock request - or the first list or sign request - only after 3.3 s (thorough: also 6.5 s); same model and oracle: a slow answer is the answer, the lock state follows it and every later operation is judged as usual. Non-trivial: as TestC08Lock.",
		Gen: func(t *rapid.T) vh.ShimCase {
			c := genWithRefusals(t)
			c.SlowCodes = rapid.SampledFrom([][]int{{22}, {23}, {22, 23}, {23}, {11}, {13}}).Draw(t, "slowCodes")
			c.SlowMS = 3300
			if vh.Thorough() && rapid.Bool().Draw(t, "slower") {
				c.SlowMS = 6500
			}
			c.ConstructPlan = nil
			return c
		}, Exec: exec})
}

func TestC08Lock(t *testing.T) {
	vh.Run(t, vh.Spec[vh.ShimCase]{Property: "C08", Name: "TestC08Lock", Rule: rule + vh.ShimGenNote, Gen: genWithRefusals, Exec: exec})
}
