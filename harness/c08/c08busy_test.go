package c08

// TestC08BusyLocked: the agent is locked, and another caller's request is outstanding at the
// underlying agent (answered only after seconds) when the listing is asked for. Locked means locked:
// the listing is empty whenever it is answered, every other operation is refused.

import (
	"bytes"
	"fmt"
	"sync"
	"testing"
	"time"

	"github.com/theparanoids/ysshra/agent/shimagent"
	"github.com/theparanoids/ysshra/zzverif/vh"
	"golang.org/x/crypto/ssh/agent"
)

type BusyLockedCase struct {
	Scenarios []string // "<outstanding request>/<mode>"
	LatencyMS int
}

func busyLocked(name string, latency time.Duration) error {
	var busy, mode string
	if n, _ := fmt.Sscanf(string(bytes.ReplaceAll([]byte(name), []byte("/"), []byte(" "))), "%s %s", &busy, &mode); n != 2 {
		return nil
	}
	p, err := vh.NewProxy()
	if err != nil {
		return nil
	}
	defer p.Close()
	_ = p.Ring().Add(agent.AddedKey{PrivateKey: vh.Key("p256b"), Comment: "token key"})
	sh, serr := shimagent.New(shimagent.Option{Address: p.Path, NoUpstream: mode == "noupstream"})
	if serr != nil {
		return vh.Errf("%s: shimagent.New: %v", name, serr)
	}
	defer func() { _ = vh.Catch(func() { sh.Close() }) }()
	hw := vh.MakeSSHCert(vh.SSHCertSpec{Key: "p256b", KeyID: "hardware certificate", ValidAfter: 0, ValidBefore: 1<<64 - 1, Principals: []string{"user_a"}, Serial: 5})
	if e := sh.AddHardCert(hw, "hw"); e != nil {
		return vh.Errf("%s: AddHardCert: %v", name, e)
	}
	if ks, e := sh.List(); e != nil || len(ks) != 2 {
		return vh.Errf("%s: listing before the lock shows %d identities, %v (expected the key and the hardware certificate)", name, len(ks), e)
	}
	if e := sh.Lock([]byte("pw")); e != nil {
		return vh.Errf("%s: Lock: %v", name, e)
	}
	slowCode := map[string]int{"forward": 201, "wrongunlock": vh.CodeUnlock, "extension": vh.CodeExtension}[busy]
	var mu sync.Mutex
	var armed, fired bool
	p.Latency = func(code int) time.Duration {
		mu.Lock()
		defer mu.Unlock()
		if armed && !fired && code == slowCode {
			fired = true
			return latency
		}
		return 0
	}
	mu.Lock()
	armed = true
	mu.Unlock()
	busyDone := make(chan struct{})
	go func() {
		defer close(busyDone)
		_ = vh.Catch(func() {
			switch busy {
			case "forward":
				_, _ = sh.Forward([]byte{201, 1, 2, 3})
			case "wrongunlock":
				_ = sh.Unlock([]byte("not the passphrase"))
			case "extension":
				_, _ = sh.Extension("verif@harness", []byte("x"))
			}
		})
	}()
	deadline := time.Now().Add(10 * time.Second)
	for {
		mu.Lock()
		f := fired
		mu.Unlock()
		if f {
			break
		}
		if time.Now().After(deadline) {
			return nil
		}
		time.Sleep(time.Millisecond)
	}
	time.Sleep(50 * time.Millisecond)
	// while that request is outstanding: the locked view
	type res struct {
		n   int
		err error
	}
	listed := make(chan res, 1)
	go func() {
		var r res
		if perr := vh.Catch(func() {
			ks, e := sh.List()
			r = res{len(ks), e}
		}); perr != nil {
			r.err = fmt.Errorf("CRASH: %v", perr)
		}
		listed <- r
	}()
	var got res
	select {
	case got = <-listed:
	case <-time.After(latency + 20*time.Second):
		return vh.Errf("%s: the listing asked for while another request was outstanding never came back", name)
	}
	if got.err != nil || got.n != 0 {
		return vh.Errf("%s: the agent is locked and another caller's %s is outstanding at the underlying agent (answered after %s); the listing asked for meanwhile returned %d identities, err %v (a locked agent lists nothing)", name, busy, latency, got.n, got.err)
	}
	<-busyDone
	if ss, e := sh.Signers(); e == nil {
		return vh.Errf("%s: Signers on the locked agent returned %d signers without error", name, len(ss))
	}
	if e := sh.Unlock([]byte("pw")); e != nil {
		return vh.Errf("%s: the right passphrase no longer unlocks: %v", name, e)
	}
	if ks, e := sh.List(); e != nil || len(ks) != 2 {
		return vh.Errf("%s: after unlocking the listing shows %d identities, %v (expected the pre-lock view of 2)", name, len(ks), e)
	}
	return nil
}

func TestC08BusyLocked(t *testing.T) {
	var sc []string
	for _, b := range []string{"forward", "wrongunlock", "extension"} {
		for _, m := range []string{"upstream", "noupstream"} {
			sc = append(sc, b+"/"+m)
		}
	}
	cases := []BusyLockedCase{{Scenarios: sc, LatencyMS: 2500}}
	if vh.Thorough() {
		cases = append(cases, BusyLockedCase{Scenarios: sc, LatencyMS: 8000})
	}
	vh.Enumerate(t, vh.Spec[BusyLockedCase]{Property: "C08", Name: "TestC08BusyLocked", Exhaustive: true,
		Rule: "a shim holding a key and a hardware certificate is listed (2 identities), then locked; another caller's raw forward / unlock with a wrong passphrase / extension request is outstanding at the underlying agent, which answers it after 2.5 s (thorough: also 8 s); 50 ms into that, the listing is asked for; both upstream modes (6 scenarios side by side). Oracle: the listing - whenever it is answered - is empty and without error; afterwards Signers is refused, the right passphrase unlocks and the listing shows the pre-lock view again",
		Exec: func(c BusyLockedCase) (vh.Outcome, error) {
			out := vh.Outcome{NonTrivial: true}
			errs := make([]error, len(c.Scenarios))
			var wg sync.WaitGroup
			for i, s := range c.Scenarios {
				i, s := i, s
				wg.Add(1)
				go func() { defer wg.Done(); errs[i] = busyLocked(s, time.Duration(c.LatencyMS)*time.Millisecond) }()
			}
			wg.Wait()
			for _, e := range errs {
				if e != nil {
					return out, e
				}
			}
			return out, nil
		}}, cases)
}
