package c08

// TestC08UnlockUnlocked: "unlocking an unlocked agent is an error" - also when the UNDERLYING agent
// happens to be locked (by another client, or by a raw lock request relayed through Forward) while the
// shim's own state is unlocked: the shim was not locked, so Unlock fails and changes nothing.

import (
	"fmt"
	"testing"

	"github.com/theparanoids/ysshra/agent/shimagent"
	"github.com/theparanoids/ysshra/zzverif/vh"
	"golang.org/x/crypto/ssh/agent"
	"pgregory.net/rapid"
)

type UnlockedCase struct {
	NoUpstream bool
	Pass       string
	// How the underlying agent got locked: client (another client of it) | forward (a raw lock request through the shim's Forward)
	How string
	// Before: the shim went through a complete lock / unlock episode of its own earlier
	Before bool
	// Try: the passphrase given to the shim's Unlock: same | other
	Try string
}

func execUnlocked(c UnlockedCase) (vh.Outcome, error) {
	out := vh.Outcome{NonTrivial: true, Classes: []string{"how=" + c.How, "try=" + c.Try}}
	p, err := vh.NewProxy()
	if err != nil {
		return out, nil
	}
	defer p.Close()
	_ = p.Ring().Add(agent.AddedKey{PrivateKey: vh.Key("ed25519c"), Comment: "k"})
	sh, serr := shimagent.New(shimagent.Option{Address: p.Path, NoUpstream: c.NoUpstream})
	if serr != nil {
		return out, vh.Errf("shimagent.New: %v", serr)
	}
	defer func() { _ = vh.Catch(func() { sh.Close() }) }()
	if c.Before {
		if e := sh.Lock([]byte("earlier")); e != nil {
			return out, vh.Errf("Lock: %v", e)
		}
		if e := sh.Unlock([]byte("earlier")); e != nil {
			return out, vh.Errf("Unlock after Lock: %v", e)
		}
	}
	// the underlying agent gets locked without the shim's Lock
	switch c.How {
	case "client":
		conn, derr := vh.DialProxy(p)
		if derr != nil {
			return out, nil
		}
		oc := agent.NewClient(conn)
		lerr := oc.Lock([]byte(c.Pass))
		conn.Close()
		if lerr != nil {
			return out, nil
		}
	case "forward":
		req := append([]byte{vh.CodeLock, 0, 0, 0, byte(len(c.Pass))}, c.Pass...)
		if rep, ferr := sh.Forward(req); ferr != nil || len(rep) != 1 || rep[0] != vh.CodeSuccess {
			return out, nil // the raw request was not accepted: nothing to judge
		}
	}
	if !p.Locked() {
		return out, nil
	}
	try := c.Pass
	if c.Try == "other" {
		try = c.Pass + "x"
	}
	var uerr error
	if perr := vh.Catch(func() { uerr = sh.Unlock([]byte(try)) }); perr != nil {
		return out, vh.Errf("Unlock crashed: %v", perr)
	}
	desc := fmt.Sprintf("the shim is not locked (its own Lock was %s), the underlying agent was locked by %s with %q; Unlock(%q)", map[bool]string{true: "used and undone earlier", false: "never called"}[c.Before], map[string]string{"client": "another client", "forward": "a raw request relayed through Forward"}[c.How], c.Pass, try)
	if uerr == nil {
		return out, vh.Errf("%s returned no error: unlocking an unlocked agent is an error", desc)
	}
	if !p.Locked() {
		return out, vh.Errf("%s failed (%v) and yet unlocked the underlying agent: a refused unlock changes nothing", desc, uerr)
	}
	return out, nil
}

func TestC08UnlockUnlocked(t *testing.T) {
	vh.Run(t, vh.Spec[UnlockedCase]{Property: "C08", Name: "TestC08UnlockUnlocked",
		Rule: "a shim that is not locked (never locked, or locked and unlocked again earlier) over an underlying agent that another client - or a raw lock request relayed through the shim's Forward - has locked with a drawn passphrase; the shim's Unlock is called with that passphrase or another one; both upstream modes. Oracle: Unlock returns an error (the shim was not locked) and the underlying agent's lock state is unchanged. Non-trivial: every case.",
		Gen: func(t *rapid.T) UnlockedCase {
			return UnlockedCase{NoUpstream: rapid.Bool().Draw(t, "noUpstream"), Pass: rapid.SampledFrom([]string{"pw", "", "correct horse", "é", "p\x00w"}).Draw(t, "pass"),
				How: rapid.SampledFrom([]string{"client", "forward"}).Draw(t, "how"), Before: rapid.Bool().Draw(t, "before"), Try: rapid.SampledFrom([]string{"same", "same", "other"}).Draw(t, "try")}
		}, Exec: execUnlocked})
}
