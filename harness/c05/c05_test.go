// C05 — KeyID encoding round-trips and refuses inconsistent or incomplete KeyIDs.
package c05

import (
	"math"
	"bytes"
	"encoding/json"
	"fmt"
	"reflect"
	"sort"
	"strings"
	"testing"
	"unicode/utf8"

	"github.com/theparanoids/ysshra/keyid"
	"github.com/theparanoids/ysshra/zzverif/vh"
	"pgregory.net/rapid"
)

// ---------- independent re-statement of the rules ----------

var requiredV1 = []string{"prins", "transID", "reqUser", "reqIP", "reqHost", "isFirefighter", "isHWKey", "isHeadless", "isNonce", "touchPolicy", "ver"}

func consistent(ff, hw, hl, nonce bool, touch int) bool {
	if hl && (hw || ff || touch != 1) {
		return false
	}
	if nonce && (ff || hl || touch != 1) {
		return false
	}
	return true
}

// topLevelNames returns the exact member names of the top-level JSON object of text
// (with duplicates), or ok=false if text is not a single JSON object.
func topLevelNames(text string) (names []string, ok bool) {
	dec := json.NewDecoder(strings.NewReader(text))
	tok, err := dec.Token()
	if err != nil {
		return nil, false
	}
	if d, isDelim := tok.(json.Delim); !isDelim || d != '{' {
		return nil, false
	}
	for dec.More() {
		tok, err := dec.Token()
		if err != nil {
			return nil, false
		}
		name, isStr := tok.(string)
		if !isStr {
			return nil, false
		}
		names = append(names, name)
		var skip json.RawMessage
		if err := dec.Decode(&skip); err != nil {
			return nil, false
		}
	}
	if _, err := dec.Token(); err != nil {
		return nil, false
	}
	if dec.More() {
		return nil, false
	}
	var rest json.RawMessage
	if err := dec.Decode(&rest); err == nil {
		return nil, false // trailing value
	}
	return names, true
}

// ---------- value cases ----------

type ValueCase struct {
	Prins    []string
	PrinsNil bool
	TransID  string
	ReqUser  string
	ReqIP    string
	ReqHost  string
	FF       bool
	HW       bool
	Headless bool
	Nonce    bool
	Usage    int
	Touch    int
	Version  uint16
}

func (c ValueCase) keyID() *keyid.KeyID {
	k := &keyid.KeyID{
		TransID: c.TransID, ReqUser: c.ReqUser, ReqIP: c.ReqIP, ReqHost: c.ReqHost,
		IsFirefighter: c.FF, IsHWKey: c.HW, IsHeadless: c.Headless, IsNonce: c.Nonce,
		Usage: keyid.Usage(c.Usage), TouchPolicy: keyid.TouchPolicy(c.Touch), Version: c.Version,
	}
	if !c.PrinsNil {
		k.Principals = append([]string{}, c.Prins...)
	}
	return k
}

func genString(t *rapid.T, label string) string {
	if rapid.IntRange(0, 255).Draw(t, label+"Long")&0xfe == 0xa8 {
		n := rapid.SampledFrom([]int{4096, 65535, 65536, 65537}).Draw(t, label+"Len")
		unit := rapid.SampledFrom([]string{"a", "é", `"`, "<"}).Draw(t, label+"Unit")
		return strings.Repeat(unit, n/len(unit))
	}
	switch rapid.IntRange(0, 9).Draw(t, label+"Kind") {
	case 0:
		return ""
	case 1, 2, 3:
		return rapid.StringMatching(`[a-z0-9_.-]{1,12}`).Draw(t, label)
	case 4:
		return rapid.SampledFrom([]string{`"`, `\`, `a"b`, `<script>`, " ", " ", "\x00", "\x7f", "é", "日本", "\U0001F600", `{"ver":1}`, "null", " ", "\t\n", "&amp;", `\u003c`, `x\u0026y`, `\u003e`, `\n`, `\"`, `\\`, `\u00e9`, "a&b<c>d"}).Draw(t, label)
	default:
		s := rapid.String().Draw(t, label)
		if !utf8.ValidString(s) {
			s = strings.ToValidUTF8(s, "?")
		}
		return s
	}
}

func genValue(t *rapid.T) ValueCase {
	c := ValueCase{}
	c.PrinsNil = rapid.IntRange(0, 5).Draw(t, "prinsNil") == 0
	if !c.PrinsNil {
		n := rapid.IntRange(0, 4).Draw(t, "nPrins")
		c.Prins = make([]string, n)
		for i := range c.Prins {
			c.Prins[i] = genString(t, fmt.Sprintf("prin%d", i))
		}
	}
	c.TransID = genString(t, "transID")
	c.ReqUser = genString(t, "reqUser")
	c.ReqIP = genString(t, "reqIP")
	c.ReqHost = genString(t, "reqHost")
	// values shaped like what the field usually holds, in forms a normaliser would rewrite (the codec must
	// not: every field is opaque text)
	if rapid.IntRange(0, 3).Draw(t, "shaped") == 2 {
		c.ReqIP = rapid.SampledFrom([]string{"10.1.2.3", "010.001.002.003", "::ffff:10.1.2.3", "2001:DB8::1", "2001:db8:0:0:0:0:0:1", "0:0:0:0:0:0:0:1", "::1", "fe80::1%eth0", "[::1]", "127.0.0.1:22", " 10.0.0.1", "10.0.0.1 "}).Draw(t, "shapedIP")
		c.ReqHost = rapid.SampledFrom([]string{"Host.Example.COM", "host.example.com.", "xn--bcher-kva.example", "bücher.example", "HOST", "host ", "10.0.0.1", "localhost"}).Draw(t, "shapedHost")
		c.ReqUser = rapid.SampledFrom([]string{"Alice", "alice@example.com", "EXAMPLE\\alice", "alice ", " alice", "root", "0", "alice:touch"}).Draw(t, "shapedUser")
		c.TransID = rapid.SampledFrom([]string{"00000000AA", "00000000aa", "0x1f", "1F-2E", "0000000001", "+1", "1e3", " 15537d7b63"}).Draw(t, "shapedTrans")
		if !c.PrinsNil && len(c.Prins) > 0 {
			c.Prins[0] = rapid.SampledFrom([]string{"Alice", "ops:touch", "deploy:notouch", ":touch", "alice,bob", "alice "}).Draw(t, "shapedPrin")
		}
	}
	flags := rapid.IntRange(0, 15).Draw(t, "flags")
	c.FF, c.HW, c.Headless, c.Nonce = flags&1 != 0, flags&2 != 0, flags&4 != 0, flags&8 != 0
	c.Touch = rapid.SampledFrom([]int{-1, 0, 1, 1, 1, 2, 3, 4, 7, 1 << 40, -(1 << 40), 1<<53 + 1, -(1<<53 + 1), 1<<62 + 1, math.MaxInt64, math.MaxInt64 - 1, math.MinInt64}).Draw(t, "touch")
	c.Usage = rapid.SampledFrom([]int{0, 0, 1, 2, -1, 1 << 33, 1<<53 + 1, 9007199254740993, math.MaxInt64, math.MinInt64 + 1}).Draw(t, "usage")
	c.Version = rapid.SampledFrom([]uint16{1, 1, 1, 1, 1, 1, 0, 2, 3, 255, 256, 257, 65535}).Draw(t, "ver")
	return c
}

func execValue(c ValueCase) (vh.Outcome, error) {
	k := c.keyID()
	orig := keyid.Clone(k)
	if c.PrinsNil {
		orig.Principals = nil
	}
	want := c.Version == 1 && consistent(c.FF, c.HW, c.Headless, c.Nonce, c.Touch)
	s, err := k.Marshal()
	out := vh.Outcome{NonTrivial: c.FF || c.HW || c.Headless || c.Nonce || c.Touch < 0 || c.Touch > 3}
	cl := "marshal-refused"
	if want {
		cl = "marshal-ok"
	}
	out.Classes = []string{cl, fmt.Sprintf("ver=%d", min(int(c.Version), 4))}
	if len(c.TransID)+len(c.ReqUser)+len(c.ReqIP)+len(c.ReqHost)+len(strings.Join(c.Prins, "")) > 4000 {
		out.Classes = append(out.Classes, "value>4KB")
	}
	if want && err != nil {
		return out, vh.Errf("Marshal refused a supported, consistent KeyID %+v: %v", c, err)
	}
	if !want && err == nil {
		return out, vh.Errf("Marshal accepted a KeyID that is unsupported or inconsistent %+v -> %s", c, s)
	}
	if !reflect.DeepEqual(k, orig) {
		return out, vh.Errf("Marshal modified its receiver: %+v -> %+v", orig, k)
	}
	if err != nil {
		return out, nil
	}
	got, err := keyid.Unmarshal(s)
	if err != nil {
		return out, vh.Errf("Unmarshal(Marshal(k)) failed for %+v, text %q: %v", c, s, err)
	}
	if !reflect.DeepEqual(got, orig) {
		return out, vh.Errf("round trip changed the KeyID:\n in  %#v\n out %#v\n text %s", orig, got, s)
	}
	// the decoded value belongs to the caller: writing into it must not change what the same text
	// decodes to afterwards
	for i := range got.Principals {
		got.Principals[i] = "scribbled-by-the-caller"
	}
	got.TransID, got.ReqUser = "scribbled", "scribbled"
	again, err := keyid.Unmarshal(s)
	if err != nil || !reflect.DeepEqual(again, orig) {
		return out, vh.Errf("decoding the same text a second time, after the caller wrote into the first result, gives another KeyID (%v):\n first  %#v\n second %#v\n text %s", err, orig, again, s)
	}
	// the encoded text itself must carry every required member, exactly spelled
	names, ok := topLevelNames(s)
	if !ok {
		return out, vh.Errf("Marshal output is not a JSON object: %q", s)
	}
	have := map[string]bool{}
	for _, n := range names {
		have[n] = true
	}
	for _, r := range requiredV1 {
		if !have[r] {
			return out, vh.Errf("Marshal output lacks required member %q: %s", r, s)
		}
	}
	return out, nil
}

func TestC05Value(t *testing.T) {
	vh.Run(t, vh.Spec[ValueCase]{
		Property: "C05", Name: "TestC05Value",
		Rule: "KeyID values: 16 flag combinations x touch policy in {-1..4,7,+-2^40,+-(2^53+1),2^62+1,the 64-bit extremes} x usage (also beyond 2^53: numbers a float64 cannot hold) x version in {0,1,2,3,255..257,65535} x nil/0..4 principals x strings with JSON metacharacters and non-ASCII, and field-shaped values in non-canonical forms (IP literals such as ::ffff:10.1.2.3 or 2001:DB8::1, mixed-case and dot-terminated host names, padded or upper-case ids); oracle: Marshal succeeds iff ver=1 and consistent (independent predicate), then Unmarshal(Marshal(k)) deep-equals k, also a second time after the caller wrote into the first result, and the text carries all 11 required names. Non-trivial: at least one flag set or touch policy outside 0..3; distinct by canonical Case hash.",
		Gen:  genValue, Exec: execValue,
	})
}

// TestC05ValueGrid enumerates the whole attribute grid (flags x touch x version) once.
func TestC05ValueGrid(t *testing.T) {
	var cases []ValueCase
	for flags := 0; flags < 16; flags++ {
		for _, touch := range []int{-1, 0, 1, 2, 3, 4, 7} {
			for _, ver := range []uint16{0, 1, 2, 65535} {
				for _, usage := range []int{0, 1} {
					cases = append(cases, ValueCase{Prins: []string{"u"}, TransID: "t", ReqUser: "u", ReqIP: "1.2.3.4", ReqHost: "h",
						FF: flags&1 != 0, HW: flags&2 != 0, Headless: flags&4 != 0, Nonce: flags&8 != 0, Touch: touch, Version: ver, Usage: usage})
				}
			}
		}
	}
	vh.Enumerate(t, vh.Spec[ValueCase]{
		Property: "C05", Name: "TestC05ValueGrid", Exhaustive: true,
		Rule: "complete grid 16 flags x 7 touch policies x 4 versions x 2 usages with fixed strings; same oracle as TestC05Value",
		Exec: execValue,
	}, cases)
}

// ---------- text cases ----------

type member struct{ Name, Raw string }

type TextCase struct {
	Text string
	// TextRaw carries the text when it is not valid UTF-8 (a JSON replay file would alter it).
	TextRaw []byte `json:",omitempty"`
	// Kind: "valid" (must decode to Want), "mutated" (single mutation of an encoder-shaped text),
	// "json" (arbitrary JSON value), "bytes" (arbitrary bytes)
	Kind     string
	Mutation string
	// MustFail is set by the generator when the construction guarantees refusal.
	MustFail bool
	// Want is the value a "valid" text must decode to.
	Want *ValueCase `json:",omitempty"`
}

func jstr(s string) string {
	b, _ := json.Marshal(s)
	return string(b)
}

func jbool(b bool) string {
	if b {
		return "true"
	}
	return "false"
}

func baseMembers(c ValueCase) []member {
	prins := "null"
	if !c.PrinsNil {
		parts := make([]string, len(c.Prins))
		for i, p := range c.Prins {
			parts[i] = jstr(p)
		}
		prins = "[" + strings.Join(parts, ",") + "]"
	}
	return []member{
		{"prins", prins}, {"transID", jstr(c.TransID)}, {"reqUser", jstr(c.ReqUser)}, {"reqIP", jstr(c.ReqIP)},
		{"reqHost", jstr(c.ReqHost)}, {"isFirefighter", jbool(c.FF)}, {"isHWKey", jbool(c.HW)},
		{"isHeadless", jbool(c.Headless)}, {"isNonce", jbool(c.Nonce)}, {"usage", fmt.Sprint(c.Usage)},
		{"touchPolicy", fmt.Sprint(c.Touch)}, {"ver", fmt.Sprint(c.Version)},
	}
}

func joinMembers(ms []member, ws string) string {
	parts := make([]string, len(ms))
	for i, m := range ms {
		parts[i] = jstr(m.Name) + ":" + ws + m.Raw
	}
	return "{" + ws + strings.Join(parts, ","+ws) + ws + "}"
}

// genConsistentValue draws a supported, consistent KeyID value by construction.
func genConsistentValue(t *rapid.T) ValueCase {
	c := genValue(t)
	c.Version = 1
	c.Touch = rapid.SampledFrom([]int{0, 1, 2, 3, 1, -1, 4}).Draw(t, "ctouch")
	c.Usage = rapid.IntRange(0, 1).Draw(t, "cusage")
	switch rapid.IntRange(0, 5).Draw(t, "shape") {
	case 0: // headless
		c.Headless, c.HW, c.FF, c.Nonce, c.Touch = true, false, false, false, 1
	case 1: // nonce
		c.Nonce, c.FF, c.Headless, c.Touch = true, false, false, 1
	default:
		c.Headless, c.Nonce = false, false
	}
	return c
}

func swapCase(s string, mode int) string {
	switch mode {
	case 0:
		return strings.ToUpper(s)
	case 1:
		return strings.ToLower(s)
	case 2:
		return strings.ToUpper(s[:1]) + s[1:]
	default:
		r := []byte(s)
		i := len(r) - 1
		if r[i] >= 'a' && r[i] <= 'z' {
			r[i] -= 32
		} else if r[i] >= 'A' && r[i] <= 'Z' {
			r[i] += 32
		}
		return string(r)
	}
}

var retypes = []string{`0`, `2`, `3`, `255`, `65535`, `false`, `""`, `null`, `"x"`, `1`, `true`, `[]`, `{}`, `1.5`, `-1`, `"1"`, `[1]`, `{"a":1}`, `1e2`, `65536`, `4294967297`}

func genText(t *rapid.T) TextCase {
	kind := rapid.IntRange(0, 10).Draw(t, "kind")
	switch {
	case kind == 10: // a complete, valid text with something behind it: no longer one JSON object
		c := genConsistentValue(t)
		full := joinMembers(baseMembers(c), "")
		return TextCase{Text: full + rapid.SampledFrom([]string{"}", " }", "{}", full, "\n" + full, ",", " x", "\x00", "null", "]", "// comment", " 1", "\n\n."}).Draw(t, "trailer"), Kind: "trailer"}
	case kind <= 1: // valid by construction: shuffled order, extra members, whitespace
		c := genConsistentValue(t)
		ms := baseMembers(c)
		if rapid.Bool().Draw(t, "dropUsage") {
			// usage is not a required member
			ms = append(ms[:9:9], ms[10:]...)
			c.Usage = 0
		}
		if rapid.Bool().Draw(t, "extra") {
			ms = append(ms, member{rapid.SampledFrom([]string{"x", "extra", "crit", "Ver2", "prins2", ""}).Draw(t, "extraName"),
				rapid.SampledFrom(retypes).Draw(t, "extraVal")})
		}
		ms = rapid.Permutation(ms).Draw(t, "order")
		ws := rapid.SampledFrom([]string{"", " ", "\n\t"}).Draw(t, "ws")
		pad := rapid.SampledFrom([][2]string{{"", ""}, {"", ""}, {" ", ""}, {"", "\n"}, {"\t\r\n", " "}}).Draw(t, "pad")
		return TextCase{Text: pad[0] + joinMembers(ms, ws) + pad[1], Kind: "valid", Want: &c}
	case kind <= 6: // single mutation of an encoder-shaped text
		c := genConsistentValue(t)
		ms := baseMembers(c)
		// index among the 11 required members (skip "usage" at 9)
		// "ver" (10) is drawn more often: it selects the rule set for everything else
		ri := rapid.IntRange(0, 14).Draw(t, "member")
		if ri > 10 {
			ri = 10
		}
		idx := ri
		if ri >= 9 {
			idx = ri + 1
		}
		tc := TextCase{Kind: "mutated"}
		switch rapid.IntRange(0, 7).Draw(t, "mutation") {
		case 7:
			// two edits at once: one required member deleted, another one present twice (or three times)
			other := rapid.IntRange(0, 9).Draw(t, "dupOther")
			oi := other
			if oi >= 9 {
				oi++
			}
			if oi == idx {
				oi = (idx + 1) % 12
				if oi == 9 {
					oi = 10
				}
			}
			tc.Mutation = "delete+dup:" + ms[idx].Name + "+" + ms[oi].Name
			dup := ms[oi]
			ntimes := rapid.IntRange(1, 2).Draw(t, "dupTimes")
			ms = append(ms[:idx:idx], ms[idx+1:]...)
			for k := 0; k < ntimes; k++ {
				ms = append(ms, dup)
			}
			tc.MustFail = true
		case 6:
			// the member is deleted but its exact name still occurs in the text as data
			name := ms[idx].Name
			tc.Mutation = "delete-alias:" + name
			ms = append(ms[:idx:idx], ms[idx+1:]...)
			switch rapid.IntRange(0, 3).Draw(t, "aliasWhere") {
			case 0:
				for i := range ms {
					if ms[i].Name == "reqUser" || (name == "reqUser" && ms[i].Name == "reqHost") {
						ms[i].Raw = jstr(name)
						break
					}
				}
			case 1:
				for i := range ms {
					if ms[i].Name == "prins" || (name == "prins" && ms[i].Name == "transID") {
						if ms[i].Name == "prins" {
							ms[i].Raw = "[" + jstr(name) + "]"
						} else {
							ms[i].Raw = jstr(name)
						}
						break
					}
				}
			case 2:
				ms = append(ms, member{"extra", "{" + jstr(name) + ":" + rapid.SampledFrom(retypes).Draw(t, "aliasVal") + "}"})
			default:
				ms = append(ms, member{"note", jstr("the field " + jstr(name) + " was removed")})
			}
			tc.MustFail = true
		case 0:
			tc.Mutation = "delete:" + ms[idx].Name
			ms = append(ms[:idx:idx], ms[idx+1:]...)
			tc.MustFail = true
		case 1:
			n := swapCase(ms[idx].Name, rapid.IntRange(0, 3).Draw(t, "caseMode"))
			// other near-miss names: emptied, first letter cut off, first letter only, a blank added, a dot added
			switch rapid.IntRange(0, 9).Draw(t, "renameMode") {
			case 0:
				n = ""
			case 1:
				n = ms[idx].Name[1:]
			case 2:
				n = ms[idx].Name[:1]
			case 3:
				n = ms[idx].Name + " "
			case 4:
				n = "." + ms[idx].Name
			}
			tc.Mutation = "rename:" + ms[idx].Name + "->" + n
			if n != ms[idx].Name {
				tc.MustFail = true
			}
			ms[idx].Name = n
		case 2:
			tc.Mutation = "dup-same:" + ms[idx].Name
			ms = append(ms, ms[idx])
		case 3:
			tc.Mutation = "dup-conflict:" + ms[idx].Name
			ms = append(ms, member{ms[idx].Name, rapid.SampledFrom(retypes).Draw(t, "dupVal")})
		case 4:
			v := rapid.SampledFrom(retypes).Draw(t, "retype")
			tc.Mutation = "retype:" + ms[idx].Name + "=" + v
			ms[idx].Raw = v
		case 5:
			tc.Mutation = "dup-case:" + ms[idx].Name
			ms = append(ms, member{swapCase(ms[idx].Name, rapid.IntRange(0, 3).Draw(t, "caseMode")), rapid.SampledFrom(retypes).Draw(t, "dupVal")})
		}
		if rapid.Bool().Draw(t, "shuffle") {
			ms = rapid.Permutation(ms).Draw(t, "order")
		}
		tc.Text = joinMembers(ms, "")
		return tc
	case kind == 7: // inconsistent or unsupported, well-formed otherwise
		c := genValue(t)
		return TextCase{Text: joinMembers(baseMembers(c), ""), Kind: "mutated", Mutation: "attrs",
			MustFail: !(c.Version == 1 && consistent(c.FF, c.HW, c.Headless, c.Nonce, c.Touch))}
	case kind == 8: // arbitrary JSON value
		v := rapid.SampledFrom([]string{`null`, `[]`, `{}`, `1`, `"ver"`, `true`, `[{"ver":1}]`, `{"ver":1}`, `{"ver":null}`, `{"ver":"1"}`,
			`{"ver":1.0}`, `{"ver":1e0}`, `{"ver":65537}`, `{"ver":-1}`, `{"VER":1}`, ` {"ver":1} x`, `{"ver":1}{"ver":1}`, `{"ver":1,}`, "\ufeff{}"}).Draw(t, "json")
		return TextCase{Text: v, Kind: "json", MustFail: true}
	default:
		b := rapid.SliceOfN(rapid.Byte(), 0, 64).Draw(t, "bytes")
		if utf8.Valid(b) {
			return TextCase{Text: string(b), Kind: "bytes"}
		}
		return TextCase{TextRaw: b, Kind: "bytes"}
	}
}

func checkText(text string) (accepted bool, err error) {
	var got *keyid.KeyID
	var uerr error
	if perr := vh.Catch(func() { got, uerr = keyid.Unmarshal(text) }); perr != nil {
		return false, vh.Errf("Unmarshal crashed on %q: %v", text, perr)
	}
	if uerr != nil {
		if got != nil {
			return false, vh.Errf("Unmarshal returned both a KeyID and an error for %q", text)
		}
		return false, nil
	}
	if got == nil {
		return false, vh.Errf("Unmarshal returned (nil, nil) for %q", text)
	}
	if got.Version != 1 {
		return true, vh.Errf("Unmarshal accepted unsupported version %d: %q", got.Version, text)
	}
	names, ok := topLevelNames(text)
	if !ok {
		return true, vh.Errf("Unmarshal accepted a text that is not a single JSON object: %q", text)
	}
	have := map[string]bool{}
	for _, n := range names {
		have[n] = true
	}
	var missing []string
	for _, r := range requiredV1 {
		if !have[r] {
			missing = append(missing, r)
		}
	}
	if len(missing) > 0 {
		sort.Strings(missing)
		return true, vh.Errf("Unmarshal accepted a text lacking required member(s) %v: %q", missing, text)
	}
	if !consistent(got.IsFirefighter, got.IsHWKey, got.IsHeadless, got.IsNonce, int(got.TouchPolicy)) {
		return true, vh.Errf("Unmarshal returned an inconsistent KeyID %+v for %q", got, text)
	}
	// it must re-encode and decode to itself
	var s2 string
	var merr error
	if perr := vh.Catch(func() { s2, merr = got.Marshal() }); perr != nil {
		return true, vh.Errf("Marshal crashed on decoded KeyID %+v: %v", got, perr)
	}
	if merr != nil {
		return true, vh.Errf("decoded KeyID does not re-encode: %+v: %v", got, merr)
	}
	got2, err2 := keyid.Unmarshal(s2)
	if err2 != nil || !reflect.DeepEqual(got, got2) {
		return true, vh.Errf("decoded KeyID is not a fixed point: %+v -> %q -> %+v (%v)", got, s2, got2, err2)
	}
	return true, nil
}

func execText(c TextCase) (vh.Outcome, error) {
	if c.TextRaw != nil {
		c.Text = string(c.TextRaw)
	}
	out := vh.Outcome{NonTrivial: c.Kind == "mutated", Classes: []string{"kind=" + c.Kind}}
	if c.Mutation != "" {
		out.Classes = append(out.Classes, "mut="+strings.SplitN(c.Mutation, ":", 2)[0])
	}
	if len(c.Text) > 4000 {
		out.Classes = append(out.Classes, "text>4KB")
	}
	accepted, err := checkText(c.Text)
	if err != nil {
		return out, err
	}
	if accepted {
		out.Classes = append(out.Classes, "accepted")
	} else {
		out.Classes = append(out.Classes, "refused")
	}
	if c.MustFail && accepted {
		return out, vh.Errf("text constructed to be refused (%s %s) was accepted: %q", c.Kind, c.Mutation, c.Text)
	}
	if c.Kind == "valid" {
		if !accepted {
			_, uerr := keyid.Unmarshal(c.Text)
			return out, vh.Errf("well-formed, complete, consistent KeyID text was refused: %q: %v", c.Text, uerr)
		}
		got, _ := keyid.Unmarshal(c.Text)
		want := c.Want.keyID()
		if c.Want.PrinsNil {
			want.Principals = nil
		}
		if !reflect.DeepEqual(got, want) {
			return out, vh.Errf("decoded value differs from the members of the text:\n text %s\n got  %#v\n want %#v", c.Text, got, want)
		}
	}
	return out, nil
}

func TestC05Text(t *testing.T) {
	vh.Run(t, vh.Spec[TextCase]{
		Property: "C05", Name: "TestC05Text",
		Rule: "texts: 20% valid-by-construction (shuffled members, extra members, whitespace inside and around the object; must decode to the members' values), 50% encoder-shaped text with one required member deleted (also with its exact name still present as a string value, principal or nested key) / renamed (other letter case, emptied, first letter cut off, first letter only, a blank or dot added) / duplicated (same, conflicting, case variant) / retyped, or one member deleted while another one is present two or three times, 10% inconsistent-or-unsupported attribute sets, 10% other JSON values, 10% arbitrary bytes. Oracle on acceptance: version supported, all 11 exact required names among the top-level members (independent token walk), consistency rules, re-encodes to a fixed point; constructed-to-fail texts must be refused. Non-trivial: single-mutation texts; distinct by text hash.",
		Gen:  genText, Exec: execText,
	})
}

// FuzzC05Text is the coverage-guided variant with the same oracle inside the target.
func FuzzC05Text(f *testing.F) {
	c := ValueCase{Prins: []string{"u"}, TransID: "t", ReqUser: "u", ReqIP: "1.2.3.4", ReqHost: "h", Touch: 1, Version: 1}
	f.Add(joinMembers(baseMembers(c), ""))
	c.Headless = true
	f.Add(joinMembers(baseMembers(c), " "))
	ms := baseMembers(c)
	f.Add(joinMembers(ms[1:], ""))
	f.Add(`{"ver":1}`)
	f.Add(`null`)
	f.Fuzz(func(t *testing.T, text string) {
		if _, err := checkText(text); err != nil {
			t.Fatal(err)
		}
	})
}

var _ = bytes.Equal
