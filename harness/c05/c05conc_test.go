package c05

// TestC05Concurrent: the codec is a pure function of its input, also when many callers use it at the
// same time: the value oracle of TestC05Value and the text oracle of TestC05Text are applied from
// several goroutines at once to a mix of acceptable and unacceptable inputs.

import (
	"fmt"
	"sync"
	"testing"

	"github.com/theparanoids/ysshra/zzverif/vh"
	"pgregory.net/rapid"
)

type ConcCase struct {
	Values     []ValueCase
	Texts      []TextCase
	Goroutines int
	Rounds     int
}

func execConc(c ConcCase) (vh.Outcome, error) {
	out := vh.Outcome{Classes: []string{fmt.Sprintf("goroutines=%d", c.Goroutines)}}
	ok, bad := 0, 0
	for _, v := range c.Values {
		if v.Version == 1 && consistent(v.FF, v.HW, v.Headless, v.Nonce, v.Touch) {
			ok++
		} else {
			bad++
		}
	}
	out.NonTrivial = ok > 0 && bad > 0 && c.Goroutines >= 2
	// sequential first: an input the oracle rejects on its own is TestC05Value's / TestC05Text's subject
	for _, v := range c.Values {
		if _, err := execValue(v); err != nil {
			return out, nil
		}
	}
	for _, tc := range c.Texts {
		if _, err := execText(tc); err != nil {
			return out, nil
		}
	}
	errs := make([]error, c.Goroutines)
	var wg sync.WaitGroup
	start := make(chan struct{})
	for g := 0; g < c.Goroutines; g++ {
		g := g
		wg.Add(1)
		go func() {
			defer wg.Done()
			<-start
			for r := 0; r < c.Rounds && errs[g] == nil; r++ {
				for i := range c.Values {
					v := c.Values[(i+g)%len(c.Values)]
					var err error
					if perr := vh.Catch(func() { _, err = execValue(v) }); perr != nil {
						err = vh.Errf("crash: %v", perr)
					}
					if err != nil {
						errs[g] = vh.Errf("with %d goroutines using the codec at once (the same input is judged correctly on its own): %v", c.Goroutines, err)
						return
					}
				}
				for i := range c.Texts {
					tc := c.Texts[(i+g)%len(c.Texts)]
					var err error
					if perr := vh.Catch(func() { _, err = execText(tc) }); perr != nil {
						err = vh.Errf("crash: %v", perr)
					}
					if err != nil {
						errs[g] = vh.Errf("with %d goroutines using the codec at once (the same text is judged correctly on its own): %v", c.Goroutines, err)
						return
					}
				}
			}
		}()
	}
	close(start)
	wg.Wait()
	for _, e := range errs {
		if e != nil {
			return out, e
		}
	}
	return out, nil
}

func TestC05Concurrent(t *testing.T) {
	vh.Run(t, vh.Spec[ConcCase]{Property: "C05", Name: "TestC05Concurrent",
		Rule: "4..24 KeyID values (TestC05Value's generator: acceptable and unacceptable ones mixed) and 0..8 texts (TestC05Text's generator), encoded / decoded 20..200 times each by 2..16 goroutines at the same moment, every goroutine starting at another input. Oracle: the value and text oracles of the sequential checks, unchanged, for every call (inputs those oracles reject when used alone are left to the sequential checks). Non-trivial: >= 2 goroutines over a mix of acceptable and unacceptable values.",
		Gen: func(t *rapid.T) ConcCase {
			c := ConcCase{Goroutines: rapid.SampledFrom([]int{2, 4, 8, 16}).Draw(t, "goroutines"), Rounds: rapid.SampledFrom([]int{20, 50, 200}).Draw(t, "rounds")}
			n := rapid.IntRange(4, 24).Draw(t, "nvalues")
			for i := 0; i < n; i++ {
				var v ValueCase
				if i%2 == 0 {
					v = genConsistentValue(t)
				} else {
					v = genValue(t)
				}
				if len(v.TransID)+len(v.ReqUser)+len(v.ReqHost)+len(v.ReqIP) > 2000 {
					v.TransID, v.ReqUser, v.ReqHost, v.ReqIP = "t", "u", "h", "1.2.3.4" // keep the repeated calls cheap
				}
				c.Values = append(c.Values, v)
			}
			nt := rapid.IntRange(0, 8).Draw(t, "ntexts")
			for i := 0; i < nt; i++ {
				tc := genText(t)
				c.Texts = append(c.Texts, tc)
			}
			return c
		}, Exec: execConc})
}
