// C20 — waiting on a message code wakes on the next request with that code, and only then.
package c20

import (
	"fmt"
	"net"
	"reflect"
	"sync"
	"testing"
	"time"
	"unsafe"

	"github.com/theparanoids/ysshra/agent/yubiagent"
	"github.com/theparanoids/ysshra/zzverif/vh"
	"golang.org/x/crypto/ssh"
	"golang.org/x/crypto/ssh/agent"
	"pgregory.net/rapid"
)

type Step struct {
	// Kind: waitDirect | waitClient | request | ownerClose (the owner calls Close; only acted on while the agent is locked, when it is refused)
	Kind string
	Code int
}

type Case struct {
	Steps []Step
	// Prunable: before every request step an expired certificate is put into the underlying agent out
	// of band, so that list / sign requests make the shim purge something on its own
	Prunable bool
}

const tableSize = 40

// waiterCounts reads, for every message code with a condition variable, the number of goroutines
// registered on it (sync.Cond notify list: wait - notify). The only non-API observation of the harness.
func waiterCounts(srv yubiagent.YubiAgent) (counts [tableSize]int, ok bool) {
	defer func() {
		if recover() != nil {
			ok = false
		}
	}()
	v := reflect.ValueOf(srv)
	for v.Kind() == reflect.Interface || v.Kind() == reflect.Ptr {
		v = v.Elem()
	}
	shim := v.FieldByName("ShimAgent")
	for shim.Kind() == reflect.Interface || shim.Kind() == reflect.Ptr {
		shim = shim.Elem()
	}
	conds := shim.FieldByName("conds")
	if !conds.IsValid() || conds.Len() != tableSize {
		return counts, false
	}
	for i := 0; i < conds.Len(); i++ {
		if conds.Index(i).Kind() == reflect.Ptr && conds.Index(i).IsNil() {
			continue // no condition variable (yet) for this code: nobody is registered on it
		}
		c := conds.Index(i).Elem() // sync.Cond
		nl := c.FieldByName("notify")
		w := nl.FieldByName("wait")
		n := nl.FieldByName("notify")
		wv := *(*uint32)(unsafe.Pointer(w.UnsafeAddr()))
		nv := *(*uint32)(unsafe.Pointer(n.UnsafeAddr()))
		counts[i] = int(wv - nv)
	}
	return counts, true
}

var certBlob []byte

var expCert *ssh.Certificate

func expiredCert() *ssh.Certificate {
	if expCert == nil {
		now := uint64(time.Now().Unix())
		expCert = vh.MakeSSHCert(vh.SSHCertSpec{Key: "p256b", KeyID: "expired", ValidAfter: now - 7200, ValidBefore: now - 3600})
	}
	return expCert
}

func reqFor(code int) []byte {
	switch code {
	case 11, 1, 19, 32:
		return []byte{byte(code)}
	case 13:
		return []byte{13, 0, 0, 0, 0, 0, 0, 0, 0, 0, 0, 0, 0}
	case 17, 25, 18:
		return []byte{byte(code), 0, 0, 0, 0}
	case 22, 23:
		return []byte{byte(code), 0, 0, 0, 1, 'x'}
	case 31:
		if certBlob == nil {
			a := vh.KeyIDAttrs{Prins: []string{"u"}, TransID: "t", ReqUser: "u", ReqIP: "1.1.1.1", ReqHost: "h", HW: true, Touch: 3, Version: 1}
			certBlob = vh.MakeSSHCert(vh.SSHCertSpec{Key: "p256b", KeyID: a.Text(), ValidBefore: ssh.CertTimeInfinity}).Marshal()
		}
		return append([]byte{31}, certBlob...)
	case 33, 34:
		return []byte{byte(code), '9', 'a'}
	case 35:
		return []byte{35, 200}
	}
	return []byte{byte(code), 1, 2, 3}
}

type waiter struct {
	id     int
	code   int
	done   chan error
	client bool
}

type conn struct {
	cl   yubiagent.YubiAgent
	c1   net.Conn
	done chan error
}

func dial(srv yubiagent.YubiAgent) (*conn, error) {
	c1, c2, err := vh.SocketPair()
	if err != nil {
		return nil, err
	}
	cn := &conn{c1: c1, done: make(chan error, 1)}
	go func() {
		var serr error
		if perr := vh.Catch(func() { serr = yubiagent.ServeAgent(srv, c2) }); perr != nil {
			serr = fmt.Errorf("SERVER-CRASH: %v", perr)
		}
		c2.Close()
		cn.done <- serr
	}()
	cn.cl, err = yubiagent.NewClientFromConn(c1)
	return cn, err
}

const watchdog = 15 * time.Second

func exec(c Case) (vh.Outcome, error) {
	out := vh.Outcome{}
	p, err := vh.NewProxy()
	if err != nil {
		return out, nil
	}
	defer p.Close()
	_ = p.Ring().Add(agent.AddedKey{PrivateKey: vh.Key("ed25519c"), Comment: "k"})
	srv, err := yubiagent.NewServer(p.Path, true)
	if err != nil {
		return out, vh.Errf("NewServer: %v", err)
	}
	if _, ok := waiterCounts(srv); !ok {
		// the shape of the condition-variable table changed: this observation is unavailable here;
		// TestC20Blackbox judges the same statement without it
		out.Classes = append(out.Classes, "waiter-observation-unavailable(not judged)")
		return out, nil
	}
	reqConn, err := dial(srv)
	if err != nil {
		return out, nil
	}
	var conns []*conn
	conns = append(conns, reqConn)
	var mu sync.Mutex
	active := map[int][]*waiter{} // code -> registered waiters
	var all []*waiter
	codesWaited := map[int]bool{}
	nonMatchingBeforeMatching := false

	var pending *waiter // the waiter whose registration is being awaited
	waitCount := func(code, want int) error {
		deadline := time.Now().Add(watchdog)
		for {
			cs, _ := waiterCounts(srv)
			if cs[code] == want {
				return nil
			}
			if pending != nil {
				select {
				case werr := <-pending.done:
					return fmt.Errorf("the wait on code %d returned (%v) although no request with that code was received since it started", code, werr)
				default:
				}
			}
			if time.Now().After(deadline) {
				return fmt.Errorf("waiter count of code %d is %d, expected %d", code, cs[code], want)
			}
			time.Sleep(200 * time.Microsecond)
		}
	}
	// release applies the effect of a request with first byte code to the model and checks it.
	release := func(where string, code int, before [tableSize]int) error {
		after, _ := waiterCounts(srv)
		for k := 0; k < tableSize; k++ {
			want := before[k]
			if k == code {
				want = 0
			}
			if after[k] != want {
				if k == code {
					return vh.Errf("%s: %d of %d waiters on code %d are still registered after a request with that code", where, after[k], before[k], code)
				}
				if code >= 1000 {
					return vh.Errf("%s: the waiters of code %d changed from %d to %d", where, k, before[k], after[k])
				}
				return vh.Errf("%s: a request with code %d changed the waiters of code %d from %d to %d", where, code, k, before[k], after[k])
			}
		}
		if code < tableSize {
			mu.Lock()
			rel := active[code]
			delete(active, code)
			mu.Unlock()
			for _, w := range rel {
				select {
				case werr := <-w.done:
					if werr != nil {
						return vh.Errf("%s: waiter %d on code %d returned an error after release: %v", where, w.id, code, werr)
					}
				case <-time.After(watchdog):
					return vh.Errf("%s: waiter %d on code %d was released (no longer registered) but did not return within %s: lost wake-up", where, w.id, code, watchdog)
				}
			}
		}
		// everybody else must still be blocked
		mu.Lock()
		defer mu.Unlock()
		for k, ws := range active {
			for _, w := range ws {
				select {
				case werr := <-w.done:
					if code >= 1000 {
						return vh.Errf("%s: waiter %d on code %d returned (%v)", where, w.id, k, werr)
					}
					return vh.Errf("%s: waiter %d on code %d returned (%v) although only a request with code %d was received", where, w.id, k, werr, code)
				default:
				}
			}
		}
		return nil
	}

	lockedNow, closeRefused := false, false
	for i, st := range c.Steps {
		where := fmt.Sprintf("step %d (%s %d)", i, st.Kind, st.Code)
		before, _ := waiterCounts(srv)
		switch st.Kind {
		case "waitDirect", "waitClient":
			w := &waiter{id: len(all), code: st.Code, done: make(chan error, 1), client: st.Kind == "waitClient"}
			all = append(all, w)
			if st.Kind == "waitDirect" {
				go func() {
					var werr error
					if perr := vh.Catch(func() { werr = srv.Wait(byte(st.Code)) }); perr != nil {
						werr = fmt.Errorf("CRASH: %v", perr)
					}
					w.done <- werr
				}()
			} else {
				cn, derr := dial(srv)
				if derr != nil {
					return out, nil
				}
				conns = append(conns, cn)
				go func() { w.done <- cn.cl.Wait(byte(st.Code)) }()
			}
			if st.Code >= tableSize {
				// unsupported codes return immediately
				select {
				case werr := <-w.done:
					if werr != nil {
						return out, vh.Errf("%s: waiting on an unsupported code failed: %v", where, werr)
					}
				case <-time.After(watchdog):
					return out, vh.Errf("%s: waiting on an unsupported code blocks", where)
				}
				if st.Kind == "waitClient" {
					// the wait request itself is a request with code 35
					if rerr := release(where, 35, before); rerr != nil {
						return out, rerr
					}
				}
				continue
			}
			codesWaited[st.Code] = true
			pending = w
			if st.Kind == "waitClient" {
				// its arrival releases the waiters on 35 first; then it registers on its own code
				want := before[st.Code] + 1
				if st.Code == 35 {
					want = 1
					// the count of code 35 passes through 0 between the release of the old waiters and the
					// registration of this one: first see the old waiters return (that is the broadcast),
					// only then look for the new registration
					mu.Lock()
					old := active[35]
					delete(active, 35)
					mu.Unlock()
					for _, r := range old {
						select {
						case werr := <-r.done:
							if werr != nil {
								return out, vh.Errf("%s: waiter %d on code 35 returned an error: %v", where, r.id, werr)
							}
						case <-time.After(watchdog):
							return out, vh.Errf("%s: waiter %d on code 35 was not woken by the arriving wait request: lost wake-up", where, r.id)
						}
					}
				}
				if werr := waitCount(st.Code, want); werr != nil {
					return out, vh.Errf("%s: the waiting client never registered: %v", where, werr)
				}
				b2 := before
				if st.Code != 35 {
					b2[st.Code]++
				}
				// model: release 35 (among the waiters registered before), then add w
				after, _ := waiterCounts(srv)
				for k := 0; k < tableSize; k++ {
					want := before[k]
					if k == 35 {
						want = 0
					}
					if k == st.Code {
						want++
					}
					if after[k] != want {
						return out, vh.Errf("%s: waiters of code %d went from %d to %d", where, k, before[k], after[k])
					}
				}
				mu.Lock()
				rel := active[35]
				delete(active, 35)
				active[st.Code] = append(active[st.Code], w)
				mu.Unlock()
				for _, r := range rel {
					select {
					case werr := <-r.done:
						if werr != nil {
							return out, vh.Errf("%s: waiter %d on code 35 returned an error: %v", where, r.id, werr)
						}
					case <-time.After(watchdog):
						return out, vh.Errf("%s: waiter %d on code 35 was not woken by the arriving wait request: lost wake-up", where, r.id)
					}
				}
				_ = b2
			} else {
				if werr := waitCount(st.Code, before[st.Code]+1); werr != nil {
					return out, vh.Errf("%s: the waiter never registered: %v", where, werr)
				}
				mu.Lock()
				active[st.Code] = append(active[st.Code], w)
				mu.Unlock()
			}
		case "ownerClose":
			// the owner of the agent calls Close while the agent is locked: the call is refused, the agent
			// stays in service, no request was received - nobody may be released
			if !lockedNow {
				continue
			}
			var cerr error
			if perr := vh.Catch(func() { cerr = srv.Close() }); perr != nil {
				return out, vh.Errf("%s: Close crashed: %v", where, perr)
			}
			if cerr == nil {
				return out, nil // the agent is gone (whether a locked agent may be closed is C08's subject): nothing more to observe
			}
			closeRefused = true
			time.Sleep(50 * time.Millisecond)
			if e := release(where+" (the owner's Close call, refused with \""+cerr.Error()+"\"; no request was received)", 1000, before); e != nil {
				return out, e
			}
		case "request":
			pending = nil
			if c.Prunable {
				_ = p.Ring().Add(agent.AddedKey{PrivateKey: vh.Key("p256b"), Certificate: expiredCert(), Comment: "expired"})
			}
			mu.Lock()
			if len(active) > 0 && len(active[st.Code]) == 0 {
				nonMatchingBeforeMatching = true
			}
			mu.Unlock()
			var rerr error
			respCh := make(chan struct{})
			go func() {
				_, rerr = reqConn.cl.Forward(reqFor(st.Code))
				close(respCh)
			}()
			select {
			case <-respCh:
			case <-time.After(watchdog):
				return out, vh.Errf("%s: the request got no response within %s", where, watchdog)
			}
			if rerr != nil {
				select {
				case serr := <-reqConn.done:
					return out, vh.Errf("%s: the server stopped serving the connection: %v", where, serr)
				default:
				}
				return out, vh.Errf("%s: request failed: %v", where, rerr)
			}
			if e := release(where, st.Code, before); e != nil {
				return out, e
			}
			// the lock state of the agent, as the well-formed lock / unlock requests (one passphrase) leave it
			if st.Code == 22 && len(reqFor(22)) > 1 {
				lockedNow = true
			}
			if st.Code == 23 {
				lockedNow = false
			}
		}
	}
	if closeRefused {
		out.Classes = append(out.Classes, "owner-close-refused-while-locked")
	}
	// clean up: wake everybody with a matching request, everybody must return
	mu.Lock()
	var remaining []int
	for k := range active {
		remaining = append(remaining, k)
	}
	mu.Unlock()
	for _, k := range remaining {
		before, _ := waiterCounts(srv)
		if _, rerr := reqConn.cl.Forward(reqFor(k)); rerr != nil {
			return out, vh.Errf("cleanup request %d failed: %v", k, rerr)
		}
		if e := release(fmt.Sprintf("cleanup (request %d)", k), k, before); e != nil {
			return out, e
		}
	}
	for _, cn := range conns {
		cn.c1.Close()
	}
	for _, cn := range conns {
		select {
		case serr := <-cn.done:
			if serr != nil && len(serr.Error()) > 12 && serr.Error()[:12] == "SERVER-CRASH" {
				return out, vh.Errf("%v", serr)
			}
		case <-time.After(watchdog):
		}
	}
	srv.Close()
	nw := 0
	for _, w := range all {
		if w.code < tableSize {
			nw++
		}
	}
	lockedWait, locked := false, false
	for _, st := range c.Steps {
		if st.Kind == "request" && (st.Code == 22 || st.Code == 23) {
			locked = st.Code == 22
		} else if st.Kind != "request" && locked && st.Code < tableSize {
			lockedWait = true
		}
	}
	if lockedWait {
		out.Classes = append(out.Classes, "wait-started-while-agent-locked")
	}
	if c.Prunable {
		out.Classes = append(out.Classes, "shim-purges-during-requests")
	}
	out.NonTrivial = nw >= 2 && nonMatchingBeforeMatching
	if len(codesWaited) >= 2 {
		out.Classes = append(out.Classes, "waiters-on-2+-codes")
	}
	out.Classes = append(out.Classes, fmt.Sprintf("waiters=%d", min(nw, 8)), fmt.Sprintf("codes=%d", min(len(codesWaited), 4)))
	return out, nil
}

func gen(t *rapid.T) Case {
	c := Case{}
	codes := rapid.SliceOfN(rapid.OneOf(rapid.SampledFrom([]int{0, 11, 13, 19, 31, 32, 35, 35, 39, 39, 40, 41, 255}), rapid.IntRange(0, 39), rapid.IntRange(0, 39), rapid.IntRange(0, 255)), 2, 4).Draw(t, "codes")
	n := rapid.IntRange(1, 14).Draw(t, "nsteps")
	waiters := 0
	c.Prunable = rapid.IntRange(0, 2).Draw(t, "prunable") == 1
	if c.Prunable {
		// the codes of the requests the shim issues to the underlying agent while purging, and of the
		// requests that trigger a purge
		codes = append(codes, 18, 11)
	}
	if rapid.IntRange(0, 3).Draw(t, "lockFirst") == 0 {
		// the agent is locked (well-formed lock request) before anybody waits
		c.Steps = append(c.Steps, Step{Kind: "request", Code: 22})
	}
	for i := 0; i < n; i++ {
		l := fmt.Sprintf("s%d", i)
		k := rapid.SampledFrom([]string{"waitDirect", "waitDirect", "waitClient", "request", "request", "request"}).Draw(t, l+"K")
		code := rapid.SampledFrom(codes).Draw(t, l+"C")
		if k != "request" {
			if waiters >= 8 {
				k = "request"
			} else {
				waiters++
			}
		}
		if k == "request" && rapid.IntRange(0, 3).Draw(t, l+"Other") == 0 {
			code = rapid.OneOf(rapid.SampledFrom([]int{1, 11, 12, 18, 22, 22, 23, 33, 34, 36, 38, 40, 100}), rapid.IntRange(0, 255)).Draw(t, l+"OC")
		}
		c.Steps = append(c.Steps, Step{Kind: k, Code: code})
		if len(c.Steps) > 0 && c.Steps[0].Kind == "request" && c.Steps[0].Code == 22 && waiters > 0 && rapid.IntRange(0, 5).Draw(t, l+"OwnerClose") == 3 {
			c.Steps = append(c.Steps, Step{Kind: "ownerClose"})
		}
	}
	return c
}

const rule = "harness-owned schedules over one real NewServer(remote=true): 1..14 steps {start a waiter on code c directly, start a waiter through its own client connection (which is itself a request with code 35), send a request whose first byte is c' on another connection and read its response}, up to 8 waiters on 1..4 codes drawn from 0..255 with weight on 0, 11, 13, 19, 31, 32, 35, 39, 40, 41, 255, requests also with unrelated codes, among them well-formed lock (22) and unlock (23) requests, and a quarter of the schedules lock the agent first (class wait-started-while-agent-locked): whether the agent is locked is not part of when a waiter is released; in locked schedules the owner of the agent may call Close in between, which a locked agent refuses (class owner-close-refused-while-locked): a refused call is no request and releases nobody. In a third of the schedules an expired certificate is put into the underlying agent before every request, so that list requests make the shim purge (and talk to the underlying agent) on its own: what the shim does by itself releases nobody either. The executor advances only on observed states: a waiter counts as registered when the waiter count of its code's condition variable (read with reflect) reached the expected value; a request is done when its response was read. Oracle after every request with code c': registered waiters of c' = 0 and exactly those waiters return (a released waiter that does not return within 15 s is a lost wake-up), waiter counts of every other code unchanged and none of their waiters returned; codes >= 40 return immediately; all remaining waiters are woken by matching requests at the end; the race detector is an additional oracle. Non-trivial: >= 2 blocking waiters and a non-matching request while somebody waits (class waiters-on-2+-codes counts the schedules with several codes)."

func TestC20Wait(t *testing.T) {
	vh.Run(t, vh.Spec[Case]{Property: "C20", Name: "TestC20Wait", Rule: rule, Gen: gen, Exec: exec, Journal: true})
}

// TestC20AllCodes: for every code 0..255 one waiter (two for codes < 40), a non-matching request, the matching request.
func TestC20AllCodes(t *testing.T) {
	var cases []Case
	for code := 0; code < 256; code++ {
		other := (code + 7) % 40
		if other == 22 || other == code {
			other = (other + 1) % 40
		}
		cases = append(cases, Case{Steps: []Step{{"waitDirect", code}, {"waitClient", code}, {"request", other}, {"request", code}}})
	}
	vh.Enumerate(t, vh.Spec[Case]{Property: "C20", Name: "TestC20AllCodes", Exhaustive: true, Journal: true,
		Rule: "for every message code 0..255: a direct waiter and a client waiter on it, a request with another code (must release nobody), then a request with the code (must release both; codes >= 40 never block); the non-matching request is never a lock request",
		Exec: exec}, cases)
}
