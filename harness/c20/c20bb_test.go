package c20

// TestC20Blackbox: the same statement checked without looking inside the server (no reflection on the
// condition-variable table): waiters are given time to register, a non-matching request must release
// nobody, a matching one everybody; a waiter that only returns after the matching request was
// repeated may have registered late and is not judged, one that never returns is a lost wake-up.

import (
	"fmt"
	"os"
	"path/filepath"
	"sync"
	"testing"
	"time"

	"github.com/theparanoids/ysshra/agent/yubiagent"
	"github.com/theparanoids/ysshra/zzverif/vh"
	"golang.org/x/crypto/ssh/agent"
	"pgregory.net/rapid"
)

type BBCase struct {
	Code    int
	Other   int
	Waiters []string // direct | client
	Rounds  int      // the whole exchange is repeated on the same server
	// Warmup: client waiters first use their connection for other extended calls (slot listing, which a
	// remote-mode server refuses, and add-hardware-certificate)
	Warmup bool
	// HoldMS: the waiters stay blocked this long before any request is sent
	HoldMS int
	// Local: the server runs in local mode (a PIV tool on PATH, here a stand-in script); the waiting rules
	// are the same in both modes
	Local bool `json:",omitempty"`
	// DropOne: the first client waiter's connection is closed while everybody waits
	DropOne bool `json:",omitempty"`
}

var (
	toolOnce sync.Once
)

// standInTool puts a minimal yubico-piv-tool on PATH so that NewServer(..., remote=false) starts.
func standInTool() {
	toolOnce.Do(func() {
		d, err := os.MkdirTemp("", "vpiv20")
		if err != nil {
			panic(err)
		}
		script := "#!/bin/sh\nprintf 'Version: 5.4.3\\nSlot 9a:\\n'\nexit 0\n"
		if err := os.WriteFile(filepath.Join(d, "yubico-piv-tool"), []byte(script), 0o755); err != nil {
			panic(err)
		}
		os.Setenv("PATH", d+":"+os.Getenv("PATH"))
	})
}

func execBB(c BBCase) (vh.Outcome, error) {
	out := vh.Outcome{NonTrivial: len(c.Waiters) >= 2, Classes: []string{fmt.Sprintf("waiters=%d", len(c.Waiters))}}
	p, err := vh.NewProxy()
	if err != nil {
		return out, nil
	}
	defer p.Close()
	_ = p.Ring().Add(agent.AddedKey{PrivateKey: vh.Key("ed25519c"), Comment: "k"})
	if c.Local {
		standInTool()
		out.Classes = append(out.Classes, "local-mode")
	}
	srv, err := yubiagent.NewServer(p.Path, !c.Local)
	if err != nil {
		return out, vh.Errf("NewServer(remote=%v): %v", !c.Local, err)
	}
	reqConn, err := dial(srv)
	if err != nil {
		return out, nil
	}
	conns := []*conn{reqConn}
	defer func() {
		for _, cn := range conns {
			cn.c1.Close()
		}
	}()
	send := func(code int) error {
		ch := make(chan error, 1)
		go func() { _, e := reqConn.cl.Forward(reqFor(code)); ch <- e }()
		select {
		case e := <-ch:
			return e
		case <-time.After(watchdog):
			return fmt.Errorf("no response within %s", watchdog)
		}
	}
	for round := 0; round < c.Rounds; round++ {
		var dones []chan error
		// connections of the client waiters first (their warm-up calls are requests themselves and
		// must be over before anybody waits)
		clientConns := map[int]*conn{}
		for i, kind := range c.Waiters {
			if kind != "client" {
				continue
			}
			cn, derr := dial(srv)
			if derr != nil {
				return out, nil
			}
			conns = append(conns, cn)
			clientConns[i] = cn
			if c.Warmup {
				_, _ = cn.cl.ListSlots()
				_ = cn.cl.AddHardCert(expiredCert(), "w")
				_, _ = cn.cl.ReadSlot("9a")
			}
		}
		for i, kind := range c.Waiters {
			d := make(chan error, 1)
			dones = append(dones, d)
			if kind == "client" {
				cn := clientConns[i]
				go func() { d <- cn.cl.Wait(byte(c.Code)) }()
			} else {
				go func() {
					var werr error
					if perr := vh.Catch(func() { werr = srv.Wait(byte(c.Code)) }); perr != nil {
						werr = fmt.Errorf("CRASH: %v", perr)
					}
					d <- werr
				}()
			}
			_ = i
		}
		time.Sleep(150*time.Millisecond + time.Duration(c.HoldMS)*time.Millisecond) // let them register (and stay blocked for a while)
		for i, d := range dones {
			select {
			case werr := <-d:
				return out, vh.Errf("round %d: waiter %d (%s) on code %d returned (%v) after %d ms although no request at all was received meanwhile", round, i, c.Waiters[i], c.Code, werr, 150+c.HoldMS)
			default:
			}
		}
		dropped := -1
		if c.DropOne {
			// one waiting client goes away (its connection ends) while it waits: no request was received,
			// the others keep waiting
			for i, kind := range c.Waiters {
				if kind == "client" {
					dropped = i
					break
				}
			}
			if dropped >= 0 {
				clientConns[dropped].c1.Close()
				time.Sleep(400 * time.Millisecond)
				for i, d := range dones {
					if i == dropped {
						continue
					}
					select {
					case werr := <-d:
						return out, vh.Errf("round %d: the connection of waiting client %d ended; waiter %d (%s) on the same code %d returned (%v) although no request was received", round, dropped, i, c.Waiters[i], c.Code, werr)
					default:
					}
				}
				out.Classes = append(out.Classes, "a-waiting-client-went-away")
			}
		}
		if e := send(c.Other); e != nil {
			return out, vh.Errf("round %d: request %d failed: %v", round, c.Other, e)
		}
		time.Sleep(50 * time.Millisecond)
		returned := make([]bool, len(dones))
		if dropped >= 0 {
			returned[dropped] = true // gone: its call ends with a connection error, whenever
		}
		for i, d := range dones {
			if i == dropped {
				continue
			}
			select {
			case werr := <-d:
				returned[i] = true
				return out, vh.Errf("round %d: waiter %d (%s) on code %d returned (%v) although only requests with codes %d (and the waiters' own wait requests, code 35) were received", round, i, c.Waiters[i], c.Code, werr, c.Other)
			default:
			}
		}
		late := false
		for attempt := 0; attempt < 4; attempt++ {
			if e := send(c.Code); e != nil {
				return out, vh.Errf("round %d: request %d failed: %v", round, c.Code, e)
			}
			deadline := time.After(2 * time.Second)
			pending := 0
			for i, d := range dones {
				if returned[i] {
					continue
				}
				select {
				case werr := <-d:
					returned[i] = true
					if werr != nil {
						return out, vh.Errf("round %d: waiter %d (%s) on code %d returned an error: %v", round, i, c.Waiters[i], c.Code, werr)
					}
					if attempt > 0 {
						late = true
					}
				case <-deadline:
					pending++
				}
			}
			if pending == 0 {
				break
			}
			if attempt == 3 {
				return out, vh.Errf("round %d: %d of %d waiters on code %d did not return although four requests with that code were served after they had 150 ms to register: lost wake-up", round, pending, len(dones), c.Code)
			}
			time.Sleep(300 * time.Millisecond)
		}
		if late {
			out.Classes = append(out.Classes, "late-registration-not-judged")
		}
	}
	return out, nil
}

func TestC20Blackbox(t *testing.T) {
	vh.Run(t, vh.Spec[BBCase]{Property: "C20", Name: "TestC20Blackbox", Journal: true,
		Rule: "black-box rounds on one real NewServer (remote mode, or - a third of the cases - local mode with a stand-in PIV tool on PATH), nothing read from inside the server: 1..20 waiters (direct or through their own client connection; beyond 4 mostly through client connections, each an outstanding request of the server) on one code 0..39 (not 35) get 150 ms to register (client waiters optionally after other extended calls on their connection; in a sixth of the cases everybody then stays blocked for 1.2 / 3.5 / 5.5 s without any request, during which nobody may return); in a third of the cases the first waiting client's connection is then closed, which must release nobody else; a request with another code (not 35) must release none of them; a request with their code must release all of them - a waiter that returns only after the request was repeated (up to 4 times) may have registered late and is not judged, one that never returns is a lost wake-up; 1..3 such rounds on the same server (state left by an earlier round matters). Non-trivial: >= 2 waiters.",
		Gen: func(t *rapid.T) BBCase {
			c := BBCase{Code: rapid.SampledFrom([]int{0, 11, 13, 18, 19, 31, 32, 39, 1, 17}).Draw(t, "code"), Rounds: rapid.IntRange(1, 3).Draw(t, "rounds")}
			c.Other = rapid.SampledFrom([]int{11, 19, 1, 32, 200, 13}).Draw(t, "other")
			c.Warmup = rapid.Bool().Draw(t, "warmup")
			c.Local = rapid.IntRange(0, 2).Draw(t, "local") == 1
			c.DropOne = rapid.IntRange(0, 2).Draw(t, "dropOne") == 1
			if rapid.IntRange(0, 5).Draw(t, "hold") == 2 {
				c.HoldMS, c.Rounds = rapid.SampledFrom([]int{1200, 3500, 5500}).Draw(t, "holdMS"), 1
			}
			if c.Other == c.Code {
				c.Other = 12
			}
			n := rapid.SampledFrom([]int{1, 2, 2, 3, 3, 4, 4, 7, 8, 9, 12, 20}).Draw(t, "n")
			kinds := []string{"direct", "direct", "client"}
			if n > 4 {
				// many waiters: mostly through client connections (each one an outstanding request of the server)
				kinds = []string{"client", "client", "client", "direct"}
			}
			for i := 0; i < n; i++ {
				c.Waiters = append(c.Waiters, rapid.SampledFrom(kinds).Draw(t, fmt.Sprintf("w%d", i)))
			}
			return c
		}, Exec: execBB})
}
