package c20

// TestC20WarmWait: a client that used its connection for other calls first and then waits for seconds. The wait
// ends with the next request with its code and only then - not because time passed since the earlier calls.

import (
	"fmt"
	"strings"
	"sync"
	"testing"
	"time"

	"github.com/theparanoids/ysshra/agent/yubiagent"
	"github.com/theparanoids/ysshra/zzverif/vh"
	"golang.org/x/crypto/ssh/agent"
)

type WarmCase struct {
	HoldMS    int
	Scenarios []string // "<earlier call>/<awaited code>"
}

func warmScenario(name string, hold time.Duration) error {
	parts := strings.Split(name, "/")
	var code int
	if len(parts) != 2 {
		return nil
	}
	fmt.Sscanf(parts[1], "%d", &code)
	p, err := vh.NewProxy()
	if err != nil {
		return nil
	}
	defer p.Close()
	_ = p.Ring().Add(agent.AddedKey{PrivateKey: vh.Key("ed25519c"), Comment: "k"})
	srv, err := yubiagent.NewServer(p.Path, true)
	if err != nil {
		return vh.Errf("%s: NewServer: %v", name, err)
	}
	defer func() { _ = vh.Catch(func() { srv.Close() }) }()
	w, derr := dial(srv)
	if derr != nil {
		return nil
	}
	defer w.c1.Close()
	r, derr := dial(srv)
	if derr != nil {
		return nil
	}
	defer r.c1.Close()
	// the earlier call on the waiter's connection; its own result does not matter here
	_ = vh.Catch(func() {
		switch parts[0] {
		case "addhard":
			_ = w.cl.AddHardCert(expiredCert(), "w")
		case "listslots":
			_, _ = w.cl.ListSlots()
		case "readslot":
			_, _ = w.cl.ReadSlot("9a")
		case "attestslot":
			_, _ = w.cl.AttestSlot("9a")
		case "list":
			_, _ = w.cl.List()
		case "forward":
			_, _ = w.cl.Forward([]byte{200, 1})
		case "wait":
			go func() { time.Sleep(100 * time.Millisecond); _, _ = r.cl.Forward(reqFor(code)) }()
			_ = w.cl.Wait(byte(code))
		}
	})
	done := make(chan error, 1)
	start := time.Now()
	go func() {
		var werr error
		if perr := vh.Catch(func() { werr = w.cl.Wait(byte(code)) }); perr != nil {
			werr = fmt.Errorf("CRASH: %v", perr)
		}
		done <- werr
	}()
	select {
	case werr := <-done:
		return vh.Errf("%s: the wait for code %d returned after %s (%v) although no request with that code was received since it started (earlier call on its connection: %s)", name, code, time.Since(start).Round(time.Millisecond), werr, parts[0])
	case <-time.After(hold):
	}
	deadline := time.Now().Add(watchdog)
	for {
		if _, e := r.cl.Forward(reqFor(code)); e != nil {
			return vh.Errf("%s: a request with code %d on another connection failed: %v", name, code, e)
		}
		select {
		case werr := <-done:
			if werr != nil {
				return vh.Errf("%s: the wait (held %s) returned an error once its request arrived: %v", name, hold, werr)
			}
			return nil
		case <-time.After(50 * time.Millisecond):
			if time.Now().After(deadline) {
				return vh.Errf("%s: the wait was not released within %s of repeated requests with code %d", name, watchdog, code)
			}
		}
	}
}

func TestC20WarmWait(t *testing.T) {
	var sc []string
	for _, warm := range []string{"none", "addhard", "listslots", "readslot", "attestslot", "list", "forward", "wait"} {
		for _, code := range []int{11, 13, 32} {
			sc = append(sc, fmt.Sprintf("%s/%d", warm, code))
		}
	}
	cases := []WarmCase{{HoldMS: 4500, Scenarios: sc}}
	if vh.Thorough() {
		cases = append(cases, WarmCase{HoldMS: 12000, Scenarios: sc}, WarmCase{HoldMS: 33000, Scenarios: sc})
	}
	vh.Enumerate(t, vh.Spec[WarmCase]{Property: "C20", Name: "TestC20WarmWait", Exhaustive: true, Journal: true,
		Rule: "the production pairing NewServer over a shim agent; a client first makes one other call on its connection (none / add-hardware-certificate / slot listing / slot reading / slot attestation / list / raw forward / an earlier wait) and then waits for code 11 / 13 / 32; nothing with that code is sent for 4.5 s (thorough: also 12 s and 33 s), then requests with it arrive on another connection (24 scenarios side by side). Oracle: the wait is still blocked when the quiet period ends and returns nil once its request arrives",
		Exec: func(c WarmCase) (vh.Outcome, error) {
			out := vh.Outcome{NonTrivial: true}
			_ = expiredCert() // built once, before the scenarios share it
			errs := make([]error, len(c.Scenarios))
			var wg sync.WaitGroup
			for i, s := range c.Scenarios {
				i, s := i, s
				wg.Add(1)
				go func() { defer wg.Done(); errs[i] = warmScenario(s, time.Duration(c.HoldMS)*time.Millisecond) }()
			}
			wg.Wait()
			for _, e := range errs {
				if e != nil {
					return out, e
				}
			}
			return out, nil
		}}, cases)
}
