package c20

// TestC20Rewait: a client that waits again on the same connection. Every wait stands for itself: it is released
// by the next request with its code received AFTER it started - not by requests that arrived between this
// client's two waits, however many there were.

import (
	"fmt"
	"sync"
	"testing"
	"time"

	"github.com/theparanoids/ysshra/agent/yubiagent"
	"github.com/theparanoids/ysshra/zzverif/vh"
	"golang.org/x/crypto/ssh/agent"
)

type RewaitCase struct {
	Scenarios []string // "<code>/<requests between the two waits>/<waits in a row>"
}

func rewaitScenario(name string) error {
	var code, between, rounds int
	if n, _ := fmt.Sscanf(replaceSlashes(name), "%d %d %d", &code, &between, &rounds); n != 3 {
		return nil
	}
	p, err := vh.NewProxy()
	if err != nil {
		return nil
	}
	defer p.Close()
	_ = p.Ring().Add(agent.AddedKey{PrivateKey: vh.Key("ed25519c"), Comment: "k"})
	srv, err := yubiagent.NewServer(p.Path, true)
	if err != nil {
		return vh.Errf("%s: NewServer: %v", name, err)
	}
	defer func() { _ = vh.Catch(func() { srv.Close() }) }()
	w, derr := dial(srv)
	if derr != nil {
		return nil
	}
	defer w.c1.Close()
	r, derr := dial(srv)
	if derr != nil {
		return nil
	}
	defer r.c1.Close()
	request := func() error {
		_, e := r.cl.Forward(reqFor(code))
		return e
	}
	for round := 0; round < rounds; round++ {
		done := make(chan error, 1)
		go func() {
			var werr error
			if perr := vh.Catch(func() { werr = w.cl.Wait(byte(code)) }); perr != nil {
				werr = fmt.Errorf("CRASH: %v", perr)
			}
			done <- werr
		}()
		// it blocks although requests with its code were received before it started
		select {
		case werr := <-done:
			return vh.Errf("%s: wait %d on the same connection returned at once (%v): %d request(s) with code %d had been received BEFORE it started, none since", name, round+1, werr, map[bool]int{true: 0, false: between}[round == 0], code)
		case <-time.After(150 * time.Millisecond):
		}
		// requests with the code keep arriving until it is released
		deadline := time.Now().Add(watchdog)
		released := false
		for !released {
			if e := request(); e != nil {
				return vh.Errf("%s: a request with code %d failed: %v", name, code, e)
			}
			select {
			case werr := <-done:
				if werr != nil {
					return vh.Errf("%s: wait %d returned an error: %v", name, round+1, werr)
				}
				released = true
			case <-time.After(50 * time.Millisecond):
				if time.Now().After(deadline) {
					return vh.Errf("%s: wait %d was not released within %s of repeated requests with code %d", name, round+1, watchdog, code)
				}
			}
		}
		// requests that arrive while this client is not waiting
		for i := 0; i < between; i++ {
			if e := request(); e != nil {
				return vh.Errf("%s: a request with code %d failed: %v", name, code, e)
			}
		}
	}
	return nil
}

func TestC20Rewait(t *testing.T) {
	var sc []string
	for _, code := range []int{11, 13, 19, 32, 35} {
		for _, between := range []int{0, 1, 5} {
			sc = append(sc, fmt.Sprintf("%d/%d/3", code, between))
		}
	}
	vh.Enumerate(t, vh.Spec[RewaitCase]{Property: "C20", Name: "TestC20Rewait", Exhaustive: true, Journal: true,
		Rule: "the production pairing NewServer over a shim agent; one client connection waits three times in a row for code 11 / 13 / 19 / 32 / 35; each wait is released by requests sent on another connection, and 0 / 1 / 5 further requests with the code arrive between two of its waits (15 scenarios side by side). Oracle: every wait - the first and the later ones - is still blocked 150 ms after it started, whatever arrived before, and returns nil once requests with its code arrive after it",
		Exec: func(c RewaitCase) (vh.Outcome, error) {
			out := vh.Outcome{NonTrivial: true}
			errs := make([]error, len(c.Scenarios))
			var wg sync.WaitGroup
			for i, s := range c.Scenarios {
				i, s := i, s
				wg.Add(1)
				go func() { defer wg.Done(); errs[i] = rewaitScenario(s) }()
			}
			wg.Wait()
			for _, e := range errs {
				if e != nil {
					return out, e
				}
			}
			return out, nil
		}}, []RewaitCase{{Scenarios: sc}})
}
