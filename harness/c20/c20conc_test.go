package c20

// TestC20Concurrent: the matching request arrives in the middle of concurrent traffic with other codes
// on other connections (and other waiters registering and returning). Waiters that were registered
// before that traffic started are released by it: every one of them returns.

import (
	"fmt"
	"sync"
	"testing"
	"time"

	"github.com/theparanoids/ysshra/agent/yubiagent"
	"github.com/theparanoids/ysshra/zzverif/vh"
	"golang.org/x/crypto/ssh/agent"
	"pgregory.net/rapid"
)

type ConcCase struct {
	Code     int   // the awaited code
	Others   []int // codes of the concurrent traffic (none equal to Code, none 35)
	Waiters  int
	Senders  int // connections sending the other codes
	PerConn  int // requests per sender
	Rounds   int
	Churners int // goroutines that keep registering on yet another code and being released (waiters coming and going)
}

func execConc(c ConcCase) (vh.Outcome, error) {
	out := vh.Outcome{NonTrivial: c.Waiters >= 1 && c.Senders >= 2, Classes: []string{fmt.Sprintf("senders=%d", c.Senders)}}
	p, err := vh.NewProxy()
	if err != nil {
		return out, nil
	}
	defer p.Close()
	_ = p.Ring().Add(agent.AddedKey{PrivateKey: vh.Key("ed25519c"), Comment: "k"})
	srv, err := yubiagent.NewServer(p.Path, true)
	if err != nil {
		return out, vh.Errf("NewServer: %v", err)
	}
	defer func() { _ = vh.Catch(func() { srv.Close() }) }()
	var conns []*conn
	defer func() {
		for _, cn := range conns {
			cn.c1.Close()
		}
	}()
	open := func() (*conn, bool) {
		cn, derr := dial(srv)
		if derr != nil {
			return nil, false
		}
		conns = append(conns, cn)
		return cn, true
	}
	matcher, ok := open()
	if !ok {
		return out, nil
	}
	var senders []*conn
	for i := 0; i < c.Senders+c.Churners; i++ {
		cn, ok := open()
		if !ok {
			return out, nil
		}
		senders = append(senders, cn)
	}
	const churnCode = 39
	for round := 0; round < c.Rounds; round++ {
		// waiters of this round, registered before any traffic starts
		before, countsOK := waiterCounts(srv)
		var dones []chan error
		for i := 0; i < c.Waiters; i++ {
			d := make(chan error, 1)
			dones = append(dones, d)
			go func() {
				var werr error
				if perr := vh.Catch(func() { werr = srv.Wait(byte(c.Code)) }); perr != nil {
					werr = fmt.Errorf("CRASH: %v", perr)
				}
				d <- werr
			}()
		}
		if countsOK {
			deadline := time.Now().Add(watchdog)
			for {
				now, _ := waiterCounts(srv)
				if now[c.Code] >= before[c.Code]+c.Waiters {
					break
				}
				if time.Now().After(deadline) {
					return out, nil // the waiters never registered: nothing to judge
				}
				time.Sleep(time.Millisecond)
			}
		} else {
			time.Sleep(150 * time.Millisecond)
		}
		// concurrent traffic; the matching request goes out once the others are under way
		var wg sync.WaitGroup
		start := make(chan struct{})
		var failed error
		var fmu sync.Mutex
		for i := 0; i < c.Senders; i++ {
			cn, code := senders[i], c.Others[i%len(c.Others)]
			wg.Add(1)
			go func() {
				defer wg.Done()
				<-start
				for k := 0; k < c.PerConn; k++ {
					if _, e := cn.cl.Forward(reqFor(code)); e != nil {
						fmu.Lock()
						failed = e
						fmu.Unlock()
						return
					}
				}
			}()
		}
		stopChurn := make(chan struct{})
		var churnWG sync.WaitGroup
		for i := 0; i < c.Churners; i++ {
			cn := senders[c.Senders+i]
			churnWG.Add(1)
			go func() {
				defer churnWG.Done()
				<-start
				for {
					select {
					case <-stopChurn:
						return
					default:
					}
					d := make(chan struct{})
					go func() { _ = vh.Catch(func() { _ = srv.Wait(churnCode) }); close(d) }()
					time.Sleep(200 * time.Microsecond)
					_, _ = cn.cl.Forward(reqFor(churnCode))
					select {
					case <-d:
					case <-time.After(watchdog):
						return
					}
				}
			}()
		}
		close(start)
		time.Sleep(time.Duration(200+round*37%400) * time.Microsecond)
		if _, e := matcher.cl.Forward(reqFor(c.Code)); e != nil {
			return out, vh.Errf("round %d: the request with code %d failed: %v", round, c.Code, e)
		}
		wg.Wait()
		close(stopChurn)
		// release whatever churn waiter is left
		go func() {
			for i := 0; i < 3; i++ {
				_, _ = matcher.cl.Forward(reqFor(churnCode))
				time.Sleep(20 * time.Millisecond)
			}
		}()
		churnWG.Wait()
		if failed != nil {
			return out, nil // infrastructure: a sender's connection failed
		}
		for i, d := range dones {
			select {
			case werr := <-d:
				if werr != nil {
					return out, vh.Errf("round %d: waiter %d on code %d returned an error: %v", round, i, c.Code, werr)
				}
			case <-time.After(watchdog):
				return out, vh.Errf("round %d: %d waiter(s) were registered on code %d; a request with that code was received and answered while %d other connections were sending codes %v (%d requests each) and %d goroutine(s) kept waiting on / releasing code %d; waiter %d is still blocked %s later: lost wake-up", round, c.Waiters, c.Code, c.Senders, c.Others, c.PerConn, c.Churners, churnCode, i, watchdog)
			}
		}
	}
	return out, nil
}

func TestC20Concurrent(t *testing.T) {
	vh.Run(t, vh.Spec[ConcCase]{Property: "C20", Name: "TestC20Concurrent", Journal: true,
		Rule: "one real NewServer(remote=true); per round 1..4 direct waiters register on a code (registration observed), then 2..8 connections send 20..200 requests each with 1..3 other codes at the same time, 0..2 goroutines keep registering on and being released from yet another code, and in the middle of that one request with the awaited code is sent on its own connection; 3..30 rounds on the same server. Oracle: after the traffic every waiter of the round has returned without error (15 s watchdog); the race detector is an additional oracle. Non-trivial: >= 2 sending connections.",
		Gen: func(t *rapid.T) ConcCase {
			c := ConcCase{Code: rapid.SampledFrom([]int{0, 11, 13, 19, 32, 1, 17}).Draw(t, "code"), Waiters: rapid.IntRange(1, 4).Draw(t, "waiters"),
				Senders: rapid.SampledFrom([]int{2, 4, 8}).Draw(t, "senders"), PerConn: rapid.SampledFrom([]int{20, 60, 200}).Draw(t, "perConn"),
				Rounds: rapid.SampledFrom([]int{3, 10, 30}).Draw(t, "rounds"), Churners: rapid.IntRange(0, 2).Draw(t, "churners")}
			for _, o := range rapid.SliceOfNDistinct(rapid.SampledFrom([]int{11, 19, 1, 32, 200, 13, 18}), 1, 3, rapid.ID[int]).Draw(t, "others") {
				if o != c.Code {
					c.Others = append(c.Others, o)
				}
			}
			if len(c.Others) == 0 {
				c.Others = []int{12}
			}
			return c
		}, Exec: execConc})
}
