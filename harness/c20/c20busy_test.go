package c20

// TestC20BusyUpstream: the matching request is received while another connection has an operation
// outstanding at the underlying agent (which answers it only after seconds). Receipt releases the
// waiters: they return while that unrelated operation is still outstanding, not after it.

import (
	"fmt"
	"sync"
	"testing"
	"time"

	"github.com/theparanoids/ysshra/agent/yubiagent"
	"github.com/theparanoids/ysshra/zzverif/vh"
	"golang.org/x/crypto/ssh/agent"
)

type BusyCase struct {
	Scenarios []string // "<slow op>/<awaited code>/<direct|client>"
	LatencyMS int
}

func busyScenario(name string, latency time.Duration) error {
	var slowOp, kind string
	var code int
	if n, _ := fmt.Sscanf(replaceSlashes(name), "%s %d %s", &slowOp, &code, &kind); n != 3 {
		return nil
	}
	p, err := vh.NewProxy()
	if err != nil {
		return nil
	}
	defer p.Close()
	_ = p.Ring().Add(agent.AddedKey{PrivateKey: vh.Key("ed25519c"), Comment: "k"})
	slowCode := map[string]int{"forward": 201, "list": vh.CodeList}[slowOp]
	var armed, fired bool
	var mu sync.Mutex
	p.Latency = func(c int) time.Duration {
		mu.Lock()
		defer mu.Unlock()
		if armed && !fired && c == slowCode {
			fired = true
			return latency
		}
		return 0
	}
	srv, err := yubiagent.NewServer(p.Path, true)
	if err != nil {
		return vh.Errf("%s: NewServer: %v", name, err)
	}
	defer func() { _ = vh.Catch(func() { srv.Close() }) }()
	var conns []*conn
	defer func() {
		for _, cn := range conns {
			cn.c1.Close()
		}
	}()
	open := func() *conn {
		cn, derr := dial(srv)
		if derr != nil {
			return nil
		}
		conns = append(conns, cn)
		return cn
	}
	busy, matcher, wconn := open(), open(), open()
	if busy == nil || matcher == nil || wconn == nil {
		return nil
	}
	// the waiter
	before, countsOK := waiterCounts(srv)
	waited := make(chan error, 1)
	go func() {
		var werr error
		if perr := vh.Catch(func() {
			if kind == "client" {
				werr = wconn.cl.Wait(byte(code))
			} else {
				werr = srv.Wait(byte(code))
			}
		}); perr != nil {
			werr = fmt.Errorf("CRASH: %v", perr)
		}
		waited <- werr
	}()
	if countsOK {
		deadline := time.Now().Add(watchdog)
		for {
			now, _ := waiterCounts(srv)
			if now[code] > before[code] {
				break
			}
			if time.Now().After(deadline) {
				return nil
			}
			time.Sleep(time.Millisecond)
		}
	} else {
		time.Sleep(200 * time.Millisecond)
	}
	// the unrelated slow operation on another connection
	mu.Lock()
	armed = true
	mu.Unlock()
	slowDone := make(chan struct{})
	go func() {
		if slowOp == "forward" {
			_, _ = busy.cl.Forward([]byte{201, 1, 2, 3})
		} else {
			_, _ = busy.cl.List()
		}
		close(slowDone)
	}()
	// wait until the underlying agent has it
	deadline := time.Now().Add(watchdog)
	for {
		mu.Lock()
		f := fired
		mu.Unlock()
		if f {
			break
		}
		if time.Now().After(deadline) {
			return nil
		}
		time.Sleep(time.Millisecond)
	}
	time.Sleep(50 * time.Millisecond)
	// the matching request on a third connection (its own dispatch may have to queue behind the slow
	// operation; its receipt may not)
	go func() { _, _ = matcher.cl.Forward(reqFor(code)) }()
	select {
	case werr := <-waited:
		if werr != nil {
			return vh.Errf("%s: the waiter returned an error: %v", name, werr)
		}
		return nil
	case <-slowDone:
		select {
		case <-waited:
			// released only about when the unrelated operation ended
		case <-time.After(watchdog):
		}
		return vh.Errf("%s: a request with code %d was received while another connection's %s was outstanding at the underlying agent (answered after %s); the waiter on code %d was not released on receipt - it was still blocked when that unrelated operation ended", name, code, slowOp, latency, code)
	case <-time.After(latency + watchdog):
		return vh.Errf("%s: the waiter on code %d was never released", name, code)
	}
}

func replaceSlashes(s string) string {
	b := []byte(s)
	for i := range b {
		if b[i] == '/' {
			b[i] = ' '
		}
	}
	return string(b)
}

func TestC20BusyUpstream(t *testing.T) {
	var sc []string
	for _, slow := range []string{"forward", "list"} {
		for _, code := range []int{13, 11, 0, 32} {
			for _, kind := range []string{"direct", "client"} {
				sc = append(sc, fmt.Sprintf("%s/%d/%s", slow, code, kind))
			}
		}
	}
	cases := []BusyCase{{Scenarios: sc, LatencyMS: 4000}}
	if vh.Thorough() {
		cases = append(cases, BusyCase{Scenarios: sc, LatencyMS: 12000})
	}
	vh.Enumerate(t, vh.Spec[BusyCase]{Property: "C20", Name: "TestC20BusyUpstream", Exhaustive: true, Journal: true,
		Rule: "a waiter (direct or through a client connection) is registered on code 13 / 11 / 0 / 32; another connection's raw forward or listing is outstanding at the underlying agent, which answers it only after 4 s (thorough: also 12 s); 50 ms later a request with the awaited code arrives on a third connection (16 scenarios side by side). Oracle: the waiter returns while the unrelated operation is still outstanding (release on receipt), judged by order of events, not by a time limit; race detector as additional oracle",
		Exec: func(c BusyCase) (vh.Outcome, error) {
			out := vh.Outcome{NonTrivial: true}
			errs := make([]error, len(c.Scenarios))
			var wg sync.WaitGroup
			for i, s := range c.Scenarios {
				i, s := i, s
				wg.Add(1)
				go func() { defer wg.Done(); errs[i] = busyScenario(s, time.Duration(c.LatencyMS)*time.Millisecond) }()
			}
			wg.Wait()
			for _, e := range errs {
				if e != nil {
					return out, e
				}
			}
			return out, nil
		}}, cases)
}
