package c20

// TestC20Construct: the wait contract holds on EVERY shim agent the constructor hands out - in both
// modes, with or without identities in the underlying agent, and when the underlying agent answered
// the constructor's own requests badly. Whether construction succeeds in such a world is not judged
// here; only that a server which is handed out blocks waiters until the awaited code arrives.

import (
	"fmt"
	"testing"
	"time"

	"github.com/theparanoids/ysshra/agent/shimagent"
	"github.com/theparanoids/ysshra/zzverif/vh"
	"golang.org/x/crypto/ssh/agent"
)

type ConstructCase struct {
	NoUpstream bool
	Fault      string // "" | fail | malformed | empty | oversize | close | truncate : the underlying agent's answer to the constructor's first request
	Content    string // empty | key | ysshca
}

func constructScenario(c ConstructCase) (handedOut bool, err error) {
	where := fmt.Sprintf("shimagent.New(no-upstream=%v) over an underlying agent holding %q whose first answer is %q", c.NoUpstream, c.Content, c.Fault)
	p, perr := vh.NewProxy()
	if perr != nil {
		return false, nil
	}
	defer p.Close()
	switch c.Content {
	case "key":
		_ = p.Ring().Add(agent.AddedKey{PrivateKey: vh.Key("ed25519c"), Comment: "k"})
	case "ysshca":
		d := vh.CertDef{Key: "p256c", KeyIDClass: "ysshca1", Validity: "forever"}
		_ = p.Ring().Add(agent.AddedKey{PrivateKey: vh.Key("p256c"), Certificate: vh.ShimCert(d), Comment: "c"})
	}
	if c.Fault != "" {
		p.SetPlan([]vh.FaultRule{{Index: 0, Code: -1, Remaining: 1, Kind: c.Fault}})
	}
	var sh shimagent.ShimAgent
	var nerr error
	if cerr := vh.Catch(func() { sh, nerr = shimagent.New(shimagent.Option{Address: p.Path, NoUpstream: c.NoUpstream}) }); cerr != nil {
		return false, vh.Errf("%s crashed: %v", where, cerr)
	}
	if nerr != nil || sh == nil {
		return false, nil // no server, nothing to wait on
	}
	defer func() { _ = vh.Catch(func() { sh.Close() }) }()
	srv, isServer := sh.(*shimagent.Server) // the type whose Broadcast the serving loop calls for every request received
	if !isServer {
		return false, nil
	}
	for _, code := range []int{0, 13, 35, 39} {
		done := make(chan error, 1)
		go func() {
			var werr error
			if cerr := vh.Catch(func() { werr = sh.Wait(byte(code)) }); cerr != nil {
				werr = fmt.Errorf("CRASH: %v", cerr)
			}
			done <- werr
		}()
		select {
		case werr := <-done:
			return true, vh.Errf("%s handed out a server on which Wait(%d) returned (%v) before any request with that code", where, code, werr)
		case <-time.After(150 * time.Millisecond):
		}
		// another code does not release it
		other := byte((code + 1) % 40)
		if cerr := vh.Catch(func() { _ = srv.Broadcast(other) }); cerr != nil {
			return true, vh.Errf("%s handed out a server on which Broadcast(%d) crashed: %v", where, other, cerr)
		}
		select {
		case werr := <-done:
			return true, vh.Errf("%s: Wait(%d) was released (%v) by code %d", where, code, werr, other)
		case <-time.After(50 * time.Millisecond):
		}
		// requests with the awaited code keep arriving (the waiter may not have been registered yet when the
		// first of them arrives: only a request received after registration releases it)
		deadline := time.Now().Add(watchdog)
		released := false
		for !released {
			if cerr := vh.Catch(func() { _ = srv.Broadcast(byte(code)) }); cerr != nil {
				return true, vh.Errf("%s handed out a server on which Broadcast(%d) crashed: %v", where, code, cerr)
			}
			select {
			case werr := <-done:
				if werr != nil {
					return true, vh.Errf("%s: Wait(%d) returned an error after its code arrived: %v", where, code, werr)
				}
				released = true
			case <-time.After(20 * time.Millisecond):
				if time.Now().After(deadline) {
					return true, vh.Errf("%s: Wait(%d) was not released within %s of repeated Broadcast(%d)", where, code, watchdog, code)
				}
			}
		}
	}
	for _, code := range []int{40, 41, 128, 255} {
		done := make(chan error, 1)
		go func() {
			var werr error
			if cerr := vh.Catch(func() { werr = sh.Wait(byte(code)) }); cerr != nil {
				werr = fmt.Errorf("CRASH: %v", cerr)
			}
			done <- werr
		}()
		select {
		case werr := <-done:
			if werr != nil && len(werr.Error()) > 5 && werr.Error()[:5] == "CRASH" {
				return true, vh.Errf("%s: Wait(%d) crashed: %v", where, code, werr)
			}
		case <-time.After(watchdog):
			return true, vh.Errf("%s: Wait(%d), a code outside the table, blocked", where, code)
		}
	}
	return true, nil
}

func TestC20Construct(t *testing.T) {
	var cases []ConstructCase
	for _, nu := range []bool{false, true} {
		for _, content := range []string{"empty", "key", "ysshca"} {
			for _, f := range []string{"", "fail", "malformed", "empty", "oversize", "close", "truncate"} {
				cases = append(cases, ConstructCase{NoUpstream: nu, Fault: f, Content: content})
			}
		}
	}
	vh.Enumerate(t, vh.Spec[ConstructCase]{Property: "C20", Name: "TestC20Construct", Exhaustive: true, Journal: true,
		Rule: "shimagent.New in both modes over an underlying agent that holds nothing / a key / a YSSHCA certificate and answers the constructor's first request properly, with a failure, with a reply the client cannot decode (malformed, empty, oversize, cut short) or by closing the connection (42 worlds). Whether construction succeeds is not judged. Oracle on every server that is handed out: Wait on codes 0, 13, 35, 39 blocks (150 ms), is not released by the next code, is released by Broadcast of its own code and returns nil; Wait on 40, 41, 128, 255 returns at once; nothing crashes. Non-trivial: a server was handed out",
		Exec: func(c ConstructCase) (vh.Outcome, error) {
			handed, err := constructScenario(c)
			return vh.Outcome{NonTrivial: handed, Classes: []string{fmt.Sprintf("handed-out=%v", handed)}}, err
		}}, cases)
}
