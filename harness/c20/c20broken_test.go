package c20

// TestC20UpstreamBroken: the wait contract is about requests RECEIVED by the agent, not about what the
// underlying agent makes of them. After the underlying agent answered a relayed request badly (closed
// the connection, cut its reply short, declared an oversize reply, sent something undecodable), a
// request with the awaited code still releases the clients waiting for it, and a new wait still blocks
// until its own code arrives.

import (
	"fmt"
	"sync"
	"testing"
	"time"

	"github.com/theparanoids/ysshra/agent/yubiagent"
	"github.com/theparanoids/ysshra/zzverif/vh"
	"golang.org/x/crypto/ssh/agent"
)

type BrokenCase struct {
	Scenarios []string // "<fault kind>/<faulted request code>/<awaited code>"
}

func brokenScenario(name string) error {
	var kind string
	var fcode, code int
	if n, _ := fmt.Sscanf(replaceSlashes(name), "%s %d %d", &kind, &fcode, &code); n != 3 {
		return nil
	}
	p, err := vh.NewProxy()
	if err != nil {
		return nil
	}
	defer p.Close()
	_ = p.Ring().Add(agent.AddedKey{PrivateKey: vh.Key("ed25519c"), Comment: "k"})
	srv, err := yubiagent.NewServer(p.Path, true)
	if err != nil {
		return vh.Errf("%s: NewServer: %v", name, err)
	}
	defer func() { _ = vh.Catch(func() { srv.Close() }) }()
	var conns []*conn
	defer func() {
		for _, cn := range conns {
			cn.c1.Close()
		}
	}()
	open := func() *conn {
		cn, derr := dial(srv)
		if derr != nil {
			return nil
		}
		conns = append(conns, cn)
		return cn
	}
	registered := func(c, want int) {
		deadline := time.Now().Add(3 * time.Second)
		for time.Now().Before(deadline) {
			cs, ok := waiterCounts(srv)
			if !ok {
				time.Sleep(300 * time.Millisecond)
				return
			}
			if cs[c] >= want {
				return
			}
			time.Sleep(time.Millisecond)
		}
	}
	wait := func(cn *conn, c int) chan error {
		ch := make(chan error, 1)
		go func() {
			var werr error
			if perr := vh.Catch(func() { werr = cn.cl.Wait(byte(c)) }); perr != nil {
				werr = fmt.Errorf("CRASH: %v", perr)
			}
			ch <- werr
		}()
		return ch
	}
	// raw request frames, written without waiting for whatever response the broken upstream allows
	send := func(cn *conn, body []byte) {
		frame := append([]byte{0, 0, 0, byte(len(body))}, body...)
		_, _ = cn.c1.Write(frame)
	}
	wa, faulty, matcher, wb, matcher2 := open(), open(), open(), open(), open()
	if wa == nil || faulty == nil || matcher == nil || wb == nil || matcher2 == nil {
		return nil
	}
	early := wait(wa, code)
	registered(code, 1)
	// the underlying agent answers one relayed request badly
	p.SetPlan([]vh.FaultRule{{Index: -1, Code: fcode, Remaining: 1, Kind: kind}})
	send(faulty, []byte{byte(fcode), 1, 2, 3})
	time.Sleep(150 * time.Millisecond)
	select {
	case werr := <-early:
		return vh.Errf("%s: the client waiting for code %d returned (%v) when a request with code %d met a broken underlying agent; no request with code %d was received", name, code, werr, fcode, code)
	default:
	}
	// a later wait blocks, too
	other := (code + 7) % 40
	if other == fcode || other == 35 || other == code {
		other = (other + 1) % 40
	}
	late := wait(wb, other)
	registered(other, 1)
	select {
	case werr := <-late:
		return vh.Errf("%s: after a request with code %d met a broken underlying agent (%s), a new wait for code %d returned at once (%v) instead of blocking until a request with that code arrives", name, fcode, kind, other, werr)
	case <-time.After(150 * time.Millisecond):
	}
	// requests with the awaited codes keep arriving (each on a fresh connection, in case the broken upstream ends one)
	release := func(ch chan error, c int, who string) error {
		deadline := time.Now().Add(watchdog)
		for {
			cn := open()
			if cn == nil {
				return nil
			}
			send(cn, reqFor(c))
			select {
			case <-ch:
				return nil // released (its own connection may report the server's verdict on the broken upstream; the release is what counts)
			case <-time.After(100 * time.Millisecond):
			}
			if time.Now().After(deadline) {
				return vh.Errf("%s: %s (code %d) was not released within %s although requests with code %d kept being received after the underlying agent had answered a request with code %d badly (%s)", name, who, c, watchdog, c, fcode, kind)
			}
		}
	}
	if e := release(early, code, "the client that was waiting before the fault"); e != nil {
		return e
	}
	return release(late, other, "the client that started waiting after the fault")
}

func TestC20UpstreamBroken(t *testing.T) {
	var sc []string
	for _, kind := range []string{"close", "truncate", "oversize", "malformed", "empty", "fail"} {
		for _, fc := range []int{200, 27, 20} {
			for _, code := range []int{11, 13, 0} {
				sc = append(sc, fmt.Sprintf("%s/%d/%d", kind, fc, code))
			}
		}
	}
	vh.Enumerate(t, vh.Spec[BrokenCase]{Property: "C20", Name: "TestC20UpstreamBroken", Exhaustive: true, Journal: true,
		Rule: "the production pairing NewServer over a shim agent; a client waits for code 11 / 13 / 0; then the underlying agent answers one relayed request (an unknown code, an extension, a smartcard request) by closing the connection, cutting the reply short, declaring an oversize reply, with an undecodable or empty reply, or with a failure; then a second client starts waiting for another code; then requests with the two awaited codes are sent, each on a fresh connection, until the waiters return (54 scenarios side by side). Oracle: the first client is not released by the faulted request; the second wait blocks (150 ms) instead of returning; both are released within 15 s of requests with their codes being received - whatever the broken underlying agent answers to those requests",
		Exec: func(c BrokenCase) (vh.Outcome, error) {
			out := vh.Outcome{NonTrivial: true}
			errs := make([]error, len(c.Scenarios))
			var wg sync.WaitGroup
			for i, s := range c.Scenarios {
				i, s := i, s
				wg.Add(1)
				go func() { defer wg.Done(); errs[i] = brokenScenario(s) }()
			}
			wg.Wait()
			for _, e := range errs {
				if e != nil {
					return out, e
				}
			}
			return out, nil
		}}, []BrokenCase{{Scenarios: sc}})
}
