// C06 — attestation accepts only certificates signed by a device key chaining to the roots.
package c06

import (
	"strings"
	"path/filepath"
	"os"
	"encoding/asn1"
	"crypto/x509/pkix"
	"bytes"
	"crypto"
	"crypto/ecdsa"
	"crypto/rand"
	"crypto/rsa"
	_ "crypto/sha1"
	_ "crypto/sha256"
	_ "crypto/sha512"
	"crypto/x509"
	"fmt"
	"math/big"
	"sync"
	"testing"
	"time"

	"github.com/theparanoids/ysshra/attestation/yubiattest"
	"github.com/theparanoids/ysshra/zzverif/vh"
	"pgregory.net/rapid"
)

// Independent digest-identifier tables (RFC 8017 section 9.2 notes, and the NULL-less variant).
var prefixNULL = map[string][]byte{
	"sha1":   {0x30, 0x21, 0x30, 0x09, 0x06, 0x05, 0x2b, 0x0e, 0x03, 0x02, 0x1a, 0x05, 0x00, 0x04, 0x14},
	"sha256": {0x30, 0x31, 0x30, 0x0d, 0x06, 0x09, 0x60, 0x86, 0x48, 0x01, 0x65, 0x03, 0x04, 0x02, 0x01, 0x05, 0x00, 0x04, 0x20},
	"sha384": {0x30, 0x41, 0x30, 0x0d, 0x06, 0x09, 0x60, 0x86, 0x48, 0x01, 0x65, 0x03, 0x04, 0x02, 0x02, 0x05, 0x00, 0x04, 0x30},
	"sha512": {0x30, 0x51, 0x30, 0x0d, 0x06, 0x09, 0x60, 0x86, 0x48, 0x01, 0x65, 0x03, 0x04, 0x02, 0x03, 0x05, 0x00, 0x04, 0x40},
	"md5":    {0x30, 0x20, 0x30, 0x0c, 0x06, 0x08, 0x2a, 0x86, 0x48, 0x86, 0xf7, 0x0d, 0x02, 0x05, 0x05, 0x00, 0x04, 0x10},
	"ripemd160": {0x30, 0x21, 0x30, 0x09, 0x06, 0x05, 0x2b, 0x24, 0x03, 0x02, 0x01, 0x05, 0x00, 0x04, 0x14},
	"sha224": {0x30, 0x2d, 0x30, 0x0d, 0x06, 0x09, 0x60, 0x86, 0x48, 0x01, 0x65, 0x03, 0x04, 0x02, 0x04, 0x05, 0x00, 0x04, 0x1c},
}

// withoutNULL derives the second representation: drop the 05 00 parameter and fix both lengths.
func withoutNULL(p []byte) []byte {
	// p = 30 L1 30 L2 06 n oid... 05 00 04 hl
	out := append([]byte{}, p...)
	i := bytes.LastIndex(out, []byte{0x05, 0x00, 0x04})
	out = append(out[:i], out[i+2:]...)
	out[1] -= 2
	out[3] -= 2
	return out
}

var hashOf = map[string]crypto.Hash{"sha1": crypto.SHA1, "sha256": crypto.SHA256, "sha384": crypto.SHA384, "sha512": crypto.SHA512, "md5": crypto.MD5, "sha224": crypto.SHA224}

// labelHash: the digest each signature-algorithm label stands for, "" when the label must be refused.
func labelHash(a x509.SignatureAlgorithm) (h string, iff bool) {
	switch a {
	case x509.SHA1WithRSA:
		return "sha1", true
	case x509.SHA256WithRSA:
		return "sha256", true
	case x509.SHA384WithRSA:
		return "sha384", true
	case x509.SHA512WithRSA:
		return "sha512", true
	case x509.DSAWithSHA1, x509.DSAWithSHA256, x509.ECDSAWithSHA1, x509.ECDSAWithSHA256, x509.ECDSAWithSHA384, x509.ECDSAWithSHA512:
		return "any", false // only-if direction: the statement does not say these are accepted
	}
	return "", true
}

func digest(h string, data []byte) []byte {
	if h == "md5" {
		// crypto/md5 is not linked on purpose; a fixed 16-byte value serves as "some MD5 digest"
		return bytes.Repeat([]byte{0xa5}, 16)
	}
	hh := hashOf[h].New()
	hh.Write(data)
	return hh.Sum(nil)
}

func encoded(k int, prefix, dig []byte) []byte {
	t := append(append([]byte{}, prefix...), dig...)
	if k < len(t)+11 {
		return nil
	}
	em := make([]byte, k)
	em[1] = 1
	for i := 2; i < k-len(t)-1; i++ {
		em[i] = 0xff
	}
	copy(em[k-len(t):], t)
	return em
}

// acceptable: is em a full-length encoded message for the digest of tbs under hash h, in either form?
func acceptable(em []byte, h string, tbs []byte) bool {
	hs := []string{h}
	if h == "any" {
		hs = []string{"sha1", "sha256", "sha384", "sha512"}
	}
	for _, hh := range hs {
		d := digest(hh, tbs)
		for _, p := range [][]byte{prefixNULL[hh], withoutNULL(prefixNULL[hh])} {
			if want := encoded(len(em), p, d); want != nil && bytes.Equal(want, em) {
				return true
			}
		}
	}
	return false
}

type Case struct {
	DevKey   string
	Issuer   string   // rootA | rootB | foreign | self
	Validity string   // ok | expired | future
	Pool     []string // subset of rootA, rootB, rootC
	Algo     int
	// EM construction
	Kind     string // form1 | form2 | replace | shortpad | shortem | wronghash | otherdata | sigflip | tbsflip | sigrandom | ecdsa-device
	EMHash   string
	Form     int
	Pos      int
	NewByte  int
	PadLen   int
	Garbage  []byte
	FlipBit  int
	TBS      []byte
	OtherTBS []byte
	// IdOf (kind foreignid): the algorithm whose identifier precedes the digest ("none" = no identifier)
	IdOf string `json:",omitempty"`
	// SlotDates: dates carried by the slot certificate itself (must not influence the chain check):
	// zero | now | past (36 h ago, inside an expired device certificate's window) | future (in 36 h)
	SlotDates string
	// DevExt: extra extensions of the device certificate (see deviceCertExt)
	DevExt string
	// DevSig: the algorithm the issuer signed the device certificate with: "" (SHA-256) | sha1 | sha384 | sha512.
	// A SHA-1 signature is one the platform verifier refuses by policy: only 'accepted => valid chain' is judged.
	DevSig string
	// Ctor: "" = NewAttestorWithCAPool | files = NewAttestor with the pool's roots written to two PEM files
	Ctor string
}

var (
	certMu    sync.Mutex
	certCache = map[string]*x509.Certificate{}
)

var (
	hostStoreOnce sync.Once
	hostStoreDir  string
)

// hostTrustStore makes the "foreign" CA the only CA this process's host trust store contains
// (crypto/x509 reads SSL_CERT_FILE / SSL_CERT_DIR when it first needs the system roots): a device
// certificate issued by it stands for one issued by some publicly trusted CA that is not configured.
func hostTrustStore() string {
	hostStoreOnce.Do(func() {
		d, err := os.MkdirTemp("", "vc06")
		if err != nil {
			return
		}
		hostStoreDir = d
		os.Mkdir(filepath.Join(d, "empty"), 0o755)
		os.WriteFile(filepath.Join(d, "host.pem"), vh.PEMCert(rootCert("foreign").Raw), 0o644)
		os.Setenv("SSL_CERT_FILE", filepath.Join(d, "host.pem"))
		os.Setenv("SSL_CERT_DIR", filepath.Join(d, "empty"))
	})
	return hostStoreDir
}

// rootFiles writes the pool's roots into the two PEM files NewAttestor takes (the first root alone
// in the first file, the rest - or the first again - in the second).
var rootFilesMu sync.Mutex

func rootFiles(pool []string) (string, string, error) {
	// one writer at a time: sub-checks that run scenarios side by side would otherwise read a half-written file
	rootFilesMu.Lock()
	defer rootFilesMu.Unlock()
	d := hostTrustStore()
	if d == "" {
		return "", "", fmt.Errorf("no temp dir")
	}
	name := strings.Join(pool, "+")
	f1, f2 := filepath.Join(d, name+".piv.pem"), filepath.Join(d, name+".u2f.pem")
	if _, err := os.Stat(f2); err == nil {
		return f1, f2, nil
	}
	var rest []byte
	for _, r := range pool[1:] {
		rest = append(rest, vh.PEMCert(rootCert(r).Raw)...)
	}
	if len(rest) == 0 {
		rest = vh.PEMCert(rootCert(pool[0]).Raw)
	}
	if err := os.WriteFile(f1, vh.PEMCert(rootCert(pool[0]).Raw), 0o644); err != nil {
		return "", "", err
	}
	return f1, f2, os.WriteFile(f2, rest, 0o644)
}

// rootFilesOdd: the same two files under names that are also patterns ('<pool>[x].piv.pem', '<pool>?.u2f.pem'),
// next to files those patterns match ('<pool>x.piv.pem', '<pool>y.u2f.pem') which hold the CA that is NOT configured.
func rootFilesOdd(pool []string) (string, string, error) {
	f1, f2, err := rootFiles(pool)
	if err != nil {
		return "", "", err
	}
	rootFilesMu.Lock()
	defer rootFilesMu.Unlock()
	d, name := filepath.Dir(f1), strings.Join(pool, "+")
	o1, o2 := filepath.Join(d, name+"[x].piv.pem"), filepath.Join(d, name+"?.u2f.pem")
	if _, serr := os.Stat(o2); serr == nil {
		return o1, o2, nil
	}
	b1, _ := os.ReadFile(f1)
	b2, _ := os.ReadFile(f2)
	foreign := vh.PEMCert(rootCert("foreign").Raw)
	for file, content := range map[string][]byte{o1: b1, filepath.Join(d, name+"x.piv.pem"): foreign, filepath.Join(d, name+"y.u2f.pem"): foreign} {
		if werr := os.WriteFile(file, content, 0o644); werr != nil {
			return "", "", werr
		}
	}
	return o1, o2, os.WriteFile(o2, b2, 0o644)
}

func rootSpec(name string) vh.CertSpec {
	keys := map[string]string{"rootA": "rsa2048a", "rootB": "p256a", "rootC": "rsa2048b", "foreign": "rsa2048c", "twinA": "rsa2048d"}
	cn := "verif " + name
	if name == "twinA" {
		cn = "verif rootA" // another CA that borrows root A's name (different key, never in the pool)
	}
	return vh.CertSpec{CN: cn, Key: keys[name], IsCA: true, Serial: 7}
}

func rootCert(name string) *x509.Certificate {
	certMu.Lock()
	defer certMu.Unlock()
	if c, ok := certCache[name]; ok {
		return c
	}
	c, _, err := vh.MakeCert(rootSpec(name))
	if err != nil {
		panic(err)
	}
	certCache[name] = c
	return c
}

func deviceCert(dev, issuer, validity string) *x509.Certificate {
	return deviceCertExt(dev, issuer, validity, "", "")
}

// deviceCertExt: ext adds extensions to the device certificate: yubico-critical | yubico-plain |
// other-critical | yubico+other-critical ("" = none).
func deviceCertExt(dev, issuer, validity, ext, sig string) *x509.Certificate {
	key := dev + "/" + issuer + "/" + validity + "/" + ext + "/" + sig
	certMu.Lock()
	if c, ok := certCache[key]; ok {
		certMu.Unlock()
		return c
	}
	certMu.Unlock()
	spec := vh.CertSpec{CN: "Yubico PIV Attestation " + dev, Key: dev, IsCA: true, Serial: 99}
	now := time.Now()
	switch validity {
	case "expired":
		spec.NotBefore, spec.NotAfter = now.Add(-48*time.Hour), now.Add(-24*time.Hour)
	case "future":
		spec.NotBefore, spec.NotAfter = now.Add(24*time.Hour), now.Add(48*time.Hour)
	}
	if ext != "" || sig != "" {
		spec.Mutate = func(tpl *x509.Certificate) {
			switch sig {
			case "sha1":
				tpl.SignatureAlgorithm = x509.SHA1WithRSA
			case "sha384":
				tpl.SignatureAlgorithm = x509.SHA384WithRSA
			case "sha512":
				tpl.SignatureAlgorithm = x509.SHA512WithRSA
			}
			yubico := pkix.Extension{Id: asn1.ObjectIdentifier{1, 3, 6, 1, 4, 1, 41482, 3, 3}, Value: []byte{5, 4, 3}, Critical: ext != "yubico-plain"}
			other := pkix.Extension{Id: asn1.ObjectIdentifier{1, 2, 3, 4, 5}, Value: []byte{5, 0}, Critical: true}
			switch ext {
			case "yubico-critical", "yubico-plain":
				tpl.ExtraExtensions = append(tpl.ExtraExtensions, yubico)
			case "other-critical":
				tpl.ExtraExtensions = append(tpl.ExtraExtensions, other)
			case "yubico+other-critical":
				tpl.ExtraExtensions = append(tpl.ExtraExtensions, yubico, other)
			}
		}
	}
	if issuer == "selftwin" {
		spec.CN = "verif rootA" // self-signed under root A's name
	} else if issuer != "self" {
		spec.Issuer = rootCert(issuer)
		spec.IssuerKey = rootSpec(issuer).Key
	}
	c, _, err := vh.MakeCert(spec)
	if err != nil {
		panic(err)
	}
	certMu.Lock()
	certCache[key] = c
	certMu.Unlock()
	return c
}

func genCase(t *rapid.T) Case {
	c := Case{}
	devs := []string{"rsa1024a", "rsa1024b", "rsa1025", "rsa1031", "rsa1536", "rsa2047", "rsa2048d"}
	if vh.Thorough() {
		devs = append(devs, "rsa3072", "rsa4096", "rsa4104", "rsa4608", "rsa6144")
	} else if rapid.IntRange(0, 63).Draw(t, "bigDev") == 29 {
		// rarely in the quick tier: device keys at and above the largest size a current token holds
		devs = []string{"rsa4096", "rsa4104", "rsa4608", "rsa6144"}
	}
	c.DevKey = rapid.SampledFrom(devs).Draw(t, "dev")
	oddExp := rapid.IntRange(0, 5).Draw(t, "oddExp") == 2
	c.Issuer = rapid.SampledFrom([]string{"rootA", "rootA", "rootA", "rootA", "rootB", "rootB", "foreign", "self"}).Draw(t, "issuer")
	c.Validity = rapid.SampledFrom([]string{"ok", "ok", "ok", "ok", "ok", "ok", "expired", "future"}).Draw(t, "validity")
	c.Pool = rapid.SampledFrom([][]string{{"rootA"}, {"rootA", "rootB"}, {"rootA", "rootB", "rootC"}, {"rootB"}, {"rootC", "rootA"}, {"rootC"}}).Draw(t, "pool")
	c.Algo = rapid.SampledFrom([]int{3, 4, 5, 6, 3, 4, 5, 6, 3, 4, 5, 6, 0, 1, 2, 7, 8, 9, 10, 11, 12, 13, 14, 15, 16, 17, 18, 19, 20}).Draw(t, "algo")
	focus := rapid.IntRange(0, 9).Draw(t, "focus")
	if focus < 5 {
		// single-fault focus: everything but the encoded message is valid
		c.Issuer, c.Validity, c.Pool = "rootA", "ok", []string{"rootB", "rootA"}
		c.Algo = rapid.IntRange(3, 6).Draw(t, "focusAlgo")
	}
	if focus >= 8 {
		// chain focus: the signature is genuine (see the end of this function), only the device
		// certificate's chain, dates, extensions, signature algorithm and the constructor vary
		c.Algo = rapid.IntRange(3, 6).Draw(t, "chainFocusAlgo")
	}
	c.SlotDates = rapid.SampledFrom([]string{"zero", "now", "past", "future"}).Draw(t, "slotDates")
	c.DevExt = rapid.SampledFrom([]string{"", "", "", "", "", "", "yubico-plain", "yubico-critical", "yubico-critical", "other-critical", "yubico+other-critical"}).Draw(t, "devExt")
	if c.DevExt != "" && c.DevExt != "yubico-plain" && rapid.Bool().Draw(t, "extBadChain") {
		// a critical extension on a device certificate whose chain or dates are bad
		c.Issuer = rapid.SampledFrom([]string{"self", "foreign", "rootA", "rootB"}).Draw(t, "extIssuer")
		c.Validity = rapid.SampledFrom([]string{"expired", "future", "ok"}).Draw(t, "extValidity")
	}
	c.DevSig = rapid.SampledFrom([]string{"", "", "", "", "sha1", "sha1", "sha384", "sha512"}).Draw(t, "devSig")
	if oddExp && c.Issuer != "self" && c.Issuer != "selftwin" {
		// the same device modulus under another public exponent (3, 17, 2^31+1, 2^32+1, 2^40+1): "raised to
		// the device key's public exponent" holds for every exponent a certificate can carry
		c.DevKey += rapid.SampledFrom([]string{"+e1", "+e4", "+e31", "+e32", "+e32", "+e40"}).Draw(t, "devExp")
	}
	c.Ctor = rapid.SampledFrom([]string{"", "", "files"}).Draw(t, "ctor")
	if focus >= 8 && rapid.IntRange(0, 2).Draw(t, "degenerateRoots") == 1 {
		// degenerate root configurations, judged with a genuine signature; half of them under a device certificate
		// issued by the CA the host trust store knows (the fallback a missing pool would open)
		c.Ctor = rapid.SampledFrom([]string{"files-none", "files-none", "files-missing", "files-dir", "files-first-empty", "files-second-empty", "files-oddnames", "files-oddnames", "files-oddnames"}).Draw(t, "degenerateCtor")
		if rapid.Bool().Draw(t, "degenerateForeign") {
			c.Issuer, c.Validity = "foreign", "ok"
		}
	}
	c.TBS = rapid.SliceOfN(rapid.Byte(), 1, 120).Draw(t, "tbs")
	h, _ := labelHash(x509.SignatureAlgorithm(c.Algo))
	if h == "" || h == "any" {
		h = rapid.SampledFrom([]string{"sha1", "sha256", "sha384", "sha512"}).Draw(t, "fallbackHash")
		if x509.SignatureAlgorithm(c.Algo) == x509.MD5WithRSA {
			h = "md5"
		}
	}
	c.EMHash = h
	c.Form = rapid.IntRange(1, 2).Draw(t, "form")
	c.Kind = rapid.SampledFrom([]string{"form1", "form2", "form1", "form2", "replace", "replace", "replace", "replace", "shortpad", "shortpad", "shortem", "wronghash", "otherdata", "sigflip", "tbsflip", "sigrandom", "ecdsa-device", "siglonger", "dervariant", "dervariant", "foreignid", "foreignid", "midjunk", "midjunk"}).Draw(t, "kind")
	switch c.Kind {
	case "form1":
		c.Form = 1
	case "form2":
		c.Form = 2
	case "replace":
		// position class first, then the position inside the class
		k := (vh.RSAKey(c.DevKey).N.BitLen() + 7) / 8
		tl := len(prefixNULL[c.EMHash]) + len(digest(c.EMHash, nil))
		if c.Form == 2 {
			tl -= 2
		}
		hl := len(digest(c.EMHash, nil))
		switch rapid.IntRange(0, 8).Draw(t, "posClass") {
		case 0:
			c.Pos = 0
		case 1:
			c.Pos = 1
		case 2:
			c.Pos = 2 // first padding byte
		case 3:
			c.Pos = k - tl - 2 // last padding byte
		case 4:
			c.Pos = rapid.IntRange(2, k-tl-2).Draw(t, "padPos")
		case 5:
			c.Pos = k - tl - 1 // separator
		case 6:
			c.Pos = rapid.IntRange(k-tl, k-hl-1).Draw(t, "idPos") // identifier bytes
		case 7:
			c.Pos = rapid.IntRange(k-hl, k-1).Draw(t, "digPos") // digest bytes
		default:
			c.Pos = rapid.IntRange(0, k-1).Draw(t, "anyPos")
		}
		c.NewByte = rapid.SampledFrom([]int{0x00, 0x01, 0x02, 0xff, 0xfe, 0x7f, 0x80, 0x30, 0x05, -1}).Draw(t, "newByte")
		if c.NewByte == -1 {
			c.NewByte = rapid.IntRange(0, 255).Draw(t, "newByteAny")
		}
	case "shortpad":
		c.PadLen = rapid.SampledFrom([]int{0, 1, 7, 8, 9, 16, -1}).Draw(t, "padLen")
		if c.PadLen == -1 {
			c.PadLen = rapid.IntRange(0, 60).Draw(t, "padLenAny")
		}
		c.Garbage = rapid.SliceOfN(rapid.Byte(), 0, 16).Draw(t, "garbage")
	case "shortem":
		c.PadLen = rapid.IntRange(0, 7).Draw(t, "padLen")
	case "midjunk":
		// a full-length message with shortened padding whose freed octets sit BETWEEN the unaltered identifier and the
		// digest (which still ends the message)
		c.PadLen = rapid.SampledFrom([]int{8, 8, 9, 16, 32, 0, 7}).Draw(t, "midPad")
		c.Garbage = rapid.SliceOfN(rapid.Byte(), 1, 4).Draw(t, "midFill")
	case "dervariant":
		// a full-length message whose digest identifier is another DER / BER spelling of the same content
		c.PadLen = rapid.IntRange(0, 7).Draw(t, "derVariant")
		c.Garbage = rapid.SliceOfN(rapid.Byte(), 1, 12).Draw(t, "derJunk")
	case "wronghash":
		others := []string{}
		for _, o := range []string{"sha1", "sha256", "sha384", "sha512", "md5", "sha224"} {
			if o != c.EMHash {
				others = append(others, o)
			}
		}
		c.EMHash = rapid.SampledFrom(others).Draw(t, "wrongHash")
	case "otherdata":
		c.OtherTBS = rapid.SliceOfN(rapid.Byte(), 0, 120).Draw(t, "otherTBS")
	case "foreignid":
		// the right digest of the right data behind the identifier of another algorithm (also ones of the same
		// digest length), or behind no identifier at all
		others := []string{"none", "none"}
		for _, o := range []string{"sha1", "sha256", "sha384", "sha512", "md5", "sha224", "ripemd160", "ripemd160"} {
			if o != c.EMHash {
				others = append(others, o)
			}
		}
		c.IdOf = rapid.SampledFrom(others).Draw(t, "idOf")
	case "sigflip", "tbsflip":
		c.FlipBit = rapid.IntRange(0, 1<<20).Draw(t, "flipBit")
	case "siglonger":
		c.NewByte = rapid.SampledFrom([]int{0x01, 0x5a, 0x80, 0xff, 0x00}).Draw(t, "extraByte")
		c.PadLen = rapid.IntRange(0, 2).Draw(t, "extraWhere")
	case "sigrandom":
		c.Garbage = rapid.SliceOfN(rapid.Byte(), 0, 300).Draw(t, "sig")
	case "ecdsa-device":
		c.DevKey = rapid.SampledFrom([]string{"p256b", "p384a", "p521a"}).Draw(t, "ecdev")
		c.Algo = rapid.SampledFrom([]int{10, 11, 12, 4}).Draw(t, "ecalgo")
	}
	if focus >= 8 && c.Kind != "ecdsa-device" {
		c.Kind = rapid.SampledFrom([]string{"form1", "form2"}).Draw(t, "chainFocusKind")
		c.Form = 1
		if c.Kind == "form2" {
			c.Form = 2
		}
		h, _ := labelHash(x509.SignatureAlgorithm(c.Algo))
		c.EMHash = h
	}
	return c
}

var (
	genuineMu    sync.Mutex
	genuineCache = map[string][2][]byte{}
)

// genuineFor returns a body and its genuine SHA-256 form-1 signature under the device key (cached).
func genuineFor(dev string) (tbs, sig []byte) {
	genuineMu.Lock()
	defer genuineMu.Unlock()
	if g, ok := genuineCache[dev]; ok {
		return g[0], g[1]
	}
	t, s, err := buildSignature(Case{DevKey: dev, Kind: "form1", Form: 1, EMHash: "sha256", TBS: []byte("a genuine slot certificate body")})
	if err != nil {
		return nil, nil
	}
	genuineCache[dev] = [2][]byte{t, s}
	return t, s
}

// buildSignature returns (tbs, signature) for the Case.
func buildSignature(c Case) (tbs, sig []byte, err error) {
	tbs = append([]byte{}, c.TBS...)
	if c.Kind == "ecdsa-device" {
		key := vh.Key(c.DevKey).(*ecdsa.PrivateKey)
		d := digest("sha256", tbs)
		sig, err = ecdsa.SignASN1(rand.Reader, key, d)
		return
	}
	key := vh.RSAKey(c.DevKey)
	k := (key.N.BitLen() + 7) / 8
	if c.Kind == "sigrandom" {
		return tbs, c.Garbage, nil
	}
	prefix := prefixNULL[c.EMHash]
	if c.Form == 2 {
		prefix = withoutNULL(prefix)
	}
	if c.Kind == "foreignid" {
		prefix = nil
		if c.IdOf != "none" {
			prefix = prefixNULL[c.IdOf]
			if c.Form == 2 {
				prefix = withoutNULL(prefix)
			}
		}
	}
	signed := tbs
	if c.Kind == "otherdata" {
		signed = c.OtherTBS
	}
	dig := digest(c.EMHash, signed)
	em := encoded(k, prefix, dig)
	if em == nil {
		return nil, nil, fmt.Errorf("key too small")
	}
	switch c.Kind {
	case "replace":
		p := c.Pos % k
		if p < 0 {
			p = 0
		}
		em[p] = byte(c.NewByte)
	case "shortpad":
		t := append(append([]byte{}, prefix...), dig...)
		em = make([]byte, k)
		em[1] = 1
		pl := c.PadLen
		if pl > k-len(t)-3 {
			pl = k - len(t) - 3
		}
		for i := 0; i < pl; i++ {
			em[2+i] = 0xff
		}
		em[2+pl] = 0
		copy(em[3+pl:], t)
		copy(em[3+pl+len(t):], c.Garbage)
		for i := 3 + pl + len(t) + len(c.Garbage); i < k; i++ {
			em[i] = 0xff
		}
	case "dervariant":
		t := derVariant(prefixNULL[c.EMHash], c.Form == 2, dig, c.PadLen, c.Garbage)
		if k-3-len(t) < 8 {
			return nil, nil, fmt.Errorf("key too small")
		}
		em = append([]byte{0, 1}, bytes.Repeat([]byte{0xff}, k-3-len(t))...)
		em = append(append(em, 0), t...)
	case "midjunk":
		if k-3-c.PadLen-len(prefix)-len(dig) < 1 {
			return nil, nil, fmt.Errorf("key too small")
		}
		em = append([]byte{0, 1}, bytes.Repeat([]byte{0xff}, c.PadLen)...)
		em = append(append(em, 0), prefix...)
		for len(em) < k-len(dig) {
			em = append(em, c.Garbage[len(em)%len(c.Garbage)])
		}
		em = append(em, dig...)
	case "shortem":
		t := append(append([]byte{}, prefix...), dig...)
		short := append([]byte{0, 1}, bytes.Repeat([]byte{0xff}, c.PadLen)...)
		short = append(append(short, 0), t...)
		em = make([]byte, k)
		copy(em[k-len(short):], short)
	}
	m := new(big.Int).SetBytes(em)
	m.Mod(m, key.N)
	s := new(big.Int).Exp(m, key.D, key.N)
	sig = s.FillBytes(make([]byte, k))
	switch c.Kind {
	case "sigflip":
		b := c.FlipBit % (8 * len(sig))
		sig[b/8] ^= 1 << (b % 8)
	case "tbsflip":
		b := c.FlipBit % (8 * len(tbs))
		tbs[b/8] ^= 1 << (b % 8)
	case "siglonger":
		// a genuine signature with bytes added in front of or behind it (NewByte is the byte, PadLen 0 =
		// in front, 1 = behind, 2 = two bytes in front)
		switch c.PadLen {
		case 1:
			sig = append(sig, byte(c.NewByte))
		case 2:
			sig = append([]byte{byte(c.NewByte), byte(c.NewByte)}, sig...)
		default:
			sig = append([]byte{byte(c.NewByte)}, sig...)
		}
	}
	return tbs, sig, nil
}

// derVariant re-spells the DigestInfo (given with NULL parameters) in a way a lenient DER / BER reader
// may take for the same content: junk inside the algorithm identifier or behind the digest with the
// lengths adjusted, long-form lengths, other parameters, an indefinite length, junk behind everything.
func derVariant(withNULL []byte, noNULL bool, dig []byte, variant int, junk []byte) []byte {
	n := int(withNULL[5])
	oid := withNULL[4 : 6+n] // 06 n <oid>
	alg := append([]byte{}, oid...)
	if !noNULL {
		alg = append(alg, 5, 0)
	}
	seq := func(tag byte, body []byte) []byte { return append([]byte{tag, byte(len(body))}, body...) }
	octets := seq(4, dig)
	switch variant {
	case 0: // junk inside the algorithm identifier
		return seq(0x30, append(seq(0x30, append(alg, junk...)), octets...))
	case 1: // junk behind the digest, inside the DigestInfo
		return seq(0x30, append(append(seq(0x30, alg), octets...), junk...))
	case 2: // long-form length of the outer sequence
		body := append(seq(0x30, alg), octets...)
		return append([]byte{0x30, 0x81, byte(len(body))}, body...)
	case 3: // long-form length of the digest
		return seq(0x30, append(seq(0x30, alg), append([]byte{4, 0x81, byte(len(dig))}, dig...)...))
	case 4: // junk behind the DigestInfo
		return append(seq(0x30, append(seq(0x30, alg), octets...)), junk...)
	case 5: // other parameters in place of NULL / nothing
		return seq(0x30, append(seq(0x30, append(append([]byte{}, oid...), seq(4, junk)...)), octets...))
	case 6: // indefinite length
		return append(append([]byte{0x30, 0x80}, append(seq(0x30, alg), octets...)...), 0, 0)
	default: // long-form length of the object identifier
		alg2 := append([]byte{6, 0x81, byte(n)}, oid[2:]...)
		if !noNULL {
			alg2 = append(alg2, 5, 0)
		}
		return seq(0x30, append(seq(0x30, alg2), octets...))
	}
}

func exec(c Case) (vh.Outcome, error) {
	hostTrustStore()
	algo := x509.SignatureAlgorithm(c.Algo)
	out := vh.Outcome{Classes: []string{"kind=" + c.Kind, fmt.Sprintf("algo=%d", c.Algo), "issuer=" + c.Issuer, "validity=" + c.Validity, "slotdates=" + c.SlotDates}}
	tbs, sig, err := buildSignature(c)
	if err != nil {
		return out, nil
	}
	devSig := c.DevSig
	{
		// the signing key of the device certificate: its issuer's, or its own when self-signed; the
		// algorithm choice only exists for RSA issuers
		signKey := c.DevKey
		if c.Issuer != "self" && c.Issuer != "selftwin" {
			signKey = rootSpec(c.Issuer).Key
		}
		if !strings.HasPrefix(signKey, "rsa") {
			devSig = ""
		}
	}
	f9 := deviceCertExt(c.DevKey, c.Issuer, c.Validity, c.DevExt, devSig)
	if devSig != "" {
		out.Classes = append(out.Classes, "devsig="+devSig)
	}
	if c.DevExt != "" {
		out.Classes = append(out.Classes, "devext="+c.DevExt)
	}
	pool := x509.NewCertPool()
	inPool := false
	for _, r := range c.Pool {
		pool.AddCert(rootCert(r))
		if r == c.Issuer {
			inPool = true
		}
	}
	chainOK := inPool && c.Validity == "ok"
	slot := &x509.Certificate{SignatureAlgorithm: algo, RawTBSCertificate: tbs, Signature: sig}
	switch c.SlotDates {
	case "now":
		slot.NotBefore, slot.NotAfter = time.Now().Add(-time.Hour), time.Now().Add(time.Hour)
	case "past":
		slot.NotBefore, slot.NotAfter = time.Now().Add(-36*time.Hour), time.Now().Add(-30*time.Hour)
	case "future":
		slot.NotBefore, slot.NotAfter = time.Now().Add(36*time.Hour), time.Now().Add(40*time.Hour)
	}
	at := yubiattest.NewAttestorWithCAPool(pool)
	if strings.HasPrefix(c.Ctor, "files") {
		out.Classes = append(out.Classes, "ctor="+c.Ctor)
		f1, f2, ferr := rootFiles(c.Pool)
		if ferr != nil {
			return out, nil
		}
		// degenerate configurations: either refused, or nothing beyond the readable files is trusted
		loaded := c.Pool
		switch c.Ctor {
		case "files-none":
			f1, f2, loaded = "", "", nil
		case "files-missing":
			f1, f2, loaded = f1+".missing", f2+".missing", nil
		case "files-dir":
			f1, f2, loaded = filepath.Dir(f1), filepath.Dir(f2), nil
		case "files-first-empty":
			f1, loaded = "", c.Pool[1:]
			if len(c.Pool) == 1 {
				loaded = c.Pool
			}
		case "files-second-empty":
			f2, loaded = "", c.Pool[:1]
		case "files-oddnames":
			var oerr error
			if f1, f2, oerr = rootFilesOdd(c.Pool); oerr != nil {
				return out, nil
			}
		}
		var cerr error
		at, cerr = yubiattest.NewAttestor(f1, f2)
		if cerr != nil || at == nil {
			if c.Ctor == "files" || c.Ctor == "files-oddnames" {
				return out, vh.Errf("NewAttestor (%s) refused root files holding %v: %v", c.Ctor, c.Pool, cerr)
			}
			out.Classes = append(out.Classes, "degenerate-roots-refused")
			return out, nil
		}
		inPool = false
		for _, r := range loaded {
			if r == c.Issuer {
				inPool = true
			}
		}
		chainOK = inPool && c.Validity == "ok"
	}
	var aerr error
	if perr := vh.Catch(func() { aerr = at.Attest(f9, slot) }); perr != nil {
		return out, vh.Errf("Attest crashed: %v", perr)
	}
	accepted := aerr == nil
	// the verdict is a function of the two certificates and the pool, not of what was verified before:
	// after a genuine attestation under the same device key (accepted, if the chain is good) the same
	// call must give the same verdict
	if _, isRSA := f9.PublicKey.(*rsa.PublicKey); isRSA && c.Kind != "ecdsa-device" {
		gt, gs := genuineFor(c.DevKey)
		good := &x509.Certificate{SignatureAlgorithm: x509.SHA256WithRSA, RawTBSCertificate: gt, Signature: gs}
		var again error
		if perr := vh.Catch(func() { _ = at.Attest(f9, good); again = at.Attest(f9, slot) }); perr != nil {
			return out, vh.Errf("Attest crashed when repeated after a genuine attestation: %v", perr)
		}
		if (again == nil) != accepted {
			return out, vh.Errf("the same attestation (label %v, device key %s, kind %s) was judged differently before (%v) and after (%v) a genuine attestation under the same device key", algo, c.DevKey, c.Kind, aerr, again)
		}
	}

	// what the verifier sees: sig^e mod N, left-padded to the modulus length
	sigOK := false
	h, iff := labelHash(algo)
	var seen []byte
	if pub, isRSA := f9.PublicKey.(*rsa.PublicKey); isRSA && h != "" {
		k := (pub.N.BitLen() + 7) / 8
		m := new(big.Int).Exp(new(big.Int).SetBytes(sig), big.NewInt(int64(pub.E)), pub.N)
		seen = m.FillBytes(make([]byte, k))
		sigOK = acceptable(seen, h, tbs)
	}
	want := chainOK && sigOK
	out.NonTrivial = !(want && c.Kind == "form1")
	if want {
		out.Classes = append(out.Classes, "expect=accept")
	} else {
		out.Classes = append(out.Classes, "expect=reject")
	}
	if accepted && !want {
		return out, vh.Errf("Attest accepted: label %v, device key %s, issuer %s (in pool: %v), validity %s, kind %s; chain valid=%v, encoded message acceptable=%v\n EM seen: %x", algo, c.DevKey, c.Issuer, inPool, c.Validity, c.Kind, chainOK, sigOK, seen)
	}
	// an unknown critical extension may (and on the pinned tree does) make the verifier refuse a device
	// certificate that chains correctly: only the "accepted => valid" direction is judged then
	if c.Kind == "siglonger" {
		iff = false // zero bytes in front leave the signature VALUE unchanged: refusing the longer encoding is fine
	}
	if critical := (c.DevExt != "" && c.DevExt != "yubico-plain") || devSig == "sha1"; !accepted && want && iff && !critical {
		return out, vh.Errf("Attest refused a valid attestation (%v): label %v, device key %s, kind %s form %d hash %s\n EM seen: %x", aerr, algo, c.DevKey, c.Kind, c.Form, c.EMHash, seen)
	}
	return out, nil
}

const rule = "the harness owns the device RSA private key and signs arbitrary encoded messages (sig = EM^d mod N): correct form 1 (with NULL) and form 2 (without) for SHA-1/256/384/512; one byte replaced at a position drawn per class (00, 01, first / last / inner padding byte, separator, identifier, digest); shortened padding with shifted tail and garbage; short EM with 0..7 padding bytes; shortened padding (8 or more FF octets, or fewer) whose freed octets sit between the unaltered identifier and the digest that still ends the message; full-length EM whose DigestInfo is another DER / BER spelling (junk inside the algorithm identifier or behind the digest with adjusted lengths, long-form or indefinite lengths, other parameters, junk behind it); identifier of another hash; the label's digest behind the identifier of another algorithm (incl. RIPEMD-160, whose digests are as long as SHA-1's) or behind no identifier; digest of other data; single-bit flips of signature and body; arbitrary signature bytes; a genuine signature with one or two bytes added in front or one behind; genuine ECDSA signature under a non-RSA device key. A fifth of the cases keep the signature genuine and vary only the chain side (issuer, dates, extensions, the issuer's signature algorithm, constructor). Crossed with every signature-algorithm label 0..20, device key sizes 1024/1025/1031/1536/2047/2048 (a sixth of the root-issued device certificates carry the modulus under another public exponent: 3, 17, 2^31+1, 2^32+1, 2^40+1) (rarely 4096/4104/4608/6144; always, with 3072, in thorough), device certificate issued by a pool root / by a CA outside the pool / self-signed / expired / not yet valid, optionally carrying a vendor extension (Yubico arc, plain or critical) or another unknown critical extension (then only 'accepted => valid chain' is judged), signed by its issuer with SHA-256 / SHA-384 / SHA-512 or SHA-1 (which the platform verifier refuses by policy: only 'accepted => valid chain' is judged), pools of 1..3 roots handed over as a pool or (a third) as the two PEM files NewAttestor reads - and, in a fifteenth of all cases (always with a genuine signature, half of them under a device certificate issued by the CA the host trust store knows), as a degenerate configuration (both paths empty, missing files, directories, one path empty: either refused by the constructor or no root beyond the readable files is trusted) or as files whose names are also patterns ('...[x].piv.pem', '...?.u2f.pem') next to files those patterns match and which hold the CA that is not configured - the CA outside the pool is installed as this process's host trust store (SSL_CERT_FILE), i.e. a publicly trusted CA that is not configured -, slot certificate dated now / inside an expired device certificate's window / in the future / not at all (the chain must be judged at the current time). Oracle: the harness recomputes sig^e mod N itself; the verdict is the same when the call is repeated after a genuine attestation under the same device key; for *WithRSA SHA labels Attest = nil iff chain valid now and EM is form 1 or form 2 of the label's digest; DSA/ECDSA labels only-if; everything else must be refused. Non-trivial: every case except 'everything valid, form 1'."

func TestC06Attest(t *testing.T) {
	vh.Run(t, vh.Spec[Case]{Property: "C06", Name: "TestC06Attest", Rule: rule, Gen: genCase, Exec: exec})
}

// TestC06PositionSweep replaces every byte position of a correct encoded message (one key, one hash
// per run chosen by the shard seed) by three other values: a complete sweep of the position axis.
type SweepCase struct {
	DevKey string
	Hash   string
	Form   int
	Pos    int
	Delta  int
}

func TestC06PositionSweep(t *testing.T) {
	dev := "rsa1024a"
	var cases []SweepCase
	for _, h := range []string{"sha1", "sha256", "sha384", "sha512"} {
		for form := 1; form <= 2; form++ {
			for pos := 0; pos < 128; pos++ {
				for _, d := range []int{1, 0x80, 0xff} {
					cases = append(cases, SweepCase{dev, h, form, pos, d})
				}
			}
		}
	}
	algoOf := map[string]int{"sha1": 3, "sha256": 4, "sha384": 5, "sha512": 6}
	vh.Enumerate(t, vh.Spec[SweepCase]{Property: "C06", Name: "TestC06PositionSweep", Exhaustive: true,
		Rule: "for the 1024-bit device key, each of the 4 hashes and both identifier forms: every byte position 0..127 of the correct encoded message XOR-ed with 0x01, 0x80 and 0xff (3072 points, complete over positions); same oracle",
		Exec: func(s SweepCase) (vh.Outcome, error) {
			key := vh.RSAKey(s.DevKey)
			k := (key.N.BitLen() + 7) / 8
			prefix := prefixNULL[s.Hash]
			if s.Form == 2 {
				prefix = withoutNULL(prefix)
			}
			tbs := []byte("to-be-signed bytes of the slot certificate")
			em := encoded(k, prefix, digest(s.Hash, tbs))
			orig := em[s.Pos]
			c := Case{DevKey: s.DevKey, Issuer: "rootA", Validity: "ok", Pool: []string{"rootA"}, Algo: algoOf[s.Hash], Kind: "replace",
				EMHash: s.Hash, Form: s.Form, Pos: s.Pos, NewByte: int(orig) ^ s.Delta, TBS: tbs}
			return exec(c)
		}}, cases)
}

// TestC06ChainTime: device certificate validity x dates of the slot certificate, everything else valid.
// TestC06KeySizes: every RSA device key size of the pool, from 1024 to 6144 bits.
func TestC06KeySizes(t *testing.T) {
	var cases []Case
	tbs := []byte("slot certificate body")
	for _, dev := range []string{"rsa1024a", "rsa1025", "rsa1031", "rsa1536", "rsa2047", "rsa2048d", "rsa3072", "rsa4096", "rsa4104", "rsa4608", "rsa6144"} {
		for _, algo := range []int{4, 6} {
			h := map[int]string{4: "sha256", 6: "sha512"}[algo]
			base := Case{DevKey: dev, Issuer: "rootA", Validity: "ok", Pool: []string{"rootA"}, Algo: algo, EMHash: h, TBS: tbs, SlotDates: "zero", Form: 1}
			for _, kind := range []string{"form1", "form2", "otherdata", "sigflip", "tbsflip", "shortem", "sigrandom"} {
				c := base
				c.Kind = kind
				if kind == "form2" {
					c.Form = 2
				}
				c.OtherTBS, c.FlipBit, c.PadLen, c.Garbage = []byte("another body"), 77, 3, []byte{1, 2, 3, 4, 5}
				cases = append(cases, c)
			}
		}
	}
	vh.Enumerate(t, vh.Spec[Case]{Property: "C06", Name: "TestC06KeySizes", Exhaustive: true,
		Rule: "RSA device keys of 1024, 1025, 1031, 1536, 2047, 2048, 3072, 4096, 4104, 4608 and 6144 bits (certified by a pool root) x SHA-256 / SHA-512 x {genuine form 1, genuine form 2, digest of other data, one signature bit flipped, one body bit flipped, short encoded message, arbitrary signature bytes} (154 points); same oracle: the genuine ones are accepted, everything else refused, for every size",
		Exec: func(c Case) (vh.Outcome, error) {
			o, err := exec(c)
			o.NonTrivial = true
			return o, err
		}}, cases)
}

func TestC06ChainTime(t *testing.T) {
	var cases []Case
	tbs := []byte("slot certificate body")
	for _, validity := range []string{"ok", "expired", "future"} {
		for _, sd := range []string{"zero", "now", "past", "future"} {
			for _, algo := range []int{3, 4, 5, 6} {
				cases = append(cases, Case{DevKey: "rsa1024b", Issuer: "rootA", Validity: validity, Pool: []string{"rootA"}, Algo: algo, Kind: "form1", Form: 1,
					EMHash: map[int]string{3: "sha1", 4: "sha256", 5: "sha384", 6: "sha512"}[algo], TBS: tbs, SlotDates: sd})
			}
		}
	}
	vh.Enumerate(t, vh.Spec[Case]{Property: "C06", Name: "TestC06ChainTime", Exhaustive: true,
		Rule: "device certificate {valid, expired, not yet valid} x slot certificate dated {not at all, now, inside the expired window, inside the future window} x 4 hashes with a genuine signature (48 points): accepted iff the device certificate is valid at the current time, whatever dates the slot certificate carries",
		Exec: func(c Case) (vh.Outcome, error) {
			o, err := exec(c)
			o.NonTrivial = true
			return o, err
		}}, cases)
}

// TestC06Sequence: several attestations on ONE Attestor (state carried over between calls must not matter).
type SeqCall struct {
	DevKey   string
	Issuer   string
	Validity string
}

type SeqCase struct {
	Calls []SeqCall
}

func TestC06Sequence(t *testing.T) {
	vh.Run(t, vh.Spec[SeqCase]{Property: "C06", Name: "TestC06Sequence",
		Rule: "2..5 attestations on one Attestor (pool = root A): device certificates for the same or another device key issued by root A, by another CA that carries root A's name, self-signed under root A's name, by a foreign CA; valid / expired; all with the same serial number and a genuine signature over the slot certificate. Oracle per call, independent of the calls before it: accepted iff issued by root A and valid now. Non-trivial: a genuine call followed by an impostor call.",
		Gen: func(t *rapid.T) SeqCase {
			n := rapid.IntRange(2, 5).Draw(t, "n")
			c := SeqCase{}
			for i := 0; i < n; i++ {
				c.Calls = append(c.Calls, SeqCall{
					DevKey:   rapid.SampledFrom([]string{"rsa1024a", "rsa1024a", "rsa1536"}).Draw(t, fmt.Sprintf("dev%d", i)),
					Issuer:   rapid.SampledFrom([]string{"rootA", "rootA", "twinA", "selftwin", "foreign", "self"}).Draw(t, fmt.Sprintf("iss%d", i)),
					Validity: rapid.SampledFrom([]string{"ok", "ok", "ok", "expired"}).Draw(t, fmt.Sprintf("val%d", i)),
				})
			}
			return c
		},
		Exec: func(c SeqCase) (vh.Outcome, error) {
			out := vh.Outcome{}
			pool := x509.NewCertPool()
			pool.AddCert(rootCert("rootA"))
			at := yubiattest.NewAttestorWithCAPool(pool)
			tbs := []byte("slot certificate body for the sequence check")
			seenGenuine := false
			for i, call := range c.Calls {
				key := vh.RSAKey(call.DevKey)
				k := (key.N.BitLen() + 7) / 8
				em := encoded(k, prefixNULL["sha256"], digest("sha256", tbs))
				sig := new(big.Int).Exp(new(big.Int).SetBytes(em), key.D, key.N).FillBytes(make([]byte, k))
				f9 := deviceCert(call.DevKey, call.Issuer, call.Validity)
				slot := &x509.Certificate{SignatureAlgorithm: x509.SHA256WithRSA, RawTBSCertificate: tbs, Signature: sig}
				var aerr error
				if perr := vh.Catch(func() { aerr = at.Attest(f9, slot) }); perr != nil {
					return out, vh.Errf("call %d: Attest crashed: %v", i, perr)
				}
				want := call.Issuer == "rootA" && call.Validity == "ok"
				if want {
					seenGenuine = true
				} else if seenGenuine {
					out.NonTrivial = true
				}
				out.Classes = append(out.Classes, "issuer="+call.Issuer)
				if (aerr == nil) != want {
					return out, vh.Errf("call %d of %+v on one Attestor: Attest returned %v for a device certificate issued by %s (%s); expected accepted=%v", i, c.Calls, aerr, call.Issuer, call.Validity, want)
				}
			}
			return out, nil
		}})
}

// TestC06RealDER goes through real DER: a slot certificate created by a conforming encoder and signed
// by the device key must attest (form 1), and the same certificate re-signed with form 2 as well.
type DERCase struct {
	DevKey  string
	SlotKey string
	Algo    int
	Form2   bool
	Issuer  string
}

func TestC06RealDER(t *testing.T) {
	vh.Run(t, vh.Spec[DERCase]{Property: "C06", Name: "TestC06RealDER",
		Rule: "slot certificates produced by x509.CreateCertificate under the device certificate (RSA and ECDSA slot keys, SHA-1/256/384/512 with RSA), parsed by the repository's lenient parser, attested as is (form 1) and with the signature replaced by a form-2 signature over the same body; device certificate issued by a pool root or a foreign CA. Non-trivial: form 2 or foreign issuer.",
		Gen: func(t *rapid.T) DERCase {
			return DERCase{
				DevKey:  rapid.SampledFrom([]string{"rsa1024a", "rsa1536", "rsa2048d", "rsa2047"}).Draw(t, "dev"),
				SlotKey: rapid.SampledFrom([]string{"rsa2048c", "p256b", "p384a", "rsa1024b"}).Draw(t, "slot"),
				Algo:    rapid.SampledFrom([]int{3, 4, 5, 6}).Draw(t, "algo"),
				Form2:   rapid.Bool().Draw(t, "form2"),
				Issuer:  rapid.SampledFrom([]string{"rootA", "rootA", "rootB", "foreign"}).Draw(t, "issuer"),
			}
		},
		Exec: func(c DERCase) (vh.Outcome, error) {
			out := vh.Outcome{NonTrivial: c.Form2 || c.Issuer == "foreign", Classes: []string{fmt.Sprintf("form2=%v", c.Form2), "issuer=" + c.Issuer}}
			f9 := deviceCert(c.DevKey, c.Issuer, "ok")
			_, der, err := vh.MakeCert(vh.CertSpec{CN: "YubiKey PIV Attestation 9a", Key: c.SlotKey, Issuer: f9, IssuerKey: c.DevKey, SigAlg: x509.SignatureAlgorithm(c.Algo), Serial: 1234})
			if err != nil {
				return out, nil // e.g. SHA-1 signing refused by the encoder: outside the domain
			}
			slot, err := yubiattest.ParseCertificate(der)
			if err != nil {
				return out, vh.Errf("lenient parser refused a conforming slot certificate: %v", err)
			}
			if c.Form2 {
				hname := map[int]string{3: "sha1", 4: "sha256", 5: "sha384", 6: "sha512"}[c.Algo]
				key := vh.RSAKey(c.DevKey)
				k := (key.N.BitLen() + 7) / 8
				em := encoded(k, withoutNULL(prefixNULL[hname]), digest(hname, slot.RawTBSCertificate))
				s := new(big.Int).Exp(new(big.Int).SetBytes(em), key.D, key.N)
				slot.Signature = s.FillBytes(make([]byte, k))
			}
			pool := x509.NewCertPool()
			pool.AddCert(rootCert("rootA"))
			pool.AddCert(rootCert("rootB"))
			var aerr error
			if perr := vh.Catch(func() { aerr = yubiattest.NewAttestorWithCAPool(pool).Attest(f9, slot) }); perr != nil {
				return out, vh.Errf("Attest crashed: %v", perr)
			}
			if c.Issuer == "foreign" {
				if aerr == nil {
					return out, vh.Errf("Attest accepted a device certificate issued outside the root pool")
				}
				return out, nil
			}
			if aerr != nil {
				return out, vh.Errf("Attest refused a genuine attestation (device %s, slot %s, algo %d, form2=%v): %v", c.DevKey, c.SlotKey, c.Algo, c.Form2, aerr)
			}
			return out, nil
		}})
}
