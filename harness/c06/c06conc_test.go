package c06

// TestC06Concurrent: attestation is a function of the two certificates and the pool, also when several
// verifications run at the same time (a server attests slots of many requests side by side): the
// sequential oracle applied from 2..16 goroutines to a mix of genuine and forged signatures.

import (
	"fmt"
	"testing"

	"github.com/theparanoids/ysshra/zzverif/vh"
	"pgregory.net/rapid"
)

type ConcCase struct {
	Cases      []Case
	Goroutines int
	Rounds     int
}

func TestC06Concurrent(t *testing.T) {
	vh.Run(t, vh.Spec[ConcCase]{Property: "C06", Name: "TestC06Concurrent",
		Rule: "4..12 attestations of TestC06Attest's generator (genuine ones and forged ones mixed: other data, flipped bits, wrong identifier, bad chains), each judged 3..20 times by 2..16 goroutines at the same moment. Oracle: TestC06Attest's, unchanged, for every call (inputs it rejects when used alone are left to the sequential check). Non-trivial: a genuine and a forged case in the mix.",
		Gen: func(t *rapid.T) ConcCase {
			c := ConcCase{Goroutines: rapid.SampledFrom([]int{2, 4, 8, 16}).Draw(t, "goroutines"), Rounds: rapid.SampledFrom([]int{3, 8, 20}).Draw(t, "rounds")}
			for i, n := 0, rapid.IntRange(4, 12).Draw(t, "n"); i < n; i++ {
				cs := genCase(t)
				cs.Ctor = "" // building PEM files per call is not the subject here
				c.Cases = append(c.Cases, cs)
			}
			return c
		},
		Exec: func(c ConcCase) (vh.Outcome, error) {
			out := vh.Outcome{Classes: []string{fmt.Sprintf("goroutines=%d", c.Goroutines)}}
			genuine, forged := false, false
			for _, cs := range c.Cases {
				if cs.Kind == "form1" || cs.Kind == "form2" {
					genuine = true
				} else {
					forged = true
				}
			}
			judged, err := vh.Concurrently(c.Goroutines, c.Rounds, len(c.Cases), func(i int) error {
				_, e := exec(c.Cases[i])
				return e
			})
			out.NonTrivial = judged && genuine && forged
			return out, err
		}})
}
