package c06

// TestC06AttestorAge: "at the current time" means the time of the call, also for an Attestor that was
// built a while ago: a device certificate that expires, or becomes valid, between construction and the
// call is judged by the clock at the call.

import (
	"strings"
	"crypto/x509"
	"math/big"
	"sync"
	"testing"
	"time"

	"github.com/theparanoids/ysshra/attestation/yubiattest"
	"github.com/theparanoids/ysshra/zzverif/vh"
)

type AgeCase struct {
	Scenarios []string // "<expiring|starting>/<pool|files>"
	WaitMS    int
}

func ageScenario(name string, wait time.Duration) error {
	hostTrustStore()
	kind, ctor, _ := strings.Cut(name, "/")
	pool := x509.NewCertPool()
	pool.AddCert(rootCert("rootA"))
	at := yubiattest.NewAttestorWithCAPool(pool)
	if ctor == "files" {
		f1, f2, ferr := rootFiles([]string{"rootA"})
		if ferr != nil {
			return nil
		}
		var cerr error
		if at, cerr = yubiattest.NewAttestor(f1, f2); cerr != nil {
			return vh.Errf("%s: NewAttestor: %v", name, cerr)
		}
	}
	built := time.Now()
	// the boundary lies 2 s (rounded down to a whole second by the encoding) after construction
	edge := built.Add(2 * time.Second).Truncate(time.Second)
	spec := vh.CertSpec{CN: "Yubico PIV Attestation age", Key: "rsa1024a", IsCA: true, Serial: 98, Issuer: rootCert("rootA"), IssuerKey: rootSpec("rootA").Key}
	if kind == "expiring" {
		spec.NotBefore, spec.NotAfter = built.Add(-time.Hour), edge
	} else {
		spec.NotBefore, spec.NotAfter = edge, built.Add(time.Hour)
	}
	f9, _, err := vh.MakeCert(spec)
	if err != nil {
		return nil
	}
	key := vh.RSAKey("rsa1024a")
	k := (key.N.BitLen() + 7) / 8
	tbs := []byte("slot certificate body for the age check")
	em := encoded(k, prefixNULL["sha256"], digest("sha256", tbs))
	sig := new(big.Int).Exp(new(big.Int).SetBytes(em), key.D, key.N).FillBytes(make([]byte, k))
	slot := &x509.Certificate{SignatureAlgorithm: x509.SHA256WithRSA, RawTBSCertificate: tbs, Signature: sig}
	// first look, right after construction (before the boundary unless the machine stalled)
	var first error
	if perr := vh.Catch(func() { first = at.Attest(f9, slot) }); perr != nil {
		return vh.Errf("%s: Attest crashed: %v", name, perr)
	}
	firstAt := time.Now()
	time.Sleep(time.Until(edge.Add(wait)))
	var second error
	if perr := vh.Catch(func() { second = at.Attest(f9, slot) }); perr != nil {
		return vh.Errf("%s: Attest crashed: %v", name, perr)
	}
	if firstAt.Before(edge.Add(-200 * time.Millisecond)) {
		// judged only when the first call was clearly before the boundary
		if kind == "expiring" && first != nil {
			return vh.Errf("%s: the device certificate was still valid for over 200 ms at the first call, yet it was refused: %v", name, first)
		}
		if kind == "starting" && first == nil {
			return vh.Errf("%s: the device certificate was not valid yet at the first call (it starts %s later), yet it was accepted", name, edge.Sub(firstAt).Round(time.Millisecond))
		}
	}
	if kind == "expiring" && second == nil {
		return vh.Errf("%s: the device certificate expired %s before the second call on the same Attestor (built %s before that call), yet it was accepted", name, wait, time.Since(built).Round(time.Millisecond))
	}
	if kind == "starting" && second != nil {
		return vh.Errf("%s: the device certificate became valid %s before the second call on the same Attestor (built %s before that call), yet it was refused: %v", name, wait, time.Since(built).Round(time.Millisecond), second)
	}
	return nil
}

func TestC06AttestorAge(t *testing.T) {
	sc := []string{"expiring/pool", "expiring/files", "starting/pool", "starting/files"}
	cases := []AgeCase{{Scenarios: sc, WaitMS: 1500}}
	if vh.Thorough() {
		cases = append(cases, AgeCase{Scenarios: sc, WaitMS: 6000})
	}
	vh.Enumerate(t, vh.Spec[AgeCase]{Property: "C06", Name: "TestC06AttestorAge", Exhaustive: true,
		Rule: "an Attestor (built from a pool or from files) is used twice: right after construction and again 1.5 s (thorough: also 6 s) after a boundary that lies 2 s after construction - the end of the device certificate's validity, or its start; genuine signature, root in the pool (4 scenarios side by side). Oracle: the second call is judged by the clock at the call: the expired certificate is refused, the now-valid one accepted; the first call the other way round when it clearly preceded the boundary",
		Exec: func(c AgeCase) (vh.Outcome, error) {
			out := vh.Outcome{NonTrivial: true}
			errs := make([]error, len(c.Scenarios))
			var wg sync.WaitGroup
			for i, s := range c.Scenarios {
				i, s := i, s
				wg.Add(1)
				go func() { defer wg.Done(); errs[i] = ageScenario(s, time.Duration(c.WaitMS)*time.Millisecond) }()
			}
			wg.Wait()
			for _, e := range errs {
				if e != nil {
					return out, e
				}
			}
			return out, nil
		}}, cases)
}
