package c06

// TestC06RootsReplaced: the root files are replaced on disk (a roll-over deployed by a tool that preserves
// time stamps, an image rebuilt with normalised dates) and a new Attestor is built from the same paths.
// "Chains to the configured root pool" means the files as they are when the Attestor is built.

import (
	"crypto/x509"
	"fmt"
	"os"
	"path/filepath"
	"testing"
	"time"

	"github.com/theparanoids/ysshra/attestation/yubiattest"
	"github.com/theparanoids/ysshra/zzverif/vh"
)

type ReplacedCase struct {
	First, Second string // the root the two files hold before and after the replacement
	KeepMtime     bool   // the replacement keeps the files' modification time (and, for roots of equal key size, their length)
}

func TestC06RootsReplaced(t *testing.T) {
	var cases []ReplacedCase
	for _, pair := range [][2]string{{"rootA", "rootC"}, {"rootC", "rootA"}, {"rootA", "rootB"}, {"rootA", "foreign"}} {
		for _, keep := range []bool{true, false} {
			cases = append(cases, ReplacedCase{First: pair[0], Second: pair[1], KeepMtime: keep})
		}
	}
	vh.Enumerate(t, vh.Spec[ReplacedCase]{Property: "C06", Name: "TestC06RootsReplaced", Exhaustive: true,
		Rule: "two root files hold root X; an Attestor is built from them and used; the files are overwritten with root Y (X, Y from two RSA-2048 roots of equal encoded length, an ECDSA root, the CA the host trust store knows), keeping or not keeping their modification time; a second Attestor is built from the same paths (8 points). Oracle: with genuine signatures, the second Attestor accepts the device certificate issued by Y and refuses the one issued by X; the first Attestor's verdicts are not judged after the replacement",
		Exec: func(c ReplacedCase) (vh.Outcome, error) {
			out := vh.Outcome{NonTrivial: true}
			d := hostTrustStore()
			if d == "" {
				return out, nil
			}
			dir, err := os.MkdirTemp(d, "replaced")
			if err != nil {
				return out, nil
			}
			defer os.RemoveAll(dir)
			f1, f2 := filepath.Join(dir, "piv.pem"), filepath.Join(dir, "u2f.pem")
			write := func(root string) error {
				pem := vh.PEMCert(rootCert(root).Raw)
				if e := os.WriteFile(f1, pem, 0o644); e != nil {
					return e
				}
				return os.WriteFile(f2, pem, 0o644)
			}
			stamp := time.Now().Add(-time.Hour).Truncate(time.Second)
			if write(c.First) != nil || os.Chtimes(f1, stamp, stamp) != nil || os.Chtimes(f2, stamp, stamp) != nil {
				return out, nil
			}
			dev := "rsa2048d"
			gt, gs := genuineFor(dev)
			slot := &x509.Certificate{SignatureAlgorithm: x509.SHA256WithRSA, RawTBSCertificate: gt, Signature: gs}
			byFirst, bySecond := deviceCertExt(dev, c.First, "ok", "", ""), deviceCertExt(dev, c.Second, "ok", "", "")
			at1, err := yubiattest.NewAttestor(f1, f2)
			if err != nil {
				return out, vh.Errf("NewAttestor refused files holding %s: %v", c.First, err)
			}
			if e := at1.Attest(byFirst, slot); e != nil {
				return out, vh.Errf("the first Attestor (files hold %s) refused a genuine attestation under a device certificate issued by %s: %v", c.First, c.First, e)
			}
			if write(c.Second) != nil {
				return out, nil
			}
			if c.KeepMtime {
				if os.Chtimes(f1, stamp, stamp) != nil || os.Chtimes(f2, stamp, stamp) != nil {
					return out, nil
				}
			}
			at2, err := yubiattest.NewAttestor(f1, f2)
			if err != nil {
				return out, vh.Errf("NewAttestor refused the replaced files holding %s: %v", c.Second, err)
			}
			where := fmt.Sprintf("files first held %s, were overwritten with %s (modification time kept: %v), and a new Attestor was built from the same paths", c.First, c.Second, c.KeepMtime)
			if e := at2.Attest(byFirst, slot); e == nil {
				return out, vh.Errf("%s: it accepts a device certificate issued by %s, which is no longer configured", where, c.First)
			}
			if e := at2.Attest(bySecond, slot); e != nil {
				return out, vh.Errf("%s: it refuses a genuine attestation under a device certificate issued by %s: %v", where, c.Second, e)
			}
			return out, nil
		}}, cases)
}
