package c06

// TestC06OddDeviceKeys: "non-RSA device keys are rejected" - for every kind of key a device certificate can
// carry, not only the ones crypto/x509 can issue: ECDSA, Ed25519, X25519, DSA, RSASSA-PSS-restricted and
// keys of an algorithm the platform does not know (its parser hands those back without a key object).

import (
	"crypto/ecdh"
	"crypto/rand"
	"crypto/rsa"
	"crypto/sha256"
	"crypto/x509"
	"encoding/asn1"
	"fmt"
	"math/big"
	"testing"

	"github.com/theparanoids/ysshra/attestation/yubiattest"
	"github.com/theparanoids/ysshra/zzverif/vh"
)

type OddKeyCase struct {
	DevKind string // ecdsa | ed25519 | x25519 | dsa | rsa-pss | unknown
	Label   int    // the slot certificate's signature-algorithm label
	Sig     string // random | rsa-genuine (a valid PKCS#1 signature by an unrelated RSA key) | empty
}

func oddDeviceCert(kind string) (*x509.Certificate, error) {
	root, rootKey := rootCert("rootA"), rootSpec("rootA").Key
	spec := vh.CertSpec{CN: "Yubico PIV Attestation odd " + kind, Key: "p256b", IsCA: true, Serial: 98, Issuer: root, IssuerKey: rootKey}
	switch kind {
	case "ecdsa":
		c, _, err := vh.MakeCert(spec)
		return c, err
	case "ed25519":
		spec.Key = "ed25519c"
		c, _, err := vh.MakeCert(spec)
		return c, err
	}
	_, der, err := vh.MakeCert(spec)
	if err != nil {
		return nil, err
	}
	var spki []byte
	switch kind {
	case "x25519":
		k, kerr := ecdh.X25519().GenerateKey(rand.Reader)
		if kerr != nil {
			return nil, kerr
		}
		oid, _ := asn1.Marshal(asn1.ObjectIdentifier{1, 3, 101, 110})
		spki = vh.SPKI(oid, k.PublicKey().Bytes())
	case "dsa":
		d := vh.DSAKey()
		oid, _ := asn1.Marshal(asn1.ObjectIdentifier{1, 2, 840, 10040, 4, 1})
		params, _ := asn1.Marshal(struct{ P, Q, G *big.Int }{d.P, d.Q, d.G})
		y, _ := asn1.Marshal(d.Y)
		spki = vh.SPKI(append(oid, params...), y)
	case "rsa-pss":
		oid, _ := asn1.Marshal(asn1.ObjectIdentifier{1, 2, 840, 113549, 1, 1, 10})
		pub := vh.RSAKey("rsa2048b").PublicKey
		bits, _ := asn1.Marshal(struct {
			N *big.Int
			E int
		}{pub.N, pub.E})
		spki = vh.SPKI(oid, bits)
	default: // an algorithm nobody knows
		oid, _ := asn1.Marshal(asn1.ObjectIdentifier{1, 2, 3, 4, 5, 6, 7})
		spki = vh.SPKI(append(oid, 5, 0), []byte{1, 2, 3, 4, 5, 6, 7, 8})
	}
	nd, ok := vh.ReplaceSPKI(der, spki, rootKey)
	if !ok {
		return nil, fmt.Errorf("cannot rewrite the key of the device certificate")
	}
	return x509.ParseCertificate(nd)
}

func TestC06OddDeviceKeys(t *testing.T) {
	var cases []OddKeyCase
	for _, k := range []string{"ecdsa", "ed25519", "x25519", "dsa", "rsa-pss", "unknown"} {
		for _, l := range []int{0, 4, 7, 10, 13, 16} { // unknown, SHA256-RSA, DSA-SHA256, ECDSA-SHA256, SHA256-RSAPSS, Ed25519
			for _, s := range []string{"random", "rsa-genuine", "empty"} {
				cases = append(cases, OddKeyCase{DevKind: k, Label: l, Sig: s})
			}
		}
	}
	vh.Enumerate(t, vh.Spec[OddKeyCase]{Property: "C06", Name: "TestC06OddDeviceKeys", Exhaustive: true,
		Rule: "device certificates validly issued by a pool root for a key of type ECDSA P-256, Ed25519, X25519, DSA, RSASSA-PSS-restricted RSA, and of an algorithm the platform does not know (the last four by rewriting the subjectPublicKeyInfo and signing the body with the root's key) x slot-certificate label {unknown, SHA256-RSA, DSA-SHA256, ECDSA-SHA256, SHA256-RSAPSS, Ed25519} x signature {64 arbitrary bytes, a valid PKCS#1 v1.5 signature by an unrelated RSA key, none} (108 points). The chain is valid in every point. Oracle: Attest refuses every one of them and does not crash. Non-trivial: every point",
		Exec: func(c OddKeyCase) (vh.Outcome, error) {
			out := vh.Outcome{NonTrivial: true, Classes: []string{"device-key=" + c.DevKind}}
			hostTrustStore()
			f9, err := oddDeviceCert(c.DevKind)
			if err != nil {
				out.Classes = append(out.Classes, "platform-cannot-parse-this-device-certificate(not judged)")
				out.NonTrivial = false
				return out, nil
			}
			tbs := []byte("slot certificate body under an odd device key")
			var sig []byte
			switch c.Sig {
			case "random":
				sig = make([]byte, 64)
				for i := range sig {
					sig[i] = byte(i*37 + 11)
				}
			case "rsa-genuine":
				d := sha256.Sum256(tbs)
				sig, _ = rsa.SignPKCS1v15(rand.Reader, vh.RSAKey("rsa2048b"), 5, d[:]) // crypto.SHA256 = 5
			}
			slot := &x509.Certificate{SignatureAlgorithm: x509.SignatureAlgorithm(c.Label), RawTBSCertificate: tbs, Signature: sig}
			pool := x509.NewCertPool()
			pool.AddCert(rootCert("rootA"))
			at := yubiattest.NewAttestorWithCAPool(pool)
			var aerr error
			if perr := vh.Catch(func() { aerr = at.Attest(f9, slot) }); perr != nil {
				return out, vh.Errf("Attest crashed for a device certificate with a %s key: %v", c.DevKind, perr)
			}
			if aerr == nil {
				return out, vh.Errf("Attest accepted a slot certificate (label %v, signature: %s) under a device certificate whose key is of type %s (%T): only RSA device keys can attest", x509.SignatureAlgorithm(c.Label), c.Sig, c.DevKind, f9.PublicKey)
			}
			return out, nil
		}}, cases)
}

// TestC06LabelGrid: every signature-algorithm label against a well-formed PKCS#1 v1.5 signature of every hash.
func TestC06LabelGrid(t *testing.T) {
	var cases []Case
	tbs := []byte("slot certificate body for the label grid")
	for label := 0; label <= 20; label++ {
		for _, h := range []string{"sha1", "sha256", "sha384", "sha512"} {
			for form := 1; form <= 2; form++ {
				cases = append(cases, Case{DevKey: "rsa2048d", Issuer: "rootA", Validity: "ok", Pool: []string{"rootA"}, Algo: label, EMHash: h, TBS: tbs, SlotDates: "zero",
					Form: form, Kind: map[int]string{1: "form1", 2: "form2"}[form]})
			}
		}
	}
	vh.Enumerate(t, vh.Spec[Case]{Property: "C06", Name: "TestC06LabelGrid", Exhaustive: true,
		Rule: "a valid chain and a well-formed PKCS#1 v1.5 signature by the device key over the SHA-1 / SHA-256 / SHA-384 / SHA-512 digest of the body, in form 1 and form 2, under EVERY signature-algorithm label 0..20 (168 points). Same oracle as TestC06Attest: accepted exactly under the *WithRSA label of that hash (DSA / ECDSA labels of that hash: either verdict); every other label - MD2 / MD5, the RSASSA-PSS labels, Ed25519, unknown ones - is refused",
		Exec: func(c Case) (vh.Outcome, error) {
			o, err := exec(c)
			o.NonTrivial = true
			return o, err
		}}, cases)
}
