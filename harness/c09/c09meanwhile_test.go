package c09

// TestC09AddedMeanwhile: another client of the same underlying agent adds YSSHCA certificates WHILE the
// shim agent is answering (between two requests the shim sends to the underlying agent within one
// operation). "Added later" has no safe moment: whatever the answer contains, it is free of YSSHCA
// certificates of the underlying agent in no-upstream mode.

import (
	"fmt"
	"sync"
	"testing"

	"github.com/theparanoids/ysshra/agent/shimagent"
	"github.com/theparanoids/ysshra/zzverif/vh"
	"golang.org/x/crypto/ssh"
	"golang.org/x/crypto/ssh/agent"
	"pgregory.net/rapid"
)

type MeanwhileCase struct {
	NoUpstream bool
	// Classes of the certificates added meanwhile (KeyID classes of the shim generator)
	Classes []string
	// AtRequest: the certificates are added when the AtRequest-th request (1-based) of the operation arrives at the underlying agent
	AtRequest int
	Op        string // list | signers | sign
	Comp      string
}

func execMeanwhile(c MeanwhileCase) (vh.Outcome, error) {
	out := vh.Outcome{NonTrivial: c.NoUpstream, Classes: []string{"op=" + c.Op, fmt.Sprintf("noUpstream=%v", c.NoUpstream)}}
	p, err := vh.NewProxy()
	if err != nil {
		return out, nil
	}
	defer p.Close()
	_ = p.Ring().Add(agent.AddedKey{PrivateKey: vh.Key("p256b"), Comment: "token key"})
	_ = p.Ring().Add(agent.AddedKey{PrivateKey: vh.Key("ed25519b"), Comment: "other key"})
	sh, serr := shimagent.New(shimagent.Option{Address: p.Path, NoUpstream: c.NoUpstream, PubKeyComp: vh.PubKeyComp(c.Comp)})
	if serr != nil {
		return out, vh.Errf("shimagent.New: %v", serr)
	}
	defer func() { _ = vh.Catch(func() { sh.Close() }) }()
	var added []*ssh.Certificate
	for i, cl := range c.Classes {
		added = append(added, vh.ShimCert(vh.CertDef{Key: "p256b", KeyIDClass: cl, Validity: "forever", Serial: uint64(3000 + i)}))
	}
	var mu sync.Mutex
	seen, done := 0, false
	p.Hook = func(idx int, req []byte) ([]byte, bool, bool) {
		mu.Lock()
		defer mu.Unlock()
		seen++
		if !done && seen == c.AtRequest {
			done = true
			for _, ct := range added {
				_ = p.Ring().Add(agent.AddedKey{PrivateKey: vh.Key("p256b"), Certificate: ct, Comment: "added by another client"})
			}
		}
		return nil, false, false
	}
	var blobs [][]byte
	var opErr error
	perr := vh.Catch(func() {
		switch c.Op {
		case "list":
			var ks []*agent.Key
			ks, opErr = sh.List()
			for _, k := range ks {
				blobs = append(blobs, k.Blob)
			}
		case "signers":
			var ss []ssh.Signer
			ss, opErr = sh.Signers()
			for _, s := range ss {
				blobs = append(blobs, s.PublicKey().Marshal())
			}
		case "sign":
			if len(added) > 0 {
				var sig *ssh.Signature
				sig, opErr = sh.Sign(added[0], []byte("data"))
				if opErr == nil && sig != nil && c.NoUpstream && vh.IsYSSHCA(added[0]) {
					blobs = append(blobs, added[0].Marshal())
				}
			}
		}
	})
	p.Hook = nil
	if perr != nil {
		return out, vh.Errf("%s crashed: %v", c.Op, perr)
	}
	mu.Lock()
	reached := done
	mu.Unlock()
	if !reached {
		out.NonTrivial = false
		return out, nil
	}
	out.Classes = append(out.Classes, "added-meanwhile")
	if !c.NoUpstream || opErr != nil {
		return out, nil
	}
	for _, b := range blobs {
		pk, e := ssh.ParsePublicKey(b)
		if e != nil {
			continue
		}
		if ct, ok := pk.(*ssh.Certificate); ok && vh.IsYSSHCA(ct) {
			return out, vh.Errf("no-upstream mode, %s: %d certificate(s) (KeyID classes %v) were added to the underlying agent by another client when the operation's request #%d arrived there; the answer contains the YSSHCA certificate serial %d (KeyID %.60q)", c.Op, len(added), c.Classes, c.AtRequest, ct.Serial, ct.KeyId)
		}
	}
	// and afterwards they stay hidden
	ks, lerr := sh.List()
	if lerr != nil {
		return out, vh.Errf("list after %s failed: %v", c.Op, lerr)
	}
	for _, k := range ks {
		if pk, e := ssh.ParsePublicKey(k.Blob); e == nil {
			if ct, ok := pk.(*ssh.Certificate); ok && vh.IsYSSHCA(ct) {
				return out, vh.Errf("no-upstream mode: the listing after %s shows the YSSHCA certificate serial %d added by another client", c.Op, ct.Serial)
			}
		}
	}
	return out, nil
}

func TestC09AddedMeanwhile(t *testing.T) {
	vh.Run(t, vh.Spec[MeanwhileCase]{Property: "C09", Name: "TestC09AddedMeanwhile",
		Rule: "a shim (no-upstream in three quarters of the cases, every listing order) over an underlying agent with two keys; during one list / signers / sign operation, when its 1st..4th request arrives at the underlying agent, another client adds 1..3 certificates over a held key (YSSHCA KeyIDs of every type, sometimes free text) to the underlying agent. Oracle (no-upstream mode): the answer of that operation, whichever listing it was built from, contains no YSSHCA certificate of the underlying agent, a signature with one is refused, and the next listing hides them. Non-trivial: no-upstream mode and the addition happened during the operation.",
		Gen: func(t *rapid.T) MeanwhileCase {
			c := MeanwhileCase{NoUpstream: rapid.IntRange(0, 3).Draw(t, "mode") > 0, AtRequest: rapid.IntRange(1, 4).Draw(t, "atRequest"),
				Op: rapid.SampledFrom([]string{"signers", "signers", "list", "sign"}).Draw(t, "op"), Comp: rapid.SampledFrom([]string{"", "", "bytes", "type"}).Draw(t, "comp")}
			n := rapid.IntRange(1, 3).Draw(t, "n")
			for i := 0; i < n; i++ {
				c.Classes = append(c.Classes, rapid.SampledFrom([]string{"ysshca0", "ysshca1", "ysshca2", "ysshca3", "ysshca4", "ysshca5", "ysshca6", "ysshca7", "ysshca8", "ysshca9", "ysshcabig", "text"}).Draw(t, fmt.Sprintf("class%d", i)))
			}
			return c
		}, Exec: execMeanwhile})
}
