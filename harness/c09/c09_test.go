// C09 — no-upstream mode hides the underlying agent's YSSHCA certificates, nothing else.
package c09

import (
	"fmt"
	"strings"
	"testing"

	"github.com/theparanoids/ysshra/zzverif/vh"
	"pgregory.net/rapid"
)

var profile = vh.ShimProfile{
	Validities:   []string{"current", "current", "forever", "forever", "past", "justpast"}, // expired ones: the purge runs inside the same listing as the hiding
	KeyIDClasses: vh.AllKeyIDClasses,
	MaxOps:       25,
	NoUpstream:   2, // the generator draws the mode-off history; the pair is derived from it
}

// The same history is executed on two shims (mode on / off), each over its own proxy and keyring
// with identical initial content: a differential pair on top of the reference model.
func exec(c vh.ShimCase) (vh.Outcome, error) {
	on, off := c, c
	on.NoUpstream, off.NoUpstream = true, false
	trOn, err := vh.RunShimCase(on)
	out := vh.Outcome{}
	ysshcaInRing := false
	for _, op := range append(append([]vh.Op{}, c.Initial...), c.Ops...) {
		if (op.Kind == "oobaddcert" || op.Kind == "addcert") && op.Cert >= 0 && strings.HasPrefix(c.Certs[op.Cert].KeyIDClass, "ysshca") {
			ysshcaInRing = true
		}
	}
	out.NonTrivial = ysshcaInRing && trOn.HiddenSeen > 0
	if ysshcaInRing {
		out.Classes = append(out.Classes, "ysshca-in-underlying-agent")
	}
	if trOn.HiddenSeen > 0 {
		out.Classes = append(out.Classes, "hidden-observed")
	}
	if trOn.HardAccepted > 0 {
		out.Classes = append(out.Classes, "hardware-cert-held")
	}
	for _, d := range c.Certs {
		out.Classes = append(out.Classes, "keyid="+d.KeyIDClass)
	}
	if err != nil {
		return out, fmt.Errorf("no-upstream mode: %w", err)
	}
	trOff, err := vh.RunShimCase(off)
	if err != nil {
		return out, fmt.Errorf("mode off: %w", err)
	}
	if trOff.HiddenSeen != 0 {
		return out, fmt.Errorf("mode off: the model hid %d entries (harness inconsistency)", trOff.HiddenSeen)
	}
	return out, nil
}

const rule = "differential pairs: one generated history (0..6 initial identities, then up to 25 operations: add key / certificate+key / hardware certificate, remove, remove-all, list, signers, sign, sign through a signer, out-of-band edits) is executed on a no-upstream shim and on a normal shim, each over its own proxy and keyring with identical initial content. A third of the certificates are expired (the listing that purges them is the listing that hides). Certificates carry a valid YSSHCA KeyID of each of the 7 types (plus one that selects no type and one whose principal list is encoded as null), a near-miss (missing member, unsupported version, inconsistent flags), free text or an empty KeyID; YSSHCA certificates are present at construction and added later. Oracle per shim: reference model in which a keyring certificate is hidden iff the mode is on and the reference KeyID decoder accepts its KeyID; listings and signers as multisets, sign naming a hidden certificate errs and reaches no sign frame, in-memory hardware certificates and all other identities sign with verifying signatures, removal of hidden certificates works; with the mode off nothing is hidden. Non-trivial: the history puts a YSSHCA certificate into the underlying agent and a later list / signers / sign involves it."

func TestC09NoUpstream(t *testing.T) {
	vh.Run(t, vh.Spec[vh.ShimCase]{Property: "C09", Name: "TestC09NoUpstream", Rule: rule + vh.ShimGenNote,
		Gen: func(t *rapid.T) vh.ShimCase { return vh.GenShimCase(t, profile) }, Exec: exec})
}

// TestC09Faults: the same differential pairs while the underlying agent refuses individual requests.
func TestC09Faults(t *testing.T) {
	pr := profile
	pr.Faults = true
	vh.Run(t, vh.Spec[vh.ShimCase]{Property: "C09", Name: "TestC09Faults",
		Rule: "TestC09NoUpstream's differential pairs with fault plans among the operations: the underlying agent answers individual requests (by position or by request kind: list, sign, add, remove, remove-all) with a failure, a reply the client cannot decode, or drops the connection. Same model and oracle on both shims; an operation disturbed by a fault may fail, but an answer that does come back hides every YSSHCA certificate in no-upstream mode, a remove-all that reports success leaves nothing in the underlying agent in either mode (hidden certificates included), and the operations after the fault are judged as usual. Non-trivial: as TestC09NoUpstream." + vh.ShimGenNote,
		Gen: func(t *rapid.T) vh.ShimCase { return vh.GenShimCase(t, pr) }, Exec: exec})
}

// TestC09Locked: the same differential pairs with lock / unlock / close among the operations: a lock episode
// changes nothing about what is hidden - in no-upstream mode the YSSHCA certificates stay hidden after the
// unlock, with the mode off nothing becomes hidden by it.
func TestC09Locked(t *testing.T) {
	pr := profile
	pr.Lock = true
	vh.Run(t, vh.Spec[vh.ShimCase]{Property: "C09", Name: "TestC09Locked",
		Rule: "TestC09NoUpstream's differential pairs with lock (several passphrases), unlock (right, wrong, near-miss passphrases) and close among the operations. Same model and oracle on both shims (while locked: empty listing, everything else refused, nothing changed); after the unlock the listings, signers and signatures are again exactly the model's - every YSSHCA certificate of the underlying agent hidden in no-upstream mode, none with the mode off. Non-trivial: as TestC09NoUpstream." + vh.ShimGenNote,
		Gen: func(t *rapid.T) vh.ShimCase { return vh.GenShimCase(t, pr) }, Exec: exec})
}

// TestC09Many: many YSSHCA certificates in one underlying agent - all at once and renewed over time.
func TestC09Many(t *testing.T) {
	vh.Run(t, vh.Spec[vh.ShimCase]{Property: "C09", Name: "TestC09Many",
		Rule: "one underlying agent holding 20..120 distinct certificates (three quarters with YSSHCA KeyIDs of all types, the rest free text) over the pool keys: a part present at construction, the rest added out of band in batches between list / signers / sign calls, older ones removed out of band (renewal) so that the shim sees far more distinct certificates than are present at any time; executed in no-upstream mode and with the mode off. Same reference model and oracle: every YSSHCA certificate is hidden in listings and signers however many there are or were, everything else stays listed, with the mode off nothing is hidden",
		Gen: func(t *rapid.T) vh.ShimCase {
			c := vh.ShimCase{}
			n := rapid.SampledFrom([]int{20, 31, 32, 33, 34, 40, 64, 65, 120}).Draw(t, "ncerts")
			classes := []string{"ysshca0", "ysshca1", "ysshca2", "ysshca3", "ysshca4", "ysshca5", "ysshca6", "ysshca8", "ysshca9", "ysshca1", "text", "text", "missing"}
			keys := []string{"p256b", "ed25519b", "p384a", "ed25519c", "p256c"}
			for i := 0; i < n; i++ {
				c.Certs = append(c.Certs, vh.CertDef{Key: keys[i%len(keys)], KeyIDClass: classes[rapid.IntRange(0, len(classes)-1).Draw(t, fmt.Sprintf("class%d", i))], Validity: "forever", Serial: uint64(2000 + i)})
			}
			initial := rapid.IntRange(0, n).Draw(t, "initial")
			if rapid.Bool().Draw(t, "allAtOnce") {
				initial = n
			}
			c.Initial = append(c.Initial, vh.Op{Kind: "oobadd", Key: "rsa1536", Cert: -1, Comment: "plain"})
			for i := 0; i < initial; i++ {
				c.Initial = append(c.Initial, vh.Op{Kind: "oobaddcert", Cert: i, Comment: "u"})
			}
			next, oldest := initial, 0
			probe := func() {
				c.Ops = append(c.Ops, vh.Op{Kind: rapid.SampledFrom([]string{"list", "signers", "list"}).Draw(t, fmt.Sprintf("probe%d", len(c.Ops))), Cert: -1})
			}
			probe()
			for next < n {
				batch := rapid.IntRange(1, 12).Draw(t, fmt.Sprintf("batch%d", next))
				for b := 0; b < batch && next < n; b++ {
					c.Ops = append(c.Ops, vh.Op{Kind: "oobaddcert", Cert: next, Comment: "u"})
					next++
				}
				if rapid.Bool().Draw(t, fmt.Sprintf("renew%d", next)) {
					for r := 0; r < batch && oldest < next-1; r++ {
						c.Ops = append(c.Ops, vh.Op{Kind: "oobremove", Cert: oldest})
						oldest++
					}
				}
				probe()
			}
			c.Ops = append(c.Ops, vh.Op{Kind: "sign", Cert: n - 1, Data: []byte("x")}, vh.Op{Kind: "signers", Cert: -1}, vh.Op{Kind: "list", Cert: -1})
			return c
		}, Exec: exec})
}

// TestC09RefusedRemoveAll: the fault class of TestC09Faults that matters most for "hidden certificates can
// still be removed" as a fixed grid: the underlying agent refuses one remove-all request.
func TestC09RefusedRemoveAll(t *testing.T) {
	var cases []vh.ShimCase
	for _, kind := range []string{"fail", "malformed", "empty"} {
		for _, hw := range []bool{false, true} {
			c := vh.ShimCase{Certs: []vh.CertDef{
				{Key: "p256b", KeyIDClass: "ysshca1", Validity: "forever", Serial: 1000},
				{Key: "ed25519c", KeyIDClass: "text", Validity: "current", Serial: 1001},
				{Key: "rsa1536", KeyIDClass: "ysshca5", Validity: "current", Serial: 1002}},
				Initial: []vh.Op{{Kind: "oobadd", Key: "p384a", Cert: -1, Comment: "plain"}, {Kind: "oobaddcert", Cert: 0, Comment: "ysshca"}, {Kind: "oobaddcert", Cert: 1, Comment: "other"}, {Kind: "oobadd", Key: "rsa1536", Cert: -1}}}
			if hw {
				c.Ops = append(c.Ops, vh.Op{Kind: "addhard", Cert: 2, Comment: "hw"})
			}
			c.Ops = append(c.Ops, vh.Op{Kind: "list", Cert: -1},
				vh.Op{Kind: "plan", Cert: -1, Plan: []vh.FaultRule{{Index: -1, Code: vh.CodeRemoveAll, Kind: kind, Remaining: 1}}},
				vh.Op{Kind: "removeall", Cert: -1}, vh.Op{Kind: "plan", Cert: -1}, vh.Op{Kind: "list", Cert: -1}, vh.Op{Kind: "signers", Cert: -1},
				vh.Op{Kind: "removeall", Cert: -1}, vh.Op{Kind: "list", Cert: -1})
			cases = append(cases, c)
		}
	}
	vh.Enumerate(t, vh.Spec[vh.ShimCase]{Property: "C09", Name: "TestC09RefusedRemoveAll", Exhaustive: true,
		Rule: "an underlying agent holding a plain key, a YSSHCA certificate, another certificate and a token key (with or without a hardware certificate registered on it) refuses one remove-all request (failure reply, undecodable reply, empty reply); then list, signers, a second remove-all that is not refused, list - executed in no-upstream mode and with the mode off (6 pairs). Same model and oracle as TestC09Faults: a remove-all that reports success has removed everything, hidden certificates included; the operations after the refusal are judged as usual",
		Exec: exec}, cases)
}

// TestC09ConstructFaults: the underlying agent answers the constructor's own listing badly. Either no agent
// is handed out, or the one that is hides the YSSHCA certificates like any other no-upstream agent.
func TestC09ConstructFaults(t *testing.T) {
	var cases []vh.ShimCase
	for _, kind := range []string{"fail", "malformed", "empty", "close", "truncate", "oversize"} {
		c := vh.ShimCase{Certs: []vh.CertDef{
			{Key: "p256b", KeyIDClass: "ysshca1", Validity: "forever", Serial: 1000},
			{Key: "ed25519c", KeyIDClass: "text", Validity: "current", Serial: 1001}},
			Initial:       []vh.Op{{Kind: "oobadd", Key: "p384a", Cert: -1, Comment: "plain"}, {Kind: "oobaddcert", Cert: 0, Comment: "ysshca"}, {Kind: "oobaddcert", Cert: 1, Comment: "other"}},
			ConstructPlan: []vh.FaultRule{{Index: 0, Code: -1, Remaining: 1, Kind: kind}},
			Ops:           []vh.Op{{Kind: "list", Cert: -1}, {Kind: "signers", Cert: -1}, {Kind: "sign", Cert: 0, Data: []byte("x")}, {Kind: "sign", Cert: 1, Data: []byte("y")}, {Kind: "list", Cert: -1}}}
		cases = append(cases, c)
	}
	vh.Enumerate(t, vh.Spec[vh.ShimCase]{Property: "C09", Name: "TestC09ConstructFaults", Exhaustive: true,
		Rule: "an underlying agent holding a plain key, a YSSHCA certificate and another certificate answers the first request it receives with a failure, an undecodable or empty reply, an oversize or cut-short reply, or by closing the connection; in no-upstream mode that request is the constructor's listing, with the mode off it is the first operation (6 pairs); then list, signers, sign naming the YSSHCA certificate, sign naming the other one, list. Oracle: the shim reference model - construction over a failing agent yields no agent; an agent that is handed out hides every YSSHCA certificate in no-upstream mode. Non-trivial: every pair (the fault was reached)",
		Exec: func(c vh.ShimCase) (vh.Outcome, error) {
			o, err := exec(c)
			o.NonTrivial = true
			return o, err
		}}, cases)
}
