// C09 — no-upstream mode hides the underlying agent's YSSHCA certificates, nothing else.
package c09

import (
	"fmt"
	"strings"
	"testing"

	"github.com/theparanoids/ysshra/zzverif/vh"
	"pgregory.net/rapid"
)

var profile = vh.ShimProfile{
	Validities:   []string{"current", "forever"},
	KeyIDClasses: vh.AllKeyIDClasses,
	MaxOps:       25,
	NoUpstream:   2, // the generator draws the mode-off history; the pair is derived from it
}

// The same history is executed on two shims (mode on / off), each over its own proxy and keyring
// with identical initial content: a differential pair on top of the reference model.
func exec(c vh.ShimCase) (vh.Outcome, error) {
	on, off := c, c
	on.NoUpstream, off.NoUpstream = true, false
	trOn, err := vh.RunShimCase(on)
	out := vh.Outcome{}
	ysshcaInRing := false
	for _, op := range append(append([]vh.Op{}, c.Initial...), c.Ops...) {
		if (op.Kind == "oobaddcert" || op.Kind == "addcert") && op.Cert >= 0 && strings.HasPrefix(c.Certs[op.Cert].KeyIDClass, "ysshca") {
			ysshcaInRing = true
		}
	}
	out.NonTrivial = ysshcaInRing && trOn.HiddenSeen > 0
	if ysshcaInRing {
		out.Classes = append(out.Classes, "ysshca-in-underlying-agent")
	}
	if trOn.HiddenSeen > 0 {
		out.Classes = append(out.Classes, "hidden-observed")
	}
	if trOn.HardAccepted > 0 {
		out.Classes = append(out.Classes, "hardware-cert-held")
	}
	for _, d := range c.Certs {
		out.Classes = append(out.Classes, "keyid="+d.KeyIDClass)
	}
	if err != nil {
		return out, fmt.Errorf("no-upstream mode: %w", err)
	}
	trOff, err := vh.RunShimCase(off)
	if err != nil {
		return out, fmt.Errorf("mode off: %w", err)
	}
	if trOff.HiddenSeen != 0 {
		return out, fmt.Errorf("mode off: the model hid %d entries (harness inconsistency)", trOff.HiddenSeen)
	}
	return out, nil
}

const rule = "differential pairs: one generated history (0..6 initial identities, then up to 25 operations: add key / certificate+key / hardware certificate, remove, remove-all, list, signers, sign, sign through a signer, out-of-band edits) is executed on a no-upstream shim and on a normal shim, each over its own proxy and keyring with identical initial content. Certificates carry a valid YSSHCA KeyID of each of the 7 types (plus one that selects no type and one whose principal list is encoded as null), a near-miss (missing member, unsupported version, inconsistent flags), free text or an empty KeyID; YSSHCA certificates are present at construction and added later. Oracle per shim: reference model in which a keyring certificate is hidden iff the mode is on and the reference KeyID decoder accepts its KeyID; listings and signers as multisets, sign naming a hidden certificate errs and reaches no sign frame, in-memory hardware certificates and all other identities sign with verifying signatures, removal of hidden certificates works; with the mode off nothing is hidden. Non-trivial: the history puts a YSSHCA certificate into the underlying agent and a later list / signers / sign involves it."

func TestC09NoUpstream(t *testing.T) {
	vh.Run(t, vh.Spec[vh.ShimCase]{Property: "C09", Name: "TestC09NoUpstream", Rule: rule,
		Gen: func(t *rapid.T) vh.ShimCase { return vh.GenShimCase(t, profile) }, Exec: exec})
}
