// C16 — attestation certificates decode faithfully; device serial extraction is total.
package c16

import (
	"bytes"
	"crypto/ecdsa"
	"crypto/rand"
	"crypto/rsa"
	"crypto/x509"
	"crypto/x509/pkix"
	"encoding/asn1"
	"encoding/pem"
	"fmt"
	"math/big"
	"net"
	"os"
	"path/filepath"
	"strings"
	"sync"
	"testing"
	"time"

	"github.com/theparanoids/ysshra/agent/utils"
	"github.com/theparanoids/ysshra/attestation/yubiattest"
	"github.com/theparanoids/ysshra/zzverif/vh"
	"pgregory.net/rapid"
)

// ---------- tiny DER toolbox (independent of encoding/asn1 decoding) ----------

type tlv struct {
	tag     byte
	content []byte
	full    []byte
}

func readTLV(b []byte) (t tlv, rest []byte, ok bool) {
	if len(b) < 2 {
		return t, nil, false
	}
	t.tag = b[0]
	l := int(b[1])
	off := 2
	if l&0x80 != 0 {
		n := l & 0x7f
		if n == 0 || n > 3 || len(b) < 2+n {
			return t, nil, false
		}
		l = 0
		for i := 0; i < n; i++ {
			l = l<<8 | int(b[2+i])
		}
		off = 2 + n
	}
	if len(b) < off+l {
		return t, nil, false
	}
	t.content = b[off : off+l]
	t.full = b[:off+l]
	return t, b[off+l:], true
}

func children(content []byte) []tlv {
	var out []tlv
	for len(content) > 0 {
		t, rest, ok := readTLV(content)
		if !ok {
			return nil
		}
		out = append(out, t)
		content = rest
	}
	return out
}

func wrap(tag byte, content []byte) []byte {
	l := len(content)
	var hdr []byte
	switch {
	case l < 0x80:
		hdr = []byte{tag, byte(l)}
	case l < 0x100:
		hdr = []byte{tag, 0x81, byte(l)}
	case l < 0x10000:
		hdr = []byte{tag, 0x82, byte(l >> 8), byte(l)}
	default:
		hdr = []byte{tag, 0x83, byte(l >> 16), byte(l >> 8), byte(l)}
	}
	return append(hdr, content...)
}

func concat(ts []tlv) []byte {
	var out []byte
	for _, t := range ts {
		out = append(out, t.full...)
	}
	return out
}

// stripKeyNULL rewrites a certificate so that the RSA key algorithm identifier omits the NULL
// parameter (as old YubiKey firmware did), fixing all enclosing lengths. ok=false if not applicable.
func stripKeyNULL(der []byte) ([]byte, bool) {
	cert, rest, ok := readTLV(der)
	if !ok || len(rest) != 0 || cert.tag != 0x30 {
		return nil, false
	}
	top := children(cert.content)
	if len(top) != 3 {
		return nil, false
	}
	tbs := children(top[0].content)
	idx := 5
	if len(tbs) > 0 && tbs[0].tag == 0xa0 {
		idx = 6
	}
	if len(tbs) <= idx {
		return nil, false
	}
	spki := children(tbs[idx].content)
	if len(spki) != 2 {
		return nil, false
	}
	alg := children(spki[0].content)
	if len(alg) != 2 || alg[1].tag != 0x05 || len(alg[1].content) != 0 {
		return nil, false
	}
	newAlg := wrap(0x30, alg[0].full)
	newSPKI := wrap(0x30, append(append([]byte{}, newAlg...), spki[1].full...))
	var newTBS []byte
	for i, c := range tbs {
		if i == idx {
			newTBS = append(newTBS, newSPKI...)
		} else {
			newTBS = append(newTBS, c.full...)
		}
	}
	out := wrap(0x30, append(append(wrap(0x30, newTBS), top[1].full...), top[2].full...))
	return out, true
}

// ---------- certificate generation ----------

type CertCase struct {
	SubjectKey string
	SignerKey  string // "" = self-signed
	SigAlg     int
	Serial     []byte
	CN         string
	Org        []string
	OU         string
	Country    string
	SerialAttr string
	NotBefore  int64
	NotAfter   int64
	BC         bool
	IsCA       bool
	MaxPath    int
	KeyUsage   int
	SKI        []byte
	AKI        []byte
	DNS        []string
	Emails     []string
	IPs        []string
	EKU        []int
	UnknownEKU [][]int
	Policies   [][]int
	Vendor     []VendorExt
	Trailing   []byte
	// KeyExp: when > 0, the subject is the RSA subject key's modulus under this public exponent (only
	// for certificates issued by another key: no private key is needed for the subject)
	KeyExp int64
	// IAN: issuerAltName extension (2.5.29.18): 0 = none | 1 = a DNS name | 2 = a URI only | 3 = DNS name, e-mail address and IP address
	IAN int `json:",omitempty"`
	// UniqueIDs: 0 = none; 1 = issuerUniqueID, 2 = subjectUniqueID, 3 = both are written into the body in front of the
	// extensions (legal in version 2 / 3 certificates; crypto/x509 never emits them but reads past them)
	UniqueIDs int `json:",omitempty"`
	// ExtOrder: 0 = the order crypto/x509 emits; otherwise the seed of a permutation of the extensions
	ExtOrder int
}

// oid is the extension's object identifier: 1.3.6.1.4.1.41482.3.<Arc>[.<Sub>...]
func (v VendorExt) oid() asn1.ObjectIdentifier {
	o := asn1.ObjectIdentifier{1, 3, 6, 1, 4, 1, 41482, 3, v.Arc}
	return append(o, v.Sub...)
}

type VendorExt struct {
	// Sub: further arcs below Arc (an OID that merely starts like the serial-number OID is another extension)
	Sub      []int `json:",omitempty"`
	Arc      int
	Critical bool
	Value    []byte
}

var serialOID = asn1.ObjectIdentifier{1, 3, 6, 1, 4, 1, 41482, 3, 7}

func genName(t *rapid.T, label string) string {
	switch rapid.IntRange(0, 3).Draw(t, label+"K") {
	case 0:
		return rapid.SampledFrom([]string{"Yubico PIV Attestation", "YubiKey PIV Attestation 9a", "Yubico PIV Root CA Serial 263751", "é日本", "a,b=c+d", "  spaced  ", "#hash", "Ünïcode"}).Draw(t, label)
	default:
		return rapid.StringMatching(`[A-Za-z0-9 .-]{1,20}`).Draw(t, label)
	}
}

func genOID(t *rapid.T, label string) []int {
	n := rapid.IntRange(3, 8).Draw(t, label+"N")
	o := []int{rapid.IntRange(1, 2).Draw(t, label+"0"), rapid.IntRange(0, 39).Draw(t, label+"1")}
	for i := 2; i < n; i++ {
		o = append(o, rapid.SampledFrom([]int{0, 1, 5, 127, 128, 41482, 16383, 16384, 2147483647}).Draw(t, fmt.Sprintf("%s%d", label, i)))
	}
	return o
}

func genCert(t *rapid.T) CertCase {
	c := CertCase{}
	subj := []string{"rsa1024a", "rsa1025", "rsa1031", "rsa1536", "rsa2047", "rsa2048d", "p256b", "p384a", "p384b", "p521a", "p521b", "p256c"}
	if vh.Thorough() {
		subj = append(subj, "rsa3072", "rsa4096")
	}
	c.SubjectKey = rapid.SampledFrom(subj).Draw(t, "subjectKey")
	switch rapid.IntRange(0, 5).Draw(t, "signer") {
	case 0:
		c.SignerKey = "" // self-signed
	case 1, 2:
		c.SignerKey = rapid.SampledFrom([]string{"rsa2048a", "rsa1024b", "rsa1536"}).Draw(t, "rsaSigner")
	default:
		c.SignerKey = rapid.SampledFrom([]string{"p256a", "p384b", "p521a"}).Draw(t, "ecSigner")
	}
	if c.SignerKey != "" && rapid.IntRange(0, 5).Draw(t, "oddExp") == 2 {
		// RSA public exponents other than 65537: small, and beyond 31 / 32 bits (a positive INTEGER of any size is well-formed)
		c.KeyExp = rapid.SampledFrom([]int64{3, 17, 65539, 1<<31 - 1, 1 << 31, 1<<32 + 1, 1<<40 + 15, 1<<62 + 1}).Draw(t, "keyExp")
	}
	signer := c.SignerKey
	if signer == "" {
		signer = c.SubjectKey
	}
	if strings.HasPrefix(signer, "rsa") {
		c.SigAlg = rapid.SampledFrom([]int{int(x509.SHA256WithRSA), int(x509.SHA384WithRSA), int(x509.SHA512WithRSA), int(x509.SHA256WithRSAPSS), int(x509.SHA384WithRSAPSS), int(x509.SHA512WithRSAPSS), 0}).Draw(t, "sigAlg")
		if signer == "rsa1024a" || signer == "rsa1024b" || signer == "rsa1025" || signer == "rsa1031" {
			// SHA-512 PSS needs a larger modulus
			if c.SigAlg == int(x509.SHA512WithRSAPSS) {
				c.SigAlg = int(x509.SHA256WithRSAPSS)
			}
		}
	} else {
		c.SigAlg = rapid.SampledFrom([]int{int(x509.ECDSAWithSHA256), int(x509.ECDSAWithSHA384), int(x509.ECDSAWithSHA512), 0}).Draw(t, "sigAlg")
	}
	c.Serial = rapid.SliceOfN(rapid.Byte(), 1, 20).Draw(t, "serial")
	c.Serial[0] &= 0x7f
	if rapid.IntRange(0, 15).Draw(t, "serialEdge") == 0 {
		// the boundary values of the INTEGER encoding: zero, one octet, high bit set (needs a leading 00)
		c.Serial = rapid.SampledFrom([][]byte{{0}, {1}, {0x7f}, {0x80}, {0xff}, {0, 0x80, 0}, {0xff, 0xff, 0xff, 0xff, 0xff, 0xff, 0xff, 0xff}}).Draw(t, "serialEdgeV")
	}
	c.CN = genName(t, "cn")
	if rapid.Bool().Draw(t, "hasOrg") {
		c.Org = []string{genName(t, "org")}
	}
	if rapid.Bool().Draw(t, "hasOU") {
		c.OU = genName(t, "ou")
	}
	if rapid.Bool().Draw(t, "hasC") {
		c.Country = rapid.SampledFrom([]string{"US", "SE", "TW", "JP"}).Draw(t, "country")
	}
	if rapid.Bool().Draw(t, "hasSerialAttr") {
		c.SerialAttr = rapid.StringMatching(`[0-9]{1,10}`).Draw(t, "serialAttr")
	}
	lo, hi := time.Date(1950, 1, 1, 0, 0, 0, 0, time.UTC).Unix(), time.Date(9999, 12, 31, 23, 59, 59, 0, time.UTC).Unix()
	edge := []int64{lo, hi, time.Date(2049, 12, 31, 23, 59, 59, 0, time.UTC).Unix(), time.Date(2050, 1, 1, 0, 0, 0, 0, time.UTC).Unix(), 0, 1 << 31}
	pick := func(l string) int64 {
		if rapid.Bool().Draw(t, l+"Edge") {
			return rapid.SampledFrom(edge).Draw(t, l)
		}
		return rapid.Int64Range(lo, hi).Draw(t, l)
	}
	c.NotBefore, c.NotAfter = pick("notBefore"), pick("notAfter")
	c.BC = rapid.Bool().Draw(t, "bc")
	if c.BC {
		c.IsCA = rapid.Bool().Draw(t, "isCA")
		c.MaxPath = rapid.SampledFrom([]int{-1, 0, 1, 5}).Draw(t, "maxPath")
	}
	c.KeyUsage = rapid.SampledFrom([]int{0, 1, 5, 32, 64 | 32, 256, 511}).Draw(t, "keyUsage")
	if rapid.Bool().Draw(t, "ski") {
		c.SKI = rapid.SliceOfN(rapid.Byte(), 1, 20).Draw(t, "skiV")
	}
	if c.SignerKey != "" && rapid.Bool().Draw(t, "aki") {
		c.AKI = rapid.SliceOfN(rapid.Byte(), 1, 20).Draw(t, "akiV")
	}
	if rapid.Bool().Draw(t, "san") {
		c.DNS = rapid.SliceOfN(rapid.StringMatching(`[a-z]{1,8}\.example\.com`), 0, 2).Draw(t, "dns")
		c.Emails = rapid.SliceOfN(rapid.StringMatching(`[a-z]{1,8}@example\.com`), 0, 2).Draw(t, "emails")
		c.IPs = rapid.SliceOfN(rapid.SampledFrom([]string{"1.2.3.4", "::1", "2001:db8::1", "127.0.0.1"}), 0, 2).Draw(t, "ips")
	}
	if rapid.Bool().Draw(t, "eku") {
		c.EKU = rapid.SliceOfN(rapid.IntRange(0, 13), 0, 3).Draw(t, "ekuV")
		if rapid.Bool().Draw(t, "ueku") {
			c.UnknownEKU = [][]int{genOID(t, "uekuOID")}
		}
	}
	if rapid.Bool().Draw(t, "pol") {
		np := rapid.IntRange(1, 2).Draw(t, "npol")
		for i := 0; i < np; i++ {
			c.Policies = append(c.Policies, genOID(t, fmt.Sprintf("pol%d", i)))
		}
	}
	nv := rapid.IntRange(0, 3).Draw(t, "nvendor")
	used := map[int]bool{}
	for i := 0; i < nv; i++ {
		arc := rapid.SampledFrom([]int{3, 7, 7, 8, 9, 10}).Draw(t, fmt.Sprintf("varc%d", i))
		if used[arc] {
			continue
		}
		used[arc] = true
		v := VendorExt{Arc: arc, Critical: rapid.IntRange(0, 4).Draw(t, fmt.Sprintf("vcrit%d", i)) == 0}
		if rapid.IntRange(0, 4).Draw(t, fmt.Sprintf("vsub%d", i)) == 2 {
			v.Sub = rapid.SampledFrom([][]int{{1}, {0}, {7}, {1, 2}}).Draw(t, fmt.Sprintf("vsubArcs%d", i))
			used[arc] = false // a child OID is another extension: the exact OID may still follow
		}
		if arc == 7 && rapid.IntRange(0, 3).Draw(t, fmt.Sprintf("vgood%d", i)) > 0 {
			n := rapid.IntRange(3, 4).Draw(t, fmt.Sprintf("vlen%d", i))
			body := rapid.SliceOfN(rapid.Byte(), n, n).Draw(t, fmt.Sprintf("vser%d", i))
			v.Value = append([]byte{0x02, byte(n)}, body...)
		} else {
			v.Value = rapid.SliceOfN(rapid.Byte(), 0, 8).Draw(t, fmt.Sprintf("vval%d", i))
		}
		c.Vendor = append(c.Vendor, v)
	}
	c.Trailing = rapid.SliceOfN(rapid.Byte(), 1, 4).Draw(t, "trailing")
	if rapid.IntRange(0, 5).Draw(t, "ian") == 3 {
		c.IAN = rapid.IntRange(1, 3).Draw(t, "ianKind")
	}
	if rapid.IntRange(0, 7).Draw(t, "uniqueIDs") == 5 {
		c.UniqueIDs = rapid.IntRange(1, 3).Draw(t, "uniqueIDsWhich")
	}
	if rapid.Bool().Draw(t, "permuteExts") {
		c.ExtOrder = rapid.IntRange(1, 1<<20).Draw(t, "extOrder")
	}
	return c
}

var (
	signerMu    sync.Mutex
	signerCache = map[string]*x509.Certificate{}
)

func signerCert(key string) *x509.Certificate {
	signerMu.Lock()
	defer signerMu.Unlock()
	if c, ok := signerCache[key]; ok {
		return c
	}
	c, _, err := vh.MakeCert(vh.CertSpec{CN: "verif issuer " + key, Key: key, IsCA: true, Serial: 3})
	if err != nil {
		panic(err)
	}
	signerCache[key] = c
	return c
}

func (c CertCase) der() ([]byte, error) {
	tpl := &x509.Certificate{
		SerialNumber: new(big.Int).SetBytes(c.Serial),
		Subject:      pkix.Name{CommonName: c.CN, Organization: c.Org, SerialNumber: c.SerialAttr},
		NotBefore:    time.Unix(c.NotBefore, 0).UTC(),
		NotAfter:     time.Unix(c.NotAfter, 0).UTC(),
		KeyUsage:     x509.KeyUsage(c.KeyUsage),
		SubjectKeyId: c.SKI, AuthorityKeyId: c.AKI,
		DNSNames: c.DNS, EmailAddresses: c.Emails,
		SignatureAlgorithm: x509.SignatureAlgorithm(c.SigAlg),
	}
	if c.OU != "" {
		tpl.Subject.OrganizationalUnit = []string{c.OU}
	}
	if c.Country != "" {
		tpl.Subject.Country = []string{c.Country}
	}
	if c.BC {
		tpl.BasicConstraintsValid = true
		tpl.IsCA = c.IsCA
		if c.IsCA {
			tpl.MaxPathLen = c.MaxPath
			tpl.MaxPathLenZero = c.MaxPath == 0
		} else {
			tpl.MaxPathLen = -1
		}
	}
	for _, ip := range c.IPs {
		tpl.IPAddresses = append(tpl.IPAddresses, net.ParseIP(ip))
	}
	for _, e := range c.EKU {
		tpl.ExtKeyUsage = append(tpl.ExtKeyUsage, x509.ExtKeyUsage(e))
	}
	for _, o := range c.UnknownEKU {
		tpl.UnknownExtKeyUsage = append(tpl.UnknownExtKeyUsage, asn1.ObjectIdentifier(o))
	}
	for _, o := range c.Policies {
		tpl.PolicyIdentifiers = append(tpl.PolicyIdentifiers, asn1.ObjectIdentifier(o))
	}
	for _, v := range c.Vendor {
		tpl.ExtraExtensions = append(tpl.ExtraExtensions, pkix.Extension{Id: v.oid(), Critical: v.Critical, Value: v.Value})
	}
	if c.IAN != 0 {
		gn := func(tag byte, v string) []byte { return append([]byte{tag, byte(len(v))}, v...) }
		var names []byte
		switch c.IAN {
		case 1:
			names = gn(0x82, "issuer.example")
		case 2:
			names = gn(0x86, "https://ca.example/issuer")
		default:
			names = append(append(gn(0x82, "issuer.example"), gn(0x81, "ca@issuer.example")...), 0x87, 4, 10, 9, 8, 7)
		}
		tpl.ExtraExtensions = append(tpl.ExtraExtensions, pkix.Extension{Id: asn1.ObjectIdentifier{2, 5, 29, 18}, Value: append([]byte{0x30, byte(len(names))}, names...)})
	}
	parent, signer := tpl, c.SubjectKey
	if c.SignerKey != "" {
		parent, signer = signerCert(c.SignerKey), c.SignerKey
	}
	var subjectPub any = vh.PublicOf(c.SubjectKey)
	if rp, isRSA := subjectPub.(*rsa.PublicKey); isRSA && c.KeyExp > 0 && c.SignerKey != "" {
		subjectPub = &rsa.PublicKey{N: rp.N, E: int(c.KeyExp)}
	}
	der, err := x509.CreateCertificate(rand.Reader, tpl, parent, subjectPub, vh.Key(signer))
	if err != nil || c.ExtOrder == 0 {
		return der, err
	}
	// the same certificate with its extensions in another order (a conforming encoder may emit them in
	// any order): every extension of the first encoding is handed back as an explicit extension
	first, perr := x509.ParseCertificate(der)
	if perr != nil || len(first.Extensions) < 2 {
		return der, err
	}
	exts := append([]pkix.Extension(nil), first.Extensions...)
	x := uint32(c.ExtOrder)
	for i := len(exts) - 1; i > 0; i-- {
		x = x*1664525 + 1013904223
		j := int(x>>8) % (i + 1)
		exts[i], exts[j] = exts[j], exts[i]
	}
	if c.ExtOrder%3 == 0 { // plainly reversed: authority key identifier before subject key identifier etc.
		exts = append([]pkix.Extension(nil), first.Extensions...)
		for i, j := 0, len(exts)-1; i < j; i, j = i+1, j-1 {
			exts[i], exts[j] = exts[j], exts[i]
		}
	}
	tpl2 := *tpl
	tpl2.ExtraExtensions = exts
	return x509.CreateCertificate(rand.Reader, &tpl2, parent, subjectPub, vh.Key(signer))
}

func pubEqual(a, b any) bool {
	switch x := a.(type) {
	case *rsa.PublicKey:
		y, ok := b.(*rsa.PublicKey)
		return ok && x.Equal(y)
	case *ecdsa.PublicKey:
		y, ok := b.(*ecdsa.PublicKey)
		return ok && x.Equal(y)
	}
	return false
}

// agree compares the fields named by the property; raw=false skips the raw byte fields.
func agree(got, std *x509.Certificate, raw bool) error {
	if raw {
		if !bytes.Equal(got.Raw, std.Raw) || !bytes.Equal(got.RawTBSCertificate, std.RawTBSCertificate) || !bytes.Equal(got.RawSubjectPublicKeyInfo, std.RawSubjectPublicKeyInfo) {
			return vh.Errf("raw bytes differ (Raw %v, RawTBS %v, RawSPKI %v)", bytes.Equal(got.Raw, std.Raw), bytes.Equal(got.RawTBSCertificate, std.RawTBSCertificate), bytes.Equal(got.RawSubjectPublicKeyInfo, std.RawSubjectPublicKeyInfo))
		}
	}
	if !bytes.Equal(got.RawSubject, std.RawSubject) || !bytes.Equal(got.RawIssuer, std.RawIssuer) {
		return vh.Errf("raw names differ")
	}
	if !pubEqual(got.PublicKey, std.PublicKey) {
		return vh.Errf("public key differs: %T %+v vs %T %+v", got.PublicKey, got.PublicKey, std.PublicKey, std.PublicKey)
	}
	if got.PublicKeyAlgorithm != std.PublicKeyAlgorithm {
		return vh.Errf("public key algorithm %v vs %v", got.PublicKeyAlgorithm, std.PublicKeyAlgorithm)
	}
	if !bytes.Equal(got.Signature, std.Signature) {
		return vh.Errf("signature differs")
	}
	if got.SignatureAlgorithm != std.SignatureAlgorithm {
		return vh.Errf("signature algorithm %v vs %v", got.SignatureAlgorithm, std.SignatureAlgorithm)
	}
	if got.SerialNumber == nil || got.SerialNumber.Cmp(std.SerialNumber) != 0 {
		return vh.Errf("serial number %v vs %v", got.SerialNumber, std.SerialNumber)
	}
	if got.Subject.String() != std.Subject.String() || got.Issuer.String() != std.Issuer.String() {
		return vh.Errf("names differ: subject %q vs %q, issuer %q vs %q", got.Subject, std.Subject, got.Issuer, std.Issuer)
	}
	// the alternative names of the SUBJECT (what the subjectAltName extension says, and nothing else)
	ips := func(c *x509.Certificate) string { return fmt.Sprint(c.IPAddresses) }
	if fmt.Sprint(got.DNSNames) != fmt.Sprint(std.DNSNames) || fmt.Sprint(got.EmailAddresses) != fmt.Sprint(std.EmailAddresses) || ips(got) != ips(std) {
		return vh.Errf("subject alternative names differ: DNS %q vs %q, e-mail %q vs %q, IP %v vs %v", got.DNSNames, std.DNSNames, got.EmailAddresses, std.EmailAddresses, got.IPAddresses, std.IPAddresses)
	}
	if !got.NotBefore.Equal(std.NotBefore) || !got.NotAfter.Equal(std.NotAfter) {
		return vh.Errf("validity differs: %v..%v vs %v..%v", got.NotBefore, got.NotAfter, std.NotBefore, std.NotAfter)
	}
	if got.Version != std.Version {
		return vh.Errf("version %d vs %d", got.Version, std.Version)
	}
	if len(got.Extensions) != len(std.Extensions) {
		return vh.Errf("extension list length %d vs %d", len(got.Extensions), len(std.Extensions))
	}
	for i := range got.Extensions {
		g, s := got.Extensions[i], std.Extensions[i]
		if !g.Id.Equal(s.Id) || g.Critical != s.Critical || !bytes.Equal(g.Value, s.Value) {
			return vh.Errf("extension %d differs: %v/%v/%x vs %v/%v/%x", i, g.Id, g.Critical, g.Value, s.Id, s.Critical, s.Value)
		}
	}
	return nil
}

// refModHex is the reference serial rendering: 32-bit big-endian number in the ModHex alphabet.
func refModHex(value []byte) (string, bool) {
	if len(value) < 2 {
		return "", false
	}
	body := value[2:]
	if len(body) != 3 && len(body) != 4 {
		return "", false
	}
	var n uint32
	for _, b := range body {
		n = n<<8 | uint32(b)
	}
	const alphabet = "cbdefghijklnrtuv"
	out := make([]byte, 8)
	for i := 7; i >= 0; i-- {
		out[i] = alphabet[n&0xf]
		n >>= 4
	}
	return string(out), true
}

func checkModHex(c *x509.Certificate) error {
	var vals [][]byte
	for _, e := range c.Extensions {
		if e.Id.Equal(serialOID) {
			vals = append(vals, e.Value)
		}
	}
	var got string
	var err error
	if perr := vh.Catch(func() { got, err = yubiattest.ModHex(c) }); perr != nil {
		return vh.Errf("ModHex crashed (serial extension values %x): %v", vals, perr)
	}
	if len(vals) == 0 {
		if err == nil {
			return vh.Errf("ModHex returned %q for a certificate without serial extension", got)
		}
		return nil
	}
	okOne, badOne := false, false
	for _, v := range vals {
		want, ok := refModHex(v)
		if !ok {
			badOne = true
			continue
		}
		if err == nil && got == want {
			okOne = true
		}
	}
	if err != nil {
		if !badOne {
			return vh.Errf("ModHex refused serial extension value(s) %x: %v", vals, err)
		}
		return nil
	}
	if !okOne {
		return vh.Errf("ModHex = %q does not spell any serial extension value %x", got, vals)
	}
	if len(got) != 8 || strings.Trim(got, "cbdefghijklnrtuv") != "" {
		return vh.Errf("ModHex = %q is not 8 ModHex characters", got)
	}
	return nil
}

func execCert(c CertCase) (vh.Outcome, error) {
	out := vh.Outcome{Classes: []string{"subject=" + c.SubjectKey[:3], fmt.Sprintf("sigalg=%d", c.SigAlg)}}
	der, err := c.der()
	if err != nil {
		out.Classes = append(out.Classes, "encoder-refused")
		return out, nil
	}
	if c.UniqueIDs != 0 {
		var iss, sub []byte
		if c.UniqueIDs&1 != 0 {
			iss = []byte("issuer-unique-id")
		}
		if c.UniqueIDs&2 != 0 {
			sub = []byte{0xde, 0xad, 0xbe, 0xef}
		}
		if d2, ok := vh.AddUniqueIDs(der, iss, sub); ok {
			der = d2
			out.Classes = append(out.Classes, "unique-identifiers")
		}
	}
	std, err := x509.ParseCertificate(der)
	if err != nil {
		out.Classes = append(out.Classes, "std-refused")
		return out, nil
	}
	out.NonTrivial = len(std.Extensions) >= 2
	var got *x509.Certificate
	if perr := vh.Catch(func() { got, err = yubiattest.ParseCertificate(der) }); perr != nil {
		return out, vh.Errf("ParseCertificate crashed on a conforming certificate: %v", perr)
	}
	if err != nil {
		return out, vh.Errf("lenient parser refused a conforming certificate (%s key, sigalg %v): %v", c.SubjectKey, std.SignatureAlgorithm, err)
	}
	if err := agree(got, std, true); err != nil {
		return out, vh.Errf("lenient parser disagrees with crypto/x509 (%s key): %v", c.SubjectKey, err)
	}
	if err := checkModHex(got); err != nil {
		return out, err
	}
	// trailing data must be refused
	var terr error
	if perr := vh.Catch(func() { _, terr = yubiattest.ParseCertificate(append(append([]byte{}, der...), c.Trailing...)) }); perr != nil {
		return out, vh.Errf("ParseCertificate crashed on trailing data: %v", perr)
	}
	if terr == nil {
		return out, vh.Errf("lenient parser accepted %d trailing byte(s) %x", len(c.Trailing), c.Trailing)
	}
	// ... also when the trailing data is itself a complete certificate (a DER concatenation)
	for name, tail := range map[string][]byte{"the same certificate again": der, "another certificate": seedCorpus()[len(der)%len(seedCorpus())]} {
		var got2 *x509.Certificate
		var derr error
		if perr := vh.Catch(func() { got2, derr = yubiattest.ParseCertificate(append(append([]byte{}, der...), tail...)) }); perr != nil {
			return out, vh.Errf("ParseCertificate crashed on a certificate followed by %s: %v", name, perr)
		}
		if derr == nil {
			return out, vh.Errf("lenient parser accepted a certificate followed by %s (%d trailing bytes) and returned serial %v", name, len(tail), got2.SerialNumber)
		}
	}
	// RSA key without the NULL parameter
	if strings.HasPrefix(c.SubjectKey, "rsa") {
		nl, ok := stripKeyNULL(der)
		if !ok {
			return out, vh.Errf("harness: cannot strip the NULL parameter")
		}
		out.NonTrivial = true
		out.Classes = append(out.Classes, "null-less")
		var got2 *x509.Certificate
		if perr := vh.Catch(func() { got2, err = yubiattest.ParseCertificate(nl) }); perr != nil {
			return out, vh.Errf("ParseCertificate crashed on the NULL-less variant: %v", perr)
		}
		if err != nil {
			return out, vh.Errf("lenient parser refused an RSA key whose algorithm identifier omits NULL: %v", err)
		}
		if !bytes.Equal(got2.Raw, nl) {
			return out, vh.Errf("Raw of the NULL-less certificate is not the input")
		}
		if err := agree(got2, std, false); err != nil {
			return out, vh.Errf("NULL-less variant decodes differently: %v", err)
		}
	}
	return out, nil
}

func TestC16ParseAgree(t *testing.T) {
	vh.Run(t, vh.Spec[CertCase]{Property: "C16", Name: "TestC16ParseAgree",
		Rule: "certificates from x509.CreateCertificate: RSA 1024..2048 (3072/4096 in thorough; sizes not divisible by 8; public exponent 65537 or, for issued certificates, 3 / 17 / 65539 / 2^31-1 / 2^31 / 2^32+1 / 2^40+15 / 2^62+1) and P-256/384/521 subject keys; self-signed or issued by RSA / ECDSA CAs with PKCS#1, PSS and ECDSA signature algorithms; serials to 20 bytes; names with UTF-8 attributes; validity 1950..9999 incl. the UTCTime/GeneralizedTime edge; basic constraints, key usage, key ids, SAN dns/email/ip, EKU known+unknown, policies, issuerAltName (a DNS name, a URI only, or DNS + e-mail + IP), vendor OIDs 1.3.6.1.4.1.41482.3.x critical or not (serial extension well-formed or arbitrary); half of the certificates carry their extensions in a permuted (or reversed) order; an eighth carry issuerUniqueID and / or subjectUniqueID in front of the extensions (rewritten DER; the signature is not renewed - neither parser looks at it). Oracle: crypto/x509 accepts => lenient parser accepts and agrees on Raw, RawTBS, SPKI, names (raw and parsed; the subject's alternative DNS names, e-mail addresses and IP addresses), key, signature, algorithms, serial, validity, version, extension list; DER+trailing bytes refused, also when the trailing bytes are a complete certificate; NULL-less RSA variant (lengths rewritten) accepted with the same fields; ModHex of the parsed certificate judged by the reference rendering. Non-trivial: >=2 extensions or a NULL-less variant.",
		Gen:  genCert, Exec: execCert})
}

// ---------- mutations / arbitrary bytes ----------

type MutCase struct {
	Base  int // index into the seed corpus
	Edits []Edit
	// Input is the mutated certificate itself, so that a replay does not depend on the seed corpus.
	Input []byte
}

type Edit struct {
	Kind string // flip | set | truncate | insert | dellen
	Pos  int
	Val  int
}

var (
	seedOnce sync.Once
	seeds    [][]byte
)

func seedCorpus() [][]byte {
	seedOnce.Do(func() {
		// certificates shipped with the repository's tests
		dir := filepath.Join(os.Getenv("VERIF_REPO_DIR"), "attestation", "yubiattest", "testdata")
		if os.Getenv("VERIF_REPO_DIR") == "" {
			dir = "/repo/attestation/yubiattest/testdata"
		}
		ents, _ := os.ReadDir(dir)
		for _, e := range ents {
			b, err := os.ReadFile(filepath.Join(dir, e.Name()))
			if err != nil {
				continue
			}
			for {
				var blk *pem.Block
				blk, b = pem.Decode(b)
				if blk == nil {
					break
				}
				seeds = append(seeds, blk.Bytes)
			}
		}
		// a few generated ones with many extensions
		for i, k := range []string{"rsa1024a", "p256b", "p384a", "p521a", "rsa2047"} {
			c := CertCase{SubjectKey: k, Serial: []byte{byte(i + 1), 2, 3}, CN: "seed", NotBefore: 0, NotAfter: 4102444800, BC: true, IsCA: true, MaxPath: 1,
				KeyUsage: 5, SKI: []byte{1, 2, 3, 4}, DNS: []string{"a.example.com"}, IPs: []string{"1.2.3.4"}, EKU: []int{1, 2}, Policies: [][]int{{1, 2, 3}},
				Vendor: []VendorExt{{Arc: 7, Value: []byte{2, 4, 0, 0x5b, 0xc5, 0x12}}, {Arc: 3, Value: []byte{4, 3, 3}}, {Arc: 8, Value: []byte{1, 2}}}}
			if der, err := c.der(); err == nil {
				seeds = append(seeds, der)
				if nl, ok := stripKeyNULL(der); ok {
					seeds = append(seeds, nl)
				}
			}
		}
	})
	return seeds
}

func genMut(t *rapid.T) MutCase {
	n := len(seedCorpus())
	c := MutCase{Base: rapid.IntRange(0, n-1).Draw(t, "base")}
	ne := rapid.IntRange(1, 4).Draw(t, "nedits")
	for i := 0; i < ne; i++ {
		c.Edits = append(c.Edits, Edit{
			Kind: rapid.SampledFrom([]string{"flip", "flip", "set", "set", "truncate", "insert", "lenedit"}).Draw(t, fmt.Sprintf("kind%d", i)),
			Pos:  rapid.IntRange(0, 1<<16).Draw(t, fmt.Sprintf("pos%d", i)),
			Val:  rapid.SampledFrom([]int{0, 1, 2, 0x7f, 0x80, 0x81, 0x82, 0x84, 0xff, 0x30, 0x03, 0x05, 0x06, 0xa0, 0xa3}).Draw(t, fmt.Sprintf("val%d", i)),
		})
	}
	s := seedCorpus()
	c.Input = applyEdits(s[c.Base%len(s)], c.Edits)
	return c
}

func applyEdits(der []byte, edits []Edit) []byte {
	b := append([]byte{}, der...)
	for _, e := range edits {
		if len(b) == 0 {
			break
		}
		p := e.Pos % len(b)
		switch e.Kind {
		case "flip":
			b[p] ^= 1 << (e.Val % 8)
		case "set":
			b[p] = byte(e.Val)
		case "truncate":
			b = b[:p]
		case "insert":
			b = append(b[:p], append([]byte{byte(e.Val)}, b[p:]...)...)
		case "lenedit":
			// find a length octet near p: walk TLVs from the start and edit the length of the p-th header found
			idx := lengthOffsets(der)
			if len(idx) > 0 {
				q := idx[e.Pos%len(idx)]
				if q < len(b) {
					b[q] = byte(e.Val)
				}
			}
		}
	}
	return b
}

// lengthOffsets returns the offsets of the first length octet of every TLV reachable by descending
// into constructed values.
func lengthOffsets(der []byte) []int {
	var out []int
	var walk func(b []byte, base int, depth int)
	walk = func(b []byte, base int, depth int) {
		for len(b) > 0 && depth < 12 {
			t, rest, ok := readTLV(b)
			if !ok {
				return
			}
			out = append(out, base+1)
			hdr := len(t.full) - len(t.content)
			if t.tag&0x20 != 0 {
				walk(t.content, base+hdr, depth+1)
			} else if t.tag == 0x04 || t.tag == 0x03 {
				// OCTET STRING / BIT STRING may wrap DER (extension values, keys)
				c := t.content
				off := hdr
				if t.tag == 0x03 && len(c) > 0 {
					c = c[1:]
					off++
				}
				if len(c) > 2 && c[0] == 0x30 {
					walk(c, base+off, depth+1)
				}
			}
			base += len(t.full)
			b = rest
		}
	}
	walk(der, 0, 0)
	return out
}

func checkBytes(b []byte) (accepted bool, err error) {
	var c *x509.Certificate
	var perr2 error
	if perr := vh.Catch(func() { c, perr2 = yubiattest.ParseCertificate(b) }); perr != nil {
		return false, vh.Errf("ParseCertificate crashed on %d bytes %x: %v", len(b), b, perr)
	}
	if perr2 != nil || c == nil {
		return false, nil
	}
	if perr := vh.Catch(func() { _, _ = yubiattest.ModHex(c) }); perr != nil {
		return true, vh.Errf("ModHex crashed on a parsed certificate (input %x): %v", b, perr)
	}
	return true, checkModHex(c)
}

func TestC16Mutations(t *testing.T) {
	vh.Run(t, vh.Spec[MutCase]{Property: "C16", Name: "TestC16Mutations",
		Rule: "1..4 byte-level edits (bit flip, byte set to DER-significant values, truncation, insertion, edit of a length octet found by walking the TLV tree incl. wrapped extension values and keys) of the repository's test certificates and of generated certificates with many extensions (with and without key NULL). Oracle: neither the parser nor the serial extractor crashes; when the parser accepts, ModHex follows the reference rendering. Non-trivial: the mutated input still gets past the outer SEQUENCE (parser accepted).",
		Gen:  genMut,
		Exec: func(c MutCase) (vh.Outcome, error) {
			acc, err := checkBytes(c.Input)
			cl := "refused"
			if acc {
				cl = "accepted"
			}
			return vh.Outcome{NonTrivial: acc, Classes: []string{cl}}, err
		}})
}

// ---------- ModHex directly ----------

type ModHexCase struct {
	Exts []VendorExt
}

func TestC16ModHex(t *testing.T) {
	vh.Run(t, vh.Spec[ModHexCase]{Property: "C16", Name: "TestC16ModHex",
		Rule: "certificate values carrying 0..3 vendor extensions, the serial extension (1.3.6.1.4.1.41482.3.7) with values of every length 0..8 and arbitrary bytes, possibly twice, beside extensions whose OID only resembles it (arcs 70 / 71 / 17, child OIDs such as ...3.7.1). Oracle: 3- or 4-byte serial (value length 5 or 6) => 8 ModHex characters spelling the 32-bit big-endian number (hence injective); every other length or no extension => error; never a crash. Non-trivial: a serial extension is present.",
		Gen: func(t *rapid.T) ModHexCase {
			c := ModHexCase{}
			n := rapid.IntRange(0, 3).Draw(t, "n")
			for i := 0; i < n; i++ {
				l := rapid.IntRange(0, 8).Draw(t, fmt.Sprintf("len%d", i))
				e := VendorExt{Arc: rapid.SampledFrom([]int{7, 7, 7, 3, 8, 70, 71, 17}).Draw(t, fmt.Sprintf("arc%d", i)),
					Value: rapid.SliceOfN(rapid.Byte(), l, l).Draw(t, fmt.Sprintf("val%d", i))}
				if rapid.IntRange(0, 3).Draw(t, fmt.Sprintf("sub%d", i)) == 2 {
					e.Sub = rapid.SampledFrom([][]int{{1}, {0}, {7}, {1, 2}, {41482}}).Draw(t, fmt.Sprintf("subArcs%d", i))
				}
				c.Exts = append(c.Exts, e)
			}
			return c
		},
		Exec: func(c ModHexCase) (vh.Outcome, error) {
			cert := &x509.Certificate{}
			has := false
			for _, e := range c.Exts {
				cert.Extensions = append(cert.Extensions, pkix.Extension{Id: e.oid(), Value: e.Value})
				has = has || (e.Arc == 7 && len(e.Sub) == 0)
			}
			return vh.Outcome{NonTrivial: has, Classes: []string{fmt.Sprintf("n=%d", len(c.Exts))}}, checkModHex(cert)
		}})
}

// TestC16ModHexLengths enumerates every value length 0..8 with three fillings.
func TestC16ModHexLengths(t *testing.T) {
	var cases []ModHexCase
	for l := 0; l <= 8; l++ {
		for _, fill := range []byte{0x00, 0xff, 0x5b} {
			cases = append(cases, ModHexCase{Exts: []VendorExt{{Arc: 7, Value: bytes.Repeat([]byte{fill}, l)}}})
		}
	}
	vh.Enumerate(t, vh.Spec[ModHexCase]{Property: "C16", Name: "TestC16ModHexLengths", Exhaustive: true,
		Rule: "serial extension value of every length 0..8 x fill byte {00, ff, 5b}; same oracle",
		Exec: func(c ModHexCase) (vh.Outcome, error) {
			cert := &x509.Certificate{}
			for _, e := range c.Exts {
				cert.Extensions = append(cert.Extensions, pkix.Extension{Id: serialOID, Value: e.Value})
			}
			return vh.Outcome{NonTrivial: true}, checkModHex(cert)
		}}, cases)
}

// ---------- PEM bundles ----------

type PEMCase struct {
	Certs    []int // indexes into the seed corpus
	Lead     string
	Between  []string
	TrailWS  string
	Garbage  string
	BlockHdr bool
	// Double: (index+1) of the block whose body is its certificate followed by the next seed's DER; 0 = none
	Double int
}

func (c PEMCase) data() ([]byte, [][]byte) {
	s := seedCorpus()
	var b bytes.Buffer
	var ders [][]byte
	b.WriteString(c.Lead)
	for i, ix := range c.Certs {
		der := s[ix%len(s)]
		ders = append(ders, der)
		blk := &pem.Block{Type: "CERTIFICATE", Bytes: der}
		if c.Double == i+1 {
			blk.Bytes = append(append([]byte{}, der...), s[(ix+1)%len(s)]...)
		}
		if c.BlockHdr {
			blk.Headers = map[string]string{"Slot": "9a"}
		}
		b.Write(pem.EncodeToMemory(blk))
		if i < len(c.Between) {
			b.WriteString(c.Between[i])
		}
	}
	b.WriteString(c.TrailWS)
	b.WriteString(c.Garbage)
	return b.Bytes(), ders
}

func execPEM(c PEMCase) (vh.Outcome, error) {
	data, ders := c.data()
	out := vh.Outcome{NonTrivial: len(ders) >= 2 || (len(ders) >= 1 && (c.Lead != "" || c.TrailWS != "" || c.Garbage != "")), Classes: []string{fmt.Sprintf("n=%d", len(ders))}}
	// the seeds themselves must be acceptable to the lenient parser for the bundle oracle to apply
	for _, d := range ders {
		if _, err := yubiattest.ParseCertificate(d); err != nil {
			return out, nil
		}
	}
	var got []*x509.Certificate
	var err error
	if perr := vh.Catch(func() { got, err = utils.ParsePEMCertificates(data) }); perr != nil {
		return out, vh.Errf("ParsePEMCertificates crashed: %v", perr)
	}
	var one *x509.Certificate
	var oneErr error
	if perr := vh.Catch(func() { one, oneErr = utils.ParsePEMCertificate(data) }); perr != nil {
		return out, vh.Errf("ParsePEMCertificate crashed: %v", perr)
	}
	if c.Double > 0 && c.Double <= len(ders) {
		out.Classes = append(out.Classes, "block-with-two-certificates")
		if err == nil {
			return out, vh.Errf("a PEM block holding two concatenated certificates (trailing data) was accepted: %d certificates from %d blocks", len(got), len(ders))
		}
		return out, nil
	}
	if c.Garbage != "" {
		out.Classes = append(out.Classes, "garbage")
		if err == nil {
			return out, vh.Errf("bundle with trailing garbage %q was accepted (%d certificates)", c.Garbage, len(got))
		}
		return out, nil
	}
	if len(ders) == 0 {
		if c.Lead == "" {
			// only whitespace (or nothing): no certificates, no error
			if err != nil || len(got) != 0 {
				return out, vh.Errf("empty / whitespace-only input gave %d certificates, err %v", len(got), err)
			}
		}
		if oneErr == nil {
			return out, vh.Errf("ParsePEMCertificate returned a certificate for input without any")
		}
		return out, nil // leading text without certificates: either outcome
	}
	if err != nil {
		return out, vh.Errf("bundle of %d certificates (lead %q, trailing whitespace %q) was refused: %v", len(ders), c.Lead, c.TrailWS, err)
	}
	if len(got) != len(ders) {
		return out, vh.Errf("bundle of %d certificates yielded %d", len(ders), len(got))
	}
	for i := range ders {
		if got[i] == nil {
			return out, vh.Errf("entry %d of the %d returned certificates is nil", i, len(got))
		}
		if !bytes.Equal(got[i].Raw, ders[i]) {
			return out, vh.Errf("certificate %d of the bundle is out of order or altered", i)
		}
	}
	if oneErr != nil || one == nil || !bytes.Equal(one.Raw, ders[0]) {
		return out, vh.Errf("ParsePEMCertificate did not return the first certificate: %v", oneErr)
	}
	return out, nil
}

func TestC16PEM(t *testing.T) {
	vh.Run(t, vh.Spec[PEMCase]{Property: "C16", Name: "TestC16PEM",
		Rule: "PEM bundles of 0..5 (one in 40: 16..257) certificates drawn from the seed corpus, with leading text (tool output lines incl. ones starting with the digit 0, a hex dump line, dashes, a byte-order mark, the armour line quoted in the middle of a line; every leading line ends with a newline, as the PEM armour must start a line), text between blocks, PEM headers, trailing whitespace, and (negatively) trailing non-space garbage. Oracle: n>=1 => exactly n certificates in order, Raw-identical, and the single-certificate entry point returns the first; trailing garbage => error; a block whose body is two concatenated certificates (trailing data inside the block) => error; whitespace-only => no certificates and no error; leading text without certificates => either outcome. Non-trivial: >=2 certificates, or one with decoration.",
		Gen: func(t *rapid.T) PEMCase {
			c := PEMCase{}
			n := rapid.IntRange(0, 5).Draw(t, "n")
			if rapid.IntRange(0, 40).Draw(t, "manyBlocks") == 19 {
				n = rapid.SampledFrom([]int{16, 33, 64, 100, 257}).Draw(t, "nMany") // nothing bounds the number of blocks in a bundle
			}
			for i := 0; i < n; i++ {
				c.Certs = append(c.Certs, rapid.IntRange(0, len(seedCorpus())-1).Draw(t, fmt.Sprintf("c%d", i)))
				if rapid.IntRange(0, 3).Draw(t, fmt.Sprintf("hasB%d", i)) == 0 {
					c.Between = append(c.Between, rapid.SampledFrom([]string{"\n", "# next certificate\n", "subject=/CN=x\nissuer=/CN=y\n", "\r\n\r\n", "  \n", "# next: -----BEGIN CERTIFICATE-----\n"}).Draw(t, fmt.Sprintf("b%d", i)))
				} else {
					c.Between = append(c.Between, "")
				}
			}
			if n > 0 && len(c.Between) > 0 {
				// text after the last block is "trailing", handled separately
				c.Between[n-1] = ""
			}
			c.Lead = rapid.SampledFrom([]string{"", "", "Bag Attributes\n  friendlyName: x\n", "# leading comment\n", "\n\n", "subject=CN=Yubico PIV Attestation\n",
				// explanatory text as openssl / piv tools print it in front of the block: digits, a DER-looking first byte ('0' = 0x30), dashes
				"0 s:CN = Yubico PIV Attestation\n   i:CN = Yubico PIV Root CA Serial 263751\n", "01:02:03 slot 9a\n", "0\n", "00000000  30 82 03 17\n", "-----\n", "--- certificate 1 ---\n", "Certificate:\n    Data:\n        Version: 3 (0x2)\n", "\xef\xbb\xbf\n", "\r\n", " \t\n", "-----BEGIN NOTHING\n",
				// the armour line quoted inside a line of text (not at the start of a line: no block starts there)
				"# the block -----BEGIN CERTIFICATE----- follows\n", "see -----BEGIN CERTIFICATE----- ... -----END CERTIFICATE-----\n", "x-----BEGIN CERTIFICATE-----\n"}).Draw(t, "lead")
			c.TrailWS = rapid.SampledFrom([]string{"", "", "\n", " \t\r\n", "\n\n\n"}).Draw(t, "trailWS")
			if rapid.IntRange(0, 4).Draw(t, "hasGarbage") == 0 {
				c.Garbage = rapid.SampledFrom([]string{"x", "garbage\n", "-----BEGIN CERTIFICATE-----\n", "-----BEGIN CERTIFICATE-----\nAAAA\n", "\x00", "-----END CERTIFICATE-----\n"}).Draw(t, "garbage")
			}
			c.BlockHdr = rapid.IntRange(0, 5).Draw(t, "blockHdr") == 0
			if n > 0 && c.Garbage == "" && rapid.IntRange(0, 5).Draw(t, "hasDouble") == 0 {
				c.Double = rapid.IntRange(1, n).Draw(t, "double")
			}
			return c
		},
		Exec: execPEM})
}

// ---------- native fuzz targets ----------

func FuzzC16Parse(f *testing.F) {
	for _, s := range seedCorpus() {
		f.Add(s)
	}
	f.Fuzz(func(t *testing.T, b []byte) {
		if _, err := checkBytes(b); err != nil {
			t.Fatal(err)
		}
	})
}

func FuzzC16PEM(f *testing.F) {
	for i, s := range seedCorpus() {
		if i < 4 {
			f.Add(pem.EncodeToMemory(&pem.Block{Type: "CERTIFICATE", Bytes: s}))
		}
	}
	f.Add([]byte("\n \n"))
	f.Fuzz(func(t *testing.T, b []byte) {
		var got []*x509.Certificate
		var err error
		if perr := vh.Catch(func() { got, err = utils.ParsePEMCertificates(b) }); perr != nil {
			t.Fatalf("ParsePEMCertificates crashed on %q: %v", b, perr)
		}
		if err == nil {
			// independent count of decodable CERTIFICATE-or-other blocks
			n := 0
			rest := b
			for {
				var blk *pem.Block
				blk, rest = pem.Decode(rest)
				if blk == nil {
					break
				}
				n++
			}
			if len(got) != n {
				t.Fatalf("%d certificates from an input with %d PEM blocks: %q", len(got), n, b)
			}
			if len(bytes.TrimSpace(rest)) != 0 {
				t.Fatalf("trailing garbage %q accepted", rest)
			}
		}
	})
}
