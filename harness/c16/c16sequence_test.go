package c16

// TestC16Sequence: the parser has no memory. Whatever was parsed before - a certificate full of extensions,
// one without any, a refused half of one - a certificate decodes to the same fields as with crypto/x509.

import (
	"crypto/x509"
	"fmt"
	"testing"

	"github.com/theparanoids/ysshra/attestation/yubiattest"
	"github.com/theparanoids/ysshra/zzverif/vh"
)

type SeqCase struct {
	First, Second int // indices into the fixed certificate list
	FirstCut      bool
}

func sequenceCerts() [][]byte {
	list := append([][]byte{}, seedCorpus()...)
	bare := []CertCase{
		{SubjectKey: "p256b", Serial: []byte{9}, CN: "bare", NotAfter: 4102444800},
		{SubjectKey: "rsa1024a", Serial: []byte{9, 1}, CN: "bare rsa", NotAfter: 4102444800},
		{SubjectKey: "p384a", Serial: []byte{9, 2}, CN: "one extension", NotAfter: 4102444800, KeyUsage: 1},
		{SubjectKey: "p256b", SignerKey: "rsa1024a", Serial: []byte{9, 3}, CN: "issued, names only", NotAfter: 4102444800, DNS: []string{"b.example.com", "c.example.com"}, Emails: []string{"x@example.com"}},
		{SubjectKey: "p521a", Serial: []byte{9, 4}, CN: "policies", Org: []string{"o1", "o2"}, NotAfter: 4102444800, Policies: [][]int{{1, 2, 3}, {2, 5, 4}}, UnknownEKU: [][]int{{1, 2, 840}}, IAN: 3},
	}
	for _, c := range bare {
		if der, err := c.der(); err == nil {
			list = append(list, der)
		}
	}
	return list
}

func TestC16Sequence(t *testing.T) {
	list := sequenceCerts()
	var cases []SeqCase
	for i := range list {
		for j := range list {
			cases = append(cases, SeqCase{First: i, Second: j}, SeqCase{First: i, Second: j, FirstCut: true})
		}
	}
	vh.Enumerate(t, vh.Spec[SeqCase]{Property: "C16", Name: "TestC16Sequence", Exhaustive: true,
		Rule: fmt.Sprintf("every ordered pair of %d certificates (the repository's test certificates, generated ones with many extensions, NULL-less RSA variants, and certificates with no / one / few extensions): the first is parsed (whole, or cut at two thirds and refused), then the second, three times over in one goroutine (%d pairs). Oracle: the second certificate's fields agree with crypto/x509's reading of it (agree(): Raw, names, key, serial, validity, version, the extension list, alternative names, ...) whatever was parsed before it; a certificate crypto/x509 refuses is only required not to crash the parser", len(list), len(cases)),
		Exec: func(c SeqCase) (vh.Outcome, error) {
			out := vh.Outcome{NonTrivial: c.First != c.Second}
			a, b := list[c.First], list[c.Second]
			if c.FirstCut {
				a = a[:len(a)*2/3]
			}
			std, serr := x509.ParseCertificate(b)
			for round := 0; round < 3; round++ {
				var got *x509.Certificate
				var err error
				if perr := vh.Catch(func() { _, _ = yubiattest.ParseCertificate(a); got, err = yubiattest.ParseCertificate(b) }); perr != nil {
					return out, vh.Errf("ParseCertificate crashed: %v", perr)
				}
				if serr != nil {
					continue
				}
				if err != nil {
					return out, vh.Errf("certificate #%d parsed after #%d (cut: %v): the lenient parser refused what crypto/x509 accepts: %v", c.Second, c.First, c.FirstCut, err)
				}
				if err := agree(got, std, true); err != nil {
					return out, vh.Errf("certificate #%d parsed after #%d (cut: %v) disagrees with crypto/x509's reading of the same bytes: %v", c.Second, c.First, c.FirstCut, err)
				}
			}
			return out, nil
		}}, cases)
}
