package c16

// TestC16Structure: every element of every seed certificate's DER tree - descending into constructed
// values and into the DER wrapped by BIT STRINGs and OCTET STRINGs (keys, extension values) - is emptied,
// reduced to a zero-bit BIT STRING / a single byte, deleted or duplicated, with all enclosing lengths
// rebuilt. A complete sweep of the structural edits the random byte-level check only samples.

import (
	"fmt"
	"testing"

	"github.com/theparanoids/ysshra/zzverif/vh"
)

type derNode struct {
	t      tlv
	prefix []byte // bytes of the parent's content in front of the wrapped DER (the unused-bits octet of a BIT STRING)
	kids   []*derNode
}

func parseNodes(b []byte, depth int) ([]*derNode, bool) {
	var out []*derNode
	for len(b) > 0 {
		t, rest, ok := readTLV(b)
		if !ok {
			return nil, false
		}
		n := &derNode{t: t}
		if depth < 12 {
			switch {
			case t.tag&0x20 != 0:
				if kids, ok := parseNodes(t.content, depth+1); ok {
					n.kids = kids
				}
			case t.tag == 0x03 && len(t.content) > 1 && t.content[0] == 0 && t.content[1] == 0x30:
				if kids, ok := parseNodes(t.content[1:], depth+1); ok {
					n.kids, n.prefix = kids, []byte{0}
				}
			case t.tag == 0x04 && len(t.content) > 1 && (t.content[0] == 0x30 || t.content[0] == 0x04 || t.content[0] == 0x03):
				if kids, ok := parseNodes(t.content, depth+1); ok {
					n.kids = kids
				}
			}
		}
		out = append(out, n)
		b = rest
	}
	return out, true
}

// encodeNodes rebuilds the bytes of a level; the node reached by path is replaced by what op returns for it.
func encodeNodes(ns []*derNode, path []int, op func(t tlv) []byte) []byte {
	var out []byte
	for i, n := range ns {
		switch {
		case len(path) > 0 && path[0] == i && len(path) == 1:
			out = append(out, op(n.t)...)
		case len(path) > 0 && path[0] == i:
			out = append(out, wrap(n.t.tag, append(append([]byte{}, n.prefix...), encodeNodes(n.kids, path[1:], op)...))...)
		default:
			out = append(out, n.t.full...)
		}
	}
	return out
}

func allPaths(ns []*derNode, at []int, out *[][]int) {
	for i, n := range ns {
		p := append(append([]int{}, at...), i)
		*out = append(*out, p)
		allPaths(n.kids, p, out)
	}
}

type StructCase struct {
	Seed int
}

func TestC16Structure(t *testing.T) {
	var cases []StructCase
	for i := range seedCorpus() {
		cases = append(cases, StructCase{Seed: i})
	}
	ops := map[string]func(t tlv) []byte{
		"emptied":       func(t tlv) []byte { return wrap(t.tag, nil) },
		"zero-bits":     func(t tlv) []byte { return wrap(t.tag, []byte{0}) },
		"one-byte":      func(t tlv) []byte { return wrap(t.tag, t.content[:min(1, len(t.content))]) },
		"deleted":       func(t tlv) []byte { return nil },
		"duplicated":    func(t tlv) []byte { return append(append([]byte{}, t.full...), t.full...) },
		"last-byte-cut": func(t tlv) []byte { return wrap(t.tag, t.content[:max(0, len(t.content)-1)]) },
	}
	vh.Enumerate(t, vh.Spec[StructCase]{Property: "C16", Name: "TestC16Structure", Exhaustive: true, Journal: true,
		Rule: "for every seed certificate (the repository's test certificates and generated ones with many extensions, with and without key NULL) and EVERY element of its DER tree, descending into constructed values and into DER wrapped by BIT / OCTET STRINGs: the element emptied, reduced to one zero octet, reduced to its first byte, deprived of its last byte, deleted, duplicated - enclosing lengths rebuilt, so the result is well-formed DER up to the edit. Oracle: TestC16Mutations' (neither the parser nor the serial extractor crashes; an accepted result's ModHex follows the reference rendering). Non-trivial: a seed whose tree has more than 40 elements",
		Exec: func(c StructCase) (vh.Outcome, error) {
			der := seedCorpus()[c.Seed]
			roots, ok := parseNodes(der, 0)
			out := vh.Outcome{}
			if !ok {
				return out, nil
			}
			var paths [][]int
			allPaths(roots, nil, &paths)
			out.NonTrivial = len(paths) > 40
			out.Classes = []string{fmt.Sprintf("elements>=%d", len(paths)/50*50)}
			for _, p := range paths {
				for name, op := range ops {
					in := encodeNodes(roots, p, op)
					if _, err := checkBytes(in); err != nil {
						return out, fmt.Errorf("seed certificate %d, element at path %v %s: %w", c.Seed, p, name, err)
					}
				}
			}
			return out, nil
		}}, cases)
}
