// C10 — hardware certificates are bound to a held key; everything else passes through intact.
package c10

import (
	"fmt"
	"testing"

	"github.com/theparanoids/ysshra/zzverif/vh"
	"pgregory.net/rapid"
)

var profile = vh.ShimProfile{
	Validities:      []string{"current", "current", "forever", "beforebig", "past", "past", "future", "soon", "justpast"},
	KeyIDClasses:    vh.AllKeyIDClasses,
	Forward:         true,
	Faults:          true,
	ConstructFaults: true,
	BadAddress:      true,
	MaxOps:          30,
}

func exec(c vh.ShimCase) (vh.Outcome, error) {
	tr, err := vh.RunShimCase(c)
	out := vh.Outcome{NonTrivial: tr.HardDecisions > 0 || tr.FaultsReached > 0,
		Classes: []string{fmt.Sprintf("noUpstream=%v", c.NoUpstream)}}
	if tr.HardDecisions > 0 {
		out.Classes = append(out.Classes, "hard-decision")
	}
	if tr.HardAccepted > 0 {
		out.Classes = append(out.Classes, "hard-accepted")
	}
	if tr.FaultsReached > 0 {
		out.Classes = append(out.Classes, "fault-reached")
	}
	if tr.Dead {
		out.Classes = append(out.Classes, "connection-destroyed")
	}
	if tr.ConstructFailed {
		out.Classes = append(out.Classes, "construct-failed")
	}
	if tr.Forwards > 0 {
		out.Classes = append(out.Classes, "forward")
	}
	if tr.SignChecks > 0 {
		out.Classes = append(out.Classes, "signature-verified")
	}
	return out, err
}

const rule = "histories of 1..30 shim operations (add key / certificate+key / hardware certificate incl. plain keys, certificates over absent keys, over keys present only as a certificate, the same twice, several certificates over one key offered while the key is held and after it left; list, signers, sign with flags, sign through a Signers() signer, remove, remove-all, out-of-band edits of the keyring, raw Forward bodies of 0..64 KiB with interpreted and unknown codes, extension) over 0..6 initial identities of RSA / ECDSA / Ed25519 keys, both upstream modes, with fault plans installed at any point (failure reply, malformed reply, empty reply, declared length > 16 MiB, truncated reply, connection closed; by request index or request kind) and faults or a dead address during construction. Oracle: reference model of the in-memory table over the directly observed keyring: acceptance iff certificate over a listed plain key; listings = keyring identities (blob-identical, not hidden) + in-memory as multisets with expected comments; signatures verify under the identity's key; raw requests and replies byte-identical at the proxy; a fault yields an error, never a crash, and still-valid in-memory certificates are listed afterwards; New fails when construction fails. Non-trivial: an acceptance decision was taken or a fault was reached."

// genWithSlotEpisode: a third of the histories contain an episode about ONE key that carries several
// certificates (a slot with a touch and a touchless certificate): the first is registered while the
// key is held, the key then leaves the underlying agent (through the shim or behind its back), and
// another certificate over the same key is offered - with or without a listing in between.
func genWithSlotEpisode(t *rapid.T) vh.ShimCase {
	c := vh.GenShimCase(t, profile)
	if rapid.IntRange(0, 2).Draw(t, "slotEpisode") != 0 || c.BadAddress || len(c.ConstructPlan) > 0 {
		return c
	}
	key := rapid.SampledFrom([]string{"p384a", "ed25519c", "rsa1536", "dsa1024"}).Draw(t, "slotKey")
	base := len(c.Certs)
	for i, class := range []string{"ysshca0", "ysshca1", "text"} {
		c.Certs = append(c.Certs, vh.CertDef{Key: key, KeyIDClass: class, Validity: "current", Serial: uint64(3000 + i)})
	}
	ep := []vh.Op{{Kind: "plan", Cert: -1}, {Kind: "addkey", Key: key, Cert: -1}, {Kind: "addhard", Cert: base, Comment: "touch"}}
	if rapid.Bool().Draw(t, "slotForward") {
		// raw requests of every kind pass through while a hardware certificate is held: none of them is
		// the shim's business, the certificate stays listed and usable
		n := rapid.IntRange(1, 3).Draw(t, "slotForwardN")
		for i := 0; i < n; i++ {
			code := rapid.SampledFrom([]int{20, 21, 26, 28, 24, 30, 200, 0}).Draw(t, fmt.Sprintf("slotForwardCode%d", i))
			ep = append(ep, vh.Op{Kind: "forward", Cert: -1, Body: append([]byte{byte(code)}, rapid.SliceOfN(rapid.Byte(), 0, 24).Draw(t, fmt.Sprintf("slotForwardBody%d", i))...)})
		}
		ep = append(ep, vh.Op{Kind: "list", Cert: -1}, vh.Op{Kind: "sign", Cert: base, Data: []byte("after forward")})
	}
	if rapid.Bool().Draw(t, "slotSecondWhileHeld") {
		ep = append(ep, vh.Op{Kind: "addhard", Cert: base + 1, Comment: "touchless"})
	}
	ep = append(ep, vh.Op{Kind: rapid.SampledFrom([]string{"oobremove", "oobremove", "remove", "oobremoveall"}).Draw(t, "slotKeyLeaves"), Key: key, Cert: -1})
	if rapid.IntRange(0, 2).Draw(t, "slotListBetween") == 0 {
		ep = append(ep, vh.Op{Kind: "list", Cert: -1})
	}
	ep = append(ep, vh.Op{Kind: "addhard", Cert: base + 2, Comment: "other"}, vh.Op{Kind: "list", Cert: -1}, vh.Op{Kind: "sign", Cert: base + 2, Data: []byte("slot")})
	at := rapid.IntRange(0, len(c.Ops)).Draw(t, "slotAt")
	ops := append(append(append([]vh.Op{}, c.Ops[:at]...), ep...), c.Ops[at:]...)
	c.Ops = ops
	return c
}

func TestC10Shim(t *testing.T) {
	vh.Run(t, vh.Spec[vh.ShimCase]{Property: "C10", Name: "TestC10Shim", Rule: rule + vh.ShimGenNote,
		Gen: genWithSlotEpisode, Exec: exec})
}

// TestC10ConstructFaults enumerates every fault kind at the first request of construction in both modes.
func TestC10ConstructFaults(t *testing.T) {
	var cases []vh.ShimCase
	for _, noUp := range []bool{true, false} {
		for _, kind := range []string{"fail", "malformed", "empty", "oversize", "close", "truncate"} {
			for _, withKey := range []bool{false, true} {
				c := vh.ShimCase{NoUpstream: noUp, Certs: []vh.CertDef{{Key: "p256b", KeyIDClass: "ysshca1", Validity: "current", Serial: 1000}},
					ConstructPlan: []vh.FaultRule{{Index: 0, Code: -1, Remaining: 1, Kind: kind}},
					Ops:           []vh.Op{{Kind: "list", Cert: -1}, {Kind: "addhard", Cert: 0}, {Kind: "list", Cert: -1}}}
				if withKey {
					c.Initial = []vh.Op{{Kind: "oobadd", Key: "p256b", Cert: -1}, {Kind: "oobaddcert", Cert: 0}}
				}
				cases = append(cases, c)
			}
		}
	}
	cases = append(cases, vh.ShimCase{BadAddress: true, Certs: []vh.CertDef{{Key: "p256b", KeyIDClass: "text", Validity: "current"}}}, vh.ShimCase{BadAddress: true, NoUpstream: true, Certs: []vh.CertDef{{Key: "p256b", KeyIDClass: "text", Validity: "current"}}})
	vh.Enumerate(t, vh.Spec[vh.ShimCase]{Property: "C10", Name: "TestC10ConstructFaults", Exhaustive: true,
		Rule: "every fault kind (6) at the first request x both upstream modes x empty / populated underlying agent, plus an address nobody listens on in both modes: construction must return an error or a working agent, never crash",
		Exec: exec}, cases)
}
