package c10

// TestC10LongLived: a shim agent lives as long as the user's session. The same operations are judged by
// the same model before and after the agent has been left alone for a while.

import (
	"fmt"
	"sync"
	"testing"

	"github.com/theparanoids/ysshra/zzverif/vh"
)

type IdleBatch struct {
	IdleMS int
	Cases  []vh.ShimCase
}

func TestC10LongLived(t *testing.T) {
	mk := func(idle int) IdleBatch {
		b := IdleBatch{IdleMS: idle}
		for _, noUp := range []bool{true, false} {
			for _, initial := range []string{"empty", "keys", "keys+ysshca"} {
				c := vh.ShimCase{NoUpstream: noUp, Certs: []vh.CertDef{
					{Key: "p256b", KeyIDClass: "ysshca1", Validity: "forever", Serial: 1000},
					{Key: "ed25519c", KeyIDClass: "text", Validity: "current", Serial: 1001},
					{Key: "rsa1536", KeyIDClass: "ysshca5", Validity: "current", Serial: 1002}}}
				if initial != "empty" {
					c.Initial = []vh.Op{{Kind: "oobadd", Key: "p256b", Cert: -1, Comment: "token"}, {Kind: "oobadd", Key: "ed25519c", Cert: -1}}
				}
				if initial == "keys+ysshca" {
					c.Initial = append(c.Initial, vh.Op{Kind: "oobaddcert", Cert: 2, Comment: "held upstream"})
				}
				use := []vh.Op{{Kind: "addhard", Cert: 0, Comment: "hw"}, {Kind: "list", Cert: -1}, {Kind: "sign", Cert: 0, Data: []byte("before")},
					{Kind: "signers", Cert: -1}, {Kind: "forward", Cert: -1, Body: []byte{200, 1, 2}}}
				c.Ops = append(c.Ops, use...)
				c.Ops = append(c.Ops, vh.Op{Kind: "idle", Cert: -1, IdleMS: idle})
				c.Ops = append(c.Ops, vh.Op{Kind: "list", Cert: -1}, vh.Op{Kind: "sign", Cert: 0, Data: []byte("after")}, vh.Op{Kind: "addhard", Cert: 1, Comment: "hw2"},
					vh.Op{Kind: "addkey", Key: "p384a", Cert: -1, Comment: "late"}, vh.Op{Kind: "signers", Cert: -1}, vh.Op{Kind: "forward", Cert: -1, Body: []byte{201, 9}},
					vh.Op{Kind: "sign", Cert: 1, Data: []byte("after2")}, vh.Op{Kind: "remove", Key: "p384a", Cert: -1}, vh.Op{Kind: "list", Cert: -1})
				b.Cases = append(b.Cases, c)
			}
		}
		return b
	}
	batches := []IdleBatch{mk(6500)}
	if vh.Thorough() {
		batches = append(batches, mk(1500), mk(16000), mk(35000), mk(65000))
	}
	vh.Enumerate(t, vh.Spec[IdleBatch]{Property: "C10", Name: "TestC10LongLived", Exhaustive: true,
		Rule: "both upstream modes x underlying agent {empty, two keys, two keys and a YSSHCA certificate}: register a hardware certificate, list, sign, signers, raw forward; then nothing for 6.5 s (thorough: also 1.5, 16, 35 and 65 s); then list, sign with the hardware certificate, register a second one, add a key, signers, raw forward, sign, remove, list (6 histories side by side per idle time). Oracle: the shim reference model, unchanged - an agent that was left alone behaves like a fresh one",
		Exec: func(b IdleBatch) (vh.Outcome, error) {
			out := vh.Outcome{NonTrivial: true, Classes: []string{fmt.Sprintf("idle=%dms", b.IdleMS)}}
			errs := make([]error, len(b.Cases))
			var wg sync.WaitGroup
			for i, c := range b.Cases {
				i, c := i, c
				wg.Add(1)
				go func() { defer wg.Done(); _, errs[i] = vh.RunShimCase(c) }()
			}
			wg.Wait()
			for i, e := range errs {
				if e != nil {
					return out, fmt.Errorf("history %d (no-upstream=%v, left alone for %d ms): %w", i, b.Cases[i].NoUpstream, b.IdleMS, e)
				}
			}
			return out, nil
		}}, batches)
}

// TestC10LostReplies: the fault class "the reply of a relayed raw request never arrives completely" as a fixed grid.
func TestC10LostReplies(t *testing.T) {
	var cases []vh.ShimCase
	for _, noUp := range []bool{false, true} {
		for _, kind := range []string{"close", "truncate", "oversize"} {
			for _, what := range []string{"forward", "extension"} {
				code, op := 200, vh.Op{Kind: "forward", Cert: -1, Body: []byte{200, 1, 2, 3, 4}}
				if what == "extension" {
					code, op = vh.CodeExtension, vh.Op{Kind: "extension", Cert: -1, Body: []byte("payload")}
				}
				cases = append(cases, vh.ShimCase{NoUpstream: noUp, Certs: []vh.CertDef{{Key: "p256b", KeyIDClass: "text", Validity: "current", Serial: 1000}},
					Initial: []vh.Op{{Kind: "oobadd", Key: "p256b", Cert: -1}},
					Ops: []vh.Op{{Kind: "list", Cert: -1}, {Kind: "plan", Cert: -1, Plan: []vh.FaultRule{{Index: -1, Code: code, Kind: kind, Remaining: 1}}}, op, {Kind: "list", Cert: -1}}})
			}
		}
	}
	vh.Enumerate(t, vh.Spec[vh.ShimCase]{Property: "C10", Name: "TestC10LostReplies", Exhaustive: true,
		Rule: "both upstream modes x a raw forward / an extension call x the underlying agent closing the connection instead of answering, cutting its reply short inside the frame, or declaring an oversize reply (12 histories). Oracle: the shim reference model - a reply that never arrived completely comes back as an error, never as a shorter reply; nothing crashes",
		Exec: exec}, cases)
}

// TestC10HeldTwice: one certificate held both by the underlying agent (with its key) and as in-memory hardware
// certificate - the class the random histories reach through their focus certificate - as a fixed grid.
func TestC10HeldTwice(t *testing.T) {
	var cases []vh.ShimCase
	for _, noUp := range []bool{false, true} {
		for _, kid := range []string{"text", "ysshca1"} {
			for _, order := range []string{"upstream-first", "memory-first"} {
				c := vh.ShimCase{NoUpstream: noUp, Certs: []vh.CertDef{{Key: "p256b", KeyIDClass: kid, Validity: "current", Serial: 1000}},
					Initial: []vh.Op{{Kind: "oobadd", Key: "p256b", Cert: -1, Comment: "token"}}}
				up, mem := vh.Op{Kind: "addcert", Cert: 0, Comment: "up"}, vh.Op{Kind: "addhard", Cert: 0, Comment: "hw"}
				if order == "upstream-first" {
					c.Ops = append(c.Ops, up, mem)
				} else {
					c.Ops = append(c.Ops, mem, up)
				}
				c.Ops = append(c.Ops, vh.Op{Kind: "list", Cert: -1}, vh.Op{Kind: "sign", Cert: 0, Data: []byte("held twice")}, vh.Op{Kind: "remove", Cert: 0}, vh.Op{Kind: "list", Cert: -1},
					vh.Op{Kind: "signers", Cert: -1}, vh.Op{Kind: "sign", Cert: 0, Data: []byte("after removal")}, vh.Op{Kind: "addhard", Cert: 0, Comment: "hw2"}, vh.Op{Kind: "list", Cert: -1})
				cases = append(cases, c)
			}
		}
	}
	vh.Enumerate(t, vh.Spec[vh.ShimCase]{Property: "C10", Name: "TestC10HeldTwice", Exhaustive: true,
		Rule: "both upstream modes x {free-text, YSSHCA} KeyID x {handed to the underlying agent first, registered in memory first}: one certificate held twice; list, sign, remove naming the certificate, list, signers, sign, register again, list (8 histories). Oracle: the shim reference model (removal takes the certificate away from both places; afterwards it is neither listed nor usable until it is registered again)",
		Exec: exec}, cases)
}
