package c14

// TestC14Fresh: "a fresh 10-hex-digit value" over many evaluations: thousands of requests built in
// a burst, side by side, must not share transaction ids.

import (
	"fmt"
	"sync"
	"testing"

	"github.com/theparanoids/ysshra/zzverif/vh"
)

type FreshCase struct {
	Goroutines int
	PerRoutine int
}

func TestC14Fresh(t *testing.T) {
	cases := []FreshCase{{Goroutines: 1, PerRoutine: 3000}, {Goroutines: 6, PerRoutine: 500}}
	if vh.Thorough() {
		cases = append(cases, FreshCase{Goroutines: 16, PerRoutine: 2000})
	}
	vh.Enumerate(t, vh.Spec[FreshCase]{Property: "C14", Name: "TestC14Fresh", Exhaustive: true,
		Rule: "3000 evaluations in a row and 6 x 500 side by side (thorough: also 16 x 2000) of NewReqParam on one valid environment, all within a second or two. Oracle: every transaction id is 10 hex digits and the burst contains fewer than 2 repeated ids (a 40-bit random value repeats among 3000 with probability 4e-6, twice with 1e-11; an id with less entropy, a counter reset or a time-derived prefix repeats many times)",
		Exec: func(c FreshCase) (vh.Outcome, error) {
			out := vh.Outcome{NonTrivial: true}
			base := Case{Command: `{"ifVer":7,"username":"user","hostname":"host.com","sshClientVersion":"8.1"}`, LogName: "user_a", Conn: "172.17.0.1 51234 172.17.0.2 22", Argv: []string{"gensign", "-c", "/usr/bin/gensign NONS Regular"}}
			ids := make([][]string, c.Goroutines)
			errs := make([]error, c.Goroutines)
			var wg sync.WaitGroup
			for g := 0; g < c.Goroutines; g++ {
				g := g
				wg.Add(1)
				go func() {
					defer wg.Done()
					for i := 0; i < c.PerRoutine; i++ {
						o, crash := eval(base)
						if crash != nil {
							errs[g] = vh.Errf("NewReqParam crashed: %v", crash)
							return
						}
						if !o.ok {
							errs[g] = vh.Errf("a valid environment was refused: %s", o.err)
							return
						}
						if !transRE.MatchString(o.tr) {
							errs[g] = vh.Errf("transaction id %q is not 10 hex digits", o.tr)
							return
						}
						ids[g] = append(ids[g], o.tr)
					}
				}()
			}
			wg.Wait()
			for _, e := range errs {
				if e != nil {
					return out, e
				}
			}
			seen := map[string]int{}
			total, repeats := 0, 0
			example := ""
			for _, l := range ids {
				for _, id := range l {
					total++
					seen[id]++
					if seen[id] > 1 {
						repeats++
						example = id
					}
				}
			}
			if repeats >= 2 {
				return out, vh.Errf("%d transaction ids built in one burst (%d goroutine(s)) contain %d repeats (e.g. %s): not fresh values", total, c.Goroutines, repeats, example)
			}
			out.Classes = append(out.Classes, fmt.Sprintf("burst=%d", total))
			return out, nil
		}}, cases)
}
