// C14 — request parameters parse totally and come from the server-side environment.
package c14

import (
	"reflect"
	"encoding/json"
	"fmt"
	"net/netip"
	"regexp"
	"strings"
	"testing"
	"unicode/utf8"

	"github.com/theparanoids/ysshra/csr"
	"github.com/theparanoids/ysshra/zzverif/vh"
	"pgregory.net/rapid"
)

type Case struct {
	Command string
	// CommandRaw carries the command when it is not valid UTF-8 (JSON replay files would alter it).
	CommandRaw  []byte `json:",omitempty"`
	CmdKind     string
	LogName     string
	Conn        string
	ConnKind    string
	Argv        []string
	ArgvKind    string
	MustSucceed bool
}

var transRE = regexp.MustCompile(`^[0-9a-f]{10}$`)

// ---- generators ----

func genCommand(t *rapid.T) (text, kind string, valid bool) {
	switch rapid.IntRange(0, 12).Draw(t, "cmdKind") {
	case 12: // a complete JSON object with something behind it: not a JSON text, whatever the object says
		user := rapid.StringMatching(`[a-z]{1,8}`).Draw(t, "tuser")
		obj := vh.JoinMembers([]vh.Member{{Name: "ifVer", Raw: "7"}, {Name: "username", Raw: vh.JStr(user)}, {Name: "hostname", Raw: vh.JStr("laptop")}, {Name: "sshClientVersion", Raw: vh.JStr("8.1")}}, "")
		trailer := rapid.SampledFrom([]string{"}", " }", "{}", " x", ",", "]", "null", " null", "\n" + obj, obj, " IFVer=6 req=bob@evil SSHClientVersion=7.9", " req=bob@evil", " HardKey=true", "\x00", "\n\n.", " IFVer=6 SSHClientVersion=7.9"}).Draw(t, "trailer")
		return obj + trailer, "json-trailer", false
	case 0, 1, 2, 3: // JSON object
		user := vh.GenAnyString(t, "user")
		host := vh.GenAnyString(t, "host")
		vtext, vvalid, _ := vh.GenVersionText(t, "ver")
		ms := []vh.Member{{Name: "ifVer", Raw: "7"}, {Name: "username", Raw: vh.JStr(user)}, {Name: "hostname", Raw: vh.JStr(host)}, {Name: "sshClientVersion", Raw: vh.JStr(vtext)}}
		if rapid.Bool().Draw(t, "moreMembers") {
			ms = append(ms, vh.Member{Name: "hardKey", Raw: fmt.Sprint(rapid.Bool().Draw(t, "hardKey"))},
				vh.Member{Name: "caPubKeyAlgo", Raw: fmt.Sprint(rapid.IntRange(0, 5).Draw(t, "caAlgo"))},
				vh.Member{Name: "signatureAlgo", Raw: fmt.Sprint(rapid.IntRange(0, 17).Draw(t, "sigAlgo"))})
		}
		if rapid.Bool().Draw(t, "exts") {
			b, _ := json.Marshal(vh.GenJSONMap(t, "exts", 2, 0))
			ms = append(ms, vh.Member{Name: "exts", Raw: string(b)})
		}
		kind = "json"
		valid = vvalid && user != "" && host != ""
		switch rapid.IntRange(0, 7).Draw(t, "jsonMut") {
		case 0:
			i := rapid.IntRange(1, 3).Draw(t, "drop")
			ms = append(ms[:i:i], ms[i+1:]...)
			kind, valid = "json-missing", false
		case 1:
			i := rapid.IntRange(0, len(ms)-1).Draw(t, "retype")
			ms[i].Raw = rapid.SampledFrom([]string{"1", `"x"`, "[]", "{}", "null", "true"}).Draw(t, "raw")
			kind, valid = "json-retyped", false
		case 2:
			ms = append(ms, vh.Member{Name: rapid.SampledFrom([]string{"logName", "LOGNAME", "principal", "clientIP", "transID", "note"}).Draw(t, "xn"),
				Raw: vh.JStr(rapid.SampledFrom([]string{"root", " req=evil@host ", "10.0.0.1"}).Draw(t, "xv"))})
		}
		if rapid.Bool().Draw(t, "shuffle") {
			ms = rapid.Permutation(ms).Draw(t, "order")
		}
		// insignificant whitespace a conforming JSON encoder may put around the object
		pad := rapid.SampledFrom([][2]string{{"", ""}, {"", ""}, {"", ""}, {" ", ""}, {"\n", "\n"}, {"\t", " "}, {"\r\n", "\r\n"}}).Draw(t, "pad")
		return pad[0] + vh.JoinMembers(ms, rapid.SampledFrom([]string{"", " "}).Draw(t, "ws")) + pad[1], kind, valid
	case 4, 5, 6: // legacy
		user := vh.GenPlainToken(t, "luser")
		host := vh.GenPlainToken(t, "lhost")
		if rapid.IntRange(0, 5).Draw(t, "lOddSpace") == 2 {
			// only U+0020 separates legacy attributes: other white space is part of a value
			ws := rapid.SampledFrom([]string{"\t", "\n", "\u00a0", "\u2003", "\v", "\r", "\u3000", "\u0085"}).Draw(t, "lOddSpaceChar")
			if rapid.Bool().Draw(t, "lOddSpaceInUser") {
				user = "al" + ws + user
			} else {
				host = host + ws + "top"
			}
		}
		if rapid.IntRange(0, 7).Draw(t, "lRawByte") == 5 {
			// a byte that is not valid UTF-8 inside a declared value (the command text is a byte string: whatever the
			// client declares is copied as it stands, or the call fails)
			raw := rapid.SampledFrom([]string{"\xff", "\xfe", "\xc3", "\x80", "\xed\xa0\x80"}).Draw(t, "lRawByteVal")
			if rapid.Bool().Draw(t, "lRawByteInUser") {
				user = user[:len(user)/2] + raw + user[len(user)/2:]
			} else {
				host = host[:len(host)/2] + raw + host[len(host)/2:]
			}
		}
		toks := []string{"IFVer=6"}
		valid = true
		switch rapid.IntRange(0, 4).Draw(t, "lver") {
		case 0: // omitted
		case 1:
			toks = append(toks, "SSHClientVersion=")
		default:
			vtext, vvalid, _ := vh.GenVersionText(t, "lverText")
			if vh.HasSpaceOrAt(vtext) || vtext != strings.TrimSpace(vtext) {
				vtext, vvalid = "8.1", true
			}
			toks = append(toks, "SSHClientVersion="+vtext)
			valid = vvalid
		}
		switch rapid.IntRange(0, 7).Draw(t, "lreq") {
		case 0:
			valid = false // no requester
		case 1:
			toks = append(toks, "req="+user)
			valid = false
		default:
			toks = append(toks, "req="+user+"@"+host)
		}
		if rapid.Bool().Draw(t, "lhk") {
			toks = append(toks, "HardKey=true")
		}
		if rapid.Bool().Draw(t, "lextra") {
			toks = append(toks, rapid.SampledFrom([]string{"privKeyNeeded", "LOGNAME=root", "x=y=z", "TouchlessSudoTime=30"}).Draw(t, "lx"))
		}
		// many more attributes than the documented ones, the documented ones anywhere among them
		if rapid.IntRange(0, 7).Draw(t, "lmany") == 3 {
			nf := rapid.SampledFrom([]int{26, 29, 30, 31, 40, 64, 100}).Draw(t, "lmanyN")
			var filler []string
			for i := 0; i < nf; i++ {
				filler = append(filler, fmt.Sprintf("x%d=%d", i, i))
			}
			at := rapid.IntRange(0, nf).Draw(t, "lmanyAt")
			toks = append(append(append([]string{}, filler[:at]...), toks...), filler[at:]...)
			if rapid.Bool().Draw(t, "lmanyRot") {
				// rotate so that the documented tokens straddle other positions
				k := rapid.IntRange(0, len(toks)-1).Draw(t, "lmanyK")
				toks = append(toks[k:], toks[:k]...)
			}
		}
		sep := rapid.SampledFrom([]string{" ", " ", "  "}).Draw(t, "lsep")
		return strings.Join(toks, sep), "legacy", valid
	case 7:
		return rapid.SampledFrom([]string{"null", " null", "[]", "{}", "1", "true", `"req=a@b"`, `" req=a@b "`, `["req=a@b"]`, `[" req=a@b "]`, `{"a":" req=a@b "}`, "nul", "NULL", "0"}).Draw(t, "jsonOther"), "json-other", false
	case 8:
		return "", "empty", false
	case 9:
		return string(rapid.SliceOfN(rapid.Byte(), 0, 48).Draw(t, "bytes")), "bytes", false
	default:
		// raw legacy-looking noise
		n := rapid.IntRange(0, 5).Draw(t, "nn")
		var toks []string
		for i := 0; i < n; i++ {
			toks = append(toks, rapid.SampledFrom([]string{"req=a@b", "req=a", "req=a@b@c", "SSHClientVersion=8.1", "SSHClientVersion=x", "SSHClientVersion=70000.1", "IFVer=x", "=", "@", "req=@"}).Draw(t, fmt.Sprintf("nt%d", i)))
		}
		return strings.Join(toks, " "), "legacy-noise", false
	}
}

func genLogName(t *rapid.T) string {
	switch rapid.IntRange(0, 7).Draw(t, "logKind") {
	case 0:
		return ""
	case 1:
		return rapid.SampledFrom([]string{" ", "user name", "日本", "root", "a@b", `"`, "\x00", "-", "user\n"}).Draw(t, "logSpecial")
	default:
		return rapid.StringMatching(`[a-z_][a-z0-9_-]{0,11}`).Draw(t, "logName")
	}
}

func genConn(t *rapid.T) (conn, kind string, valid bool) {
	v4 := func(l string) string {
		return fmt.Sprintf("%d.%d.%d.%d", rapid.IntRange(0, 255).Draw(t, l+"a"), rapid.IntRange(0, 255).Draw(t, l+"b"), rapid.IntRange(0, 255).Draw(t, l+"c"), rapid.IntRange(0, 255).Draw(t, l+"d"))
	}
	rest := fmt.Sprintf(" %d %s %d", rapid.IntRange(1, 65535).Draw(t, "cport"), "10.0.0.1", 22)
	switch rapid.IntRange(0, 11).Draw(t, "connKind") {
	case 0, 1, 2, 3:
		return v4("ip") + rest, "v4", true
	case 4, 5:
		ip := rapid.SampledFrom([]string{"::1", "2001:db8::1", "fe80::1", "::ffff:1.2.3.4", "2001:0db8:0000:0000:0000:0000:0000:0001", "::", "2001:DB8::A"}).Draw(t, "v6")
		return ip + rest, "v6", true
	case 6:
		return v4("ip"), "v4-only", true
	case 7:
		return rapid.SampledFrom([]string{"fe80::1%eth0", "fe80::1%1", "::1%lo"}).Draw(t, "zone") + rest, "zone", false
	case 8:
		return rapid.SampledFrom([]string{"010.1.1.1", "1.2.3", "1.2.3.4.5", "256.1.1.1", "[::1]", "1.2.3.4:22", "localhost", "1.2.3.4/32", "0x1.2.3.4", "1.2.3.-4", ":::1", "1::2::3", "١.٢.٣.٤"}).Draw(t, "bad") + rest, "bad-ip", false
	case 9:
		return "", "empty", false
	case 10:
		return rapid.SampledFrom([]string{" 1.2.3.4 5 6 7", "  ", "\t1.2.3.4 5", "1.2.3.4\t5 6 7", "1.2.3.4\n", "x 1.2.3.4"}).Draw(t, "ws"), "leading-space", false
	default:
		return v4("ip") + rapid.SampledFrom([]string{" ", "  x", " 22 10.0.0.1"}).Draw(t, "tail"), "v4-short", true
	}
}

func genArgv(t *rapid.T) (argv []string, kind string, valid bool) {
	tok := func(l string) string {
		return rapid.SampledFrom([]string{"gensign", "-c", "/usr/bin/gensign", "Regular", "OTHER", "x", "NONS", "NSOK"}).Draw(t, l)
	}
	var toks []string
	k := rapid.IntRange(0, 9).Draw(t, "argvKind")
	switch {
	case k <= 4: // valid
		n := rapid.IntRange(3, 6).Draw(t, "ntok")
		for i := 0; i < n-2; i++ {
			toks = append(toks, tok(fmt.Sprintf("pre%d", i)))
		}
		toks = append(toks, rapid.SampledFrom([]string{"NONS", "NSOK"}).Draw(t, "policy"), rapid.SampledFrom([]string{"Regular", "paranoids.regular", "NONS", "h", "日本"}).Draw(t, "handler"))
		kind, valid = "valid", true
	case k == 5: // too few / too many
		n := rapid.SampledFrom([]int{0, 1, 2, 7, 8, 12}).Draw(t, "badN")
		for i := 0; i < n; i++ {
			toks = append(toks, rapid.SampledFrom([]string{"NONS", "NSOK", "x"}).Draw(t, fmt.Sprintf("bt%d", i)))
		}
		kind = "bad-count"
	case k == 6: // policy in the wrong place or misspelt
		n := rapid.IntRange(3, 6).Draw(t, "ntok")
		for i := 0; i < n; i++ {
			toks = append(toks, "x")
		}
		pos := rapid.IntRange(0, n-1).Draw(t, "pos")
		toks[pos] = rapid.SampledFrom([]string{"NONS", "NSOK", "nons", "NSOK ", "NONS\n", "NS", "NONSNSOK"}).Draw(t, "pol")
		kind = "bad-policy"
		valid = pos == n-2 && (toks[pos] == "NONS" || toks[pos] == "NSOK")
	case k == 7: // empty tokens (runs of spaces) shift positions
		toks = []string{"gensign", "-c", "/usr/bin/gensign", "", "NONS", "Regular"}
		i := rapid.IntRange(0, 5).Draw(t, "emptyAt")
		toks[3], toks[i] = toks[i], toks[3]
		kind = "empty-token"
		valid = toks[4] == "NONS"
	default:
		n := rapid.IntRange(0, 8).Draw(t, "nr")
		for i := 0; i < n; i++ {
			toks = append(toks, tok(fmt.Sprintf("r%d", i)))
		}
		kind = "random"
		valid = n >= 3 && n <= 6 && (toks[n-2] == "NONS" || toks[n-2] == "NSOK")
	}
	// partition the tokens into arguments (an argument may contain spaces)
	for i := 0; i < len(toks); {
		j := i + 1
		for j < len(toks) && rapid.IntRange(0, 2).Draw(t, fmt.Sprintf("join%d", j)) == 0 {
			j++
		}
		argv = append(argv, strings.Join(toks[i:j], " "))
		i = j
	}
	if len(argv) > 8 {
		argv = argv[:8]
		valid = false
		kind = "truncated"
	}
	return
}

func (c Case) command() string {
	if c.CommandRaw != nil {
		return string(c.CommandRaw)
	}
	return c.Command
}

func gen(t *rapid.T) Case {
	c := Case{}
	var v1, v2, v3 bool
	c.Command, c.CmdKind, v1 = genCommand(t)
	if !utf8.ValidString(c.Command) {
		c.CommandRaw, c.Command = []byte(c.Command), ""
	}
	c.LogName = genLogName(t)
	c.Conn, c.ConnKind, v2 = genConn(t)
	c.Argv, c.ArgvKind, v3 = genArgv(t)
	// bias: half of the cases keep the environment well-formed so that success paths dominate
	if rapid.Bool().Draw(t, "goodEnv") {
		if c.LogName == "" {
			c.LogName = "user_a"
		}
		if !v2 {
			c.Conn, c.ConnKind, v2 = "172.17.0.1 51234 172.17.0.2 22", "v4", true
		}
		if !v3 {
			c.Argv, c.ArgvKind, v3 = []string{"gensign", "-c", "/usr/bin/gensign NONS Regular"}, "valid", true
		}
	}
	if c.LogName != "" && rapid.IntRange(0, 7).Draw(t, "foldedUser") == 3 {
		// the client declares a user that equals the login name up to letter case / Unicode case folding
		var folded string
		switch rapid.IntRange(0, 4).Draw(t, "foldKind") {
		case 0:
			folded = strings.ToUpper(c.LogName)
		case 1:
			folded = strings.ToLower(c.LogName)
		case 2:
			folded = strings.ToUpper(c.LogName[:1]) + c.LogName[1:]
		case 3:
			folded = strings.NewReplacer("k", "\u212a", "K", "\u212a", "s", "\u017f", "S", "\u017f").Replace(c.LogName)
		default:
			folded = strings.Map(func(r rune) rune {
				if r >= 'a' && r <= 'z' {
					return r - 32
				}
				if r >= 'A' && r <= 'Z' {
					return r + 32
				}
				return r
			}, c.LogName)
		}
		if utf8.ValidString(folded) && folded != "" {
			if rapid.Bool().Draw(t, "foldLegacy") && !vh.HasSpaceOrAt(folded) {
				c.Command, c.CmdKind, v1 = "IFVer=6 SSHClientVersion=8.1 req="+folded+"@laptop", "legacy-folded-user", true
			} else {
				c.Command, c.CmdKind, v1 = vh.JoinMembers([]vh.Member{{Name: "ifVer", Raw: "7"}, {Name: "username", Raw: vh.JStr(folded)}, {Name: "hostname", Raw: vh.JStr("laptop")}, {Name: "sshClientVersion", Raw: vh.JStr("8.1")}}, ""), "json-folded-user", true
			}
			c.CommandRaw = nil
		}
	}
	c.MustSucceed = v1 && v2 && v3 && c.LogName != ""
	return c
}

// ---- oracle ----

type obs struct {
	ok                                       bool
	err                                      string
	policy, handler, ip, log, user, host, tr string
	ver                                      string
	attrsNil                                 bool
}

func eval(c Case) (o obs, crash error) {
	env := map[string]string{"SSH_ORIGINAL_COMMAND": c.command(), "LOGNAME": c.LogName, "SSH_CONNECTION": c.Conn,
		// what else sshd and the login environment export: none of it is an input of the parameters
		"SSH_CLIENT": "203.0.113.9 50000 22", "USER": "root", "HOME": "/root", "SSH_TTY": "/dev/pts/0", "SSH_USER_AUTH": "/tmp/auth", "REMOTE_ADDR": "203.0.113.9",
		"SSH_CLIENT_IP": "203.0.113.9", "REMOTEHOST": "203.0.113.9", "SUDO_USER": "root", "SSH_AUTH_SOCK": "/tmp/agent.sock"}
	argv := append([]string(nil), c.Argv...)
	crash = vh.Catch(func() {
		p, err := csr.NewReqParam(func(k string) string {
			if v, ok := env[k]; ok {
				return v
			}
			return "203.0.113.9 50000 22" // any other variable: a decoy that looks like a connection string
		}, func() []string { return argv })
		if err != nil {
			o.err = err.Error()
			if p != nil {
				o.err = "BOTH:" + o.err
			}
			return
		}
		if p == nil {
			o.err = "NILNIL"
			return
		}
		o.ok = true
		o.policy, o.handler, o.ip, o.log = string(p.NamespacePolicy), p.HandlerName, p.ClientIP, p.LogName
		o.user, o.host, o.tr, o.ver = p.ReqUser, p.ReqHost, p.TransID, p.SSHClientVersion.Marshal()
		o.attrsNil = p.Attrs == nil
	})
	if crash == nil && !reflect.DeepEqual(argv, c.Argv) && !(len(argv) == 0 && len(c.Argv) == 0) {
		crash = vh.Errf("NewReqParam rewrote the caller's argument vector: %q -> %q", c.Argv, argv)
	}
	return
}

func exec(c0 Case) (vh.Outcome, error) {
	c := c0
	c.Command = c0.command()
	out := vh.Outcome{Classes: []string{"cmd=" + c.CmdKind, "conn=" + c.ConnKind, "argv=" + c.ArgvKind}}
	o1, crash := eval(c)
	if crash != nil {
		return out, vh.Errf("NewReqParam crashed: %v", crash)
	}
	o2, crash := eval(c)
	if crash != nil {
		return out, vh.Errf("NewReqParam crashed on the second evaluation: %v", crash)
	}
	if strings.HasPrefix(o1.err, "BOTH:") || o1.err == "NILNIL" {
		return out, vh.Errf("NewReqParam returned an inconsistent (param, error) pair: %s", o1.err)
	}
	if o1.ok != o2.ok {
		return out, vh.Errf("two evaluations of the same input disagree: %+v vs %+v", o1, o2)
	}
	_, isJSON := vh.RefDecodeJSON(c.Command)
	out.NonTrivial = o1.ok || (isJSON == false && json.Valid([]byte(c.Command))) || c.CmdKind == "json-other"
	if !o1.ok {
		out.Classes = append(out.Classes, "refused")
		if c.MustSucceed {
			return out, vh.Errf("input valid by construction was refused: %s", o1.err)
		}
		return out, nil
	}
	out.Classes = append(out.Classes, "accepted")
	// login name: the server-provided one, non-empty
	if c.LogName == "" || o1.log != c.LogName {
		return out, vh.Errf("LogName = %q, LOGNAME was %q", o1.log, c.LogName)
	}
	// client IP: first space-separated field, syntactically valid, no zone
	first := c.Conn
	if i := strings.IndexByte(first, ' '); i >= 0 {
		first = first[:i]
	}
	addr, perr := netip.ParseAddr(first)
	if o1.ip != first || perr != nil || addr.Zone() != "" {
		return out, vh.Errf("ClientIP = %q; SSH_CONNECTION %q (first field %q, valid address without zone: %v)", o1.ip, c.Conn, first, perr == nil && addr.Zone() == "")
	}
	// namespace policy and handler from the forced command
	toks := strings.Split(strings.Join(c.Argv, " "), " ")
	if len(c.Argv) == 0 {
		toks = nil
	}
	if len(toks) < 2 {
		return out, vh.Errf("accepted a forced command of %d tokens: %q", len(toks), c.Argv)
	}
	if o1.policy != "NONS" && o1.policy != "NSOK" {
		return out, vh.Errf("namespace policy %q is not one of the defined values", o1.policy)
	}
	if o1.policy != toks[len(toks)-2] || o1.handler != toks[len(toks)-1] {
		return out, vh.Errf("policy/handler = %q/%q, forced command tokens %q", o1.policy, o1.handler, toks)
	}
	// declared user, host, version
	if ref, ok := vh.RefDecodeJSON(c.Command); ok {
		if !ref.RequiredPresent() {
			return out, vh.Errf("accepted a JSON message lacking a required member: %q", c.Command)
		}
		if o1.user != ref.Username || o1.host != ref.Hostname {
			return out, vh.Errf("ReqUser/ReqHost = %q/%q, message declares %q/%q", o1.user, o1.host, ref.Username, ref.Hostname)
		}
		canon, vok := vh.RefVersion(ref.SSHClientVersion)
		if !vok || o1.ver != canon {
			return out, vh.Errf("client version %q, message declares %q (valid=%v canon=%q)", o1.ver, ref.SSHClientVersion, vok, canon)
		}
	} else {
		_, vals := vh.LegacyTokens(c.Command)
		found := false
		for _, r := range vals["req"] {
			if r == o1.user+"@"+o1.host && strings.Count(r, "@") == 1 {
				found = true
			}
		}
		if !found {
			return out, vh.Errf("ReqUser/ReqHost = %q/%q do not come from a requester token of %q", o1.user, o1.host, c.Command)
		}
		okVer := false
		nonEmpty := 0
		for _, v := range vals["SSHClientVersion"] {
			if v == "" {
				continue
			}
			nonEmpty++
			if canon, vok := vh.RefVersion(v); vok && canon == o1.ver {
				okVer = true
			}
		}
		if nonEmpty == 0 || nonEmpty < len(vals["SSHClientVersion"]) {
			if o1.ver == "0.0" {
				okVer = true
			}
		}
		if !okVer {
			return out, vh.Errf("client version %q does not follow from the legacy message %q", o1.ver, c.Command)
		}
	}
	if o1.user != o2.user || o1.host != o2.host || o1.ver != o2.ver || o1.ip != o2.ip || o1.policy != o2.policy || o1.handler != o2.handler || o1.log != o2.log {
		return out, vh.Errf("two evaluations of the same input disagree: %+v vs %+v", o1, o2)
	}
	if !transRE.MatchString(o1.tr) || !transRE.MatchString(o2.tr) {
		return out, vh.Errf("transaction id %q / %q is not 10 hex digits", o1.tr, o2.tr)
	}
	if o1.tr == o2.tr {
		return out, vh.Errf("two evaluations produced the same transaction id %q", o1.tr)
	}
	if o1.attrsNil {
		return out, vh.Errf("accepted parameters carry no attributes")
	}
	return out, nil
}

const rule = "SSH_ORIGINAL_COMMAND: JSON objects under the documented wire names (complete, member dropped, member retyped, extra look-alike members such as logName/clientIP, shuffled, with insignificant whitespace around the object, complete objects followed by a trailer: a brace, a second object, legacy tokens), legacy text (values containing white space other than U+0020 - tab, newline, NBSP, EM SPACE ... - which is not a separator; version omitted / empty / valid / invalid, requester absent / without '@', optionally among 26..100 further attributes), declared users that equal LOGNAME up to letter case or Unicode case folding (upper / lower / title / swapped case, Kelvin sign, long s), other JSON values (null, arrays, strings with ' req=a@b '), empty, bytes, legacy noise; LOGNAME empty / unicode / spaces; SSH_CONNECTION v4, v6, zone-suffixed, leading zeros, bracketed, empty, leading space, tab; every other environment variable answers with a decoy (203.0.113.9 ...; SSH_CLIENT, USER = root, ...) that must never show up in the result; argv 0..8 arguments partitioned at random from token lists (valid 3..6 tokens, wrong count, policy misplaced or misspelt, empty tokens). Each Case is evaluated twice; the caller's argument vector must come back unchanged. Oracle on success: LogName = LOGNAME != '', ClientIP = first field and valid without zone (net/netip), policy in {NONS,NSOK} = second-last token, handler = last token, version = independently parsed major.minor of the declared text (0.0 only when a legacy message has none), ReqUser/ReqHost = declared values, transaction id 10 hex digits and different between the two evaluations; inputs valid by construction must succeed. Non-trivial: accepted cases and refused cases whose command is a non-object JSON value; distinct by Case hash."

func TestC14Params(t *testing.T) {
	vh.Run(t, vh.Spec[Case]{Property: "C14", Name: "TestC14Params", Rule: rule, Gen: gen, Exec: exec})
}

// FuzzC14Command fuzzes the command text with a fixed well-formed environment.
func FuzzC14Command(f *testing.F) {
	f.Add(`{"ifVer":7,"username":"user","hostname":"host.com","sshClientVersion":"8.1","hardKey":true}`, "user_a", "172.17.0.1 51234 172.17.0.2 22", "gensign -c /usr/bin/gensign NONS Regular")
	f.Add("IFVer=6 SSHClientVersion=8.1 req=user@host.com HardKey=true", "user_a", "::1 1 ::1 22", "gensign NSOK h")
	f.Add("null", "u", "1.2.3.4", "a NONS b")
	f.Add("", "", "", "")
	f.Fuzz(func(t *testing.T, cmd, logname, conn, args string) {
		c := Case{CommandRaw: []byte(cmd), LogName: logname, Conn: conn, Argv: []string{args}, CmdKind: "fuzz", ConnKind: "fuzz", ArgvKind: "fuzz"}
		if _, err := exec(c); err != nil {
			t.Fatal(err)
		}
	})
}
