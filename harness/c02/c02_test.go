// C02 — signing requests carry server-side identity and policy, never client claims.
package c02

import (
	gproto "google.golang.org/protobuf/proto"
	"bytes"
	"context"
	"fmt"
	"os"
	"path/filepath"
	"reflect"
	"sort"
	"strings"
	"testing"

	"github.com/theparanoids/crypki/proto"
	"github.com/theparanoids/ysshra/gensign"
	"github.com/theparanoids/ysshra/gensign/regular"
	"github.com/theparanoids/ysshra/keyid"
	"github.com/theparanoids/ysshra/zzverif/vh"
	"golang.org/x/crypto/ssh"
	"golang.org/x/crypto/ssh/agent"
	"pgregory.net/rapid"
)

type Case struct {
	LogName      string
	ReqUser      string
	ReqHost      string
	IP           string
	TransID      string
	CAAlgo       int
	Validity     uint64
	OmitValidity bool
	// OtherSections: the configuration file also holds sections of other handlers, some named like the regular
	// handler up to letter case or a suffix, with another validity and other slots
	OtherSections bool `json:",omitempty"`
	// Scribble: the signer edits every request object it is handed (extensions, principals, validity, KeyId):
	// the next request is built afresh all the same
	Scribble bool `json:",omitempty"`
	KeyIDs       map[string]string
	UserKey      string
	Via          string
	// claims a client may put into the request message; none of them may reach the request
	Touch2SSH     bool
	TSFirefighter bool
	TSHosts       string
	TSTime        int64
	Exts          map[string]any
	SigAlgo       int
	ClientVersion string // "" = 8.1
	// KeyOptions: authorized_keys options in front of the registered key line ("" = none); they restrict what
	// the key may do in an authorized_keys file and are no input to the signing request
	KeyOptions string
	// KeyFile: how the registered key file is named: "" = <login>.pub | bare = <login> | near = only
	// near-miss names exist (another letter case, the name without a trailing ".pub", with a doubled
	// ".pub"): such a login name is NOT registered, nothing may be requested for it
	KeyFile string
	// Prelude: the handler object first serves another request, for CA key algorithm PrevAlgo (which may
	// or may not have a slot), before the judged request goes through the same object
	Prelude  bool `json:",omitempty"`
	PrevAlgo int  `json:",omitempty"`
}

func genWeird(t *rapid.T, label string, allowEmpty bool) string {
	switch rapid.IntRange(0, 6).Draw(t, label+"K") {
	case 6:
		// long values: nothing in the code bounds what a client may declare (the login name is a file name and is cut back by the caller)
		unit := rapid.SampledFrom([]string{"a", "host-", "é", "日本", "x.y", "0123456789"}).Draw(t, label+"Unit")
		n := rapid.SampledFrom([]int{61, 63, 64, 65, 100, 127, 128, 129, 255, 256, 257, 300, 1000, 4096, 5000}).Draw(t, label+"Len")
		return strings.Repeat(unit, n/len(unit)+1)
	case 0:
		l := []string{`a"b`, `back\slash`, "<script>", "x y", "é", "日本", "user name", "{}", `","isHWKey":true,"x":"`, "null", "a,b", "tab\there",
			// texts that look like JSON escapes themselves (a literal backslash followed by an escape letter)
			`\u003c`, `x\u0026y`, `\u003e\u003c`, `\n`, `\"`, `\\`, `\u00e9`, `\u2028`, "&amp;", "%3C", "\u2028\u2029", "a&b<c>d",
			// forms a normaliser would rewrite
			"Host.Example.COM", "host.example.com.", "Alice", "alice@example.com", "xn--bcher-kva.example", "bücher.example", "alice:touch"}
		if allowEmpty {
			l = append(l, "")
		}
		return rapid.SampledFrom(l).Draw(t, label)
	case 1:
		s := strings.ToValidUTF8(rapid.String().Draw(t, label), "?")
		s = strings.Map(func(r rune) rune {
			if r == '/' || r == 0 {
				return '_'
			}
			return r
		}, s)
		if s == "" && !allowEmpty {
			return "u"
		}
		if len(s) > 60 {
			s = strings.ToValidUTF8(s[:60], "")
		}
		return s
	default:
		return rapid.StringMatching(`[a-z][a-z0-9_]{0,10}`).Draw(t, label)
	}
}

var algoNames = map[int][]string{0: {"default", "unknown", "Default", "UNKNOWN", "0"}, 1: {"rsa", "RSA", "Rsa", "1"}, 2: {"dsa", "DSA", "2"}, 3: {"ecdsa", "ECDSA", "EcDsA", "3"}, 4: {"ed25519", "ED25519", "Ed25519", "4"}, 5: {"5"}, 7: {"7"}, 100: {"100"}}

func gen(t *rapid.T) Case {
	c := Case{
		LogName: genWeird(t, "logName", false),
		ReqUser: genWeird(t, "reqUser", false),
		ReqHost: genWeird(t, "reqHost", false),
		IP:      rapid.SampledFrom([]string{"172.17.0.1", "10.1.2.3", "::1", "2001:db8::1", "::ffff:1.2.3.4"}).Draw(t, "ip"),
		TransID: genWeird(t, "transID", true),
		CAAlgo:  rapid.SampledFrom([]int{0, 0, 1, 2, 3, 4, 5, 7, 100}).Draw(t, "caAlgo"),
		UserKey: rapid.SampledFrom([]string{"p256b", "ed25519b", "rsa2048b", "p384a"}).Draw(t, "userKey"),
		Via:     rapid.SampledFrom([]string{"direct", "direct", "env"}).Draw(t, "via"),
		KeyFile:    rapid.SampledFrom([]string{"", "", "", "bare", "near"}).Draw(t, "keyFile"),
		KeyOptions: rapid.SampledFrom([]string{"", "", "", "restrict", "no-pty", "no-agent-forwarding,no-X11-forwarding", "NO-PTY,no-user-rc,no-port-forwarding", `from="10.0.0.0/8",command="/bin/true"`, `restrict,pty`, `environment="A=b c"`, "cert-authority"}).Draw(t, "keyOptions"),
		// the client-declared OpenSSH version (a claim like the others: around the releases that introduced ECDSA 5.7 and Ed25519 6.5)
		ClientVersion: rapid.SampledFrom([]string{"", "", "8.1", "5.6", "5.7", "6.4", "6.5", "0.0", "1.0", "4.3", "9.9", "65535.65535", "0.1"}).Draw(t, "clientVersion"),
	}
	if rapid.Bool().Draw(t, "claims") {
		c.Touch2SSH = rapid.Bool().Draw(t, "touch2SSH")
		c.TSFirefighter = rapid.Bool().Draw(t, "tsFirefighter")
		c.TSHosts = rapid.SampledFrom([]string{"", "host01,host02", "*"}).Draw(t, "tsHosts")
		c.TSTime = rapid.SampledFrom([]int64{0, 30, 525600}).Draw(t, "tsTime")
		c.SigAlgo = rapid.IntRange(0, 16).Draw(t, "sigAlgo")
		if rapid.Bool().Draw(t, "hasExts") {
			c.Exts = map[string]any{rapid.SampledFrom([]string{"isHWKey", "touchPolicy", "principals", "validity", "IsFirefighter", "privKeyNeeded"}).Draw(t, "extKey"): rapid.SampledFrom([]any{true, "root", float64(2), "315360000"}).Draw(t, "extVal")}
		}
	}
	if rapid.IntRange(0, 2).Draw(t, "prelude") == 1 {
		c.Prelude, c.PrevAlgo = true, rapid.SampledFrom([]int{0, 1, 2, 3, 4, 5, 7, 100}).Draw(t, "prevAlgo")
	}
	if rapid.Bool().Draw(t, "sameUser") {
		c.ReqUser = c.LogName
	}
	if c.LogName == "." || c.LogName == ".." || len(c.LogName) > 100 {
		c.LogName = "user_a"
	}
	c.Validity = rapid.SampledFrom([]uint64{1, 2, 59, 3599, 3600, 43200, 86400, 1 << 31, 315360000, 0, 1<<32 - 1, 1 << 32, 1<<32 + 600, 9999999999, 1 << 40, 1 << 53}).Draw(t, "validity")
	if c.Validity == 0 && rapid.IntRange(0, 3).Draw(t, "explicitZero") != 0 { // otherwise: an explicit "cert_validity_sec": 0 (configured, not left out)
		c.Validity = rapid.Uint64Range(1, 315360000).Draw(t, "validityAny")
	}
	c.OmitValidity = rapid.IntRange(0, 9).Draw(t, "omitValidity") == 0
	c.OtherSections = rapid.IntRange(0, 2).Draw(t, "otherSections") == 1
	c.Scribble = rapid.IntRange(0, 2).Draw(t, "scribble") == 1
	c.KeyIDs = map[string]string{}
	algos := []int{0, 1, 2, 3, 4, 5, 7, 100}
	n := rapid.IntRange(0, 4).Draw(t, "nIDs")
	picked := rapid.Permutation(algos).Draw(t, "algoOrder")[:n]
	if rapid.IntRange(0, 3).Draw(t, "includeRequested") > 0 {
		found := false
		for _, a := range picked {
			found = found || a == c.CAAlgo
		}
		if !found {
			picked = append(picked, c.CAAlgo)
		}
	}
	for _, a := range picked {
		name := rapid.SampledFrom(algoNames[a]).Draw(t, fmt.Sprintf("name%d", a))
		c.KeyIDs[name] = fmt.Sprintf("slot-for-%d", a)
		if rapid.IntRange(0, 3).Draw(t, fmt.Sprintf("oddSlot%d", a)) == 2 {
			// identifiers are opaque texts: whatever they contain goes to the CA as it stands
			c.KeyIDs[name] = fmt.Sprintf(rapid.SampledFrom([]string{"ssh-${HOME}-%d", "${PATH}%d", "ssh-$USER-key-%d", "${VERIF_UNSET_VARIABLE}slot-%d", "slot %d with spaces", "é-日本-%d", "%%s-%d", "~/%d", "$(id)-%d", "slot-%d\\n", "{{.Slot}}-%d"}).Draw(t, fmt.Sprintf("oddSlotShape%d", a)), a)
		}
	}
	if c.Via == "env" {
		// through NewReqParam the transaction id is server-generated and the algorithm travels in the message
		c.TransID = ""
	} else if k := rapid.IntRange(0, 11).Draw(t, "emptyDeclared"); k < 3 {
		// directly built parameters (what a legacy message such as 'req=alice@' yields): an empty declared user and / or
		// host is recorded like any other value - as an empty string under its member name
		if k != 1 {
			c.ReqHost = ""
		}
		if k != 0 {
			c.ReqUser = ""
		}
	}
	return c
}

var wantExtensions = map[string]string{"permit-pty": "", "permit-X11-forwarding": "", "permit-agent-forwarding": "", "permit-port-forwarding": "", "permit-user-rc": ""}

func exec(c Case) (vh.Outcome, error) {
	out := vh.Outcome{Classes: []string{"via=" + c.Via, fmt.Sprintf("algo=%d", c.CAAlgo)}}
	nonASCII := false
	for _, r := range c.LogName + c.ReqUser + c.ReqHost + c.TransID {
		if r > 127 || strings.ContainsRune("\"\\<>{}", r) {
			nonASCII = true
		}
	}
	out.NonTrivial = c.ReqUser != c.LogName || nonASCII || c.CAAlgo != 0 || c.Touch2SSH || c.TSFirefighter || c.Exts != nil
	p, err := vh.NewProxy()
	if err != nil {
		return out, nil
	}
	defer p.Close()
	dir, err := os.MkdirTemp("", "vkeys")
	if err != nil {
		return out, nil
	}
	defer os.RemoveAll(dir)
	line := vh.AuthorizedLine(c.UserKey, "registered")
	if c.KeyOptions != "" {
		line = append([]byte(c.KeyOptions+" "), line...)
	}
	registered := true
	fileName := c.LogName + ".pub"
	switch c.KeyFile {
	case "bare":
		fileName = c.LogName
	case "near":
		registered = false
		var names []string
		for _, n := range []string{strings.ToUpper(c.LogName) + ".pub", strings.ToLower(c.LogName) + ".pub", strings.ToUpper(c.LogName), c.LogName + ".pub.pub", strings.TrimSuffix(c.LogName, ".pub") + ".PUB"} {
			if n != c.LogName+".pub" && n != c.LogName && len(n) < 200 {
				names = append(names, n)
			}
		}
		if strings.HasSuffix(c.LogName, ".pub") && len(c.LogName) > 4 {
			names = append(names, strings.TrimSuffix(c.LogName, ".pub")) // <x>.pub is then <login> itself: registered after all
			registered = true
		}
		for _, n := range names {
			_ = os.WriteFile(filepath.Join(dir, n), line, 0o644)
		}
		fileName = ""
	}
	if fileName == "" {
		// near-miss names only
	} else if err := os.WriteFile(filepath.Join(dir, fileName), line, 0o644); err != nil {
		return out, nil // the login name is not usable as a file name on this system: outside the domain
	}
	_ = p.Ring().Add(agent.AddedKey{PrivateKey: vh.Key(c.UserKey), Comment: "long-term key"})
	conf, err := vh.WriteGensignConfig(dir, vh.HandlerConf{PubKeyDir: dir, ValiditySec: c.Validity, OmitValidity: c.OmitValidity, KeyIdentifiers: c.KeyIDs, OtherSections: c.OtherSections})
	if err != nil {
		return out, vh.Errf("configuration did not load: %v", err)
	}
	// reference resolution of the configured slot
	wantSlot, haveSlot := "", false
	for k, v := range c.KeyIDs {
		if a, ok := vh.RefAlgoOfConfigKey(k); ok && a == c.CAAlgo {
			wantSlot, haveSlot = v, true
		}
	}
	wantValidity := c.Validity
	if c.OmitValidity {
		wantValidity = 12 * 3600
	}

	var reqs []*proto.SSHCertificateSigningRequest
	var addedPubs [][]byte
	var transIDs []string
	for round := 0; round < 2; round++ {
		param, perr := vh.BuildParam(vh.ParamSpec{LogName: c.LogName, Policy: "NONS", ReqUser: c.ReqUser, ReqHost: c.ReqHost, ClientIP: c.IP, TransID: c.TransID, CAAlgo: c.CAAlgo, Via: c.Via,
			Touch2SSH: c.Touch2SSH, TSFirefighter: c.TSFirefighter, TSHosts: c.TSHosts, TSTime: c.TSTime, Exts: c.Exts, SigAlgo: c.SigAlgo, ClientVersion: c.ClientVersion})
		if perr != nil {
			return out, vh.Errf("parameters did not build: %v", perr)
		}
		transIDs = append(transIDs, param.TransID)
		conn, derr := vh.DialProxy(p)
		if derr != nil {
			return out, nil
		}
		h, herr := regular.NewHandler(conf, conn)
		if herr != nil {
			conn.Close()
			return out, vh.Errf("NewHandler failed for key identifiers %v: %v", c.KeyIDs, herr)
		}
		var earlier []*proto.SSHCertificateSigningRequest
		var earlierSnap []*proto.SSHCertificateSigningRequest
		if c.Prelude {
			// an earlier request on the same handler object, for another login and algorithm: what it asked
			// for is no input of the next one, and what it produced is not touched by the next one
			if prev, pe := vh.BuildParam(vh.ParamSpec{LogName: "earlier_login", Policy: "NONS", ReqUser: "earlier_user", ReqHost: "earlier-host", ClientIP: c.IP, TransID: "0000000001", CAAlgo: c.PrevAlgo, Via: "direct"}); pe == nil {
				// (a complete earlier run for the judged login first: authentication and generation)
				if prevRun, pe2 := vh.BuildParam(vh.ParamSpec{LogName: c.LogName, Policy: "NONS", ReqUser: c.LogName, ReqHost: "earlier-host", ClientIP: c.IP, TransID: "0000000002", CAAlgo: c.PrevAlgo, Via: "direct"}); pe2 == nil {
					_ = vh.Catch(func() {
						_ = gensign.Run(context.Background(), prevRun, []gensign.Handler{h}, &vh.FakeCA{Default: vh.CABehaviour{NCerts: 1}, Scribble: c.Scribble})
					})
				}
				_ = vh.Catch(func() {
					if keys, gerr := h.Generate(prev); gerr == nil {
						for _, k := range keys {
							for _, r := range k.CSRs() {
								earlier = append(earlier, r)
								earlierSnap = append(earlierSnap, gproto.Clone(r).(*proto.SSHCertificateSigningRequest))
							}
						}
					}
				})
			}
		}
		ca := &vh.FakeCA{Default: vh.CABehaviour{NCerts: 1}, Scribble: c.Scribble}
		addsBefore := len(p.Adds())
		var runErr error
		cerr := vh.Catch(func() { runErr = gensign.Run(context.Background(), param, []gensign.Handler{h}, ca) })
		conn.Close()
		if cerr != nil {
			return out, vh.Errf("Run crashed: %v", cerr)
		}
		for i := range earlier {
			if !gproto.Equal(earlier[i], earlierSnap[i]) {
				return out, vh.Errf("a signing request the handler had generated earlier (login earlier_login) was changed by the next request on the same handler object:\n before %v\n after  %v", earlierSnap[i], earlier[i])
			}
		}
		if !registered {
			out.Classes = append(out.Classes, "login-not-registered")
			if runErr == nil || ca.NCalls() != 0 {
				return out, vh.Errf("no key is registered under the login name %q (only near-miss file names exist) but Run returned %v with %d CA call(s)", c.LogName, runErr, ca.NCalls())
			}
			continue
		}
		if !haveSlot {
			out.Classes = append(out.Classes, "no-slot")
			if vh.ErrKind(runErr) != "HandlerConfErr" || ca.NCalls() != 0 {
				return out, vh.Errf("no key slot is configured for algorithm %d (config %v) but Run returned %s with %d CA call(s): %v", c.CAAlgo, c.KeyIDs, vh.ErrKind(runErr), ca.NCalls(), runErr)
			}
			continue
		}
		if runErr != nil {
			return out, vh.Errf("Run failed for a configured slot (algorithm %d, config %v): %v", c.CAAlgo, c.KeyIDs, runErr)
		}
		if ca.NCalls() != 1 {
			return out, vh.Errf("%d signing requests, expected 1", ca.NCalls())
		}
		req := ca.Calls[0].Req
		reqs = append(reqs, req)
		if !reflect.DeepEqual(req.Principals, []string{c.LogName}) {
			return out, vh.Errf("principals %q, expected exactly the login name %q (client declared %q)", req.Principals, c.LogName, c.ReqUser)
		}
		if req.Validity != wantValidity {
			return out, vh.Errf("validity %d, configured %d", req.Validity, wantValidity)
		}
		if !reflect.DeepEqual(req.Extensions, wantExtensions) {
			return out, vh.Errf("extensions %v, expected the default set", req.Extensions)
		}
		if req.KeyMeta == nil || req.KeyMeta.Identifier != wantSlot {
			return out, vh.Errf("key slot %v, configured %q for algorithm %d (config %v)", req.KeyMeta, wantSlot, c.CAAlgo, c.KeyIDs)
		}
		// KeyID: reference decoder and the repository's decoder
		a, ok := vh.RefDecodeKeyID(req.KeyId)
		k2, kerr := keyid.Unmarshal(req.KeyId)
		if !ok || kerr != nil {
			return out, vh.Errf("KeyId is not a well-formed YSSHCA KeyID (reference %v, repository decoder: %v): %q", ok, kerr, req.KeyId)
		}
		wantTrans := param.TransID
		if !reflect.DeepEqual(a.Prins, []string{c.LogName}) || a.TransID != wantTrans || a.ReqIP != c.IP || a.ReqUser != c.ReqUser || a.ReqHost != c.ReqHost ||
			a.Version != 1 || a.FF || a.HW || a.Headless || a.Nonce || a.Usage != 0 || a.Touch != 1 {
			return out, vh.Errf("KeyId attributes %+v do not match login %q, transaction %q, ip %q, declared user/host %q/%q, regular attributes", a, c.LogName, wantTrans, c.IP, c.ReqUser, c.ReqHost)
		}
		if !reflect.DeepEqual(k2.Principals, []string{c.LogName}) || k2.TransID != wantTrans || k2.ReqUser != c.ReqUser || k2.ReqHost != c.ReqHost || k2.ReqIP != c.IP {
			return out, vh.Errf("repository decoder reads other values from the KeyId: %+v", k2)
		}
		// public key: fresh, not the long-term key, the one whose private half went to the agent
		pub, _, _, rest, perr2 := ssh.ParseAuthorizedKey([]byte(req.PublicKey))
		if perr2 != nil || len(bytes.TrimSpace(rest)) != 0 {
			return out, vh.Errf("PublicKey does not parse: %v (%q)", perr2, req.PublicKey)
		}
		if bytes.Equal(pub.Marshal(), vh.SSHPub(c.UserKey).Marshal()) {
			return out, vh.Errf("the request certifies the user's long-term key")
		}
		adds := p.Adds()[addsBefore:]
		if len(adds) < 2 {
			return out, vh.Errf("%d identities added, expected the private key and the certificate", len(adds))
		}
		s, serr := ssh.NewSignerFromKey(adds[0].PrivateKey)
		if serr != nil || !bytes.Equal(s.PublicKey().Marshal(), pub.Marshal()) {
			return out, vh.Errf("the certified public key is not the public half of the private key handed to the agent")
		}
		addedPubs = append(addedPubs, pub.Marshal())
	}
	if len(addedPubs) == 2 && bytes.Equal(addedPubs[0], addedPubs[1]) {
		return out, vh.Errf("two requests certify the same key pair")
	}
	if c.Via == "env" && len(transIDs) == 2 && transIDs[0] == transIDs[1] {
		return out, vh.Errf("two requests carry the same transaction id %q", transIDs[0])
	}
	_ = sort.Strings
	return out, nil
}

const rule = "login name, client-declared user and host, transaction id with JSON metacharacters (quotes, backslash, an injection attempt, U+2028), non-ASCII, spaces, and long values of 61..5000 bytes around 64 / 128 / 256 / 4096; IPv4/IPv6 source; requested CA key algorithm 0..5, 7, 100; further client claims in the message (declared OpenSSH version incl. those older than ECDSA / Ed25519 support, touch-to-SSH, touchless-sudo with firefighter / hosts / time, signature algorithm, extension map with attribute look-alikes) that must not reach the request; the registered key in '<login>.pub' or bare '<login>' - or only under near-miss file names (other letter case, doubled '.pub'), in which case nothing may be requested -, its line with or without authorized_keys options (restrict, no-pty, from=, command=, ...); handler configuration written as JSON and loaded by config.NewGensignConfig: validity 1 s..10 y (edges 1, 3599, 3600, 2^31, 315360000) and beyond 32 bits (2^32-1, 2^32, 2^32+600, 9999999999, 2^40, 2^53: the option is a 64-bit number) or omitted (default 12 h), key_identifiers keyed by algorithm name in random case, by default/unknown, or by number, with or without the requested algorithm, their values plain or containing shell / template metacharacters (${HOME}, $USER, $(id), %s, ~, {{.}}, spaces, non-ASCII); parameters built directly or through NewReqParam; honest agent, recording CA; each Case issues the request twice, each time on a fresh handler object which, in a third of the cases, has first generated a request for another login and CA key algorithm (that earlier request must be left untouched by the judged one). In a third of the cases the configuration file also holds sections of other handlers - 'Paranoids.Regular', 'PARANOIDS.REGULAR', 'paranoids.regular2', 'paranoids', ... - with another validity, directory and slot table. In a third of the cases the signer edits every request object it is handed (drops and adds extensions, adds a principal, changes validity and KeyId) after recording a copy: later requests are judged like the first. Oracle on the request seen by the CA: principals = [login name]; validity = configured; extensions = the five documented names with empty values; key slot = the one configured for the requested algorithm (reference resolution of names / numbers), none => HandlerConfErr and no CA call; public key parses, is not the registered key, differs between the two requests and equals the public half of the private key the agent received; KeyId decoded by the reference decoder and by keyid.Unmarshal: single principal = login name, transaction id / ip / declared user / host verbatim, version 1, all flags false, usage 0, never-touch. Non-trivial: declared user != login name, a metacharacter or non-ASCII value, or a non-default algorithm."

func TestC02Request(t *testing.T) {
	vh.Run(t, vh.Spec[Case]{Property: "C02", Name: "TestC02Request", Rule: rule, Gen: gen, Exec: exec})
}
