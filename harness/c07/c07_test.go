// C07 — the shim agent never lists or signs with expired, premature or keyless certificates.
package c07

import (
	"fmt"
	"testing"

	"github.com/theparanoids/ysshra/zzverif/vh"
	"pgregory.net/rapid"
)

func profile() vh.ShimProfile {
	v := []string{"current", "current", "forever", "past", "past", "justpast", "future", "soon", "zero", "aftermax", "beforebig", "inverted-past", "inverted-future"}
	if lapseShare() > 0 {
		for i := 0; i < lapseShare(); i++ {
			v = append(v, "lapsing")
		}
	}
	return vh.ShimProfile{Validities: v, KeyIDClasses: []string{"ysshca0", "ysshca1", "ysshca5", "text", "missing", "ysshca7"}, MaxOps: 30, Faults: true}
}

// lapseShare: how many of the validity slots are "lapsing" (each such history sleeps ~3 s).
func lapseShare() int {
	return 0 // lapsing certificates live in TestC07Lapse only (each such history sleeps ~3 s)
}

func exec(c vh.ShimCase) (vh.Outcome, error) {
	tr, err := vh.RunShimCase(c)
	out := vh.Outcome{NonTrivial: tr.Purged > 0 || tr.OrphanDecisions > 0, Classes: []string{fmt.Sprintf("noUpstream=%v", c.NoUpstream)}}
	if tr.Purged > 0 {
		out.Classes = append(out.Classes, "purged")
	}
	if tr.OrphanDecisions > 0 {
		out.Classes = append(out.Classes, "orphan-dropped")
	}
	if tr.EmptyReportKept > 0 {
		out.Classes = append(out.Classes, "empty-report-kept")
	}
	if tr.PurgedSignRefused > 0 {
		out.Classes = append(out.Classes, "sign-invalid-cert")
	}
	if tr.TimeAmbiguous {
		out.Classes = append(out.Classes, "time-ambiguous-abandoned")
	}
	for _, d := range c.Certs {
		if d.Validity == "lapsing" {
			out.Classes = append(out.Classes, "has-lapsing")
			break
		}
	}
	return out, err
}

const rule = "histories of 1..30 operations (add key / certificate+key / hardware certificate, remove, remove-all, list, signers, sign, sign through a signer, out-of-band additions and removals on the keyring, lapse = sleep until a lapsing certificate is definitely past) over certificates that are current, forever (CertTimeInfinity), past (an hour ago; five seconds ago), future (in an hour; in 25 seconds), zero-window, ValidAfter > MaxInt64, ValidBefore > MaxInt64, and (in the dedicated lapse check) lapsing within 2 s; held in memory, in the keyring or both; both upstream modes. Oracle: reference model of the documented purge (orphans judged against the reported list, nothing dropped on an empty report, then expiry) over the directly observed keyring; listings compared as multisets; keyring content after every listing-type operation; signing with a certificate outside its window must fail; forever certificates still listed at the end. Time is sound: fixed classes are >= 1 h from an edge, a lapsing certificate is either >= 1 s before or definitely past its edge at each step, otherwise the history is abandoned (class time-ambiguous-abandoned). Non-trivial: the model purged a certificate or took an orphan decision with a non-empty report."

func TestC07Purge(t *testing.T) {
	vh.Run(t, vh.Spec[vh.ShimCase]{Property: "C07", Name: "TestC07Purge", Rule: rule + vh.ShimGenNote,
		Gen: func(t *rapid.T) vh.ShimCase { return vh.GenShimCase(t, profile()) }, Exec: exec})
}

// TestC07PurgeRefused: the underlying agent REFUSES to remove identities (failure reply) while out-of-window
// certificates sit in it: nothing that comes back meanwhile may contain such a certificate or a
// signature made with one.
func TestC07PurgeRefused(t *testing.T) {
	vh.Run(t, vh.Spec[vh.ShimCase]{Property: "C07", Name: "TestC07PurgeRefused",
		Rule: "histories in which the underlying agent holds 1..3 certificates outside their window (past / future / zero window) beside current ones and answers every removal request with a failure for a stretch of 1..6 operations (list, signers, sign with the out-of-window certificate, sign through a signer), after which removals work again and the agent is listed twice more; both upstream modes. Same reference model; in addition every answer that comes back while removals are refused must be free of out-of-window certificates and of signatures made with them",
		Gen: func(t *rapid.T) vh.ShimCase {
			c := vh.ShimCase{NoUpstream: rapid.Bool().Draw(t, "noUpstream")}
			nbad := rapid.IntRange(1, 3).Draw(t, "nbad")
			keys := []string{"p256b", "ed25519b", "rsa1536", "p384a", "dsa1024"}
			for i := 0; i < nbad; i++ {
				c.Certs = append(c.Certs, vh.CertDef{Key: keys[i], KeyIDClass: rapid.SampledFrom([]string{"text", "ysshca1", "ysshca0"}).Draw(t, fmt.Sprintf("kid%d", i)),
					Validity: rapid.SampledFrom([]string{"past", "past", "future", "zero", "soon", "justpast"}).Draw(t, fmt.Sprintf("val%d", i)), Serial: uint64(1000 + i)})
			}
			c.Certs = append(c.Certs, vh.CertDef{Key: keys[3], KeyIDClass: "text", Validity: "current", Serial: 1100})
			order := rapid.Permutation([]int{0, 1, 2, 3}[:len(c.Certs)]).Draw(t, "order")
			if rapid.Bool().Draw(t, "plainKeyToo") {
				c.Initial = append(c.Initial, vh.Op{Kind: "oobadd", Key: "p521a", Cert: -1})
			}
			for _, ci := range order {
				c.Initial = append(c.Initial, vh.Op{Kind: "oobaddcert", Cert: ci, Comment: "upstream"})
			}
			c.Ops = append(c.Ops, vh.Op{Kind: "plan", Cert: -1, Plan: []vh.FaultRule{{Index: -1, Code: vh.CodeRemove, Kind: "fail", Remaining: -1}}})
			n := rapid.IntRange(1, 6).Draw(t, "n")
			for i := 0; i < n; i++ {
				k := rapid.SampledFrom([]string{"signers", "signers", "sign", "sign", "signvia", "signheld", "list"}).Draw(t, fmt.Sprintf("op%d", i))
				op := vh.Op{Kind: k, Cert: -1}
				if k == "sign" || k == "signvia" || k == "signheld" {
					op.Cert = rapid.IntRange(0, len(c.Certs)-1).Draw(t, fmt.Sprintf("target%d", i))
					op.Data = []byte(fmt.Sprintf("data %d", i))
				}
				c.Ops = append(c.Ops, op)
			}
			c.Ops = append(c.Ops, vh.Op{Kind: "plan", Cert: -1}, vh.Op{Kind: "list", Cert: -1}, vh.Op{Kind: "signers", Cert: -1})
			return c
		}, Exec: exec})
}

// TestC07Many: many certificates at once - the purge loops over long listings.
func TestC07Many(t *testing.T) {
	vh.Run(t, vh.Spec[vh.ShimCase]{Property: "C07", Name: "TestC07Many",
		Rule: "one underlying agent holding 20..90 certificates over the pool keys in drawn order, each current / forever / past / future / zero-window, a part of them also (or only) registered as in-memory hardware certificates, some keys removed out of band afterwards; then list, signers, sign with an out-of-window and with a current certificate, list again; both upstream modes. Same reference model: everything outside its window is purged from both places in one pass, however many there are and wherever they sit in the listing; orphans go, the rest stays",
		Gen: func(t *rapid.T) vh.ShimCase {
			c := vh.ShimCase{NoUpstream: rapid.Bool().Draw(t, "noUpstream")}
			n := rapid.SampledFrom([]int{20, 33, 50, 90}).Draw(t, "ncerts")
			keys := []string{"p256b", "ed25519b", "p384a", "ed25519c", "p256c", "rsa1536", "dsa1024"}
			vals := []string{"current", "current", "forever", "past", "past", "past", "future", "zero", "soon", "justpast"}
			for _, k := range keys {
				c.Initial = append(c.Initial, vh.Op{Kind: "oobadd", Key: k, Cert: -1, Comment: "k"})
			}
			for i := 0; i < n; i++ {
				c.Certs = append(c.Certs, vh.CertDef{Key: keys[rapid.IntRange(0, len(keys)-1).Draw(t, fmt.Sprintf("key%d", i))], KeyIDClass: rapid.SampledFrom([]string{"text", "ysshca1", "ysshca0", "missing"}).Draw(t, fmt.Sprintf("kid%d", i)),
					Validity: vals[rapid.IntRange(0, len(vals)-1).Draw(t, fmt.Sprintf("val%d", i))], Serial: uint64(4000 + i)})
				switch rapid.IntRange(0, 3).Draw(t, fmt.Sprintf("where%d", i)) {
				case 0:
					c.Ops = append(c.Ops, vh.Op{Kind: "addhard", Cert: i, Comment: "hw"})
				case 1:
					c.Initial = append(c.Initial, vh.Op{Kind: "oobaddcert", Cert: i, Comment: "u"})
					c.Ops = append(c.Ops, vh.Op{Kind: "addhard", Cert: i, Comment: "hw"})
				default:
					c.Initial = append(c.Initial, vh.Op{Kind: "oobaddcert", Cert: i, Comment: "u"})
				}
			}
			nrm := rapid.IntRange(0, 3).Draw(t, "keysLeaving")
			for i := 0; i < nrm; i++ {
				c.Ops = append(c.Ops, vh.Op{Kind: "oobremove", Key: keys[rapid.IntRange(0, len(keys)-1).Draw(t, fmt.Sprintf("leave%d", i))], Cert: -1})
			}
			first := rapid.SampledFrom([]string{"list", "signers", "sign"}).Draw(t, "first")
			c.Ops = append(c.Ops, vh.Op{Kind: first, Cert: rapid.IntRange(0, n-1).Draw(t, "firstTarget"), Data: []byte("d")})
			if first != "sign" {
				c.Ops[len(c.Ops)-1].Cert = -1
			}
			c.Ops = append(c.Ops, vh.Op{Kind: "list", Cert: -1}, vh.Op{Kind: "signers", Cert: -1},
				vh.Op{Kind: "sign", Cert: rapid.IntRange(0, n-1).Draw(t, "signTarget"), Data: []byte("e")}, vh.Op{Kind: "list", Cert: -1})
			return c
		}, Exec: exec})
}

// TestC07Lapse: short histories in which a certificate lapses during the history.
func TestC07Lapse(t *testing.T) {
	pr := vh.ShimProfile{Validities: []string{"lapsing", "lapsing", "current", "forever"}, KeyIDClasses: []string{"ysshca1", "text"}, MaxOps: 12}
	vh.Run(t, vh.Spec[vh.ShimCase]{Property: "C07", Name: "TestC07Lapse",
		Rule: "short histories (<= 12 operations) in which one certificate has ValidBefore = start + 2 s and lapse steps are frequent; same oracle",
		Gen:  func(t *rapid.T) vh.ShimCase { return vh.GenShimCase(t, pr) }, Exec: exec})
}

// TestC07Open: short histories in which a certificate's validity window OPENS during the history. A
// premature certificate that a listing, signers call or signature has seen is purged - it does not come
// back when its window opens; one that nothing has looked at yet becomes an ordinary valid certificate.
func TestC07Open(t *testing.T) {
	pr := vh.ShimProfile{Validities: []string{"opening", "opening", "current", "forever"}, KeyIDClasses: []string{"ysshca1", "text"}, MaxOps: 12}
	vh.Run(t, vh.Spec[vh.ShimCase]{Property: "C07", Name: "TestC07Open",
		Rule: "short histories (<= 12 operations) in which one certificate has ValidAfter = start + 3 s (held by the underlying agent, registered as in-memory hardware certificate, or both) and steps that wait for that moment are frequent; same reference model and oracle, evaluated at the time of each step: what a listing / signers call / signature found premature is purged from memory and from the underlying agent and stays purged after the window has opened; steps that would straddle the moment wait for it first",
		Gen:  func(t *rapid.T) vh.ShimCase { return vh.GenShimCase(t, pr) }, Exec: exec})
}

// TestC07HeldSigner: the caller keeps what Signers() returned while a certificate was still valid and
// asks one of those signers for a signature after the certificate has lapsed, with no other call on
// the shim agent in between. "A signing request naming a purged certificate fails" - through whatever
// handle the request is made.
func TestC07HeldSigner(t *testing.T) {
	vh.Run(t, vh.Spec[vh.ShimCase]{Property: "C07", Name: "TestC07HeldSigner", Journal: true,
		Rule: "one certificate with ValidBefore = start + 2 s over a drawn key, held by the underlying agent (with its key) or as an in-memory hardware certificate, beside 0..2 current certificates; operations: signers (the caller keeps the result), 0..2 calls that do not look at the identities (raw forward), the lapse, then a signature through the kept signer of the lapsed certificate, a listing, and a signature through the kept signer of a current certificate; both upstream modes, every listing order. Oracle: the shim reference model (the lapsed certificate's signer is refused, the current one signs, the listing is free of the lapsed certificate). Non-trivial: a kept signer was used.",
		Gen: func(t *rapid.T) vh.ShimCase {
			c := vh.ShimCase{NoUpstream: rapid.Bool().Draw(t, "noUpstream"), Comp: rapid.SampledFrom([]string{"", "", "bytes", "type"}).Draw(t, "comp")}
			keys := rapid.Permutation(vh.SSHKeyNames).Draw(t, "keys")
			c.Certs = []vh.CertDef{{Key: keys[0], KeyIDClass: rapid.SampledFrom([]string{"text", "text", "ysshca1", "empty"}).Draw(t, "kid0"), Validity: "lapsing", Serial: 1000}}
			n := rapid.IntRange(0, 2).Draw(t, "ncurrent")
			for i := 0; i < n; i++ {
				c.Certs = append(c.Certs, vh.CertDef{Key: keys[1+i], KeyIDClass: "text", Validity: rapid.SampledFrom([]string{"current", "forever"}).Draw(t, fmt.Sprintf("val%d", i)), Serial: uint64(1001 + i)})
			}
			inMemory := rapid.Bool().Draw(t, "inMemory")
			for i := range c.Certs {
				if i == 0 && inMemory {
					c.Initial = append(c.Initial, vh.Op{Kind: "oobadd", Key: c.Certs[0].Key, Cert: -1, Comment: "token key"})
					continue
				}
				c.Initial = append(c.Initial, vh.Op{Kind: "oobaddcert", Cert: i, Comment: "held upstream"})
			}
			if inMemory {
				c.Ops = append(c.Ops, vh.Op{Kind: "addhard", Cert: 0, Comment: "hw"})
			}
			c.Ops = append(c.Ops, vh.Op{Kind: "signers", Cert: -1})
			for i, k := 0, rapid.IntRange(0, 2).Draw(t, "nforward"); i < k; i++ {
				c.Ops = append(c.Ops, vh.Op{Kind: "forward", Cert: -1, Body: []byte{200, byte(i)}})
			}
			c.Ops = append(c.Ops, vh.Op{Kind: "lapse", Cert: -1}, vh.Op{Kind: "signheld", Cert: 0, Data: []byte("after the lapse")}, vh.Op{Kind: "list", Cert: -1})
			if n > 0 {
				c.Ops = append(c.Ops, vh.Op{Kind: "signheld", Cert: 1, Data: []byte("still valid")})
			}
			return c
		},
		Exec: func(c vh.ShimCase) (vh.Outcome, error) {
			tr, err := vh.RunShimCase(c)
			return vh.Outcome{NonTrivial: tr.HeldSigner > 0, Classes: []string{fmt.Sprintf("noUpstream=%v", c.NoUpstream), fmt.Sprintf("held-signer-used=%d", tr.HeldSigner)}}, err
		}})
}
