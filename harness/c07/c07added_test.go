package c07

// TestC07AddedLater: certificates handed to the shim agent through Add (key and certificate together) stay
// for as long as they are valid - a certificate without end date for ever - however much time passes
// between the addition and the next listing.

import (
	"fmt"
	"sync"
	"testing"

	"github.com/theparanoids/ysshra/zzverif/vh"
)

type AddedBatch struct {
	IdleMS int
	Cases  []vh.ShimCase
}

func TestC07AddedLater(t *testing.T) {
	mk := func(idle int) AddedBatch {
		b := AddedBatch{IdleMS: idle}
		for _, noUp := range []bool{false, true} {
			for _, val := range []string{"forever", "beforebig", "current"} {
				for _, kid := range []string{"text", "ysshca1"} {
					c := vh.ShimCase{NoUpstream: noUp, Certs: []vh.CertDef{{Key: "p256b", KeyIDClass: kid, Validity: val, Serial: 1000}, {Key: "ed25519c", KeyIDClass: "text", Validity: val, Serial: 1001}}}
					c.Ops = []vh.Op{{Kind: "addcert", Cert: 0, Comment: "added"}, {Kind: "addkey", Key: "ed25519c", Cert: -1, Comment: "token"}, {Kind: "addhard", Cert: 1, Comment: "hw"},
						{Kind: "list", Cert: -1}, {Kind: "idle", Cert: -1, IdleMS: idle}, {Kind: "list", Cert: -1}, {Kind: "signers", Cert: -1},
						{Kind: "sign", Cert: 0, Data: []byte("after the pause")}, {Kind: "sign", Cert: 1, Data: []byte("after the pause")}, {Kind: "list", Cert: -1}}
					b.Cases = append(b.Cases, c)
				}
			}
		}
		return b
	}
	batches := []AddedBatch{mk(2500)}
	if vh.Thorough() {
		batches = append(batches, mk(1100), mk(7000), mk(31000))
	}
	vh.Enumerate(t, vh.Spec[AddedBatch]{Property: "C07", Name: "TestC07AddedLater", Exhaustive: true,
		Rule: "both upstream modes x certificate window {without end, until 2^63+7 s, current} x KeyID {free text, YSSHCA}: a certificate with its key is handed to the shim agent through Add, a token key is added and a hardware certificate registered on it; list; nothing for 2.5 s (thorough: also 1.1, 7 and 31 s); list, signers, sign with both, list (12 histories side by side per pause). Oracle: the shim reference model at the time of each step - a valid certificate is still listed, hands out a signer and signs after the pause (hidden ones stay hidden in no-upstream mode)",
		Exec: func(b AddedBatch) (vh.Outcome, error) {
			out := vh.Outcome{NonTrivial: true, Classes: []string{fmt.Sprintf("pause=%dms", b.IdleMS)}}
			errs := make([]error, len(b.Cases))
			var wg sync.WaitGroup
			for i, c := range b.Cases {
				i, c := i, c
				wg.Add(1)
				go func() { defer wg.Done(); _, errs[i] = vh.RunShimCase(c) }()
			}
			wg.Wait()
			for i, e := range errs {
				if e != nil {
					return out, fmt.Errorf("history %d (no-upstream=%v, window %s, %s KeyID, pause %d ms): %w", i, b.Cases[i].NoUpstream, b.Cases[i].Certs[0].Validity, b.Cases[i].Certs[0].KeyIDClass, b.IdleMS, e)
				}
			}
			return out, nil
		}}, batches)
}
