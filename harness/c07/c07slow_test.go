package c07

// TestC07SlowLapse: a certificate leaves its validity window while the underlying agent takes seconds
// to answer the listing the shim asked for. The answer the shim then gives is given after the lapse:
// it does not contain that certificate, and a signature with it is refused.

import (
	"bytes"
	"fmt"
	"sync"
	"testing"
	"time"

	"github.com/theparanoids/ysshra/agent/shimagent"
	"github.com/theparanoids/ysshra/zzverif/vh"
	"golang.org/x/crypto/ssh"
	"golang.org/x/crypto/ssh/agent"
)

type SlowLapseCase struct {
	Scenarios []string // "<op>/<where>/<mode>"
	LatencyMS int
}

func slowLapse(name string, latency time.Duration) error {
	var op, where, mode string
	if n, _ := fmt.Sscanf(string(bytes.ReplaceAll([]byte(name), []byte("/"), []byte(" "))), "%s %s %s", &op, &where, &mode); n != 3 {
		return nil
	}
	p, err := vh.NewProxy()
	if err != nil {
		return nil
	}
	defer p.Close()
	_ = p.Ring().Add(agent.AddedKey{PrivateKey: vh.Key("p256b"), Comment: "token key"})
	_ = p.Ring().Add(agent.AddedKey{PrivateKey: vh.Key("ed25519b"), Comment: "another key"})
	sh, serr := shimagent.New(shimagent.Option{Address: p.Path, NoUpstream: mode == "noupstream"})
	if serr != nil {
		return vh.Errf("%s: shimagent.New: %v", name, serr)
	}
	defer func() { _ = vh.Catch(func() { sh.Close() }) }()
	start := time.Now()
	vb := uint64(start.Unix()) + 2
	lapsing := vh.MakeSSHCert(vh.SSHCertSpec{Key: "p256b", KeyID: "lapsing certificate", ValidAfter: 0, ValidBefore: vb, Principals: []string{"user_a"}, Serial: 77})
	if where == "memory" {
		if e := sh.AddHardCert(lapsing, "hw"); e != nil {
			return vh.Errf("%s: AddHardCert: %v", name, e)
		}
	} else {
		_ = p.Ring().Add(agent.AddedKey{PrivateKey: vh.Key("p256b"), Certificate: lapsing, Comment: "held upstream"})
	}
	// the next listing request of the underlying agent is answered only after the latency
	var mu sync.Mutex
	var armed, fired bool
	var released time.Time
	p.Latency = func(code int) time.Duration {
		mu.Lock()
		defer mu.Unlock()
		if armed && !fired && code == vh.CodeList {
			fired = true
			released = time.Now().Add(latency)
			return latency
		}
		return 0
	}
	mu.Lock()
	armed = true
	mu.Unlock()
	var shown [][]byte
	var signed bool
	var opErr error
	if perr := vh.Catch(func() {
		switch op {
		case "list":
			var ks []*agent.Key
			ks, opErr = sh.List()
			for _, k := range ks {
				shown = append(shown, k.Blob)
			}
		case "signers":
			var ss []ssh.Signer
			ss, opErr = sh.Signers()
			for _, s := range ss {
				shown = append(shown, s.PublicKey().Marshal())
			}
		case "sign":
			var sig *ssh.Signature
			sig, opErr = sh.Sign(lapsing, []byte("data"))
			signed = opErr == nil && sig != nil
		}
	}); perr != nil {
		return vh.Errf("%s: crashed: %v", name, perr)
	}
	mu.Lock()
	rel, did := released, fired
	mu.Unlock()
	if !did || rel.Unix() <= int64(vb)+1 {
		return nil // the listing was not the slow one, or the machine made the timing meaningless
	}
	desc := fmt.Sprintf("%s: the certificate's validity ended %d s after the start; the underlying agent answered the shim's listing request %.1f s after the start", name, 2, rel.Sub(start).Seconds())
	for _, b := range shown {
		if bytes.Equal(b, lapsing.Marshal()) {
			return vh.Errf("%s; the %s returned afterwards still contains that certificate", desc, op)
		}
	}
	if signed {
		return vh.Errf("%s; the signature request naming that certificate, answered afterwards, succeeded", desc)
	}
	if op != "sign" && opErr != nil {
		return vh.Errf("%s; %s failed: %v", desc, op, opErr)
	}
	return nil
}

func TestC07SlowLapse(t *testing.T) {
	var sc []string
	for _, op := range []string{"list", "signers", "sign"} {
		for _, where := range []string{"memory", "upstream"} {
			for _, mode := range []string{"upstream", "noupstream"} {
				sc = append(sc, op+"/"+where+"/"+mode)
			}
		}
	}
	cases := []SlowLapseCase{{Scenarios: sc, LatencyMS: 4500}}
	if vh.Thorough() {
		cases = append(cases, SlowLapseCase{Scenarios: sc, LatencyMS: 9000})
	}
	vh.Enumerate(t, vh.Spec[SlowLapseCase]{Property: "C07", Name: "TestC07SlowLapse", Exhaustive: true,
		Rule: "a certificate with ValidBefore = start + 2 s, held in memory (hardware certificate) or by the underlying agent; the underlying agent answers the next listing request only after 4.5 s (thorough: also 9 s); during that time list / signers / sign naming the certificate is called on the shim; both upstream modes (12 scenarios side by side). Oracle: the answer, given after the lapse (the underlying agent's reply was released more than a second after it), does not contain the certificate and a signature with it is refused; list and signers themselves succeed",
		Exec: func(c SlowLapseCase) (vh.Outcome, error) {
			out := vh.Outcome{NonTrivial: true}
			errs := make([]error, len(c.Scenarios))
			var wg sync.WaitGroup
			for i, s := range c.Scenarios {
				i, s := i, s
				wg.Add(1)
				go func() { defer wg.Done(); errs[i] = slowLapse(s, time.Duration(c.LatencyMS)*time.Millisecond) }()
			}
			wg.Wait()
			for _, e := range errs {
				if e != nil {
					return out, e
				}
			}
			return out, nil
		}}, cases)
}
