#!/usr/bin/env python3
"""Regenerates MANIFEST.json from checks_conf.py (run after editing the configuration)."""
import json, os, sys
sys.path.insert(0, os.path.dirname(os.path.abspath(__file__)))
from checks_conf import CHECKS

ALL = ["C%02d" % i for i in range(1, 21)]
checks = []
for pid in ALL:
    if pid not in CHECKS:
        continue
    c = CHECKS[pid]
    m = c["manifest"]
    checks.append({
        "property_id": pid,
        "quick_cmd": "./check %s quick" % pid,
        "thorough_cmd": "./check %s thorough" % pid,
        "evidence_file": "evidence/%s.json" % pid,
        "replay_cmd_template": "./check %s --replay {path}" % pid,
        "engine": "rapid" + ("+go-native-fuzz" if any(s.get("kind") == "fuzz" for s in c["subchecks"]) else "") + ("+race-detector" if c.get("race") else ""),
        "level_claimed": {"category": c["level"], "text": m["text"], "design_ref": "DESIGN.md section 2, " + pid},
        "level_note": m["note"],
        "technique": m["technique"],
    })
na = [{"property_id": p, "reason": "check not built yet in this session (planned in DESIGN.md section 2); nothing is claimed for it"}
      for p in ALL if p not in CHECKS]
man = {
    "version": 1,
    "setup_cmd": "./check setup",
    "hooks": {
        "guard": "verif",
        "enable": "no hooks are needed: the harness packages are injected into the ysshra module at build time with 'go test -c -overlay -modfile' (DESIGN.md 1.1); the build tag 'verif' is reserved and unused",
        "baseline_off_cmd": "cd /repo && go test -vet=off -count=1 ./...",
        "source_commits": [],
        "add_only": True,
    },
    "engines": [
        {"name": "rapid", "path": "harness/", "serves_properties": [p for p in ALL if p in CHECKS],
         "kind_free_text": "pgregory.net/rapid v1.3.0: generated Cases (plain data) against explicit oracles; failures shrunk and saved as JSON replay files"},
        {"name": "go-native-fuzz", "path": "harness/",
         "serves_properties": [p for p in ALL if p in CHECKS and any(s.get("kind") == "fuzz" for s in CHECKS[p]["subchecks"])],
         "kind_free_text": "go test -fuzz (coverage-guided) with the semantic oracle inside the target; thorough tier only"},
        {"name": "race-detector", "path": "harness/", "serves_properties": [p for p in ALL if p in CHECKS and CHECKS[p].get("race")],
         "kind_free_text": "Go race detector as an additional oracle inside generated concurrent programs"},
    ],
    "checks": checks,
    "not_applicable": na,
    "notes": "Driver: ./check <ID> [quick|thorough] [--replay file]; configuration in checks_conf.py; known findings in KNOWN_FINDINGS.txt.",
}
with open(os.path.join(os.path.dirname(os.path.abspath(__file__)), "MANIFEST.json"), "w") as f:
    json.dump(man, f, indent=1)
    f.write("\n")
print("MANIFEST.json: %d claimed, %d not claimed" % (len(checks), len(na)))
