#!/opt/veriftools/pyvenv/bin/python
"""Validates MANIFEST.json and every evidence file against the schemas."""
import json, glob, sys, jsonschema
ok = True
try:
    jsonschema.validate(json.load(open('/verif/MANIFEST.json')), json.load(open('/root/.vp/MANIFEST.schema.json')))
except Exception as e:
    ok = False; print("MANIFEST invalid:", e)
es = json.load(open('/root/.vp/EVIDENCE.schema.json'))
for p in sorted(glob.glob('/verif/evidence/*.json')):
    try:
        jsonschema.validate(json.load(open(p)), es)
    except Exception as e:
        ok = False; print(p, "invalid:", str(e)[:500])
print("valid" if ok else "INVALID")
sys.exit(0 if ok else 1)
