"""Per-property configuration of the /verif checks (read by ./check).

Each sub-check is one Go test function in harness/<pkg>; "checks" is the rapid case count
per shard, "shards" the number of processes (each with its own PRNG value derived from
VERIF_SEED).  kind: rapid (default) | enum (plain deterministic enumeration / probes) |
fuzz (native coverage-guided fuzzing, thorough tier only).
"""

def R(name, q, t, qs=1, ts=16, **kw):
    d = {"name": name, "kind": "rapid",
         "quick": {"checks": q, "shards": qs}, "thorough": {"checks": t, "shards": ts}}
    for k, v in kw.items():
        if k in ("quick_extra", "thorough_extra"):
            d[k.split("_")[0]].update(v)
        else:
            d[k] = v
    return d

def E(name, **kw):
    d = {"name": name, "kind": "enum", "quick": {"shards": 1}, "thorough": {"shards": 1}}
    d.update(kw)
    return d

def F(name, fuzztime="60s", workers=16):
    return {"name": name, "kind": "fuzz", "quick": None,
            "thorough": {"shards": 1, "fuzztime": fuzztime, "workers": workers, "timeout": 900}}

CHECKS = {
    "C05": {
        "pkg": "c05", "level": "exploration",
        "manifest": {
            "text": "generated KeyID values and texts judged by an independent re-statement of the consistency and required-member rules plus round-trip; the attribute grid (flags x touch x version x usage) is enumerated completely",
            "note": "sampling of an infinite input space; strings restricted to valid UTF-8; encoding/json trusted as JSON reference for the member-name walk",
            "technique": "property-based testing (rapid) + native coverage-guided fuzzing; oracle = independent predicate + round-trip + constructed-to-fail/valid texts",
        },
        "assumptions": [
            "strings are valid UTF-8 (the statement quantifies over UTF-8 strings; encoding/json replaces invalid bytes)",
            "absence of violations only within the generated domain",
        ],
        "subchecks": [
            R("TestC05Value", 20000, 200000),
            E("TestC05ValueGrid"),
            R("TestC05Text", 20000, 200000),
            F("FuzzC05Text", "60s"),
        ],
    },
}
