"""Per-property configuration of the /verif checks (read by ./check).

Each sub-check is one Go test function in harness/<pkg>; "checks" is the rapid case count
per shard, "shards" the number of processes (each with its own PRNG value derived from
VERIF_SEED).  kind: rapid (default) | enum (plain deterministic enumeration / probes) |
fuzz (native coverage-guided fuzzing, thorough tier only).
"""

def R(name, q, t, qs=1, ts=16, **kw):
    d = {"name": name, "kind": "rapid",
         "quick": {"checks": q, "shards": qs}, "thorough": {"checks": t, "shards": ts}}
    for k, v in kw.items():
        if k in ("quick_extra", "thorough_extra"):
            d[k.split("_")[0]].update(v)
        else:
            d[k] = v
    return d

def E(name, **kw):
    d = {"name": name, "kind": "enum", "quick": {"shards": 1}, "thorough": {"shards": 1}}
    d.update(kw)
    return d

def F(name, fuzztime="60s", workers=16):
    return {"name": name, "kind": "fuzz", "quick": None,
            "thorough": {"shards": 1, "fuzztime": fuzztime, "workers": workers, "timeout": 900}}

CHECKS = {
    "C01": {
        "pkg": "c01", "level": "exploration",
        "manifest": {
            "text": "generated histories of runs against one registered-key directory and one scripted forwarded agent; the harness observes every challenge and reply on the agent connection and recomputes itself whether proof of possession was given; handler lists with any accept / reject pattern; a forwarded agent that answers the challenge only after seconds, with and without a run deadline (slowness is neither proof nor refusal)",
            "note": "unpredictability of the challenge cannot be tested; what is decided is length, freshness over the history and that a captured signature never authenticates again; at most one real handler per list",
            "technique": "stateful property-based testing (rapid): scripted adversarial agent + independent verification of the challenge response + handler-order model",
        },
        "assumptions": ["the CA double and the steps after authentication are honest, so 'a handler authenticates' implies 'the run succeeds'"],
        "subchecks": [R("TestC01Auth", 300, 2000, qs=2), R("TestC01ChallengeHelper", 2000, 20000), E("TestC01Slow")],
    },
    "C02": {
        "pkg": "c02", "level": "exploration",
        "manifest": {
            "text": "generated identities and handler configurations (written as JSON and loaded by the repository's loader); every field of the signing request that reaches the CA double is recomputed independently, the KeyID is decoded by a reference decoder and by the repository's, and each request is issued twice to expose key or transaction-id reuse",
            "note": "sampling; configuration keys are restricted to the documented spellings (names in any case, default/unknown, decimal numbers) without two keys naming the same algorithm",
            "technique": "property-based testing (rapid): independent recomputation of the request + reference KeyID decoder",
        },
        "assumptions": ["login names are usable as file names (no '/', no NUL)"],
        "subchecks": [R("TestC02Request", 400, 3000, qs=2)],
    },
    "C03": {
        "pkg": "c03", "level": "exploration",
        "manifest": {
            "text": "model-based histories of successful and failing runs of the real handler against one recording keyring agent with pre-existing identities whose comments are near-misses of the handler label; the agent content, the AddedKey constraints it received and signatures made with the provisioned certificates are checked after every run",
            "note": "sequential histories; comments containing the exact handler name are outside the generated domain because the statement does not say whether they carry the label",
            "technique": "stateful property-based testing (rapid) against a reference model of the agent content",
        },
        "assumptions": ["golang.org/x/crypto keyring is the requester's agent", "the CA double issues certificates valid for exactly the requested validity"],
        "subchecks": [R("TestC03Provision", 200, 1000, qs=2), R("TestC03Replay", 150, 1500, ts=4)],
    },
    "C04": {
        "pkg": "c04", "level": "fault_enumeration",
        "manifest": {
            "text": "for each scenario a fault-free run fixes the agent-operation and CA-call counts; then every single fault (failure reply / connection loss at every agent operation index, error / panic at every CA call, panic in every handler method) is injected in a fresh world and the returned error kind is compared with a phase model; a fixed grid of 20 scenarios is enumerated completely and further scenarios are generated",
            "note": "single faults only; handlers return typed errors as the code asks of them (an untyped Generate error passes through Run unchanged: handler contract, not judged); whether Name() runs is not part of the property",
            "technique": "exhaustive single-fault enumeration inside generated scenarios (rapid); oracle = phase model of error kinds + subset invariant",
        },
        "assumptions": ["the sequence of agent operations of a scenario is the same in the dry run and in the fault runs (keys differ, shape does not)"],
        "subchecks": [
            E("TestC04AllScenarios"),
            E("TestC04NilParams"),
            E("TestC04BigReplies"),
            R("TestC04Faults", 15, 100, qs=2),
            R("TestC04RealSigner", 40, 300, qs=2, ts=8),
        ],
    },
    "C05": {
        "pkg": "c05", "level": "exploration",
        "manifest": {
            "text": "generated KeyID values and texts judged by an independent re-statement of the consistency and required-member rules plus round-trip; the attribute grid (flags x touch x version x usage) is enumerated completely; the same oracles applied from 2..16 goroutines at once (the codec is a pure function also under concurrent use)",
            "note": "sampling of an infinite input space; strings restricted to valid UTF-8; encoding/json trusted as JSON reference for the member-name walk",
            "technique": "property-based testing (rapid) + native coverage-guided fuzzing; oracle = independent predicate + round-trip + constructed-to-fail/valid texts",
        },
        "assumptions": [
            "strings are valid UTF-8 (the statement quantifies over UTF-8 strings; encoding/json replaces invalid bytes)",
            "absence of violations only within the generated domain",
        ],
        "subchecks": [
            R("TestC05Value", 20000, 200000),
            E("TestC05ValueGrid"),
            R("TestC05Text", 20000, 200000),
            R("TestC05Concurrent", 60, 600, qs=2),
            F("FuzzC05Text", "60s"),
        ],
    },
    "C06": {
        "pkg": "c06", "level": "exploration",
        "manifest": {
            "text": "the harness holds the device private key, so it can present a signature for any encoded message; each generated (encoded message, label, key size, chain relation) is judged by recomputing sig^e mod N and comparing with the two full-length encodings; one complete sweep over all byte positions for a 1024-bit key; an Attestor reused across a validity boundary of the device certificate (the clock at the call decides); every verdict repeated after a genuine attestation (history independence)",
            "note": "sampling over positions/values for the larger keys; signatures s+kN denote the same value mod N and are not generated; chain validity is by construction (issuer in pool and inside its validity window)",
            "technique": "property-based testing (rapid) with constructed signatures; oracle = independent PKCS#1 v1.5 encoder and recomputed public-key operation",
        },
        "assumptions": ["math/big modular exponentiation and crypto/x509 chain building are trusted", "MD5 digests are represented by a fixed 16-byte value (label must be refused regardless)"],
        "subchecks": [
            R("TestC06Attest", 1500, 6000),
            E("TestC06PositionSweep"),
            E("TestC06ChainTime"), E("TestC06AttestorAge"),
            E("TestC06KeySizes"),
            E("TestC06OddDeviceKeys"),
            E("TestC06RootsReplaced"),
            E("TestC06LabelGrid"),
            R("TestC06Sequence", 300, 2000, ts=4),
            R("TestC06Concurrent", 30, 300, qs=2, ts=8),
            R("TestC06RealDER", 200, 800, ts=4),
        ],
    },
    "C07": {
        "pkg": "c07", "level": "exploration",
        "manifest": {
            "text": "model-based histories over a real shim agent and a directly observed keyring, with certificates of every validity class incl. the forever value, values above MaxInt64 and certificates that lapse during the history; signatures through signers the caller kept from an earlier Signers() call, also across a lapse",
            "note": "sequential histories; wall-clock only enters through explicit lapse steps with a 1 s guard, ambiguous histories are abandoned, never reported",
            "technique": "stateful property-based testing (rapid) against a reference model of the purge rules",
        },
        "assumptions": ["golang.org/x/crypto keyring is the underlying agent", "the purge order documented in the code comments (orphans against the reported list, then expiry) is the contract"],
        "subchecks": [
            R("TestC07Purge", 400, 1500, qs=2),
            R("TestC07PurgeRefused", 150, 1500),
            R("TestC07Many", 25, 250, ts=4),
            R("TestC07Lapse", 6, 60, qs=8, ts=16, thorough_extra={"timeout": 1200}),
            R("TestC07Open", 6, 60, qs=8, ts=16, thorough_extra={"timeout": 1200}),
            E("TestC07AddedLater", thorough={"shards": 1, "timeout": 600}),
            R("TestC07HeldSigner", 4, 30, qs=6, ts=16, quick_extra={"timeout": 300}),
            E("TestC07SlowLapse", quick={"shards": 1, "timeout": 300}, thorough={"shards": 1, "timeout": 600}),
        ],
    },
    "C08": {
        "pkg": "c08", "level": "exploration",
        "manifest": {
            "text": "model-based histories with a lock flag over a real shim agent; the keyring behind the lock-emulating proxy stays inspectable, so 'changes nothing' is checked on the underlying identities directly and on the in-memory table through the post-unlock view; a second sub-check lets 1..4 goroutines list / list signers / sign while another client cycles lock - unlock: every concurrent observation must be the complete unlocked view or the locked answer, never a part of the view; the same histories with an underlying agent that answers lock / unlock / list / sign only after seconds",
            "note": "Forward / Extension are outside the lock statement and are not judged while locked; the concurrent sub-check samples schedules",
            "technique": "stateful property-based testing (rapid) against a reference model + injected lock/unlock refusals + generated lock/unlock races with an all-or-nothing view oracle",
        },
        "assumptions": ["the proxy emulates ssh-agent lock semantics (empty list, failure for everything else, passphrase compare)"],
        "subchecks": [R("TestC08Lock", 400, 2000, qs=2), R("TestC08LockRace", 40, 400, qs=2, ts=8),
                      R("TestC08Slow", 4, 24, qs=8, ts=16, quick_extra={"timeout": 300}),
                      R("TestC08UnlockUnlocked", 200, 2000, ts=4), E("TestC08BusyLocked")],
    },
    "C09": {
        "pkg": "c09", "level": "exploration",
        "manifest": {
            "text": "each generated history runs on a no-upstream shim and on a normal shim over identical keyrings; both are judged by the reference model in which hiding is decided by an independent KeyID decoder; certificates added by another client while one operation is being answered (between two requests of that operation)",
            "note": "sequential histories; KeyID classes are constructed per class, the reference decoder is the cross-check",
            "technique": "stateful property-based testing (rapid): differential pair + reference model",
        },
        "assumptions": ["golang.org/x/crypto keyring is the underlying agent"],
        "subchecks": [R("TestC09NoUpstream", 300, 1500, qs=2), R("TestC09Many", 25, 250, ts=4), R("TestC09AddedMeanwhile", 300, 3000, ts=8),
                      R("TestC09Faults", 300, 3000, qs=2, ts=8), R("TestC09Locked", 300, 3000, qs=2, ts=8), E("TestC09RefusedRemoveAll"), E("TestC09ConstructFaults")],
    },
    "C10": {
        "pkg": "c10", "level": "exploration",
        "manifest": {
            "text": "model-based histories over a real shim agent connected to a harness-served frame-level proxy in front of a real keyring; the keyring is observed directly and only the in-memory table is modelled; fault kinds at construction are enumerated, faults inside histories are generated",
            "note": "sequential histories only (C11 owns concurrency); after a fault the model only demands errors-not-crashes and the survival of still-valid in-memory certificates; sorting order of listings is not an order and is ignored (multisets)",
            "technique": "stateful property-based testing (rapid) against a reference model + fault injection at the wire",
        },
        "assumptions": ["golang.org/x/crypto keyring is the reference for the underlying agent's semantics", "lock/unlock of the underlying agent is emulated by the proxy with ssh-agent semantics"],
        "subchecks": [
            R("TestC10Shim", 400, 1500, qs=2),
            E("TestC10ConstructFaults"),
            E("TestC10LongLived", thorough={"shards": 1, "timeout": 600}),
            E("TestC10LostReplies"), E("TestC10HeldTwice"),
        ],
    },
    "C11": {
        "pkg": "c11", "level": "exploration", "race": True,
        "manifest": {
            "text": "generated concurrent programs (2..16 goroutines, direct calls and served connections, both modes, purging inside the race window) run under the race detector; every request carries a unique tag so that crossed replies are visible; mutations follow per-goroutine life cycles of disjoint keys, which makes the set of sequential outcomes a single state that the final keyring and listing are compared with; small programs over SHARED keys (hardware-certificate registration racing with remove / remove-all) are judged by an exhaustive search for a sequential order that explains every caller's observation and the final state against a pure model of the two tables; fixed signers / extension / forward storms target the two places the property names; one request answered by the underlying agent only after seconds (touch / PIN prompt) with other clients queued behind it must not shift anybody's replies; Close called while another caller's request is outstanding at the underlying agent (the request precedes Close in every sequential order); 8..150 (thorough: 600) wait requests for a code nobody sends parked on one production server, part of their clients gone, while other clients' add / list / sign / remove must complete and the awaited request, when it arrives, releases the waiters that stayed; signatures through kept signers that the token refuses, racing with listings, signers calls, repeated registrations and raw forwards (a failed signature is an operation like any other and removes nothing)",
            "note": "schedules are sampled, not enumerated; the race detector reports any unsynchronised pair that executes, independent of timing, which is why it is the main oracle; signing through Signer objects returned by Signers() is generated in fixed storms only (TestC11SignersStorm, TestC11RefusedHeldSigner), not in the random programs",
            "technique": "generated concurrent programs (rapid) + Go race detector + tag matching + order-independent final-state oracle + sequential-explanation search against a reference model",
        },
        "assumptions": ["a program that does not finish within 60 s is a deadlock (operations take milliseconds)", "GORACE=halt_on_error=1: a race report ends the process, the journaled program is the replay"],
        "subchecks": [
            E("TestC11SignersStorm", quick={"shards": 1, "timeout": 600}, thorough={"shards": 1, "timeout": 900}),
            E("TestC11SlowUpstream", quick={"shards": 1, "timeout": 600}, thorough={"shards": 1, "timeout": 900}),
            E("TestC11CloseInFlight", quick={"shards": 1, "timeout": 600}, thorough={"shards": 1, "timeout": 900}),
            E("TestC11VanishingClient", quick={"shards": 1, "timeout": 600}, thorough={"shards": 1, "timeout": 900}),
            E("TestC11ReadYourWrites", quick={"shards": 1, "timeout": 600}, thorough={"shards": 1, "timeout": 1200}),
            E("TestC11ParkedWaits", quick={"shards": 1, "timeout": 600}, thorough={"shards": 1, "timeout": 900}),
            E("TestC11RefusedHeldSigner", quick={"shards": 1, "timeout": 600}, thorough={"shards": 1, "timeout": 900}),
            E("TestC11RefusedLock", quick={"shards": 1, "timeout": 600}, thorough={"shards": 1, "timeout": 900}),
            E("TestC11Pipelined", quick={"shards": 1, "timeout": 600}, thorough={"shards": 1, "timeout": 900}),
            E("TestC11ListingOwnership", quick={"shards": 1, "timeout": 600}, thorough={"shards": 1, "timeout": 900}),
            E("TestC11WaitAddHard", quick={"shards": 1, "timeout": 600}, thorough={"shards": 1, "timeout": 900}),
            R("TestC11Concurrent", 40, 250, qs=2, quick_extra={"timeout": 600}, thorough_extra={"timeout": 1500}),
            R("TestC11Sequential", 150, 1500, qs=2, ts=8, quick_extra={"timeout": 600}, thorough_extra={"timeout": 1500}),
        ],
    },
    "C12": {
        "pkg": "c12", "level": "exploration",
        "manifest": {
            "text": "grammar-generated and coverage-guided byte streams served in-process over an in-memory connection; the harness parses the same stream independently and predicts, per frame, 'exactly one response of this kind' or 'answer or end with an error'; frames of length 0/1/2 are enumerated for every message code; structured requests with an inner length field overwritten by boundary values",
            "note": "a total recording agent is served (mode A); the real server over shim+proxy is served with wait codes >= 40 only (mode B, response counting only), except in TestC12WaitFirstUse where wait frames for codes < 40 arrive together with the first request of their code on other connections of a fresh server and must be answered within 5 s of continued serving; a frame cut off by the end of stream (in the length prefix or in the body) must end service with an error",
            "technique": "property-based testing (rapid) + native fuzzing + enumeration of short frames; oracle = independent stream parser and per-frame response prediction",
        },
        "assumptions": ["golang.org/x/crypto/ssh/agent server produces the replies of standard requests", "allocation is measured with runtime.MemStats.TotalAlloc around the call (threshold 8 MiB)"],
        "subchecks": [
            E("TestC12ShortFrames"),
            E("TestC12Sizes"),
            R("TestC12Stream", 5000, 50000),
            R("TestC12StreamReal", 300, 2000, ts=8),
            R("TestC12Sessions",400,4000,ts=8), E("TestC12Relabel"),
            R("TestC12OwnerClose", 300, 3000, ts=8),
            R("TestC12LocalSlots", 60, 600, ts=4),
            E("TestC12SlowHandler"),
            R("TestC12WaitFirstUse", 15, 100, qs=8, ts=16),
            F("FuzzC12Stream", "90s"),
        ],
    },
    "C13": {
        "pkg": "c13", "level": "exploration",
        "manifest": {
            "text": "generated operation sequences through the real client and the real ServeAgent against a recording agent with scripted results (argument and result equality, byte-for-byte), plus the real server with a fake PIV tool whose output and exit status are generated, plus a served agent that answers one call of each operation only after 6.5..35 s (result and stream position must be unaffected)",
            "note": "the three in-band status ambiguities (error text SUCCESS for add-hardware-certificate / wait; empty error text for the slot listing) are listed known findings: excluded from the generator by construction, probed deterministically on every run",
            "technique": "property-based testing (rapid): scripted recording double + differential argument/result comparison; generated tool output with a reference parser",
        },
        "assumptions": ["slot names returned by a served agent contain no comma (the reply is an SSH name-list)", "the fake tool is a /bin/sh script; slot arguments contain no newline or NUL"],
        "subchecks": [
            E("TestC13KnownFindings"),
            E("TestC13Repeats"),
            R("TestC13Client", 1500, 8000, quick_extra={"timeout": 120}, thorough_extra={"timeout": 900}),
            R("TestC13Tool", 150, 500),
            E("TestC13Slow", thorough={"shards": 1, "timeout": 600}),
            E("TestC13Sizes"),
            E("TestC13SharedClient", quick={"shards": 1, "timeout": 300}, thorough={"shards": 1, "timeout": 900}),
        ],
    },
    "C14": {
        "pkg": "c14", "level": "exploration",
        "manifest": {
            "text": "generated (command, LOGNAME, SSH_CONNECTION, argv) tuples; every accepted result is recomputed independently from the inputs (reference JSON decode / legacy tokeniser, net/netip, token arithmetic, version parser) and inputs valid by construction must be accepted; bursts of thousands of evaluations must not repeat transaction ids",
            "note": "sampling; transaction-id freshness is checked between two evaluations of each input (collision probability 2^-40 per case is accepted as noise-free in practice); unpredictability is not testable",
            "technique": "property-based testing (rapid) + native fuzzing; oracle = independent recomputation + liveness of valid-by-construction inputs",
        },
        "assumptions": ["net/netip is the reference for 'syntactically valid address without zone'", "wire names of the request message are the client contract"],
        "subchecks": [
            R("TestC14Params", 20000, 200000),
            E("TestC14Fresh"),
            F("FuzzC14Command", "60s"),
        ],
    },
    "C15": {
        "pkg": "c15", "level": "exploration",
        "manifest": {
            "text": "generated attribute sets round-tripped through both wire formats, hand-built JSON and legacy texts judged by a reference decoder (encoding/json into a mirror of the documented wire names) and a set-valued reference tokeniser; the same oracles applied from 2..16 goroutines at once",
            "note": "sampling; legacy round trip only over the stated domain (values free of Unicode whitespace and '@'); encoding/json trusted as the meaning of 'decodes as a JSON attribute object'",
            "technique": "property-based testing (rapid) + native fuzzing; oracle = round-trip + reference decoder (differential)",
        },
        "assumptions": [
            "wire member names (ifVer, username, hostname, sshClientVersion, ...) and legacy token names are the contract with separately shipped clients",
            "extension values are JSON-native (string, float64, bool, null, list, object); NaN/Inf are outside the domain",
        ],
        "subchecks": [
            R("TestC15JSONRoundTrip", 10000, 100000),
            R("TestC15LegacyRoundTrip", 10000, 100000),
            R("TestC15LegacyText", 10000, 100000),
            R("TestC15JSONText", 10000, 100000),
            R("TestC15Concurrent", 60, 600, qs=2),
            F("FuzzC15Unmarshal", "60s"),
        ],
    },
    "C16": {
        "pkg": "c16", "level": "exploration",
        "manifest": {
            "text": "differential against crypto/x509 on certificates produced by a conforming encoder (and their NULL-less rewrites), robustness under structured DER mutations and native fuzzing, PEM bundle construction with a known answer, and a reference rendering for the device serial; value lengths 0..8 enumerated",
            "note": "crypto/x509 is the reference decoder; agreement is demanded only on encoder-produced certificates (the lenient parser may accept more); mutated inputs are judged for crashes and for ModHex consistency only",
            "technique": "property-based testing (rapid) + native fuzzing; oracle = differential vs crypto/x509, constructed bundles, reference ModHex",
        },
        "assumptions": ["x509.CreateCertificate is a conforming encoder", "PEM text between blocks contains no dash sequences"],
        "subchecks": [
            R("TestC16ParseAgree", 1500, 8000),
            R("TestC16Mutations", 15000, 100000),
            E("TestC16Structure"), E("TestC16Sequence"),
            R("TestC16ModHex", 5000, 50000, ts=4),
            E("TestC16ModHexLengths"),
            R("TestC16PEM", 3000, 20000, ts=8),
            F("FuzzC16Parse", "90s"),
            F("FuzzC16PEM", "45s"),
        ],
    },
    "C17": {
        "pkg": "c17", "level": "fault_enumeration",
        "manifest": {
            "text": "real crypki.NewSigner against harness-run gRPC-over-TLS Signing servers on loopback aliases sharing one port; every success / failure vector over lists of length 0..3 is enumerated, longer lists, reply shapes, status codes and request contents are generated; the back-off is checked as a pure function over its whole parameter space with weight on the overflow region; lists in which an address occurs several times, judged from the calls the endpoints recorded (every entry is a try of its own)",
            "note": "retries = 1 so that a case costs milliseconds (the retry interceptor itself is third-party); one failure kind per endpoint; back-off evaluated 3 times per case because its jitter is random",
            "technique": "fault-vector enumeration + property-based testing (rapid); oracle = call records of the fake servers (order, proto.Equal) and a closed-form bound",
        },
        "assumptions": ["loopback aliases 127.0.0.2..5 can be bound on one common port", "status codes stand for the CA's RPC failures"],
        "subchecks": [
            E("TestC17Vectors"),
            E("TestC17Deadline"),
            E("TestC17ManyCalls"),
            R("TestC17Failover", 100, 600, qs=2),
            R("TestC17Repeated", 60, 400, qs=2),
            R("TestC17Backoff", 50000, 1000000),
        ],
    },
    "C18": {
        "pkg": "c18", "level": "exploration",
        "manifest": {
            "text": "real crypki.NewSigner with real TLS files against harness-run TLS servers of every identity / protocol range / client-certificate policy; the grid identity x protocol x client-auth is enumerated for an impostor-then-genuine list, bundles and longer lists are generated; servers record handshake outcome, negotiated version and peer certificates",
            "note": "Go's TLS stack offers TLS 1.0/1.1 as 'older versions' (no SSLv3); the RA's client certificate chains to a client CA the requiring servers trust",
            "technique": "property-based testing (rapid) + grid enumeration against real TLS servers; oracle = genuineness predicate by construction and server-side handshake records",
        },
        "assumptions": ["loopback aliases share one port", "certificates are valid 'now' by >= 24 h margins"],
        "subchecks": [
            E("TestC18Grid"),
            E("TestC18Expiry"),
            E("TestC18Aliases"), E("TestC18Renewed"),
            R("TestC18TLS", 120, 500, qs=2),
        ],
    },
    "C19": {
        "pkg": "c19", "level": "exploration",
        "manifest": {
            "text": "the complete attribute grid named by the quantifier (flags x touch policy x critical option x version) is enumerated and compared with an independently written decision table; random decorations, near-miss KeyIDs and principal lists are generated around it; the shim agent's listing (the property's second observation point) judged by the shim reference model under every listing order",
            "note": "grid exhaustive for the listed touch-policy representatives; strings sampled; type constants compared through the exported names",
            "technique": "property-based testing (rapid) + exhaustive enumeration of the finite core; oracle = reference decision table",
        },
        "assumptions": ["touch-policy values outside {-1,0,1,2,3,4,7} behave like the sampled out-of-range values"],
        "subchecks": [
            E("TestC19Grid"),
            R("TestC19Random", 20000, 200000),
            R("TestC19PrincipalsAllTypes", 5000, 50000, ts=4),
            R("TestC19Listing", 300, 3000, ts=8),
            R("TestC19Concurrent", 60, 600, qs=2),
        ],
    },
    "C20": {
        "pkg": "c20", "level": "exploration", "race": True,
        "manifest": {
            "text": "harness-owned schedules over a real server: the executor advances only on observed states (waiter count of the code's condition variable, response read), so the ordering of registration and requests is controlled, not timed; every message code 0..255 is exercised once with a non-matching and a matching request; binary built with the race detector; registered waiters released by a matching request that arrives in the middle of concurrent traffic with other codes",
            "note": "registration/broadcast atomicity inside sync.Cond is trusted; the waiter count is read with reflect from the unexported table (if its shape changes the check reports nothing); a 15 s watchdog only separates 'released but never returned' (violation) from progress",
            "technique": "schedule-controlled property-based testing (rapid) + enumeration of all codes + race detector; oracle = waiter-set model",
        },
        "assumptions": ["sync.Cond internals (notify list counters) as in go1.23", "each request frame used for a code is answered exactly once (C12)"],
        "subchecks": [
            E("TestC20AllCodes", quick={"shards": 1, "timeout": 300}, thorough={"shards": 1, "timeout": 600}),
            R("TestC20Wait", 200, 2000, qs=2, quick_extra={"timeout": 300}),
            R("TestC20Blackbox", 12, 120, qs=4, ts=8, quick_extra={"timeout": 300}),
            R("TestC20Concurrent", 8, 60, qs=4, ts=8, quick_extra={"timeout": 300}),
            E("TestC20Construct"), E("TestC20UpstreamBroken"), E("TestC20Rewait"), E("TestC20WarmWait"), E("TestC20BusyUpstream", quick={"shards": 1, "timeout": 300}, thorough={"shards": 1, "timeout": 600}),
        ],
    },
}
